"""Decoding of arithmetic events (+ - * / // % by operator, by fxpmath function, by NumPy ufunc) and exact evaluation.

decode_arith(ev, mon) -> ArithInfo or None.  Operand values are taken from the PRE snapshots (what the user held
when calling), the result from the result snapshot.  NumPy object arrays of Fractions are used for broadcasting
bookkeeping only; all arithmetic is on Fractions.
"""
from fractions import Fraction as F

import numpy as np

from . import refmodel as R
from .exact import exact_values, Unsupported

OPERATORS = {
    '__add__': ('add', False), '__radd__': ('add', False), '__iadd__': ('add', False),
    '__sub__': ('sub', False), '__rsub__': ('sub', True), '__isub__': ('sub', False),
    '__mul__': ('mul', False), '__rmul__': ('mul', False), '__imul__': ('mul', False),
    '__truediv__': ('truediv', False), '__rtruediv__': ('truediv', True), '__itruediv__': ('truediv', False),
    '__floordiv__': ('floordiv', False), '__rfloordiv__': ('floordiv', True), '__ifloordiv__': ('floordiv', False),
    '__mod__': ('mod', False), '__rmod__': ('mod', True), '__imod__': ('mod', False),
}
FUNCTIONS = ('add', 'sub', 'mul', 'truediv', 'floordiv', 'mod')
_UFUNC = {np.add: 'add', np.subtract: 'sub', np.multiply: 'mul', np.true_divide: 'truediv', np.divide: 'truediv',
          np.floor_divide: 'floordiv', np.mod: 'mod', np.remainder: 'mod'}


class ArithInfo(object):
    __slots__ = ('op', 'route', 'x', 'y', 'x_const', 'y_const', 'out', 'out_like', 'sizing', 'method', 'res',
                 'self_snap', 'const_policy', 'reflected', 'out_pre', 'out_like_pre')


def _snap_of(ev, obj, which='pre'):
    for o, p, q in zip(ev.operands, ev.pre, ev.post):
        if o is obj:
            return p if which == 'pre' else q
    return None


def decode_arith(ev, mon):
    Fxp = mon.Fxp
    ai = ArithInfo()
    ai.x = ai.y = ai.x_const = ai.y_const = ai.out = ai.out_like = None
    ai.const_policy = None
    ai.reflected = False
    ai.self_snap = None
    if ev.kind == 'method' and ev.op in OPERATORS:
        if len(ev.args) != 1:
            return None
        ai.op, ai.reflected = OPERATORS[ev.op]
        ai.route = 'operator'
        me = _snap_of(ev, ev.receiver)
        if me is None:
            return None
        ai.self_snap = me
        other = ev.args[0]
        cfg = me.cfg
        ai.method = cfg.get('_op_method')
        ai.out = cfg.get('_op_out')
        ai.out_like = cfg.get('_op_out_like')
        if isinstance(other, Fxp):
            osnap = _snap_of(ev, other)
            ai.sizing = cfg.get('_op_sizing')
            if ai.reflected:
                ai.x, ai.y = osnap, me
            else:
                ai.x, ai.y = me, osnap
        else:
            ai.sizing = cfg.get('_const_op_sizing')
            ai.const_policy = cfg.get('_op_input_size')
            if ai.reflected:
                ai.x_const, ai.y = other, me
            else:
                ai.x, ai.y_const = me, other
    elif ev.kind == 'function' and ev.op in FUNCTIONS:
        ai.op = ev.op
        ai.route = 'function'
        names = ('x', 'y', 'out', 'out_like', 'sizing', 'method')
        d = dict(zip(names, ev.args))
        d.update(ev.kwargs)
        if set(d) - set(names):
            return None
        ai.sizing = d.get('sizing', 'optimal')
        ai.method = d.get('method', 'raw')
        ai.out = d.get('out')
        ai.out_like = d.get('out_like')
        for nm in ('x', 'y'):
            v = d.get(nm)
            if isinstance(v, Fxp):
                setattr(ai, nm, _snap_of(ev, v))
            else:
                setattr(ai, nm + '_const', v)
                ai.const_policy = 'best'
    elif ev.kind == 'method' and ev.op == '__array_ufunc__':
        if len(ev.args) < 4 or ev.args[1] != '__call__' or ev.args[0] not in _UFUNC or len(ev.args) != 4:
            return None
        ai.op = _UFUNC[ev.args[0]]
        ai.route = 'numpy'
        d = dict(ev.kwargs)
        ai.out = d.pop('out', None)
        ai.out_like = d.pop('out_like', None)
        ai.sizing = d.pop('sizing', 'optimal')
        ai.method = d.pop('method', 'raw')
        if d:
            return None
        for nm, v in zip(('x', 'y'), ev.args[2:4]):
            if isinstance(v, Fxp):
                setattr(ai, nm, _snap_of(ev, v))
            else:
                setattr(ai, nm + '_const', v)
                ai.const_policy = 'best'
        me = _snap_of(ev, ev.receiver)
        if me is not None and (me.cfg.get('_array_op_out') is not None or me.cfg.get('_array_op_out_like') is not None
                               or me.cfg.get('_array_output_type') != 'fxp'):
            return None
    else:
        return None
    if isinstance(ai.out, (tuple, list)):
        ai.out = ai.out[0] if ai.out else None
    ai.out_pre = _snap_of(ev, ai.out) if ai.out is not None else None
    ai.out_like_pre = _snap_of(ev, ai.out_like) if ai.out_like is not None else None
    ai.res = ev.result_snap
    return ai


def fr_array(s):
    """object ndarray of the exact stored values of a real, unscaled Snap"""
    lsb = R.lsb(s.n_frac)
    a = np.empty(len(s.codes), dtype=object)
    a[:] = [k * lsb for k in s.codes]
    return a.reshape(s.shape)


def fr_const(c):
    vals, shape, is_c = exact_values(c)
    if is_c:
        raise Unsupported('complex constant')
    a = np.empty(len(vals), dtype=object)
    a[:] = vals
    return a.reshape(shape)


def _floor(x):
    return F(x.numerator // x.denominator)


_vfloor = np.frompyfunc(_floor, 1, 1)


def exact_op(op, a, b):
    """elementwise exact result (object arrays / Fractions), with NumPy broadcasting"""
    if op == 'add':
        return a + b
    if op == 'sub':
        return a - b
    if op == 'mul':
        return a * b
    if op == 'truediv':
        return a / b
    if op == 'floordiv':
        q = a / b
        return _vfloor(q) if isinstance(q, np.ndarray) else _floor(q)
    if op == 'mod':
        q = a / b
        fl = _vfloor(q) if isinstance(q, np.ndarray) else _floor(q)
        return a - b * fl
    raise ValueError(op)


def beyond_double(ai, exf, *operand_arrays):
    """the value-based ('repr') calculation method works on doubles: when an operand value or the exact result is not a double, the
    result of that method is the rounded double by definition (the properties claim exactness / agreement with the integer method for
    short words only); the oracles skip such events instead of demanding more than a double can hold"""
    if ai.method == 'raw':
        return False

    def not_double(e):
        try:
            return F(float(e)) != e
        except OverflowError:
            return True
    if any(not_double(e) for e in exf):
        return True
    for a in operand_arrays:
        vals = a.ravel().tolist() if isinstance(a, np.ndarray) else [a]
        if any(not_double(F(v)) for v in vals):
            return True
    return False


def flat(a):
    if isinstance(a, np.ndarray):
        return a.ravel().tolist(), tuple(a.shape)
    return [a], ()


def usable(s):
    """real, unscaled operand"""
    return s is not None and not s.is_complex and s.imag is None and not s.scaled and s.scale == 1 and s.bias == 0


def optimal_format(op, fx, fy):
    return {'add': R.fmt_add, 'sub': R.fmt_add, 'mul': R.fmt_mul, 'truediv': R.fmt_truediv, 'floordiv': R.fmt_floordiv,
            'mod': R.fmt_mod}[op](fx, fy)


def resolve_target(ai):
    """imposed target of an arithmetic event with two Fxp operands -> (format, rounding, overflow, way) or None.
    Governing configuration: first operand's, or out / out_like when given."""
    if ai.x is None or ai.y is None:
        return None
    fx, fy = ai.x.fmt(), ai.y.fmt()
    if ai.out is not None:
        t = ai.out_pre
        if t is None or not usable(t):
            return None
        return t.fmt(), t.rounding, t.overflow, 'out'
    if ai.out_like is not None:
        t = ai.out_like_pre
        if t is None or not usable(t):
            return None
        return t.fmt(), t.rounding, t.overflow, 'out_like'
    if ai.sizing == 'optimal':
        return optimal_format(ai.op, fx, fy), ai.x.rounding, ai.x.overflow, 'optimal'
    if ai.sizing in ('same', 'largest', 'smallest'):
        return R.fmt_policy(ai.sizing, fx, fy), ai.x.rounding, ai.x.overflow, ai.sizing
    return None
