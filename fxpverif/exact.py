"""Exact value of an input carrier: the "real value v" that the properties talk about.

exact_values(carrier) -> (flat list of Fractions (or (re, im) pairs), shape, is_complex)
raises Unsupported(reason) for carriers outside what the oracles cover (the event is then counted as skipped).
"""
from fractions import Fraction as F
import math

import numpy as np


class Unsupported(Exception):
    pass


def _scalar(v):
    """-> Fraction or (Fraction, Fraction)"""
    if isinstance(v, (bool, np.bool_)):
        raise Unsupported('bool carrier')
    if isinstance(v, int):
        return F(v)
    if isinstance(v, np.integer):
        return F(int(v))
    if isinstance(v, float):
        if not math.isfinite(v):
            raise Unsupported('non-finite input')
        return F(v)
    if isinstance(v, np.floating):
        if not np.isfinite(v):
            raise Unsupported('non-finite input')
        n, d = v.as_integer_ratio()
        return F(int(n), int(d))      # (also extended precision: the exact value of the carrier is what counts)
    if isinstance(v, (complex, np.complexfloating)):
        re, im = float(v.real), float(v.imag)
        if not (math.isfinite(re) and math.isfinite(im)):
            raise Unsupported('non-finite input')
        if isinstance(v, np.complexfloating):
            return (_scalar(v.real), _scalar(v.imag))
        return (F(re), F(im))
    if isinstance(v, str):
        return _decimal_string(v)
    raise Unsupported('carrier element of type %s' % type(v).__name__)


def _decimal_string(s):
    t = s.strip()
    low = t.lower()
    if any(c in low for c in 'bxhj') or low.startswith(('0b', '0x')):
        raise Unsupported('non-decimal string')
    try:
        fr = F(t)
    except (ValueError, ZeroDivisionError):
        raise Unsupported('unparsable string')
    # the library parses with int()/float(): the property only covers strings whose decimal value is the parsed number
    try:
        if '.' in t or 'e' in low:
            if F(float(t)) != fr:
                raise Unsupported('decimal string that is not exactly a double')
        else:
            int(t)
    except ValueError:
        raise Unsupported('unparsable string')
    return fr


def exact_values(c):
    if c is None:
        raise Unsupported('None')
    if type(c).__name__ == 'Fxp':
        raise Unsupported('Fxp source')
    if isinstance(c, np.ndarray):
        shape = tuple(c.shape)
        if c.dtype == object or c.dtype.kind in 'US':
            flat = [_scalar(v) for v in c.ravel().tolist()]
        elif c.dtype.kind in 'iu':
            flat = [F(int(v)) for v in c.ravel().tolist()]
        elif c.dtype.kind == 'f':
            if c.dtype.itemsize > 8:
                flat = [_scalar(v) for v in c.ravel()]
            else:
                if not np.all(np.isfinite(c)):
                    raise Unsupported('non-finite input')
                flat = [F(v) for v in c.astype(np.float64).ravel().tolist()]
        elif c.dtype.kind == 'c':
            if not np.all(np.isfinite(c)):
                raise Unsupported('non-finite input')
            c2 = c.astype(np.complex128).ravel().tolist()
            flat = [(F(v.real), F(v.imag)) for v in c2]
        else:
            raise Unsupported('ndarray of kind %s' % c.dtype.kind)
    elif isinstance(c, (list, tuple)):
        shape = _shape_of(c)
        flat = [_scalar(v) for v in _flatten(c)]
    else:
        shape = ()
        flat = [_scalar(c)]
    is_complex = any(isinstance(v, tuple) for v in flat)
    if is_complex:
        flat = [v if isinstance(v, tuple) else (v, F(0)) for v in flat]
    return flat, shape, is_complex


def _shape_of(c):
    if isinstance(c, (list, tuple)):
        if len(c) == 0:
            raise Unsupported('empty container')
        subs = [_shape_of(x) for x in c]
        if any(s != subs[0] for s in subs):
            raise Unsupported('ragged container')
        return (len(c),) + subs[0]
    if isinstance(c, np.ndarray):
        return tuple(c.shape)
    return ()


def _flatten(c):
    if isinstance(c, (list, tuple)):
        for x in c:
            for y in _flatten(x):
                yield y
    elif isinstance(c, np.ndarray):
        for y in c.ravel().tolist() if c.dtype.itemsize <= 8 or c.dtype == object else list(c.ravel()):
            yield y
    else:
        yield c


def frac_of_float(x):
    return F(float(x))


def values_of_snap(s):
    """exact stored values (code * 2^-n_frac) of a real, unscaled Snap"""
    lsb = F(2) ** (-s.n_frac)
    return [k * lsb for k in s.codes]
