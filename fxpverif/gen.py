"""Seeded generators: formats, modes, hostile value classes, carriers, routes.

Cases are JSON-able dicts; Fractions are encoded as "n/d" strings so that a replay
re-creates exactly the same inputs.
"""
from fractions import Fraction as F
import itertools

import numpy as np

from . import refmodel as R

ROUNDINGS = ['trunc', 'fix', 'floor', 'ceil', 'around']
OVERFLOWS = ['saturate', 'wrap']
MODES = [(r, o) for r in ROUNDINGS for o in OVERFLOWS]


def enc(fr):
    fr = F(fr)
    return '%d/%d' % (fr.numerator, fr.denominator)


def dec(s):
    if isinstance(s, (list, tuple)):
        return tuple(dec(x) for x in s)
    return F(s)


def word_class(n):
    if n <= 1:
        return '1'
    if n <= 8:
        return '2-8'
    if n <= 31:
        return '9-31'
    if n <= 33:
        return '32-33'
    if n <= 52:
        return '34-52'
    if n <= 63:
        return '53-63'
    if n == 64:
        return '64'
    if n <= 128:
        return '65-128'
    return '>128'


def frac_class(n_word, n_frac):
    if n_frac < 0:
        return '<0'
    if n_frac == 0:
        return '0'
    if n_frac < n_word:
        return 'in'
    if n_frac == n_word:
        return '=w'
    return '>w'


def core_format(rng, max_word=52):
    """random core-domain format, classes weighted so that each is seen often."""
    signed = rng.random() < 0.5
    cls = rng.choice(['1', '2-8', '2-8', '9-31', '9-31', '32-33', '34-52'])
    lo, hi = {'1': (1, 1), '2-8': (2, 8), '9-31': (9, 31), '32-33': (32, 33), '34-52': (34, 52)}[cls]
    n_word = min(rng.randint(lo, hi), max_word)
    fc = rng.choice(['<0', '0', 'in', 'in', 'in', '=w', '>w'])
    if fc == '<0':
        n_frac = -rng.randint(1, 8)
    elif fc == '0':
        n_frac = 0
    elif fc == 'in':
        n_frac = rng.randint(1, n_word - 1) if n_word > 1 else 0
    elif fc == '=w':
        n_frac = n_word
    else:
        n_frac = n_word + rng.randint(1, 8)
    return signed, n_word, n_frac


def conventional_format(rng, min_word=2, max_word=12):
    """0 <= n_frac <= n_word - sign (non-negative integer length)"""
    signed = rng.random() < 0.5
    n_word = rng.randint(min_word, max_word)
    n_frac = rng.randint(0, n_word - (1 if signed else 0))
    return signed, n_word, n_frac


def hostile_scaled_values(rng, signed, n_word, n_frac, n=6, ranges_outside=3, in_domain=True):
    """values (Fractions) given as scaled quantities x = v*2^n_frac around interesting places:
    codes, code +/- 1/4, 1/2, 3/4, ties on even and odd codes, both bounds +/- up to 2 LSB, up to `ranges_outside`
    ranges outside on each side, multiples of the modulus, zero."""
    lo, hi = R.code_range(signed, n_word)
    m = 1 << n_word
    out = []
    for _ in range(n):
        c = rng.choice(['code', 'code', 'quarter', 'quarter', 'tie', 'tie', 'bound', 'bound', 'outside', 'outside', 'modulus', 'zero', 'fine', 'ulp', 'ulp', 'wide53'])
        if c == 'wide53' and n_frac >= 2:
            # a scaled value of 53 significant bits between 2^53 and 2^62, just below / above a power of two: far outside short words, so that
            # saturation / wrap have to reduce a double whose neighbours are 2 .. 512 apart (float arithmetic on it loses the low bits)
            e = rng.randint(54, min(61, 52 + n_frac))
            j = rng.randint(1, 8)
            x = F(rng.choice([1, -1]) * (((1 << e) - j * (1 << (e - 53))) if rng.random() < 0.6 else ((1 << e) + j * (1 << (e - 52)))))
        elif c == 'ulp' or c == 'wide53':
            # a double a few ulps away from a representable value (or from a tie): direction contracts are decided here
            k = rng.choice([lo, hi, 0, rng.randint(lo, hi), rng.randint(lo, hi)])
            base = F(k) + rng.choice([0, 0, 0, F(1, 2)])
            try:
                b = float(base / (F(2) ** n_frac))
                for _ in range(rng.choice([1, 1, 2, 5])):
                    b = float(np.nextafter(b, rng.choice([-np.inf, np.inf])))
                x = F(b) * (F(2) ** n_frac)
            except (OverflowError, ValueError):
                x = base
        elif c == 'code':
            x = F(rng.randint(lo, hi))
        elif c == 'quarter':
            x = F(rng.randint(lo, hi)) + F(rng.choice([1, 2, 3, -1, -2, -3]), 4)
        elif c == 'tie':
            x = F(rng.randint(lo, hi)) + F(1, 2)
        elif c == 'bound':
            x = F(rng.choice([lo, hi])) + F(rng.randint(-8, 8), 4)
        elif c == 'outside':
            x = F(rng.choice([lo, hi])) + rng.choice([-1, 1]) * F(rng.randint(1, ranges_outside * m * 4), 4)
        elif c == 'modulus':
            x = F(rng.randint(-ranges_outside, ranges_outside) * m) + F(rng.randint(-6, 6), 4)
        elif c == 'zero':
            x = F(rng.choice([0, 0, 1, -1, 2, -2]), 4)
        else:
            x = F(rng.randint(lo * 4, hi * 4 + 3), 4) + F(rng.randint(1, 255), 1024)
        out.append(x)
    vals = []
    for x in out:
        v = x / (F(2) ** n_frac)
        if in_domain:
            if abs(x) >= 2 ** 62 or abs(v) >= 2 ** 53:
                continue
        vals.append(v)
    if not vals:
        vals = [F(0)]
    return vals


# ------------------------------------------------------------------------------ carriers
FLOAT_KINDS = ['pyfloat', 'np:float64', 'np:float32', 'np:float16', 'np:longdouble']
INT_KINDS = ['pyint', 'np:int8', 'np:int16', 'np:int32', 'np:int64', 'np:uint8', 'np:uint16', 'np:uint32', 'np:uint64']
OTHER_KINDS = ['str']
ALL_KINDS = FLOAT_KINDS + INT_KINDS + OTHER_KINDS
CONTAINERS = ['scalar', '0d', '1d', '2d', 'list', 'nested', 'tuple', 'nested_tuple']


def carrier_family(kind):
    if kind in ('pyfloat', 'pyint', 'str', 'pycomplex'):
        return kind
    if kind.startswith('np:float') or kind == 'np:longdouble':
        return 'npfloat'
    if kind.startswith('np:int'):
        return 'npint'
    if kind.startswith('np:uint'):
        return 'npuint'
    if kind.startswith('np:complex'):
        return 'npcomplex'
    return kind


def can_carry(v, kind):
    """does a carrier element of this kind represent the Fraction v exactly?"""
    v = F(v)
    if kind == 'pyint':
        return v.denominator == 1
    if kind.startswith('np:int') or kind.startswith('np:uint'):
        if v.denominator != 1:
            return False
        info = np.iinfo(np.dtype(kind[3:]))
        return info.min <= v.numerator <= info.max
    if kind in ('pyfloat', 'np:float64', 'np:longdouble'):
        try:
            return F(float(v)) == v
        except OverflowError:
            return False
    if kind in ('np:float32', 'np:float16'):
        try:
            f = float(v)
        except OverflowError:
            return False
        if F(f) != v:
            return False
        with np.errstate(over='ignore'):
            g = np.dtype(kind[3:]).type(f)
        return bool(np.isfinite(g)) and float(g) == f
    if kind == 'str':
        d = v.denominator
        if d & (d - 1):
            return False
        if d == 1:
            return True
        try:
            return F(float(v)) == v          # the library parses fractional strings with float()
        except OverflowError:
            return False
    return False


def decimal_string(v):
    v = F(v)
    if v.denominator == 1:
        return str(v.numerator)
    k = v.denominator.bit_length() - 1
    num = abs(v.numerator) * 5 ** k
    s = str(num).rjust(k + 1, '0')
    return ('-' if v < 0 else '') + s[:-k] + '.' + s[-k:]


def element(v, kind):
    v = F(v)
    if kind == 'pyint':
        return int(v)
    if kind == 'pyfloat':
        return float(v)
    if kind == 'str':
        return decimal_string(v)
    if kind.startswith('np:'):
        dt = np.dtype(kind[3:])
        if dt.kind in 'iu':
            return dt.type(int(v))
        return dt.type(float(v))
    raise ValueError(kind)


def np_dtype_of(kind):
    if kind == 'pyint':
        return None
    if kind == 'pyfloat':
        return np.float64
    if kind == 'str':
        return None
    return np.dtype(kind[3:])


def build_carrier(values, kind, container):
    """values: list of Fractions (len >= 1; even length for 2d/nested)."""
    els = [element(v, kind) for v in values]
    if container == 'scalar':
        return els[0]
    dt = np_dtype_of(kind)
    if container == '0d':
        return np.array(els[0], dtype=dt) if dt is not None else np.array(els[0])
    if container == '1d':
        return np.array(els, dtype=dt) if dt is not None else np.array(els)
    if container == '2d':
        a = np.array(els, dtype=dt) if dt is not None else np.array(els)
        return a.reshape(2, len(els) // 2)
    plain = [e.item() if (isinstance(e, np.generic) and kind in ('np:float64', 'np:int64')) else e for e in els]
    if container == 'list':
        return list(plain)
    if container == 'tuple':
        return tuple(plain)
    h = len(plain) // 2
    if container == 'nested':
        return [list(plain[:h]), list(plain[h:2 * h])]
    if container == 'nested_tuple':
        return (tuple(plain[:h]), tuple(plain[h:2 * h]))
    raise ValueError(container)


def noncontig(arr, rng, how=None):
    """an ndarray with the same shape, dtype and (logical) content as `arr` but another memory layout: Fortran order, a view with a
    negative stride, or a strided view into a larger buffer.  A library that walks memory order instead of logical order shows here."""
    arr = np.asarray(arr)
    if arr.ndim == 0 or arr.size < 2:
        return arr
    how = how or rng.choice(['F', 'neg', 'strided'] if arr.ndim >= 2 else ['neg', 'strided'])
    if how == 'F' and arr.ndim >= 2:
        out = np.asfortranarray(arr)
    elif how == 'neg':
        out = arr[::-1].copy()[::-1]
    else:
        big = np.repeat(arr, 2, axis=arr.ndim - 1)
        out = big[..., ::2]
    assert out.shape == arr.shape and out.dtype == arr.dtype
    return out


def container_shape(container, n):
    if container in ('scalar', '0d'):
        return ()
    if container in ('1d', 'list', 'tuple'):
        return (n,)
    return (2, n // 2)


def quarter_grid(signed, n_word, ranges=3):
    """all scaled inputs k/4 over `ranges` times the representable range (centred on it)."""
    lo, hi = R.code_range(signed, n_word)
    m = 1 << n_word
    extra = ((ranges - 1) * m) // 2
    a = (lo - extra) * 4 - 3
    b = (hi + extra) * 4 + 3
    return a, b     # numerators over 4, inclusive


# ------------------------------------------------------------------------------ operands with a history
HISTORIES = ['deepcopy', 'copy', 'fxp_of', 'fxp_like', 'element', 'resize_roundtrip', 'resign_roundtrip', 'raw_set', 'equal', 'from_bin',
             'from_values', 'like_template', 'double_transpose', 'reset_after_flags', 'noncontig_raw', 'reversed_view', 'transposed_once']


def historied(Fxp, x, rng, how=None):
    """an object with the same format, codes and configuration as the real, unscaled `x`, but obtained through another public
    route (copy, indexing, conversion round trip, raw write, strings, ...).  The properties quantify over values and formats,
    not over how an operand came to be: every oracle must give the same verdict for it.  Returns (object, route name);
    falls back to x itself when the route does not apply."""
    how = how or rng.choice(HISTORIES)
    s, w, nf = x.signed, x.n_word, x.n_frac
    shape = np.shape(x.val)
    try:
        codes = np.asarray(x.val)
        if how == 'deepcopy':
            y = x.deepcopy()
        elif how == 'copy':
            y = x.copy()
        elif how == 'fxp_of':
            y = Fxp(x)
        elif how == 'fxp_like':
            y = Fxp(x, like=x)
        elif how == 'element':
            if shape == ():
                big = Fxp(np.array([0, int(codes), 1 if w > 1 or not s else 0], dtype=object if w >= 63 else None), s, w, nf, raw=True)
                y = big[1]
            else:
                big = Fxp(np.stack([np.zeros_like(codes), codes]), s, w, nf, raw=True)
                y = big[1]
        elif how == 'resize_roundtrip':
            y = x.deepcopy()
            y.resize(s, w + 3, nf + 1)
            y.resize(s, w, nf)
        elif how == 'resign_roundtrip':
            if np.any(codes < 0) or w >= 63:
                return x, 'none'
            y = x.deepcopy()
            y.resize(signed=not s, n_word=w + 1)
            y.resize(signed=s, n_word=w)
        elif how == 'raw_set':
            y = Fxp(None, s, w, nf)
            y.set_val(codes.copy(), raw=True)
        elif how == 'equal':
            y = Fxp(np.zeros(shape) if shape else None, s, w, nf)
            y.equal(x)
        elif how == 'from_bin':
            if w < 2 or nf < 0 or nf > w:
                return x, 'none'
            r = x.bin()
            r = r if isinstance(r, str) else np.array(r).tolist()
            y = Fxp(None, s, w, nf)
            y.from_bin(r, raw=True)
        elif how == 'from_values':
            if w > 52 or not (-8 <= nf <= w + 8):
                return x, 'none'
            y = Fxp(np.asarray(x.astype(float)), s, w, nf)
        elif how == 'like_template':
            y = x.like(Fxp(None, s, w, nf))
        elif how == 'double_transpose':
            if len(shape) < 2:
                return x, 'none'
            y = np.transpose(np.transpose(x))
        elif how == 'noncontig_raw':
            # the same codes held in a buffer that is not C-contiguous (Fortran order / negative stride / strided view)
            if len(shape) == 0 or codes.size < 2:
                return x, 'none'
            y = Fxp(None, s, w, nf)
            y.set_val(noncontig(codes, rng), raw=True)
        elif how == 'reversed_view':
            if len(shape) == 0 or codes.size < 2:
                return x, 'none'
            y = Fxp(codes[::-1].copy(), s, w, nf, raw=True)[::-1]
        elif how == 'transposed_once':
            if len(shape) != 2:
                return x, 'none'
            y = Fxp(codes.T.copy(), s, w, nf, raw=True).T
        elif how == 'reset_after_flags':
            y = x.deepcopy()
            y(float(y.upper) * 2 + 1 if w <= 52 else 0)
            y.set_val(codes.copy(), raw=True)
            y.reset()
        else:
            return x, 'none'
        if not isinstance(y, Fxp) or (y.signed, y.n_word, y.n_frac) != (s, w, nf):
            return x, 'none'
        if np.shape(y.val) != shape or not np.array_equal(np.asarray(y.val, dtype=object), np.asarray(x.val, dtype=object)):
            return x, 'none'        # the route itself went wrong: that is for C10/C11/... to report, not for this operand
        # same configuration as x (a copy, never the same object)
        y.config = x.config.deepcopy()
        return y, how
    except Exception:
        return x, 'none'
