"""Boundary monitor for fxpmath.

Wraps every public callable / dunder of ``Fxp`` and the public functions of
``fxpmath.functions`` on the *live* classes of the tree under test, keeps a
call depth, and for every OUTERMOST call (the only place where a user can
observe state) builds one Event: operand snapshots before, the same operands
after, result, exception, argument containers before/after, callbacks that
fired.  Subscribed judges (the property oracles) are run synchronously on that
event.  Nothing inside the implementation is judged (transient states).
"""
import collections
import copy
import functools
import sys
import types

import numpy as np

_FLAGS = ('overflow', 'underflow', 'inaccuracy')


class Snap(object):
    """Immutable picture of one Fxp object at a quiescent point."""
    __slots__ = ('oid', 'signed', 'n_word', 'n_frac', 'n_int', 'shape', 'codes', 'imag', 'ints_ok', 'bad_type',
                 'is_complex', 'cx_obj', 'status', 'rounding', 'overflow', 'shifting', 'scale', 'bias', 'scaled',
                 'upper', 'lower', 'precision', 'dtype', 'vdtype', 'id_config', 'id_status', 'id_val',
                 'val_ref', 'cfg', 'n_callbacks', 'val_container')

    def fmt(self):
        return (self.signed, self.n_word, self.n_frac)

    def key(self):
        """everything a user can observe and that a non-writing operation must leave alone."""
        return (self.signed, self.n_word, self.n_frac, self.n_int, self.shape, tuple(self.codes),
                tuple(self.imag) if self.imag is not None else None,
                tuple(sorted(self.status.items())), tuple(sorted((k, repr(v)) for k, v in self.cfg.items())),
                repr(self.scale), repr(self.bias), repr(self.upper), repr(self.lower), repr(self.precision))

    def describe(self):
        c = self.codes if len(self.codes) <= 8 else self.codes[:8] + ['...(%d)' % len(self.codes)]
        return {'fmt': 'fxp-%s%s/%s%s' % ('s' if self.signed else 'u', self.n_word, self.n_frac,
                                          '-complex' if self.is_complex else ''),
                'shape': list(self.shape), 'codes': [str(k) for k in c],
                'status': {k: bool(v) for k, v in self.status.items()},
                'rounding': self.rounding, 'overflow': self.overflow, 'dtype': self.dtype}


def _to_int_list(arr):
    """flat list of python ints from a code array; (list, all_integer_typed, first_bad_type)"""
    flat = np.asarray(arr, dtype=object).ravel().tolist()
    ok = True
    bad = None
    out = []
    for k in flat:
        if isinstance(k, np.ndarray) and k.size == 1:
            k = k.item()        # an object array may hold a 0-d array around the code (container is unspecified)
        if type(k) is int:
            out.append(k)
        elif isinstance(k, (bool, np.bool_)):
            ok = False
            bad = bad or type(k).__name__
            out.append(int(k))
        elif isinstance(k, (int, np.integer)):
            out.append(int(k))
        elif isinstance(k, (float, np.floating)):
            ok = False
            bad = bad or type(k).__name__
            try:
                out.append(int(k) if k == int(k) else k)
            except (OverflowError, ValueError):
                out.append(k)
        else:
            ok = False
            bad = bad or type(k).__name__
            out.append(k)
    return out, ok, bad


def snap(x):
    """Snap of an initialised Fxp, else None."""
    val = getattr(x, 'val', None)
    if val is None or getattr(x, 'n_word', None) is None or getattr(x, 'n_frac', None) is None \
            or getattr(x, 'config', None) is None or getattr(x, 'status', None) is None:
        return None
    s = Snap()
    s.oid = id(x)
    s.signed = bool(x.signed)
    s.n_word = x.n_word
    s.n_frac = x.n_frac
    s.n_int = x.n_int
    arr = np.asarray(val)
    s.shape = tuple(arr.shape)
    s.val_container = type(val).__name__
    obj_complex = arr.dtype == object and any(isinstance(k, (complex, np.complexfloating)) for k in arr.ravel().tolist())
    s.is_complex = bool(np.iscomplexobj(arr)) or x.vdtype == complex or obj_complex \
        or isinstance(getattr(x, 'upper', None), complex) or str(getattr(x, 'dtype', '')).endswith('-complex')
    # complex as the object itself is (value array / value type), without looking at its dtype string
    vd = x.vdtype
    s.cx_obj = bool(np.iscomplexobj(arr)) or obj_complex or vd == complex or (isinstance(vd, type) and issubclass(vd, np.complexfloating))
    if np.iscomplexobj(arr) or obj_complex:
        if obj_complex:
            flat = arr.ravel().tolist()
            re_ = np.array([complex(k).real for k in flat], dtype=object).reshape(arr.shape)
            im_ = np.array([complex(k).imag for k in flat], dtype=object).reshape(arr.shape)
        else:
            re_, im_ = arr.real, arr.imag
        s.codes, ok1, b1 = _to_int_list(re_)
        s.imag, ok2, b2 = _to_int_list(im_)
        # complex codes are kept as (complex) floats by the library; type purity is only meaningful for real objects
        s.ints_ok, s.bad_type = True, None
    else:
        s.codes, s.ints_ok, s.bad_type = _to_int_list(arr)
        s.imag = None
    s.status = dict(x.status)
    cfg = x.config
    s.rounding = cfg.rounding
    s.overflow = cfg.overflow
    s.shifting = cfg.shifting
    s.cfg = dict(cfg.__dict__)
    s.scale = x.scale
    s.bias = x.bias
    s.scaled = x.scaled
    s.upper = x.upper
    s.lower = x.lower
    s.precision = x.precision
    s.dtype = x.dtype
    s.vdtype = x.vdtype
    s.id_config = id(cfg)
    s.id_status = id(x.status)
    s.id_val = id(val)
    s.val_ref = val if isinstance(val, np.ndarray) else None
    s.n_callbacks = len(x.callbacks) if x.callbacks else 0
    return s


class Event(object):
    __slots__ = ('seq', 'op', 'kind', 'receiver', 'args', 'kwargs', 'operands', 'pre', 'post', 'result',
                 'result_snap', 'exc', 'containers', 'callbacks', 'case', 'recv_was_init')

    def fxp_operands(self):
        return self.operands

    def describe(self):
        d = {'seq': self.seq, 'op': self.op, 'kind': self.kind}
        d['args'] = [_brief(a) for a in self.args]
        d['kwargs'] = {k: _brief(v) for k, v in self.kwargs.items()}
        d['pre'] = [p.describe() if p is not None else None for p in self.pre]
        d['post'] = [p.describe() if p is not None else None for p in self.post]
        if self.exc is not None:
            d['exception'] = '%s: %s' % (type(self.exc).__name__, str(self.exc)[:200])
        elif self.result_snap is not None:
            d['result'] = self.result_snap.describe()
        else:
            d['result'] = _brief(self.result)
        return d


def _brief(a, lim=160):
    try:
        if isinstance(a, float):
            return {'float': a.hex()}
        if isinstance(a, int) and not isinstance(a, bool):
            return {'int': str(a)}
        if type(a).__name__ == 'Fxp':
            s = snap(a)
            return {'Fxp': s.describe() if s is not None else 'uninitialised'}
        r = '%s:%r' % (type(a).__name__, a)
    except Exception as e:  # pragma: no cover
        r = '<unrepresentable %s>' % type(a).__name__
    return r if len(r) <= lim else r[:lim] + '...'


def _contains_object(c, depth=0):
    for x in c:
        if isinstance(x, (list, tuple)):
            if depth < 4 and _contains_object(x, depth + 1):
                return True
        elif not isinstance(x, (int, float, complex, str, np.generic, np.ndarray, type(None))):
            return True
    return False


class CallbackRecorder(object):
    """A user-style callback object (the library calls whichever on_* methods exist)."""

    def __init__(self, log):
        self._log = log

    def on_value_change(self, x):
        self._log.append(('value_change', id(x)))

    def on_status_overflow(self, x):
        self._log.append(('overflow', id(x)))

    def on_status_underflow(self, x):
        self._log.append(('underflow', id(x)))

    def on_status_inaccuracy(self, x):
        self._log.append(('inaccuracy', id(x)))

    def __deepcopy__(self, memo):
        # objects derived by deepcopy/like= keep notifying the same recorder (a user's callback would too)
        return self


# operations that are documented to write their receiver
RECEIVER_WRITERS = frozenset(['__init__', 'set_val', '__call__', '__setitem__', 'resize', 'equal', 'reset',
                              'from_bin', 'sort', 'reshape', 'set_best_sizes', '_init_size'])
# results that are documented / by-design views or shallow copies (DESIGN 3.7)
SHARING_ALLOWED = frozenset(['__getitem__', 'copy', 'reshape', '__array_wrap__',
                             '__deepcopy__', '__copy__', '__reduce_ex__', '__reduce__'])
_SKIP_NAMES = frozenset(['__repr__', '__str__', '__array_finalize__', '__dict__', '__class__', '__weakref__',
                         '__module__', '__doc__', '__qualname__', '__len__', '__array__', '__array_prepare__',
                         'info', 'get_status'])


class Monitor(object):
    def __init__(self):
        self.depth = 0
        self.seq = 0
        self.judges = []            # callables(event)
        self.counters = collections.Counter()
        self.cb_log = []
        self.recorder = CallbackRecorder(self.cb_log)
        self.current_case = None
        self.installed = False
        self._orig = []             # (owner, name, original)
        self.fxpmath = None
        self.Fxp = None
        self.enabled = True
        self.judge_errors = []

    # ------------------------------------------------------------------ install
    def install(self, fxpmath_module=None):
        if self.installed:
            return self
        if fxpmath_module is None:
            import fxpmath as fxpmath_module
        self.fxpmath = fxpmath_module
        from fxpmath import objects, functions
        self.objects = objects
        self.functions = functions
        self.Fxp = Fxp = objects.Fxp
        for name, f in list(Fxp.__dict__.items()):
            if not isinstance(f, types.FunctionType):
                continue
            if name in _SKIP_NAMES:
                continue
            if name.startswith('_') and not (name.startswith('__') and name.endswith('__')):
                continue
            self._patch(Fxp, name, self._wrap_method(name, f))
        # public functions, in both namespaces they are bound in, and in the numpy dispatch table
        table = objects._NUMPY_HANDLED_FUNCTIONS
        for name, f in list(functions.__dict__.items()):
            if not isinstance(f, types.FunctionType) or name.startswith('_') or f.__module__ != functions.__name__:
                continue
            w = self._wrap_function(name, f)
            self._patch(functions, name, w)
            if getattr(fxpmath_module, name, None) is f:
                self._patch(fxpmath_module, name, w)
            for k, v in list(table.items()):
                if v is f:
                    table[k] = w
                    self._orig.append((table, k, f, 'item'))
        self.installed = True
        return self

    def _patch(self, owner, name, new):
        self._orig.append((owner, name, owner.__dict__[name], 'attr'))
        setattr(owner, name, new)

    def uninstall(self):
        for rec in reversed(self._orig):
            owner, name, orig, how = rec
            if how == 'attr':
                setattr(owner, name, orig)
            else:
                owner[name] = orig
        self._orig = []
        self.installed = False

    def subscribe(self, judge):
        self.judges.append(judge)

    # ------------------------------------------------------------------ wrappers
    def _collect_operands(self, receiver, args, kwargs):
        Fxp = self.Fxp
        ops = []
        seen = set()

        def add(o):
            if isinstance(o, Fxp) and id(o) not in seen:
                seen.add(id(o))
                ops.append(o)

        if receiver is not None:
            add(receiver)
        for a in args:
            add(a)
            if isinstance(a, (tuple, list)) and len(a) <= 4:
                for b in a:
                    add(b)
        for a in kwargs.values():
            add(a)
            if isinstance(a, (tuple, list)) and len(a) <= 4:
                for b in a:
                    add(b)
        # configured output targets are operands too
        for o in list(ops):
            cfg = getattr(o, 'config', None)
            if cfg is not None:
                for nm in ('_op_out', '_op_out_like', '_array_op_out', '_array_op_out_like'):
                    add(cfg.__dict__.get(nm))
        return ops

    @staticmethod
    def _copy_containers(args, kwargs):
        out = []
        items = list(enumerate(args)) + list(kwargs.items())
        for k, a in items:
            if isinstance(a, (list, tuple)):
                if _contains_object(a):
                    continue            # e.g. out=(t,): a tuple of Fxp objects is not an input container of numbers
                try:
                    out.append((k, a, copy.deepcopy(a)))
                except Exception:
                    pass
            elif isinstance(a, np.ndarray):
                out.append((k, a, a.copy()))
        return out

    def _run(self, name, kind, f, receiver, args, kwargs):
        if not self.enabled or self.depth > 0:
            self.depth += 1
            try:
                if receiver is not None:
                    return f(receiver, *args, **kwargs)
                return f(*args, **kwargs)
            finally:
                self.depth -= 1
        # ---- outermost call
        ev = Event()
        self.seq += 1
        ev.seq = self.seq
        ev.op = name
        ev.kind = kind
        ev.receiver = receiver
        ev.args = args
        ev.kwargs = kwargs
        ev.case = self.current_case
        ev.operands = self._collect_operands(receiver, args, kwargs)
        ev.recv_was_init = False
        if name == '__init__':
            ev.pre = [None if o is receiver else snap(o) for o in ev.operands]
        else:
            ev.pre = [snap(o) for o in ev.operands]
            ev.recv_was_init = True
        ev.containers = self._copy_containers(args, kwargs)
        cb0 = len(self.cb_log)
        ev.exc = None
        ev.result = None
        self.depth = 1
        try:
            if receiver is not None:
                ev.result = f(receiver, *args, **kwargs)
            else:
                ev.result = f(*args, **kwargs)
        except Exception as e:
            ev.exc = e
            raise
        finally:
            self.depth = 0
            self.enabled = False          # snapshots and judges must not generate events
            try:
                ev.callbacks = self.cb_log[cb0:]
                del self.cb_log[:]
                try:
                    ev.post = [snap(o) for o in ev.operands]
                except Exception as e:      # a half-built object after an exception
                    ev.post = [None for o in ev.operands]
                ev.result_snap = None
                if ev.exc is None and isinstance(ev.result, self.Fxp):
                    for o, p in zip(ev.operands, ev.post):
                        if o is ev.result:
                            ev.result_snap = p
                            break
                    else:
                        ev.result_snap = snap(ev.result)
                self.counters[name] += 1
                for j in self.judges:
                    try:
                        j(ev)
                    except Exception as e:   # a crashing oracle is a harness bug: surfaced as inconclusive
                        import traceback
                        self.judge_errors.append((getattr(j, '__name__', repr(j)), name,
                                                  traceback.format_exc(limit=6)))
            finally:
                self.enabled = True
        return ev.result

    def _wrap_method(self, name, f):
        mon = self

        @functools.wraps(f)
        def w(self, *args, **kwargs):
            return mon._run(name, 'method', f, self, args, kwargs)
        w.__fxpverif_wrapped__ = f
        return w

    def _wrap_function(self, name, f):
        mon = self

        @functools.wraps(f)
        def w(*args, **kwargs):
            return mon._run(name, 'function', f, None, args, kwargs)
        w.__fxpverif_wrapped__ = f
        return w


# ---------------------------------------------------------------------- anchor reach taps (sys.monitoring)
class AnchorTaps(object):
    """Entry counters for named (possibly nested/private) functions of fxpmath, by qualified name.
    Uses sys.monitoring local events on exactly those code objects, so nothing else pays for it."""

    TOOL = 3

    def __init__(self, names):
        self.names = list(names)
        self.counts = collections.Counter()
        self.missing = []
        self._codes = {}
        self.active = False

    @staticmethod
    def _walk_code(code, prefix, out):
        for c in code.co_consts:
            if isinstance(c, types.CodeType):
                out[c.co_qualname] = c
                AnchorTaps._walk_code(c, c.co_qualname, out)

    def _find_codes(self):
        from fxpmath import objects, functions, utils
        found = {}
        for mod in (objects, functions, utils):
            short = mod.__name__.split('.')[-1]
            for nm, obj in list(mod.__dict__.items()):
                tgt = getattr(obj, '__fxpverif_wrapped__', obj)
                tgt = getattr(tgt, 'pyfunc', tgt)      # np.vectorize objects
                if isinstance(tgt, types.FunctionType) and tgt.__module__ == mod.__name__:
                    found[short + '.' + tgt.__code__.co_qualname] = tgt.__code__
                    # decorated helpers (utils.array_support ...): the function proper sits in the closure of the decorator's inner function
                    stack, seen = [tgt], set()
                    while stack:
                        f = stack.pop()
                        for cell in (f.__closure__ or ()):
                            try:
                                inner = cell.cell_contents
                            except ValueError:
                                continue
                            if isinstance(inner, types.FunctionType) and inner.__module__ == mod.__name__ and id(inner) not in seen:
                                seen.add(id(inner))
                                found.setdefault(short + '.' + inner.__code__.co_qualname, inner.__code__)
                                stack.append(inner)
                    sub = {}
                    self._walk_code(tgt.__code__, '', sub)
                    for q, c in sub.items():
                        found[short + '.' + q] = c
                elif isinstance(obj, type) and obj.__module__ == mod.__name__:
                    for mn, m in list(obj.__dict__.items()):
                        m = getattr(m, '__fxpverif_wrapped__', m)
                        m = getattr(m, '__wrapped__', m)
                        if isinstance(m, types.FunctionType):
                            found[short + '.' + m.__code__.co_qualname] = m.__code__
        return found

    def start(self):
        if not hasattr(sys, 'monitoring'):
            self.missing = list(self.names)
            return self
        found = self._find_codes()
        mon = sys.monitoring
        try:
            mon.use_tool_id(self.TOOL, 'fxpverif')
        except ValueError:
            pass
        code2name = {}
        for n in self.names:
            c = found.get(n)
            if c is None:
                self.missing.append(n)
                continue
            code2name[c] = n
            mon.set_local_events(self.TOOL, c, mon.events.PY_START)
        counts = self.counts

        def on_start(code, offset):
            n = code2name.get(code)
            if n is not None:
                counts[n] += 1

        mon.register_callback(self.TOOL, mon.events.PY_START, on_start)
        self._codes = code2name
        self.active = True
        return self

    def stop(self):
        if self.active:
            mon = sys.monitoring
            for c in self._codes:
                mon.set_local_events(self.TOOL, c, 0)
            mon.register_callback(self.TOOL, mon.events.PY_START, None)
            try:
                mon.free_tool_id(self.TOOL)
            except Exception:
                pass
            self.active = False

    def report(self):
        d = {n: int(self.counts.get(n, 0)) for n in self.names if n not in self.missing}
        if self.missing:
            d['_not_found'] = list(self.missing)
        return d
