"""C01 - storing a value quantizes it exactly: scale, round, then saturate or wrap."""
from fractions import Fraction as F

import numpy as np

from .. import refmodel as R
from .. import gen as G
from ..exact import Unsupported, exact_values
from ..storejudge import decode_store, expected_post_codes, in_core_domain, STORE_OPS, as_library_sees, UNDERFLOW_KEY

ID = 'C01'
TECHNIQUE = 'runtime monitoring: boundary monitor records every store event (constructor, call, set_val, indexed assignment; all carriers); oracle = exact quantization (Python ints / Fractions) of the carrier elements, read-back compared as Fractions'
TITLE = 'store = OVERFLOW(ROUND(v*2^n_frac))'
RULE = ('store events (constructor / call / set_val / indexed assignment) observed at the API boundary; each element is '
        'compared with refmodel.quantize on the exact value of the carrier element. Key = (signedness, word class, fraction '
        'class, rounding, overflow, carrier family, route, outcome); non-trivial = outcome in {inexact-down, inexact-up, '
        'tie-to-even-down, tie-to-even-up, overflow, underflow} (exact in-range stores are trivial).')
DECIDING_OPS = ['__init__', 'set_val', '__call__', '__setitem__', 'get_val']
ANCHORS = ['objects.Fxp.set_val', 'objects.Fxp._round', 'objects.Fxp._overflow_action', 'objects.Fxp._format_inupt_val',
           'objects.Fxp._get_conv_factor', 'utils.wrap', 'utils.clip', 'utils.str2num']
EXHAUSTIVE = {'quick': 'every quarter-LSB input over 3x the range, all formats n_word<=4, n_frac -8..n_word+8, 10 mode pairs (array stores); '
                       'n_word<=2 also one by one through each of the 4 routes',
              'thorough': 'same for n_word<=6; n_word<=3 one by one through each route'}
ASSUMPTIONS = ['inputs restricted to the property core domain; events outside it are counted under skipped']
SHARDS = {'quick': 16, 'thorough': 16}


def carrier_family(c):
    if isinstance(c, bool):
        return 'bool'
    if isinstance(c, int):
        return 'pyint'
    if isinstance(c, float):
        return 'pyfloat'
    if isinstance(c, complex):
        return 'pycomplex'
    if isinstance(c, str):
        return 'str'
    if isinstance(c, np.generic):
        return 'np' + c.dtype.kind
    if isinstance(c, np.ndarray):
        return 'arr' + c.dtype.kind
    if isinstance(c, list):
        return 'list'
    if isinstance(c, tuple):
        return 'tuple'
    return type(c).__name__


def outcome_of(v, k_rounded, lo, hi, scaled):
    if k_rounded > hi:
        return 'overflow'
    if k_rounded < lo:
        return 'underflow'
    if scaled.denominator == 1:
        return 'exact'
    if scaled.denominator == 2:
        return 'tie-down' if k_rounded < scaled else 'tie-up'
    return 'inexact-down' if k_rounded < scaled else 'inexact-up'


# ------------------------------------------------------------------------------------------ judges
def make_judges(ctx):
    def store_judge(ev):
        if ev.op not in STORE_OPS:
            return
        try:
            si = decode_store(ev)
        except Unsupported as e:
            ctx.skip('store:' + str(e))
            return
        if si is None:
            return
        if ev.exc is not None:
            # an exception inside the property's input domain is a witness (the outcome must not depend on the carrier)
            p = si.post or si.pre
            if p is None:
                d = si.init_args or {}
                if (set(d) - {'val', 'signed', 'n_word', 'n_frac', 'n_int', 'like', 'dtype', 'raw', 'rounding', 'overflow', 'scale', 'bias'}) \
                        or d.get('rounding', 'trunc') not in G.ROUNDINGS or d.get('overflow', 'saturate') not in G.OVERFLOWS \
                        or not isinstance(d.get('signed', True), (bool, int, type(None))):
                    ctx.skip('store:constructor given further (possibly invalid) settings raised - their rejection is C20\'s subject')
                    return
                if isinstance(d.get('n_word'), int) and isinstance(d.get('n_frac'), int) and 1 <= d['n_word'] <= 52 \
                        and -8 <= d['n_frac'] <= d['n_word'] + 8 and d.get('like') is None and d.get('dtype') is None \
                        and 'scale' not in d and 'bias' not in d \
                        and all(abs(c) < 2 ** 53 and abs(c) * F(2) ** d['n_frac'] < 2 ** 62 for v in si.values for c in (v if si.is_complex else (v,))):
                    ctx.violation('store_raises', 'storing %s by %s raised %s: %s' % (carrier_family(si.carrier), si.route, type(ev.exc).__name__, str(ev.exc)[:200]),
                                  ev, key='store.raises.%s' % carrier_family(si.carrier))
                else:
                    ctx.skip('store:exception outside the decidable domain')
                return
            why = in_core_domain(si, p)
            if why:
                ctx.skip('store:' + why)
                return
            ctx.violation('store_raises', 'storing %s by %s raised %s: %s' % (carrier_family(si.carrier), si.route, type(ev.exc).__name__, str(ev.exc)[:200]),
                          ev, key='store.raises.%s' % carrier_family(si.carrier))
            return
        post = si.post
        if post is None:
            ctx.skip('store:receiver not initialised')
            return
        why = in_core_domain(si, post)
        if why:
            ctx.skip('store:' + why)
            return
        try:
            codes, imag, shape, over, under, inexact, rounded = expected_post_codes(si)
        except Unsupported as e:
            ctx.skip('store:' + str(e))
            return
        fam = carrier_family(si.carrier)
        fmtkey = ('s' if post.signed else 'u', G.word_class(post.n_word), G.frac_class(post.n_word, post.n_frac))
        bad = None
        if tuple(post.shape) != tuple(shape):
            bad = 'shape %r, expected %r' % (post.shape, shape)
        elif post.codes != codes:
            i = next(i for i, (a, b) in enumerate(zip(post.codes, codes)) if a != b)
            vi = si.values[i] if si.index is None and i < len(si.values) else None
            bad = 'element %d: stored code %r, exact quantization gives %r (input %s)' % (i, post.codes[i], codes[i], vi)
        elif imag is not None and (post.imag or [0] * len(codes)) != imag:
            bad = 'imaginary codes %r, expected %r' % ((post.imag or [])[:6], imag[:6])
        elif imag is None and post.imag is not None and any(post.imag):
            bad = 'imaginary codes %r for a real input' % (post.imag[:6],)
        if bad:
            key = None
            alt = as_library_sees(si, post.n_frac)
            if alt is not None and tuple(post.shape) == tuple(shape):
                keep = si.values
                si.values = alt
                try:
                    c2, i2 = expected_post_codes(si)[:2]
                    if post.codes == c2 and (i2 is None or (post.imag or [0] * len(c2)) == i2):
                        key = UNDERFLOW_KEY     # exactly the known mechanism: the scaled double product underflowed to zero
                finally:
                    si.values = keep
            ctx.violation('wrong_code', '%s %s/%s via %s (%s): %s' % (R.dtype_fxp(*post.fmt()), post.rounding, post.overflow, si.route, fam, bad), ev, key=key)
        # coverage keys
        lo, hi = R.code_range(post.signed, post.n_word)
        sc = F(2) ** post.n_frac
        outs = set()
        flat = [c for v in si.values for c in (v if si.is_complex else (v,))]
        for c, k in zip(flat, rounded):
            outs.add(outcome_of(c, k, lo, hi, c * sc))
            if len(outs) >= 7:
                break
        nontriv = sorted(o for o in outs if o != 'exact')
        main = nontriv[0] if nontriv else 'exact'
        sample = None
        if ctx.want_sample() and nontriv:
            sample = {'op': ev.op, 'format': R.dtype_fxp(*post.fmt()), 'modes': [post.rounding, post.overflow], 'carrier': fam,
                      'route': si.route, 'inputs': [str(v) for v in si.values[:4]], 'stored_codes': [str(k) for k in post.codes[:4]],
                      'outcomes': sorted(outs)}
        ctx.judged(fmtkey + (post.rounding, post.overflow, fam, si.route, main), bool(nontriv), sample, elements=len(flat))
        for o in nontriv[1:]:
            ctx.keys.add(repr(fmtkey + (post.rounding, post.overflow, fam, si.route, o)))
        if nontriv:
            ctx.floor_hit(('mode-route', post.rounding, post.overflow, si.route))
            ctx.floor_hit(('family', fam))

    def read_judge(ev):
        """the value read back is exactly code * 2^-n_frac"""
        if ev.op not in ('get_val', 'astype') or ev.exc is not None or ev.kwargs:
            return
        if ev.op == 'get_val' and ev.args:
            return
        if ev.op == 'astype' and ev.args != (float,):
            return
        p = ev.pre[0] if ev.pre else None
        if ev.op == 'get_val' and p is not None:
            # get_val() casts to the dtype the value was supplied in; a narrow NumPy float cannot hold every code*LSB
            try:
                dt = np.dtype(p.vdtype)
            except TypeError:
                dt = None
            if dt is not None and dt.kind in 'fc' and dt.itemsize < (8 if dt.kind == 'f' else 16):
                ctx.skip('read:value dtype narrower than a double')
                return
        if p is None or p.scaled or not (1 <= p.n_word <= 52) or not (-60 <= p.n_frac <= 120):
            ctx.skip('read:outside domain')
            return
        try:
            vals, shape, is_c = exact_values(ev.result)
        except Unsupported as e:
            ctx.violation('read_type', 'get_val() returned %r' % (ev.result,), ev)
            return
        lsb = R.lsb(p.n_frac)
        if is_c:
            exp = [(a * lsb, b * lsb) for a, b in zip(p.codes, p.imag or [0] * len(p.codes))]
        else:
            exp = [k * lsb for k in p.codes]
            if p.imag is not None and any(p.imag):
                ctx.skip('read:complex object read as real')
                return
        if vals != exp or tuple(shape) != tuple(p.shape):
            ctx.violation('read_back', 'get_val() of %s returned %s..., codes*LSB = %s...' % (R.dtype_fxp(*p.fmt()), [str(v) for v in vals[:3]], [str(v) for v in exp[:3]]), ev)
        ctx.judged(('read', 's' if p.signed else 'u', G.word_class(p.n_word), G.frac_class(p.n_word, p.n_frac), 'neg' if any(k < 0 for k in p.codes) else 'pos'),
                   p.n_frac != 0, None, elements=len(exp))

    return [store_judge, read_judge]


def floors(tier):
    cells = [('mode-route', r, o, rt) for r in G.ROUNDINGS for o in G.OVERFLOWS for rt in ('constructor', 'call', 'set_val', 'setitem')]
    cells += [('family', f) for f in ('pyint', 'pyfloat', 'str', 'npf', 'npi', 'npu', 'arrf', 'arri', 'arru', 'list', 'tuple', 'pycomplex')]
    cells += [('noncontiguous_carrier', c) for c in ('1d', '2d', 'bigfloat2d')] + [('object_array_mixed',)] + [('object_array_numpy_first', t) for t in ('float32', 'float16', 'int8', 'uint8', 'int16')]
    cells += [('complex_real_indexed', k_) for k_ in ('array', 'scalar', 'huge')] + [('complex_into_real_typed', k_) for k_ in ('like()', 'add-out_like', 'mul-out', 'Fxp(x, like=)')] + [('complex_indexed_store', k_) for k_ in ('dtype-string', 'resize-dtype', 'real-object', 'dtype-string-raw', 'dtype-string-fxp', 'element-holder', 'transpose', 'list-index-copy')] + [('complex_through_view',)]
    if np.finfo(np.longdouble).nmant > 52:
        cells += [('extended_precision_containers',)]
    return cells


# ------------------------------------------------------------------------------------------ workload
def cases(tier, seed):
    wmax = 4 if tier == 'quick' else 6
    one_by_one = 2 if tier == 'quick' else 3
    for signed in (True, False):
        for n_word in range(1, wmax + 1):
            for n_frac in range(-8, n_word + 9):
                for r, o in G.MODES:
                    yield {'k': 'exh', 'signed': signed, 'n_word': n_word, 'n_frac': n_frac, 'rounding': r, 'overflow': o,
                           'single': n_word <= one_by_one}
    n_rand = 640 if tier == 'quick' else 20000
    for i in range(n_rand):
        yield {'k': 'matrix', 'i': i}
    n_big = 200 if tier == 'quick' else 4000
    for i in range(n_big):
        yield {'k': 'bigfloat', 'i': i}
    n_cx = 200 if tier == 'quick' else 4000
    for i in range(n_cx):
        yield {'k': 'complex', 'i': i}


def _mk(Fxp, signed, n_word, n_frac, r, o, val=None):
    return Fxp(val, signed, n_word, n_frac, rounding=r, overflow=o)


def _store_all_routes(Fxp, carrier, shape, signed, n_word, n_frac, r, o, routes=('constructor', 'call', 'set_val', 'setitem')):
    """store one carrier by the given routes; exceptions are observed by the monitor and not re-raised here"""
    for rt in routes:
        try:
            if rt == 'constructor':
                x = Fxp(carrier, signed, n_word, n_frac, rounding=r, overflow=o)
            elif rt == 'call':
                x = _mk(Fxp, signed, n_word, n_frac, r, o)
                x(carrier)
            elif rt == 'set_val':
                x = _mk(Fxp, signed, n_word, n_frac, r, o)
                x.set_val(carrier)
            else:
                if shape == ():
                    x = _mk(Fxp, signed, n_word, n_frac, r, o, np.zeros(3, dtype=complex if isinstance(carrier, (complex, np.complexfloating)) else float))
                    x[1] = carrier
                    if not isinstance(carrier, (complex, np.complexfloating)) and n_word >= 2:
                        # ... and into an array whose other elements hold odd codes (fraction bits set): the whole array reads back as code*LSB afterwards
                        x.get_val()
                        x = _mk(Fxp, signed, n_word, n_frac, r, o)
                        x.set_val(np.array([1, 1, 1]), raw=True)
                        x[1] = carrier
                        x.get_val()
                        x.astype(float)
                        x[0]()
                    # ... and into a scalar object through the empty index / the ellipsis (a complex scalar for a complex value)
                    x0 = _mk(Fxp, signed, n_word, n_frac, r, o, 0j if isinstance(carrier, (complex, np.complexfloating)) else 0.0)
                    x0[()] = carrier
                    x0.get_val()
                    x1 = _mk(Fxp, signed, n_word, n_frac, r, o, 0j if isinstance(carrier, (complex, np.complexfloating)) else 0.0)
                    x1[...] = carrier
                elif len(shape) == 1:
                    x = _mk(Fxp, signed, n_word, n_frac, r, o, np.zeros((2,) + shape))
                    x[1] = carrier
                else:
                    x = _mk(Fxp, signed, n_word, n_frac, r, o, np.zeros(shape))
                    x[:] = carrier
            x.get_val()
            x.astype(float)
        except Exception:
            pass


def run_case(case, ctx):
    Fxp = ctx.mon.Fxp
    k = case['k']
    if k == 'exh':
        s, w, nf, r, o = case['signed'], case['n_word'], case['n_frac'], case['rounding'], case['overflow']
        a, b = G.quarter_grid(s, w, 3)
        arr = np.arange(a, b + 1, dtype=np.float64) / 4.0 / (2.0 ** nf)
        x = Fxp(arr, s, w, nf, rounding=r, overflow=o)
        x.get_val()
        y = _mk(Fxp, s, w, nf, r, o)
        y.set_val(arr.reshape(2, -1) if arr.size % 2 == 0 else arr)
        # the doubles next to every code and every tie (1 and 3 ulps away on both sides)
        pts = np.arange(a, b + 1, 2, dtype=np.float64) / 4.0 / (2.0 ** nf)
        up = np.nextafter(pts, np.inf)
        dn = np.nextafter(pts, -np.inf)
        Fxp(np.concatenate([up, dn, np.nextafter(np.nextafter(up, np.inf), np.inf), np.nextafter(np.nextafter(dn, -np.inf), -np.inf)]), s, w, nf, rounding=r, overflow=o)
        if case['single']:
            for v in arr.tolist():
                _store_all_routes(Fxp, v, (), s, w, nf, r, o)
        return
    rng = ctx.rng_for(k, case['i'])
    i = case['i']
    if k == 'matrix':
        s, w, nf = G.core_format(rng)
        r, o = G.MODES[i % 10]
        vals = G.hostile_scaled_values(rng, s, w, nf, n=4)
        # a value list every chosen kind can carry: filter per kind
        kinds = list(G.ALL_KINDS)
        for kind in kinds:
            ok = [v for v in vals if G.can_carry(v, kind)]
            if kind in G.INT_KINDS and not ok:
                # integers: make integral hostile values (only inexact when n_frac < 0)
                lo, hi = R.code_range(s, w)
                cand = [F(rng.choice([lo, hi, lo - 1, hi + 1, rng.randint(lo, hi)])) / F(2) ** nf for _ in range(6)]
                ok = [F(R.round_exact(c, 'floor')) + rng.choice([0, 1, 2, 3]) for c in cand]
                ok = [v for v in ok if G.can_carry(v, kind) and abs(v) < 2 ** 53 and abs(v * F(2) ** nf) < 2 ** 62]
            if kind == 'str' and not ok:
                ok = [v for v in [F(R.round_exact(v * 16, 'floor'), 16) for v in vals] if G.can_carry(v, 'str') and abs(v * F(2) ** nf) < 2 ** 62]
            if not ok:
                continue
            ok = (ok * 4)[:4]
            conts = ['scalar', rng.choice(['0d', '1d', '2d']), rng.choice(['list', 'nested', 'tuple', 'nested_tuple'])]
            if kind == 'str':
                conts = ['scalar', 'list', rng.choice(['1d', 'tuple', 'nested'])]
            for cont in conts:
                try:
                    car = G.build_carrier(ok, kind, cont)
                except (OverflowError, ValueError):
                    continue
                _store_all_routes(Fxp, car, G.container_shape(cont, len(ok)), s, w, nf, r, o)
                if cont in ('1d', '2d') and kind != 'str' and (i // 10) % 3 == 0:
                    # the same array in another memory layout (Fortran order, negative stride, strided view)
                    _store_all_routes(Fxp, G.noncontig(car, rng), G.container_shape(cont, len(ok)), s, w, nf, r, o, routes=('constructor', 'set_val', 'setitem'))
                    ctx.floor_hit(('noncontiguous_carrier', cont))
        # object arrays of python numbers (the library's own carrier for long integers), mixing integers and floats, an integer first
        fl = [v for v in vals if G.can_carry(v, 'pyfloat')]
        if fl and (i // 10) % 2 == 1:
            lo_, hi_ = R.code_range(s, w)
            iv = R.round_exact(F(rng.randint(lo_, hi_)) / F(2) ** nf, 'floor')
            if abs(iv) < 2 ** 53 and abs(iv * F(2) ** nf) < 2 ** 62:
                els = [int(iv)] + [float(v) for v in fl[:3]]
                oa = np.empty(len(els), dtype=object)
                oa[:] = els
                _store_all_routes(Fxp, oa, (len(els),), s, w, nf, r, o)
                ob = np.empty(4, dtype=object)
                ob[:] = (els * 4)[:4]
                _store_all_routes(Fxp, ob.reshape(2, 2), (2, 2), s, w, nf, r, o, routes=('constructor', 'set_val'))
                of = np.empty(len(els), dtype=object)
                of[:] = list(reversed(els))
                _store_all_routes(Fxp, of, (len(els),), s, w, nf, r, o, routes=('constructor', 'call'))
                # ... and holding narrow NumPy numbers next to python numbers (they must not be scaled in their own narrow type)
                small = [v for v in (F(100), F(-100) if s else F(27), F(3)) if abs(v * F(2) ** nf) < 2 ** 62]
                if small:
                    on = np.empty(len(small) + 1, dtype=object)
                    on[:] = [els[1]] + [np.int8(int(small[0]))] + [np.float32(float(v)) if j_ % 2 else np.uint8(abs(int(v))) for j_, v in enumerate(small[1:])]
                    _store_all_routes(Fxp, on, (len(small) + 1,), s, w, nf, r, o, routes=('constructor', 'set_val'))
                # ... with the narrow NumPy number first (the type of the first element must not become the type the values are read back in,
                #     nor the type they are sized, scaled or converted in later)
                for first in (np.float32(1.5), np.float16(0.75), np.int8(100), np.uint8(200), np.int16(-300 if s else 300)):
                    if abs(F(first.item()) * F(2) ** nf) >= 2 ** 62:
                        continue
                    of_ = np.empty(len(els) + 1, dtype=object)
                    of_[:] = [first] + [els[1], els[0]] + els[2:]
                    _store_all_routes(Fxp, of_, (len(els) + 1,), s, w, nf, r, o, routes=('constructor', 'call', 'setitem') if first.dtype.kind == 'f' else ('constructor', 'set_val'))
                    # (the read judge cannot tell a value type taken from a narrow first element from the documented cast to the dtype of a narrow
                    #  array: the read back of this carrier, whose dtype is object, is compared here)
                    try:
                        xo_ = Fxp(of_, s, w, nf, rounding=r, overflow=o)
                        gv_ = [F(v_) for v_ in np.asarray(xo_.get_val(), dtype=object).ravel().tolist()]
                        kv_ = [F(int(k_)) * R.lsb(nf) for k_ in np.asarray(xo_.val).ravel().tolist()]
                    except Exception:
                        gv_ = kv_ = None
                    if gv_ is not None and gv_ != kv_:
                        ctx.violation('read_back', 'object array %r stored into %s: get_val() returns %s, codes*LSB = %s (value type %r)' % (
                            of_.tolist(), R.dtype_fxp(s, w, nf), [str(v_) for v_ in gv_[:4]], [str(v_) for v_ in kv_[:4]], xo_.vdtype), key='read.object_array_first_element_type')
                    ctx.judged(('object-array-read-back', first.dtype.name), True, None)
                    ctx.floor_hit(('object_array_numpy_first', first.dtype.name))
                ctx.floor_hit(('object_array_mixed',))
        # extended-precision inputs (where longdouble is wider than a double): values of up to 63 significant bits next to codes and ties, as scalars,
        # arrays, lists and tuples of longdouble numbers - the configured rounding has to see all of their bits
        L = np.longdouble
        if np.finfo(L).nmant > 52 and (i // 10) % 2 == 0:
            lo_, hi_ = R.code_range(s, w)
            kk = rng.randint(lo_, hi_)
            base = L(kk) / L(2) ** nf
            eps = L(2) ** (-nf - rng.choice([8, 9, 10]))
            half = L(0.5) / L(2) ** nf
            ext = [base + eps, base - eps, base + half + eps, base + half - eps]
            if all(np.isfinite(v) and abs(v) < L(2) ** 53 for v in ext):
                _store_all_routes(Fxp, list(ext), (4,), s, w, nf, r, o)
                _store_all_routes(Fxp, tuple(ext[:2]), (2,), s, w, nf, r, o, routes=('constructor', 'set_val', 'call'))
                _store_all_routes(Fxp, [list(ext[:2]), list(ext[2:])], (2, 2), s, w, nf, r, o, routes=('constructor', 'set_val'))
                _store_all_routes(Fxp, np.array(ext, dtype=L), (4,), s, w, nf, r, o, routes=('constructor', 'setitem'))
                _store_all_routes(Fxp, ext[rng.randint(0, 3)], (), s, w, nf, r, o, routes=('constructor', 'call'))
                ctx.floor_hit(('extended_precision_containers',))
    elif k == 'bigfloat':
        s, w, nf = G.core_format(rng)
        nf = abs(nf) % (w + 9)
        r = G.ROUNDINGS[i % 5]
        mags = [rng.choice([-1, 1]) * rng.random() * 2.0 ** rng.choice([53, 60, 62, 63, 64, 65, 100, 300, 900, 1023]) for _ in range(3)] + [1.7976931348623157e308, -1.7976931348623157e308]
        rng.shuffle(mags)
        for cont in ('scalar', '1d'):
            car = mags[0] if cont == 'scalar' else np.array(mags[:4])
            _store_all_routes(Fxp, car, () if cont == 'scalar' else (4,), s, w, nf, r, 'saturate', routes=('constructor', 'call', 'setitem'))
        # extended precision carriers (where longdouble is wider than a double): values with up to 63 significant bits
        L = np.longdouble
        if np.finfo(L).nmant > 52:
            lo_, hi_ = R.code_range(s, w)
            k = rng.randint(lo_, hi_)
            base = L(k) / L(2) ** nf
            eps = L(2) ** (-nf - rng.choice([8, 9, 10]))
            for v in (base + eps, base - eps, base + L(0.5) / L(2) ** nf + eps, base + L(0.5) / L(2) ** nf - eps):
                _store_all_routes(Fxp, v, (), s, w, nf, r, 'saturate', routes=('constructor', 'call', 'setitem'))
            _store_all_routes(Fxp, np.array([base + eps, base - eps], dtype=L), (2,), s, w, nf, r, 'saturate', routes=('constructor', 'set_val'))
            _store_all_routes(Fxp, np.array([L(mags[0]), base + eps, base - eps, L(0.25) / L(2) ** nf + base], dtype=L), (4,), s, w, nf, r, 'saturate', routes=('constructor', 'set_val'))
        small = [float(v) for v in G.hostile_scaled_values(rng, s, w, nf, n=6) if G.can_carry(v, 'pyfloat')][:3] or [0.0]
        mixed = np.array([mags[0]] + small + [mags[1]])
        _store_all_routes(Fxp, mixed, (len(mixed),), s, w, nf, r, 'saturate', routes=('constructor', 'set_val'))
        _store_all_routes(Fxp, list(mixed), (len(mixed),), s, w, nf, r, 'saturate', routes=('constructor', 'call'))
        # 2-D arrays of mixed magnitudes (one element beyond 2^64 forces the element-wise path) in C order and in other memory layouts
        m2 = np.array(([mags[0]] + small + [mags[1], 0.5, -0.25, mags[2]])[:6]).reshape(2, 3)
        _store_all_routes(Fxp, m2, (2, 3), s, w, nf, r, 'saturate', routes=('constructor', 'set_val', 'setitem'))
        for how in ('F', 'neg', 'strided'):
            _store_all_routes(Fxp, G.noncontig(m2, rng, how), (2, 3), s, w, nf, r, 'saturate', routes=('constructor', 'call', 'set_val', 'setitem'))
        _store_all_routes(Fxp, m2.T, (3, 2), s, w, nf, r, 'saturate', routes=('constructor', 'set_val'))
        ctx.floor_hit(('noncontiguous_carrier', 'bigfloat2d'))
    elif k == 'complex':
        s, w, nf = G.core_format(rng, max_word=40)
        r, o = G.MODES[i % 10]
        vals = G.hostile_scaled_values(rng, s, w, nf, n=8)
        vals = [v for v in vals if G.can_carry(v, 'pyfloat')] or [F(0)]
        vals = (vals * 8)[:8]
        cs = [complex(float(vals[2 * j]), float(vals[2 * j + 1])) for j in range(4)]
        for car, shape in ((cs[0], ()), (np.array(cs), (4,)), (np.array(cs, dtype=np.complex128).reshape(2, 2), (2, 2)), (list(cs), (4,)), (np.complex128(cs[1]), ())):
            _store_all_routes(Fxp, car, shape, s, w, nf, r, o, routes=('constructor', 'call', 'set_val') + (('setitem',) if shape == () else ()))
        # complex64 (float32 components): in-range first element, later ones overflow in both directions; words of 25+ bits
        if o == 'saturate' and 0 <= nf and w >= 20:
            lo_, hi_ = R.code_range(s, w)
            big = float(np.float32(float(F(hi_) / F(2) ** nf) * 1.5 + 3))
            small = float(np.float32(0.75))
            if abs(big) < 2 ** 53 and abs(big) * 2 ** nf < 2 ** 62:
                c64b = np.array([complex(small, -small), complex(big, -big), complex(-big, small)], dtype=np.complex64)
                _store_all_routes(Fxp, c64b, (3,), s, w, nf, r, o, routes=('constructor', 'set_val', 'call'))
        if all(G.can_carry(v, 'np:float32') for v in vals[:4]):
            c64 = np.array([complex(float(vals[0]), float(vals[1])), complex(float(vals[2]), float(vals[3]))], dtype=np.complex64)
            _store_all_routes(Fxp, c64, (2,), s, w, nf, r, o, routes=('constructor', 'set_val'))
        # a real value written by index into a complex array / a complex scalar: every component is still read back as code * LSB, also through
        # the `real` and `imag` attributes (plain attributes, not calls: compared here with what get_val() returns)
        rv = next((float(v) for v in vals if G.can_carry(v, 'pyfloat')), 0.0)
        for kind_ in ('array', 'scalar', 'huge'):
            try:
                if kind_ == 'array':
                    xc = Fxp(np.array(cs), s, w, nf, rounding=r, overflow=o)
                    xc[rng.randint(0, 3)] = rv
                elif kind_ == 'scalar':
                    xc = Fxp(cs[0], s, w, nf, rounding=r, overflow=o)
                    xc[()] = rv
                else:
                    # (an out-of-range input of any magnitude must not turn the complex object into a real one)
                    xc = Fxp(cs[0], s, w, nf, rounding=r, overflow='saturate')
                    xc[rng.choice([(), Ellipsis])] = rng.choice([2 ** 70, -2 ** 64, 1e30, 2 ** 62 + 1])
                got = xc.get_val()
                dt = xc.dtype
            except Exception:
                continue
            ok = True
            if not np.iscomplexobj(got) or 'complex' not in str(dt):
                ctx.violation('complex_lost', 'a real value written by index (%s) into a complex %s object made it real: dtype %s, value %r' % (kind_, R.dtype_fxp(s, w, nf), dt, got), key='store.complex_lost')
                ok = False
            elif not (np.array_equal(np.asarray(xc.real), np.asarray(got).real) and np.array_equal(np.asarray(xc.imag), np.asarray(got).imag)):
                ctx.violation('real_imag_attributes', 'after a real value is written by index (%s) into a complex %s object: real=%r imag=%r, get_val()=%r' % (
                    kind_, R.dtype_fxp(s, w, nf), xc.real, xc.imag, got), key='store.real_imag')
                ok = False
            ctx.judged(('complex-real-indexed-store', kind_), True, None)
            ctx.floor_hit(('complex_real_indexed', kind_))
        # complex codes that reach an object whose value type was real (like() into a real template, an operation into an out_like / out template):
        # every component is read back as code * LSB
        fm_ = ctx.mon.fxpmath
        wt_ = min(w + rng.randint(0, 6), 44)
        nft_ = max(0, min(nf, wt_)) if rng.random() < 0.7 else rng.randint(0, wt_)
        for route in ('like()', 'add-out_like', 'mul-out', 'Fxp(x, like=)'):
            try:
                xc = Fxp(np.array(cs), s, w, nf, rounding=r, overflow=o)
                yc = Fxp(np.array(cs[::-1]), s, w, nf, rounding=r, overflow=o)
                tmpl = Fxp(None if route != 'mul-out' else np.zeros(4), True, wt_, nft_, rounding=r, overflow=o)
                if route == 'like()':
                    z = xc.like(tmpl)
                elif route == 'add-out_like':
                    z = fm_.add(xc, yc, out_like=tmpl)
                elif route == 'mul-out':
                    z = fm_.mul(xc, yc, out=tmpl)
                else:
                    z = Fxp(xc, like=tmpl)
                codes_ = np.asarray(z.val)
                got = np.asarray(z.get_val())
            except Exception:
                continue
            if not np.iscomplexobj(codes_):
                continue
            lsb_ = 2.0 ** -z.n_frac
            if not (np.iscomplexobj(got) and np.array_equal(got.real, codes_.real * lsb_) and np.array_equal(got.imag, codes_.imag * lsb_)):
                ctx.violation('complex_readback', 'complex codes %r reached a %s object by %s: get_val() returns %r (dtype %s, value type %r)' % (
                    codes_.tolist(), R.dtype_fxp(True, wt_, nft_), route, got.tolist(), z.dtype, z.vdtype), key='read.complex_into_real_typed')
            ctx.judged(('complex-into-real-typed', route), True, None)
            ctx.floor_hit(('complex_into_real_typed', route))
        # an object made complex by its dtype string while the value is real, and a real object: a complex value written by index keeps both components,
        # a real one keeps the object complex
        for how in ('dtype-string', 'resize-dtype', 'real-object', 'dtype-string-raw', 'dtype-string-fxp', 'element-holder', 'transpose', 'list-index-copy'):
            try:
                rv_ = [float(v) for v in vals[:3]]
                dts = R.dtype_fxp(s, w, nf, True)
                if how == 'dtype-string':
                    xd = Fxp(rv_, dtype=dts, rounding=r, overflow=o)
                elif how == 'resize-dtype':
                    xd = Fxp(rv_, s, w, nf, rounding=r, overflow=o)
                    xd.resize(dtype=dts)
                elif how == 'dtype-string-raw':
                    xd = Fxp([1, 0, 1], dtype=dts, raw=True, rounding=r, overflow=o)
                elif how == 'dtype-string-fxp':
                    xd = Fxp(Fxp(rv_, s, w, nf, rounding=r, overflow=o), dtype=dts, rounding=r, overflow=o)
                elif how == 'transpose':
                    # (independent objects whose codes have a NumPy base: the transpose, the copy made by a list index)
                    xd = Fxp(np.array(rv_), s, w, nf, rounding=r, overflow=o).T
                elif how == 'list-index-copy':
                    xd = Fxp(np.array(rv_ + rv_[:1]), s, w, nf, rounding=r, overflow=o)[[0, 1, 3]]
                else:
                    xd = Fxp(rv_, s, w, nf, rounding=r, overflow=o)
                ref = Fxp(cs[1], s, w, nf, rounding=r, overflow=o)         # the same complex value stored by the constructor
                if how == 'element-holder':
                    # (an element taken out of the real array: a scalar object of its own, written through the empty index / the ellipsis)
                    e_ = xd[1]
                    e_[rng.choice([(), Ellipsis])] = cs[1]
                    xd = Fxp([0, 0, 0], s, w, nf, rounding=r, overflow=o)
                    xd = e_
                    codes_ = np.asarray([0, np.asarray(e_.val).item()])
                    want = complex(np.asarray(ref.val).item())
                    got1 = complex(codes_[1])
                    dt_after = e_.dtype
                    rd = np.asarray(e_.get_val())
                    raise_after = None
                else:
                    xd[1] = cs[1]
                codes_ = np.asarray(xd.val) if how != 'element-holder' else codes_
                if how != 'element-holder':
                    want = complex(np.asarray(ref.val).item())
                    got1 = complex(codes_[1]) if np.iscomplexobj(codes_) else complex(codes_[1].item(), 0)
                    dt_after = xd.dtype
                    rd = np.asarray(xd.get_val())
            except Exception as ex:     # noqa
                ctx.violation('complex_indexed_raises', 'complex value written by index into %s (%s) raised %s: %s' % (R.dtype_fxp(s, w, nf), how, type(ex).__name__, str(ex)[:100]), key='store.complex_indexed_raises')
                continue
            if got1 != want or 'complex' not in str(dt_after) or not np.iscomplexobj(rd):
                ctx.violation('complex_indexed', 'x[1] = %r into %s (%s): codes %r (the constructor stores %r), dtype %s, read back %r' % (
                    cs[1], R.dtype_fxp(s, w, nf), how, codes_.tolist(), want, dt_after, rd.tolist()), key='store.complex_indexed')
            if how in ('dtype-string', 'resize-dtype', 'dtype-string-raw', 'dtype-string-fxp'):
                try:
                    # (on a fresh object as well: the real value is the first thing written by index)
                    xf = Fxp(rv_, dtype=dts, rounding=r, overflow=o) if how != 'dtype-string-raw' else Fxp([1, 0, 1], dtype=dts, raw=True, rounding=r, overflow=o)
                    if how == 'resize-dtype':
                        xf = Fxp(rv_, s, w, nf, rounding=r, overflow=o)
                        xf.resize(dtype=dts)
                    xf[2] = rv_[0]
                    if 'complex' not in str(xf.dtype) or not np.iscomplexobj(np.asarray(xf.get_val())):
                        ctx.violation('complex_lost', 'a real value written by index into a fresh %s object (%s) made it real: dtype %s' % (dts, how, xf.dtype), key='store.complex_lost')
                    xd[0] = rv_[2]
                    if 'complex' not in str(xd.dtype) or not np.iscomplexobj(np.asarray(xd.get_val())):
                        ctx.violation('complex_lost', 'a real value written by index into a %s object (%s) made it real: dtype %s' % (dts, how, xd.dtype), key='store.complex_lost')
                except Exception:
                    pass
            ctx.judged(('complex-indexed-store', how), True, None)
            ctx.floor_hit(('complex_indexed_store', how))
        # ... and through a view (chained indexing x[i][j] = v, a row taken out first) into an array that holds real codes
        try:
            rv4 = [float(v) for v in (vals * 2)[:4]]
            xp = Fxp(np.array(rv4).reshape(2, 2), s, w, nf, rounding=r, overflow=o)
            ref = Fxp(cs[2], s, w, nf, rounding=r, overflow=o)
            want = complex(np.asarray(ref.val).item())
            import warnings as _w
            ctx.mon.enabled = False         # (judged here, at the level of the parent object: the event of the inner store only sees the view)
            try:
                with _w.catch_warnings():
                    _w.simplefilter('ignore')
                    xp[0][1] = cs[2]
            finally:
                ctx.mon.enabled = True
            got = np.asarray(xp.val).ravel().tolist()[1]
            if want.imag != 0:
                if complex(got) != want:
                    # the recorded finding is exactly "the real component is stored, the imaginary one is dropped": any other outcome (the write lost
                    # altogether, a wrong real code) is a violation of its own
                    known = complex(got).imag == 0 and complex(got).real == want.real
                    ctx.violation('complex_through_view', 'x[0][1] = %r on a %s array that holds real codes: code %r, the constructor stores %r (%s)' % (
                        cs[2], R.dtype_fxp(s, w, nf), got, want, 'the imaginary part is dropped without any flag' if known else 'neither the value nor its real part'),
                        key='store.complex_through_view' if known else 'store.through_view_lost')
                ctx.judged(('complex-through-view',), True, None)
                ctx.floor_hit(('complex_through_view',))
        except Exception:
            pass
