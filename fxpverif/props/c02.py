"""C02 - every produced object is well-formed: codes in range, metadata consistent; saturation lands on the input's own side."""
from fractions import Fraction as F

import numpy as np

from .. import refmodel as R
from .. import gen as G
from .. import universal as U
from ..exact import Unsupported
from ..storejudge import decode_store, STORE_OPS
from .. import reducejudge as RJ

ID = 'C02'
TECHNIQUE = 'runtime monitoring: universal well-formedness monitor (U1: codes in range, integer code types, n_int, limits, dtype string) on every object produced by random programs of public operations; saturation-side oracle on huge inputs; indexing monitor'
TITLE = 'every produced object is well-formed'
RULE = ('U1 well-formedness monitor on the receiver and the result of EVERY outermost public call made by random programs (construct, write, '
        'resize, like, + - * / // % under every sizing policy and both methods, constants, unary, shifts in all modes, bitwise, indexing, '
        'sum/cumsum/max/min/clip, equal, deepcopy, Fxp(x)) whose results are fed back into the pool: integer codes inside the object\'s own range, '
        'n_int = n_word - n_frac - sign, upper/lower/precision = max/min code*LSB and LSB (through scale/bias), dtype string spells the format; '
        'saturate stores of out-of-range floats (any finite magnitude) and Python ints (up to 2^1000) must land on the bound of the input\'s side. '
        'Key = (op, result word class, result fraction class, sizing, rank); non-trivial = the object is the result of an operation other than '
        'plain construction, or an input beyond +/-2^63 was stored.')
DECIDING_OPS = ['__init__', 'resize', ('__add__', '__mul__'), ('__lshift__', '__rshift__'), ('__and__', '__or__', '__xor__', '__invert__'),
                '__getitem__', ('sum', 'cumsum'), 'like']
ANCHORS = ['objects.Fxp.resize', 'objects.Fxp.set_val', 'objects.Fxp._update_dtype', 'objects.Fxp._overflow_action',
           'functions._function_over_two_vars', 'functions._function_over_one_var']
OWN_UNIVERSAL = ('U1', 'U4')
SHARDS = {'quick': 16, 'thorough': 16}


def make_judges(ctx):
    mon = ctx.mon
    Fxp = mon.Fxp

    def wellformed_judge(ev):
        subs = U.subjects(ev, Fxp)
        if not subs:
            return
        for role, s in subs:
            probs = U.u1_problems(s)
            for tag, detail in probs:
                ctx.violation('U1_' + tag, '%s of %s: %s' % (role, ev.op, detail), ev, key='u1.%s' % tag)
            sizing = ''
            if ev.receiver is not None and ev.pre and ev.pre[0] is not None:
                sizing = ev.pre[0].cfg.get('_op_sizing', '')
            key = (ev.op, G.word_class(s.n_word), G.frac_class(s.n_word, s.n_frac), sizing, len(s.shape), s.scaled)
            nontriv = not (ev.op == '__init__' and role == 'receiver')
            sample = None
            if ctx.want_sample() and nontriv and ev.op not in ('get_val',):
                sample = {'op': ev.op, 'role': role, 'object': s.describe(), 'n_int': s.n_int, 'upper': repr(s.upper), 'lower': repr(s.lower), 'precision': repr(s.precision)}
            ctx.judged(key, nontriv, sample, elements=len(s.codes))

    def getitem_judge(ev):
        for tag, detail in U.getitem_problems(ev):
            ctx.violation('U1_' + tag, detail, ev, key='u1.%s' % tag)
        if ev.op == '__getitem__' and ev.exc is None and ev.pre and ev.pre[0] is not None and ev.pre[0].n_word >= 64 and ev.result_snap is not None \
                and len(ev.result_snap.shape) == 0 and len(ev.pre[0].shape) > 0:
            ctx.floor_hit(('element-of-wide-array',))

    def unary_side_judge(ev):
        """-x and abs(x) store their exact result into the operand's format: when it does not fit and the result saturates, it ends on the bound of the
        exact result's own side (the negation of an unsigned code is never the maximum)"""
        if ev.kind != 'method' or ev.op not in ('__neg__', '__abs__') or ev.exc is not None or not ev.pre or ev.pre[0] is None or ev.result_snap is None:
            return
        x, res = ev.pre[0], ev.result_snap
        if x.is_complex or res.is_complex or x.scaled or res.overflow != 'saturate' or res.fmt() != x.fmt() or not x.ints_ok:
            return
        lo, hi = R.code_range(res.signed, res.n_word)
        bad = None
        n_out = 0
        for k, got in zip(x.codes, res.codes):
            e = -k if ev.op == '__neg__' else abs(k)
            if lo <= e <= hi:
                continue
            n_out += 1
            want = hi if e > hi else lo
            if got != want and bad is None:
                bad = '%s of code %d in %s: exact result %d is %s the range, stored %r instead of the bound %d' % (ev.op, k, R.dtype_fxp(*x.fmt()), e, 'above' if e > hi else 'below', got, want)
        if bad:
            ctx.violation('saturation_side', bad, ev, key='saturate.unary')
        if n_out:
            ctx.judged(('unary-side', ev.op, 's' if x.signed else 'u', G.word_class(x.n_word)), True, None, elements=n_out)
            ctx.floor_hit(('unary-out-of-range', 's' if x.signed else 'u'))

    def saturation_judge(ev):
        if ev.op not in STORE_OPS or ev.exc is not None and False:
            return
        try:
            si = decode_store(ev, allow_raw=True, allow_fxp=True)       # (a raw store gives the code itself: it saturates like a value with n_frac = 0;
            #                                                              a fixed-point source gives its exact value)
        except Unsupported:
            return
        if si is None or si.is_complex:
            return
        post = si.post or si.pre
        if post is None or post.overflow != 'saturate' or post.scaled or post.is_complex or si.index is not None:
            return
        if not (1 <= post.n_word <= 52 and 0 <= post.n_frac <= post.n_word + 8):
            return
        lo, hi = R.code_range(post.signed, post.n_word)
        sc = F(1) if si.raw else F(2) ** post.n_frac
        sides = [(1 if v * sc > hi + 1 else (-1 if v * sc < lo - 1 else 0)) for v in si.values]
        if not any(sides):
            return
        huge = any(abs(v) >= 2 ** 63 for v in si.values)
        if ev.exc is not None:
            ctx.violation('saturate_raises', 'saturating store of %s into %s raised %s: %s' % ([_short(v) for v in si.values[:2]], R.dtype_fxp(*post.fmt()),
                          type(ev.exc).__name__, str(ev.exc)[:120]), ev, key='saturate.raises')
            return
        if si.post is None or len(si.post.codes) != len(sides):
            return
        for v, sd, k in zip(si.values, sides, si.post.codes):
            if sd > 0 and k != hi or sd < 0 and k != lo:
                ctx.violation('saturate_side', '%s saturate: input %s is %s the range but the stored code is %r (bounds %d, %d)' % (
                    R.dtype_fxp(*post.fmt()), _short(v), 'above' if sd > 0 else 'below', k, lo, hi), ev, key='saturate.wrong_side')
                break
        mag = 'huge' if huge else 'moderate'
        kind = 'int' if all(v.denominator == 1 for v in si.values) and not _is_float(si.carrier) else 'float'
        ctx.judged(('saturate', si.route, kind, mag, 's' if post.signed else 'u', tuple(sorted(set(sides)))), True,
                   {'op': ev.op, 'format': R.dtype_fxp(*post.fmt()), 'input': [_short(v) for v in si.values[:2]], 'codes': [str(k) for k in si.post.codes[:2]]} if ctx.want_sample() and huge else None)
        ctx.floor_hit(('saturate', kind, mag))
        if si.raw:
            ctx.floor_hit(('saturate-raw', mag))
    return [wellformed_judge, saturation_judge, getitem_judge, unary_side_judge, RJ.make_judge(ctx, ctx.mon.Fxp, 'side')]


def _short(v):
    s = str(v)
    return s if len(s) < 40 else s[:18] + '...(%d digits)' % len(s)


def _is_float(c):
    return isinstance(c, (float, np.floating)) or (isinstance(c, np.ndarray) and c.dtype.kind == 'f')


def floors(tier):
    return [('saturate', 'int', 'huge'), ('saturate', 'float', 'huge'), ('saturate', 'int', 'moderate'), ('saturate', 'float', 'moderate'), ('saturate-raw', 'huge'), ('saturate-raw', 'moderate'), ('element-of-wide-array',), ('partly-inferred-sizes',), ('unary-out-of-range', 's'), ('unary-out-of-range', 'u'),
            ('reduction-into-saturating-target', 'beyond-int64'), ('reduction-into-saturating-target', 'moderate')]


# ------------------------------------------------------------------------------------------ workload
def cases(tier, seed):
    n = 10000 if tier == "quick" else 150000
    for i in range(n):
        yield {'k': 'prog', 'i': i}
    n = 600 if tier == 'quick' else 12000
    for i in range(n):
        yield {'k': 'sat', 'i': i}
    for j in range(48 if tier == 'quick' else 1200):
        yield {'k': 'wideidx', 'i': j}
    for j in range(60 if tier == 'quick' else 1500):
        yield {'k': 'reduce', 'i': j}
    # words of 53..63 bits (reachable as results of operations on core-domain operands): float arrays saturating at limits
    # that are not exact in float64
    for w in range(53, 64):
        for s in (True, False):
            for j in range(3 if tier == 'quick' else 40):
                yield {'k': 'satwide', 'n_word': w, 'signed': s, 'i': j}


def _try(f):
    try:
        return f()
    except Exception:
        return None


def run_wideidx(case, ctx):
    """elements taken out of arrays of 64 and more bits (x[i], x[i][j], x[i, j], iteration) are objects like any other: they are produced
    well-formed and can be used (unary, bitwise, arithmetic, strings, conversions, written back)"""
    Fxp = ctx.mon.Fxp
    i = case['i']
    rng = ctx.rng_for('wideidx', i)
    w = (64, 65, 72, 100, 128, 200)[i % 6]
    s = bool((i // 6) % 2)
    nf = rng.choice([0, 0, 1, w // 2, w])
    lo, hi = R.code_range(s, w)
    cs = [rng.choice([lo, hi, 0, 1, hi - 1, rng.randint(lo, hi), rng.randint(lo, hi) >> rng.randint(0, w - 1)]) for _ in range(4)]
    x1 = Fxp(None, s, w, nf)
    x1.set_val(np.array(cs[:3], dtype=object), raw=True)
    x2 = Fxp(None, s, w, nf)
    x2.set_val(np.array(cs, dtype=object).reshape(2, 2), raw=True)
    els = [_try(lambda: x1[0]), _try(lambda: x1[-1]), _try(lambda: x1[np.int64(1)]), _try(lambda: x2[1][0]), _try(lambda: x2[0, 1]), _try(lambda: x2[1])]
    _try(lambda: [e for e in x1])
    for e in els:
        if e is None:
            continue
        _try(lambda: e.dtype)
        _try(lambda: e.get_dtype('Q'))
        _try(lambda: ~e)
        _try(lambda: e & 3)
        _try(lambda: e | e)
        _try(lambda: e.bin())
        _try(lambda: e.hex())
        _try(lambda: -e)
        _try(lambda: e + e)
        _try(lambda: e * 2)
        _try(lambda: e >> 1)
        _try(lambda: Fxp(e))
        _try(lambda: e.deepcopy().resize(s, w + 8, nf))
        _try(lambda: e.raw())
    _try(lambda: x1.__setitem__(0, x1[1]))
    _try(lambda: x2.__setitem__((0, 0), x2[1, 1]))
    # a store by the empty index into an element object (its value is a python integer): the new code is held exactly
    for newc in (hi, lo, cs[3]):
        e = _try(lambda: x1[0])
        if e is None:
            continue
        ctx.mon.enabled = False
        try:
            try:
                e.set_val(newc, raw=True, index=())
                got = int(np.asarray(e.val, dtype=object).item())
                if got != newc:
                    ctx.violation('U1_element_store', 'element of a %s array: set_val(%d, raw=True, index=()) left code %d' % (R.dtype_fxp(s, w, nf), newc, got), key='u1.element_store')
            except Exception as ex:
                ctx.violation('U1_element_store', 'element of a %s array: set_val(%d, raw=True, index=()) raised %s: %s' % (R.dtype_fxp(s, w, nf), newc, type(ex).__name__, str(ex)[:80]), key='u1.element_store')
        finally:
            ctx.mon.enabled = True
        ctx.judged(('element-store', w, s), True, None)
    # negation / abs of codes whose exact result leaves the format (unsigned codes, the most negative code)
    for wu in (8, 16, 33, 52, 63):
        for su in (False, True):
            lo_u, hi_u = R.code_range(su, wu)
            cu = [hi_u, 1, 0, lo_u, rng.randint(lo_u, hi_u)]
            xu = _try(lambda: Fxp(np.array(cu, dtype=object if wu >= 63 else None), su, wu, rng.choice([0, 2]), raw=True))
            if xu is not None:
                _try(lambda: -xu)
                _try(lambda: abs(xu))
                _try(lambda: -xu[0])
                _try(lambda: -Fxp(int(cu[1]), su, wu, 0, raw=True))


SIZINGS = ['optimal', 'same', 'largest', 'smallest', 'fit']


def run_case(case, ctx):
    Fxp = ctx.mon.Fxp
    fm = ctx.mon.fxpmath
    rng = ctx.rng_for(case['k'], case['i'])
    i = case['i']
    if case['k'] == 'wideidx':
        return run_wideidx(case, ctx)
    if case['k'] == 'reduce':
        return RJ.workload(Fxp, fm, rng, _try)
    if case['k'] == 'satwide':
        w, s = case['n_word'], case['signed']
        nf = rng.choice([0, 0, 1, w // 2, w])
        lo, hi = R.code_range(s, w)
        top = float(F(hi) / F(2) ** nf)
        inr = [float(F(rng.randint(lo // 4, hi // 4)) / F(2) ** nf) for _ in range(2)]
        outs = [top * rng.choice([1.0, 1.5, 4.0]), top * 2.0 ** rng.randint(1, 9), (float(F(lo) / F(2) ** nf) * rng.choice([1.0, 2.0, 64.0]) if s else -1.0)]
        r = G.ROUNDINGS[i % 5]
        for arr in ([inr[0], outs[0]], [inr[1], outs[1], outs[2]], [outs[0]], [inr[0], inr[1]]):
            _try(lambda: Fxp(np.array(arr), s, w, nf, rounding=r))
            _try(lambda: Fxp(list(arr), s, w, nf, rounding=r))
            y = Fxp(None, s, w, nf, rounding=r)
            _try(lambda: y.set_val(np.array(arr)))
            z = Fxp(np.zeros(len(arr) + 1), s, w, nf, rounding=r)
            _try(lambda: z.__setitem__(slice(0, len(arr)), arr))
        for v in outs:
            _try(lambda: Fxp(v, s, w, nf, rounding=r))
        return
    if case['k'] == 'sat':
        s, w, nf = G.core_format(rng)
        nf = abs(nf) % (w + 9)
        r = G.ROUNDINGS[i % 5]
        sign = rng.choice([-1, 1])
        if i % 2 == 0:
            e = rng.choice([54, 62, 63, 64, 65, 100, 500, 1000])
            v = sign * (2 ** e + rng.choice([-1, 0, 1, 12345]))
            if rng.random() < 0.3:
                v = sign * rng.getrandbits(rng.randint(60, 1000))
        else:
            v = sign * rng.random() * 2.0 ** rng.choice([53, 62, 63, 64, 100, 1000, 1023])
            if rng.random() < 0.2:
                v = sign * 1.7976931348623157e308
        x = _try(lambda: Fxp(v, s, w, nf, rounding=r))
        y = Fxp(None, s, w, nf, rounding=r)
        _try(lambda: y(v))
        _try(lambda: y.set_val(-v))
        z = Fxp(np.zeros(2), s, w, nf, rounding=r)
        _try(lambda: z.__setitem__(1, v))
        # integers in [2^63, 2^64) as lists / tuples, NumPy unsigned scalars and arrays
        big_u = 2 ** 63 + rng.randint(0, 2 ** 62)
        for car in ([big_u], (big_u, big_u + 5), [[big_u, 2 ** 64 - 1]], np.uint64(big_u), np.array([big_u], dtype=np.uint64), np.uint32(2 ** 32 - 1 - rng.randint(0, 9)),
                    np.array([2 ** 31 + 7, 3], dtype=np.uint32), np.uint16(65535), np.uint8(255)):
            _try(lambda: Fxp(car, s, w, nf, rounding=r))
            y2 = Fxp(None, s, w, nf, rounding=r)
            _try(lambda: y2.set_val(car))
        # raw codes of any size (the rarely used raw=True route): python integers around 2^63 and 2^64, far beyond, and just outside the word
        lo_, hi_ = R.code_range(s, w)
        for rawv in (big_u, -big_u, 2 ** 64 - 1, 2 ** 64 + rng.randint(0, 99), -(2 ** 64) - 1, sign * (2 ** rng.choice([62, 63, 64, 65, 100]) + rng.randint(-3, 3)), hi_ + 1 + rng.randint(0, 5), lo_ - 1 - rng.randint(0, 5)):
            _try(lambda: Fxp(rawv, s, w, nf, rounding=r, raw=True))
            y3 = Fxp(None, s, w, nf, rounding=r)
            _try(lambda: y3.set_val(rawv, raw=True))
            _try(lambda: Fxp([rawv, 0], s, w, nf, rounding=r, raw=True))
            # (lists / tuples whose elements are all beyond int64: NumPy makes them uint64 arrays, which are not wrapped negative codes)
            _try(lambda: Fxp([rawv], s, w, nf, rounding=r, raw=True))
            _try(lambda: y3.set_val((rawv, rawv + (1 if rawv > 0 else -1)), raw=True))
        # wide fixed-point sources (scalar objects of 64..128 bits, elements of such arrays) whose value is far outside the destination
        for wsrc in (64, 65, 70, 128):
            ssrc = wsrc != 64 and rng.random() < 0.5
            csrc = (2 ** (wsrc - 1) - 1 - rng.randint(0, 9)) if ssrc else (2 ** wsrc - 1 - rng.randint(0, 9))
            if ssrc and rng.random() < 0.5:
                csrc = -csrc
            src = _try(lambda: Fxp(csrc, ssrc, wsrc, 0, raw=True))
            arr = _try(lambda: Fxp(np.array([csrc, 1], dtype=object), ssrc, wsrc, 0, raw=True))
            for so in (src, _try(lambda: arr[0])):
                if so is None:
                    continue
                _try(lambda: Fxp(so, s, w, nf, rounding=r))
                y4 = Fxp(None, s, w, nf, rounding=r)
                _try(lambda: y4.set_val(so))
                _try(lambda: y4(so))
                _try(lambda: Fxp(so, like=y4))
        # Decimal inputs whose scaled value leaves int64
        from decimal import Decimal
        for dv in (Decimal(2 ** 40), Decimal(-(2 ** 41) - 3), Decimal(2 ** 62)):
            _try(lambda: Fxp(dv, s, w, nf, rounding=r))
        # integers next to the 64-bit limits into an object with an integer bias
        for v2, b2 in ((2 ** 63 - 1, -2), (-2 ** 63, 1), (2 ** 63 - 3, -7), (2 ** 63 + 1, 1)):
            _try(lambda: Fxp(v2, s, w, nf, rounding=r, bias=b2))
            _try(lambda: Fxp([1, v2] if abs(v2) < 2 ** 63 else [v2], s, w, nf, rounding=r, bias=b2))
        # moderate out-of-range values too
        lo, hi = R.code_range(s, w)
        u = float(F(rng.choice([hi + 2, lo - 2, hi * 3 + 7, lo * 3 - 7])) / F(2) ** nf)
        _try(lambda: Fxp(u, s, w, nf, rounding=r))
        if float(u).is_integer():
            _try(lambda: Fxp(int(u), s, w, nf, rounding=r))
        else:
            _try(lambda: Fxp(int(u) + (3 if u > 0 else -3), s, w, nf, rounding=r))
        return

    # ---- random program
    def new_obj():
        s, w, nf = G.core_format(rng)
        if rng.random() < 0.5:
            s, w, nf = G.conventional_format(rng, 2, 16)
        rank = rng.choice([0, 0, 1, 2])
        n = {0: 1, 1: rng.randint(1, 4), 2: 4}[rank]
        vals = G.hostile_scaled_values(rng, s, w, nf, n=n * 2)
        vals = [float(v) for v in vals if G.can_carry(v, 'pyfloat')] or [0.0]
        vals = (vals * n)[:n]
        v = vals[0] if rank == 0 else (np.array(vals) if rank == 1 else np.array(vals).reshape(2, 2))
        r, o = rng.choice(G.MODES)
        kw = {}
        if rng.random() < 0.15:
            kw['scale'] = rng.choice([2, 0.5, 4, -2])
            kw['bias'] = rng.choice([0, 1, -3, 0.5])
        if rng.random() < 0.1:
            kw['dtype_notation'] = 'Q'
        return _try(lambda: Fxp(v, s, w, nf, rounding=r, overflow=o, **kw))

    pool = [o for o in (new_obj() for _ in range(rng.randint(2, 4))) if o is not None]
    if not pool:
        return

    def keep(z):
        if isinstance(z, Fxp) and z.val is not None and z.n_word is not None and 1 <= z.n_word <= 160:
            if len(pool) >= 4:
                pool[rng.randrange(len(pool))] = z
            else:
                pool.append(z)

    def compat(x, y):
        sx, sy = np.shape(x.val), np.shape(y.val)
        return sx == () or sy == () or sx == sy

    for step in range(rng.randint(6, 10)):
        x = rng.choice(pool)
        y = rng.choice(pool)
        c = rng.choice(['new', 'write', 'write', 'resize', 'like', 'arith', 'arith', 'arith', 'const', 'unary', 'shift', 'shift', 'bitwise', 'index',
                        'reduce', 'reduce', 'equal', 'copy', 'fxpx'])
        if c == 'new':
            keep(new_obj())
            if rng.random() < 0.3:
                # sizes partly given, partly inferred, also with the given word above / the configured maximum below what the value needs
                v_ = rng.choice([3.5, -0.375, 1000.25, 0.0, 12345.0, 2.0 ** -9])
                keep(_try(lambda: Fxp(v_, n_word=rng.choice([72, 65, 100, 24, 12]))))
                keep(_try(lambda: Fxp(v_, n_word=rng.choice([24, 40]), n_word_max=rng.choice([16, 32]))))
                keep(_try(lambda: Fxp(v_, n_frac=rng.choice([0, 4, 30]), n_word_max=rng.choice([16, 32, 64]))))
                keep(_try(lambda: Fxp(None, n_word=rng.choice([72, 8]))))
                ctx.floor_hit(('partly-inferred-sizes',))
        elif c == 'write':
            vals = G.hostile_scaled_values(rng, x.signed, max(1, min(x.n_word, 52)), x.n_frac, n=4)
            vals = [float(v) for v in vals if G.can_carry(v, 'pyfloat')] or [0.0]
            shp = np.shape(x.val)
            how = rng.choice(['call', 'set_val', 'index'])
            if how == 'index' and shp:
                _try(lambda: x.__setitem__(0 if len(shp) == 1 else (0, 1), vals[0]))
            elif shp and rng.random() < 0.7:
                a = np.array((vals * 4)[:int(np.prod(shp))]).reshape(shp)
                _try(lambda: x(a) if how == 'call' else x.set_val(a))
            else:
                _try(lambda: x(vals[0]) if how == 'call' else x.set_val(vals[0]))
        elif c == 'resize':
            fd = G.core_format(rng)
            q = rng.random()
            if q < 0.35:
                _try(lambda: x.resize(fd[0], fd[1], fd[2]))
            elif q < 0.55:
                _try(lambda: x.resize(dtype=R.dtype_fxp(*fd)))
            elif q < 0.7:
                _try(lambda: x.resize(n_word=fd[1]))
            elif q < 0.8:
                _try(lambda: x.resize(signed=not x.signed))          # one size at a time
            elif q < 0.9:
                _try(lambda: x.resize(n_frac=fd[2]))
            elif q < 0.93:
                _try(lambda: x.resize(fd[0], n_frac=fd[2], n_int=max(0, fd[1] - fd[2] - (1 if fd[0] else 0))))
            elif q < 0.95:
                # n_int where it does not decide the format (alone, or next to both other sizes): whatever the object becomes, it reports its own sizes
                _try(lambda: x.resize(n_int=rng.randint(0, 6)))
                _try(lambda: x.resize(n_word=fd[1], n_frac=fd[2], n_int=rng.randint(0, 6)))
                keep(_try(lambda: Fxp(x.get_val(), like=x, n_int=rng.randint(0, 6))))
                keep(_try(lambda: Fxp(0.5, fd[0], fd[1], fd[2], n_int=rng.randint(0, 6))))
            else:
                # the raw value is kept: it still has to end inside the new word
                _try(lambda: x.resize(fd[0], max(1, x.n_word - rng.randint(1, 6)), restore_val=False))
        elif c == 'like':
            keep(_try(lambda: x.like(y)))
            keep(_try(lambda: Fxp(x, like=y)))
            if rng.random() < 0.5:
                keep(_try(lambda: Fxp(x.get_val(), like=y, signed=not y.signed)))
                keep(_try(lambda: Fxp(None, like=y, n_word=min(52, y.n_word + 3))))
        elif c == 'arith':
            if not compat(x, y):
                continue
            op = rng.choice(['+', '-', '*', '/', '//', '%'])
            if op in ('/', '//', '%') and (np.any(np.asarray(y.val) == 0) or np.any(np.asarray(y.get_val()) == 0)):
                continue        # no division by zero (the value of a scaled divisor can be zero although its code is not)
            if x.n_word + y.n_word > 120:
                continue
            sz = rng.choice(SIZINGS)
            if sz == 'fit' and (x.n_frac < 0 or y.n_frac < 0):
                sz = 'optimal'
            x.config.op_sizing = sz
            x.config.op_method = rng.choice(['raw', 'repr'])
            f = {'+': lambda: x + y, '-': lambda: x - y, '*': lambda: x * y, '/': lambda: x / y, '//': lambda: x // y, '%': lambda: x % y}[op]
            keep(_try(f))
            if rng.random() < 0.3:
                fn = {'+': fm.add, '-': fm.sub, '*': fm.mul, '/': fm.truediv, '//': fm.floordiv, '%': fm.mod}[op]
                t = rng.choice(pool)
                if t is not x and t is not y:
                    _try(lambda: fn(x, y, out=t))
                keep(_try(lambda: fn(x, y, out_like=rng.choice(pool))))
        elif c == 'const':
            cst = rng.choice([1, 2, -3, 0.5, 1.25, -0.75, 7, 100])
            x.config.op_input_size = rng.choice(['same', 'best'])
            x.config.const_op_sizing = rng.choice(SIZINGS[:4])
            op = rng.choice(['+', '-', '*', 'r-', 'r+'])
            f = {'+': lambda: x + cst, '-': lambda: x - cst, '*': lambda: x * cst, 'r-': lambda: cst - x, 'r+': lambda: cst + x}[op]
            keep(_try(f))
        elif c == 'unary':
            keep(_try(rng.choice([lambda: -x, lambda: +x, lambda: abs(x)])))
        elif c == 'shift':
            if x.scaled:
                continue
            x.config.shifting = rng.choice(['expand', 'trunc', 'keep'])
            n = rng.randint(0, min(8, max(0, 60 - x.n_word)))
            keep(_try((lambda: x << n) if rng.random() < 0.5 else (lambda: x >> n)))
        elif c == 'bitwise':
            if x.n_word > 62 or x.scaled:
                continue
            m = rng.getrandbits(max(1, x.n_word))
            f = rng.choice([lambda: ~x, lambda: x & m, lambda: x | m, lambda: x ^ m, lambda: m & x])
            if np.shape(x.val) == ():
                keep(_try(f))
                if y.n_word == x.n_word and np.shape(y.val) == ():
                    keep(_try(rng.choice([lambda: x & y, lambda: x | y, lambda: x ^ y])))
            else:
                keep(_try(lambda: ~x))
        elif c == 'index':
            shp = np.shape(x.val)
            if shp:
                keep(_try(lambda: x[0]))
                if len(shp) == 2:
                    keep(_try(lambda: x[1][0]))
                    keep(_try(lambda: x[:, 1]))
        elif c == 'reduce':
            shp = np.shape(x.val)
            if not shp or x.n_word > 60:
                continue
            x.config.op_sizing = rng.choice(SIZINGS[:4])
            f = rng.choice([lambda: x.sum(), lambda: np.sum(x), lambda: x.cumsum(), lambda: np.cumsum(x), lambda: x.max(), lambda: np.min(x), lambda: x.min(),
                            lambda: x.sum(axis=0), lambda: np.max(x, axis=0), lambda: x.clip(float(x.lower) / 2, float(x.upper) / 2) if not x.scaled else None,
                            lambda: np.transpose(x), lambda: x.mean(), lambda: fm.fxp_sum(x)])
            keep(_try(f))
        elif c == 'equal':
            if compat(x, y) and np.shape(x.val) == np.shape(y.val):
                _try(lambda: x.equal(y))
        elif c == 'copy':
            keep(_try(lambda: x.deepcopy()))
        elif c == 'fxpx':
            keep(_try(lambda: Fxp(x)))
            fd = G.core_format(rng)
            keep(_try(lambda: Fxp(x, fd[0], fd[1], fd[2])))
