"""C03 - wrap overflow is exact two's-complement modular arithmetic."""
from fractions import Fraction as F

import numpy as np

from .. import refmodel as R
from .. import gen as G
from .. import arith as A
from ..exact import Unsupported
from ..storejudge import decode_store, STORE_OPS, underflows_to_zero, UNDERFLOW_KEY
from . import c01

ID = 'C03'
TECHNIQUE = 'runtime monitoring: store / resize / arithmetic-into-register events under wrap judged against the residue model (exact ints), shift invariance checked relationally between real executions'
TITLE = 'wrap = residue mod 2^n_word'
RULE = ('store events under overflow=wrap (value and raw mode; core domain, and n_word 64..256 with Python-integer inputs): the stored code must be '
        'inside the range and congruent to ROUND(v*2^n_frac) modulo 2^n_word; inside one event, inputs that differ by a multiple of '
        '2^(n_word-n_frac) must give equal codes (relational, no model); arithmetic whose governing overflow is wrap and whose exact result is a '
        'multiple of the target LSB must equal the n_word-bit register value (a op b) mod 2^n. Key = (signedness, word class, fraction class, '
        'rounding, side, number of wraps class, kind); non-trivial = at least one wrap (input outside the range).')
DECIDING_OPS = ['__init__', 'set_val', '__call__', ('add', '__add__'), ('mul', '__mul__'), 'resize']
ANCHORS = ['utils.wrap', 'objects.Fxp._overflow_action']
EXHAUSTIVE = {'quick': 'every quarter-LSB input over 3x the range, all formats n_word<=4, n_frac -8..n_word+8, 5 roundings, wrap',
              'thorough': 'same for n_word<=6'}
SHARDS = {'quick': 16, 'thorough': 16}
WIDE = (64, 65, 66, 72, 96, 127, 128, 129, 200, 256)


def wraps_class(k, lo, hi, m):
    if lo <= k <= hi:
        return 0
    n = abs((k - lo) // m)
    return 1 if n <= 1 else (2 if n <= 3 else 4)


def make_judges(ctx):
    mon = ctx.mon

    def store_judge(ev):
        if ev.op not in STORE_OPS:
            return
        try:
            si = decode_store(ev, allow_raw=True, allow_fxp=True)      # (a fixed-point source: a stored result moved into a wrap register)
        except Unsupported as e:
            ctx.skip('store:' + str(e))
            return
        if si is None or si.is_complex:
            return
        post = si.post or si.pre
        if post is None or post.overflow != 'wrap':
            if post is None and ev.exc is not None:
                ctx.skip('store:exception before the object existed')
            return
        if post.scaled or post.is_complex:
            ctx.skip('store:scaled or complex')
            return
        n = post.n_word
        nf = 0 if si.raw else post.n_frac
        wide = 64 <= n <= 256
        core = 1 <= n <= 52 and -8 <= post.n_frac <= n + 8
        if not (wide or core):
            ctx.skip('store:word length outside 1..52 / 64..256')
            return
        sc = F(2) ** nf
        xs = [v * sc for v in si.values]
        if wide:
            if any(x.denominator != 1 for x in xs) or any(v.denominator != 1 for v in si.values):
                ctx.skip('store:wide word with a non-integer input')
                return
            if not si.fxp_source and not _pyint_carrier(si.carrier):
                ctx.skip('store:wide word with a non Python-integer carrier')
                return
        else:
            if any(abs(v) >= 2 ** 53 or abs(x) >= 2 ** 62 for v, x in zip(si.values, xs)):
                ctx.skip('store:input magnitude outside the core domain')
                return
        if ev.exc is not None:
            ctx.violation('raises', 'wrap store into %s raised %s: %s' % (R.dtype_fxp(*post.fmt()), type(ev.exc).__name__, str(ev.exc)[:160]), ev, key='wrap.raises')
            return
        if si.index is not None:
            ctx.skip('store:indexed')
            return
        if len(post.codes) != len(xs):
            ctx.violation('shape', 'stored %d elements for %d inputs' % (len(post.codes), len(xs)), ev)
            return
        lo, hi = R.code_range(post.signed, n)
        m = 1 << n
        classes = set()
        seen = {}
        period = F(m) / sc
        for v, x, k in zip(si.values, xs, post.codes):
            ru = R.round_exact(x, post.rounding)
            if not isinstance(k, int) or not (lo <= k <= hi) or (k - ru) % m != 0:
                if isinstance(k, int) and lo <= k <= hi and not si.raw and underflows_to_zero(v, post.n_frac) and k % m == 0:
                    ctx.violation('not_residue', '%s %s/wrap: input %.3e is scaled to +-0 in double arithmetic and stored as code 0 (exact rounding gives %d)' % (
                        R.dtype_fxp(*post.fmt()), post.rounding, float(v), ru), ev, key=UNDERFLOW_KEY)
                    continue
                ctx.violation('not_residue', '%s %s/wrap%s: input %s rounds to %d, stored code %r is not its in-range residue mod 2^%d' % (
                    R.dtype_fxp(*post.fmt()), post.rounding, ' raw' if si.raw else '', v, ru, k, n), ev)
                break
            # relational: same residue class of the input -> same code.  ROUND commutes with a shift by a multiple of the
            # modulus for floor / ceil / around (even modulus); for trunc/fix (toward zero) only on the same side of zero
            r = (v % period, (x > 0) if (post.rounding in ('trunc', 'fix') and x.denominator != 1) else None)
            if r in seen and seen[r] != k:
                ctx.violation('shift_variance', '%s: two inputs differing by a multiple of 2^(n_word-n_frac) stored as %d and %d' % (R.dtype_fxp(*post.fmt()), seen[r], k), ev)
                break
            seen[r] = k
            if len(classes) < 6:
                classes.add(('hi' if ru > hi else 'lo' if ru < lo else 'in', wraps_class(ru, lo, hi, m)))
        fmtkey = ('s' if post.signed else 'u', G.word_class(n), G.frac_class(n, post.n_frac), post.rounding, 'raw' if si.raw else ('fxp' if si.fxp_source else 'value'))
        if si.fxp_source and wide and any(wc > 0 for s_, wc in classes):
            ctx.floor_hit(('wide-from-fixed-point', len(si.shape) > 0))
        first = True
        for side, wc in sorted(classes):
            key = fmtkey + (side, wc, 'store')
            if first:
                sample = None
                if ctx.want_sample() and wc:
                    sample = {'op': ev.op, 'format': R.dtype_fxp(*post.fmt()), 'rounding': post.rounding, 'raw': si.raw, 'inputs': [str(v) for v in si.values[:4]],
                              'codes': [str(k) for k in post.codes[:4]]}
                ctx.judged(key, wc > 0, sample, elements=len(xs))
                first = False
            elif wc > 0:
                ctx.keys.add(repr(key))
        if wide and any(wc > 0 for s_, wc in classes):
            ctx.floor_hit(('wide', n))
        if core and any(wc > 0 for s_, wc in classes):
            ctx.floor_hit(('core', 's' if post.signed else 'u', post.rounding))

    def register_judge(ev):
        ai = A.decode_arith(ev, mon)
        if ai is None or ai.op not in ('add', 'sub', 'mul'):
            return
        if ai.x is None or ai.y is None or not (A.usable(ai.x) and A.usable(ai.y)):
            return
        tg = A.resolve_target(ai)
        if tg is None:
            return
        tfmt, r, o, way = tg
        if o != 'wrap' or way == 'optimal':
            return
        n = tfmt[1]
        if not (1 <= n <= 52 or n in (64, 65, 96, 128)):
            ctx.skip('register:target word outside the listed widths')
            return
        if (ai.out is not None or ai.out_like is not None) and not tfmt[0] and (ai.x.signed or ai.y.signed):
            ctx.skip('register:signed into unsigned target is rejected')
            return
        ex = A.exact_op(ai.op, A.fr_array(ai.x), A.fr_array(ai.y))
        exf, shape = A.flat(ex)
        if A.beyond_double(ai, exf, A.fr_array(ai.x), A.fr_array(ai.y)):
            ctx.skip('register:value (repr) method on values beyond double precision (float arithmetic by definition)')
            return
        sc = F(2) ** tfmt[2]
        xs = [e * sc for e in exf]
        if n <= 52 and any(abs(x) >= 2 ** 62 for x in xs):
            ctx.skip('register:exact result outside the input domain')
            return
        if any(x.denominator != 1 for x in xs):
            # the register has fewer fraction bits than the exact result (e.g. the Q x Q -> Q multiply): round, then wrap
            if n > 52 or max(ai.x.n_word, ai.y.n_word) > 52:
                ctx.skip('register:rounding into a word beyond the core domain')
                return
            if ai.method != 'raw':
                ctx.skip('register:rounding involved with the value (repr) method: float arithmetic by definition (C08 covers its domain)')
                return
            if ev.exc is not None:
                ctx.violation('raises', 'register %s raised %s: %s' % (ai.op, type(ev.exc).__name__, str(ev.exc)[:160]), ev, key='wrap.raises')
                return
            res = ai.res
            if res is None or res.fmt() != tfmt:
                ctx.violation('format', 'register %s via %s: result format %s, target %s' % (ai.op, way, res and R.dtype_fxp(*res.fmt()), R.dtype_fxp(*tfmt)), ev)
                return
            exp = [R.wrap(R.round_exact(x, r), tfmt[0], n) for x in xs]
            if res.codes != exp:
                # known finding register.float_downscale_gt53: the raw kernels scale DOWN by a float factor, so a raw result of more than
                # 53 bits is rounded to a double before the register's own rounding; attributed only if the float model reproduces the codes
                key = None
                try:
                    model = _float_downscale_model(ai, tfmt, r)
                except Exception:
                    model = None
                if model is not None and model == res.codes and _raw_bits(ai, exf) > 53:
                    key = 'register.float_downscale_gt53'
                i = next(i for i, (a_, b_) in enumerate(zip(res.codes, exp)) if a_ != b_)
                ctx.violation('register_rounded', '%s %s %s via %s into %s %s/wrap: exact scaled result %s -> code %d, library %r' % (
                    R.dtype_fxp(*ai.x.fmt()), ai.op, R.dtype_fxp(*ai.y.fmt()), way, R.dtype_fxp(*tfmt), r, xs[i], exp[i], res.codes[i]), ev, key=key)
            lo_, hi_ = R.code_range(tfmt[0], n)
            wrapped_ = any(not (lo_ <= R.round_exact(x, r) <= hi_) for x in xs)
            ctx.judged(('register-rounded', ai.op, way, 's' if tfmt[0] else 'u', G.word_class(n), wrapped_, max(abs(x) for x in xs) >= 2 ** 53), True, None, elements=len(xs))
            ctx.floor_hit(('register-rounded',))
            return
        if ev.exc is not None:
            ctx.violation('raises', 'register %s raised %s: %s' % (ai.op, type(ev.exc).__name__, str(ev.exc)[:160]), ev, key='wrap.raises')
            return
        res = ai.res
        if res is None or res.fmt() != tfmt:
            ctx.violation('format', 'register %s via %s: result format %s, target %s' % (ai.op, way, res and R.dtype_fxp(*res.fmt()), R.dtype_fxp(*tfmt)), ev)
            return
        lo, hi = R.code_range(tfmt[0], n)
        m = 1 << n
        wrapped = False
        for x, k in zip(xs, res.codes):
            e = R.wrap(x.numerator, tfmt[0], n)
            wrapped |= not (lo <= x.numerator <= hi)
            if k != e:
                key = None
                natural = (ai.x.n_frac + ai.y.n_frac) if ai.op == 'mul' else max(ai.x.n_frac, ai.y.n_frac)
                if tfmt[2] < natural and ai.method == 'raw' and n <= 52 and _raw_bits(ai, exf) > 53:
                    try:
                        if _float_downscale_model(ai, tfmt, r) == res.codes:
                            key = 'register.float_downscale_gt53'      # same known mechanism (the dropped bits happen to be zero)
                    except Exception:
                        pass
                ctx.violation('register', '%s %s %s via %s into %s/wrap: exact raw result %d -> register value %d, library %r' % (
                    R.dtype_fxp(*ai.x.fmt()), ai.op, R.dtype_fxp(*ai.y.fmt()), way, R.dtype_fxp(*tfmt), x.numerator, e, k), ev, key=key)
                break
        ctx.judged(('register', ai.op, way, 's' if tfmt[0] else 'u', G.word_class(n), wrapped), wrapped,
                   {'op': ev.op, 'x': ai.x.describe(), 'y': ai.y.describe(), 'result': res.describe(), 'way': way} if (wrapped and ctx.want_sample()) else None, elements=len(xs))
        if wrapped:
            ctx.floor_hit(('register', ai.op, way))
    def resize_judge(ev):
        """a resize re-stores the value: under wrap the new code is the in-range residue of the rounded old value"""
        if ev.kind != 'method' or ev.op != 'resize':
            return
        pre, post = (ev.pre[0], ev.post[0]) if ev.pre and ev.post else (None, None)
        if pre is None or post is None or not A.usable(pre) or not A.usable(post) or post.overflow != 'wrap':
            return
        d = dict(zip(('signed', 'n_word', 'n_frac', 'n_int', 'restore_val', 'dtype'), ev.args))
        d.update(ev.kwargs)
        if d.get('restore_val', True) is not True:
            return
        wide_exact = False
        for sn in (pre, post):
            if not (1 <= sn.n_word <= 52 and -8 <= sn.n_frac <= sn.n_word + 8):
                # registers of 64 bits and more: judged when the re-stored values are whole codes of the new format (no rounding involved)
                if sn.n_word <= 256 and 64 <= post.n_word <= 256 and all((k0 * R.lsb(pre.n_frac) * F(2) ** post.n_frac).denominator == 1 for k0 in pre.codes):
                    wide_exact = True
                    continue
                ctx.skip('resize:outside the core domain')
                return
        if ev.exc is not None:
            ctx.violation('raises', 'resize of a wrap object raised %s' % type(ev.exc).__name__, ev, key='wrap.raises')
            return
        lo, hi = R.code_range(post.signed, post.n_word)
        m = 1 << post.n_word
        lsb = R.lsb(pre.n_frac)
        sc = F(2) ** post.n_frac
        wrapped = False
        for k0, k in zip(pre.codes, post.codes):
            ru = R.round_exact(k0 * lsb * sc, post.rounding)
            wrapped |= not (lo <= ru <= hi)
            if not isinstance(k, int) or not (lo <= k <= hi) or (k - ru) % m != 0:
                ctx.violation('resize_not_residue', 'resize %s -> %s %s/wrap: old code %d (rounded new scaled value %d) became %r, not its in-range residue mod 2^%d' % (
                    R.dtype_fxp(*pre.fmt()), R.dtype_fxp(*post.fmt()), post.rounding, k0, ru, k, post.n_word), ev)
                break
        ctx.judged(('resize', pre.signed, post.signed, (post.n_word > pre.n_word) - (post.n_word < pre.n_word), wrapped), wrapped, None, elements=len(pre.codes))
        if wrapped:
            ctx.floor_hit(('resize-wrap',))
            if wide_exact:
                ctx.floor_hit(('resize-wrap-wide',))
    RED = {'sum': np.sum, 'cumsum': np.cumsum, 'max': np.max, 'min': np.min, 'fxp_max': np.max, 'fxp_min': np.min, 'sort': np.sort, 'transpose': np.transpose,
           'diagonal': np.diagonal, 'trace': np.trace, 'prod': np.prod, 'dot': np.dot}

    Fxp = ctx.mon.Fxp

    def reduce_register_judge(ev):
        """results of the one-variable functions and of dot stored into a wrap register (out= / out_like=): exact result modulo 2^n_word, whenever the
        register's grid holds the exact result (no rounding involved)"""
        if ev.op not in RED or ev.kind not in ('function', 'method'):
            return
        kw = dict(ev.kwargs)
        tgt_obj = kw.pop('out', None)
        like = False
        if tgt_obj is None:
            tgt_obj = kw.pop('out_like', None)
            like = True
        if isinstance(tgt_obj, (tuple, list)):
            tgt_obj = tgt_obj[0] if tgt_obj else None
        if not isinstance(tgt_obj, Fxp) or set(kw) - {'axis', 'offset'}:
            return
        snaps = {id(o): p for o, p in zip(ev.operands, ev.pre)}
        t = snaps.get(id(tgt_obj))
        fargs = ((ev.receiver,) + tuple(ev.args)) if ev.kind == 'method' else tuple(ev.args)
        ops = [snaps.get(id(a)) for a in fargs if isinstance(a, Fxp)]
        if t is None or not A.usable(t) or t.overflow != 'wrap' or not ops or any(o is None or not A.usable(o) for o in ops) or len(ops) != len(fargs):
            return
        n = t.n_word
        if not (1 <= n <= 52 or n in (64, 65, 96, 128)):
            ctx.skip('register:target word outside the listed widths')
            return
        if not t.signed and any(o.signed for o in ops):
            ctx.skip('register:signed into unsigned target is rejected')
            return
        try:
            exact = RED[ev.op](*[A.fr_array(o) for o in ops], **kw)
        except Exception:
            ctx.skip('register:the exact evaluation itself raised (argument error)')
            return
        exf, shape = A.flat(exact)
        xs = [e * F(2) ** t.n_frac for e in exf]
        if not exf or any(x.denominator != 1 for x in xs):
            ctx.skip('register:rounding involved in a reduction')
            return
        if n <= 52 and any(abs(x) >= 2 ** 62 for x in xs):
            ctx.skip('register:exact result outside the input domain')
            return
        if ev.exc is not None:
            ctx.violation('raises', 'register %s raised %s: %s' % (ev.op, type(ev.exc).__name__, str(ev.exc)[:160]), ev, key='wrap.raises')
            return
        res = ev.result_snap
        if res is None or res.fmt() != t.fmt():
            ctx.violation('format', 'register %s: result format %s, target %s' % (ev.op, res and R.dtype_fxp(*res.fmt()), R.dtype_fxp(*t.fmt())), ev)
            return
        exp = [R.wrap(x.numerator, t.signed, n) for x in xs]
        lo, hi = R.code_range(t.signed, n)
        wrapped = any(not (lo <= x.numerator <= hi) for x in xs)
        if res.codes != exp:
            j = next(j for j, (a_, b_) in enumerate(zip(res.codes, exp)) if a_ != b_)
            ctx.violation('register', '%s(%s) into %s/wrap via %s: exact raw result %d -> register value %d, library %r' % (
                ev.op, ', '.join(R.dtype_fxp(*o.fmt()) for o in ops), R.dtype_fxp(*t.fmt()), 'out_like' if like else 'out', xs[j].numerator, exp[j], res.codes[j]), ev)
        big = max(abs(x.numerator) for x in xs).bit_length() > 62
        ctx.judged(('register-function', ev.op, 'out_like' if like else 'out', 's' if t.signed else 'u', G.word_class(n), wrapped, big), wrapped or big, None, elements=len(xs))
        if wrapped or big:
            ctx.floor_hit(('register-function', 'dot' if ev.op == 'dot' else 'one-variable'))
    return [store_judge, register_judge, resize_judge, reduce_register_judge]


def _raw_bits(ai, exact_values):
    """bits of the exact raw result at its natural fraction length (before any down-scaling)"""
    natural = (ai.x.n_frac + ai.y.n_frac) if ai.op == 'mul' else max(ai.x.n_frac, ai.y.n_frac)
    sc = F(2) ** natural
    return max(abs(int(e * sc)).bit_length() for e in exact_values)


def _float_downscale_model(ai, tfmt, rounding):
    """what the raw kernels compute when the target has fewer fraction bits than the operands need: Python arithmetic with the same
    int / float mix (int * 2**negative is a float multiplication of the correctly rounded double of the int)"""
    n = tfmt[1]
    xa = np.empty(len(ai.x.codes), dtype=object)
    xa[:] = ai.x.codes
    xa = xa.reshape(ai.x.shape)
    ya = np.empty(len(ai.y.codes), dtype=object)
    ya[:] = ai.y.codes
    ya = ya.reshape(ai.y.shape)
    nf = tfmt[2]
    if ai.op == 'mul':
        f = 2 ** (nf - ai.x.n_frac - ai.y.n_frac)
        raw = (xa * ya) * f
    else:
        t1 = xa * 2 ** (nf - ai.x.n_frac)
        t2 = ya * 2 ** (nf - ai.y.n_frac)
        raw = t1 + t2 if ai.op == 'add' else t1 - t2
    flat = raw.ravel().tolist() if isinstance(raw, np.ndarray) else [raw]
    return [R.wrap(R.round_exact(F(v), rounding), tfmt[0], n) for v in flat]


def _pyint_carrier(c):
    if isinstance(c, bool):
        return False
    if isinstance(c, int):
        return True
    if isinstance(c, (list, tuple)):
        return len(c) > 0 and all(_pyint_carrier(x) for x in c)
    if isinstance(c, np.ndarray):
        return c.dtype == object and all(type(x) is int for x in c.ravel().tolist())
    return False


def floors(tier):
    return [('wide', n) for n in WIDE] + [('core', s, r) for s in 'su' for r in G.ROUNDINGS] + \
           [('register', op, way) for op in ('add', 'sub', 'mul') for way in ('out', 'same')] + [('resize-wrap',), ('register-rounded',)] + \
           [('wide-from-fixed-point', True), ('wide-from-fixed-point', False), ('resize-wrap-wide',), ('register-wide-upshift',), ('register-uu-coarser-subtrahend',),
            ('register-function', 'dot'), ('register-function', 'one-variable'), ('register-from-wide-accumulator',),
            ('register-far-apart-fractions',), ('register-from-wide-source-dropping-bits',), ('register-through-view',), ('register-element-operands',)]


# ------------------------------------------------------------------------------------------ workload
def cases(tier, seed):
    wmax = 4 if tier == 'quick' else 6
    for signed in (True, False):
        for n_word in range(1, wmax + 1):
            for n_frac in range(-8, n_word + 9):
                for r in G.ROUNDINGS:
                    yield {'k': 'exh', 'signed': signed, 'n_word': n_word, 'n_frac': n_frac, 'rounding': r, 'overflow': 'wrap', 'single': False}
    n = 1200 if tier == 'quick' else 30000
    for i in range(n):
        yield {'k': 'core', 'i': i}
    n = 600 if tier == 'quick' else 20000
    for i in range(n):
        yield {'k': 'wide', 'i': i}
    n = 1200 if tier == 'quick' else 30000
    for i in range(n):
        yield {'k': 'register', 'i': i}


def _try(f):
    try:
        return f()
    except Exception:
        return None


def run_case(case, ctx):
    Fxp = ctx.mon.Fxp
    fm = ctx.mon.fxpmath
    k = case['k']
    if k == 'exh':
        return c01.run_case(case, ctx)
    rng = ctx.rng_for(k, case['i'])
    i = case['i']
    if k == 'core':
        s, w, nf = G.core_format(rng)
        r = G.ROUNDINGS[i % 5]
        vals = G.hostile_scaled_values(rng, s, w, nf, n=6, ranges_outside=4)
        vals = [v for v in vals if G.can_carry(v, 'pyfloat')] or [F(0)]
        # shift invariance: v and v + m * 2^(n_word - n_frac), m any integer (also negative), in the same store
        P = F(2) ** (w - nf)
        ext = []
        for v in vals[:4]:
            for mm in (rng.randint(-4, 4), rng.randint(-4, 4)):
                u = v + mm * P
                if abs(u) < 2 ** 53 and abs(u * F(2) ** nf) < 2 ** 62 and G.can_carry(u, 'pyfloat'):
                    ext.append(u)
        allv = vals + ext
        _try(lambda: Fxp(np.array([float(v) for v in allv]), s, w, nf, rounding=r, overflow='wrap'))
        # resizing a wrap register: signedness flips, narrowing, widening, fraction changes
        z = _try(lambda: Fxp(float(vals[0]), s, w, nf, rounding=r, overflow='wrap'))
        if z is not None:
            _try(lambda: z.resize(signed=not z.signed))
            _try(lambda: z.resize(n_word=max(1, z.n_word - rng.randint(1, 3))))
            _try(lambda: z.resize(not z.signed, min(52, z.n_word + rng.randint(0, 2)), z.n_frac))
            _try(lambda: z.resize(n_frac=max(-8, z.n_frac - rng.randint(1, 3))))
            _try(lambda: z.resize(dtype=R.dtype_fxp(not z.signed, z.n_word, z.n_frac)))
        za = _try(lambda: Fxp(np.array([float(v) for v in allv[:4]]), s, w, nf, rounding=r, overflow='wrap'))
        if za is not None:
            _try(lambda: za.resize(signed=not za.signed))
            _try(lambda: za.resize(za.signed, max(1, za.n_word - 2), za.n_frac))
        x = Fxp(None, s, w, nf, rounding=r, overflow='wrap')
        for v in allv[:6]:
            _try(lambda: x(float(v)))
            if v.denominator == 1:
                _try(lambda: x.set_val(int(v)))
        return
    if k == 'wide':
        n = WIDE[i % len(WIDE)]
        s = bool((i // len(WIDE)) % 2)
        nf = rng.choice([0, 1, n // 2, n - 1, n])
        lo, hi = R.code_range(s, n)
        m = 1 << n

        def big():
            c = rng.choice(['bound', 'mult', 'rand', 'in'])
            if c == 'bound':
                return rng.choice([lo, hi]) + rng.randint(-3, 3)
            if c == 'mult':
                return rng.randint(-5, 5) * m + rng.randint(-3, 3)
            if c == 'rand':
                return rng.choice([-1, 1]) * rng.getrandbits(rng.randint(n - 2, 4 * n))
            return rng.randint(lo, hi)
        ks = [big() for _ in range(4)]
        r = G.ROUNDINGS[i % 5]
        for kk in ks:
            _try(lambda: Fxp(kk, s, n, nf, raw=True, overflow='wrap', rounding=r))
            _try(lambda: Fxp(kk, s, n, 0, overflow='wrap', rounding=r))
        x = Fxp(None, s, n, nf, overflow='wrap')
        _try(lambda: x.set_val(ks[0], raw=True))
        y = Fxp(None, s, n, 0, overflow='wrap')
        _try(lambda: y(ks[1]))
        _try(lambda: y.set_val(ks[2]))
        _try(lambda: Fxp(list(ks), s, n, nf, raw=True, overflow='wrap'))
        # shift invariance in one store (raw mode: multiples of the modulus)
        _try(lambda: Fxp([ks[3], ks[3] + m, ks[3] - 3 * m, ks[3] + 7 * m], s, n, nf, raw=True, overflow='wrap'))
        return
    if k == 'register':
        # n-bit hardware register: (a op b) mod 2^n
        # independent digits of the case index (width class, operation, rank, rounding, extra blocks)
        j_ = i
        wide = (j_ % 4 == 0)
        j_ //= 4
        op_digit = j_ % 3
        j_ //= 3
        rank_digit = j_ % 2
        j_ //= 2
        r_digit = j_ % 5
        j_ //= 5
        mixed_digit = j_ % 3
        j_ //= 3
        qxq_digit = j_ % 2
        if wide:
            n = rng.choice([64, 65, 96, 128])
        else:
            n = rng.choice([1, 2, 3, 4, 8, 8, 12, 16, 16, 24, 31, 32, 33, 40, 52])
        s = rng.random() < 0.5
        op = ('add', 'sub', 'mul')[op_digit]
        nf = 0 if op == 'mul' else rng.choice([0, 0, n // 2, n])
        if n > 20 and op == 'mul' and not wide and n > 31:
            n = rng.choice([8, 16, 24, 31])
        lo, hi = R.code_range(s, n)

        def code():
            return rng.choice([lo, hi, rng.randint(lo, hi), rng.randint(lo, hi), hi - 1 if hi > lo else hi])
        rank = rank_digit
        a = code() if rank == 0 else [code() for _ in range(3)]
        b = code() if rank == 0 else [code() for _ in range(3)]
        r = G.ROUNDINGS[r_digit]

        def mk(c, **kw):
            return Fxp(c, s, n, nf, raw=True, overflow='wrap', rounding=r, **kw)
        oper = {'add': lambda p, q: p + q, 'sub': lambda p, q: p - q, 'mul': lambda p, q: p * q}[op]
        func = getattr(fm, op)
        # out=
        _try(lambda: func(mk(a), mk(b), out=Fxp(None, s, n, nf, overflow='wrap')))
        # op_sizing='same'
        _try(lambda: oper(mk(a, op_sizing='same'), mk(b)))
        _try(lambda: func(mk(a), mk(b), sizing='same'))
        # operands of mixed signedness and different widths whose raw result needs 54..62 bits, stored into a short wrap register
        if mixed_digit == 2 or op == 'mul':
            wa, wb = rng.randint(30, 44), rng.randint(10, 62 - 44)
            sa = rng.random() < 0.5
            sb = not sa if rng.random() < 0.7 else sa
            la, ha = R.code_range(sa, wa)
            lb, hb = R.code_range(sb, wb)
            ca = rng.choice([la, ha, rng.randint(la, ha), rng.randint(la, ha) | 1])
            cb = rng.choice([lb, hb, rng.randint(lb, hb), rng.randint(lb, hb) | 1])
            nreg = rng.choice([4, 8, 12, 16, 24, 32])
            sreg = sa or sb
            xa = Fxp(ca, sa, wa, 0, raw=True)
            xb = Fxp(cb, sb, wb, 0, raw=True)
            for fn in (fm.mul, fm.add, fm.sub):
                _try(lambda: fn(xa, xb, out=Fxp(None, sreg, nreg, 0, overflow='wrap')))
                _try(lambda: fn(xb, xa, out_like=Fxp(None, sreg, nreg, 0, overflow='wrap', rounding=r)))
            reg = Fxp(None, sreg, nreg, 0, overflow='wrap')
            _try(lambda: reg.equal(xa * xb))
        # the ordinary Q x Q -> Q multiply / accumulate: the register keeps fewer fraction bits than the exact result has
        if not wide and qxq_digit == 0:
            wq = rng.choice([8, 12, 16, 24, 31, 32])
            fq = rng.randint(1, wq - 1)
            sq = rng.random() < 0.7
            lq, hq = R.code_range(sq, wq)
            ca, cb = [rng.choice([lq, hq, rng.randint(lq, hq), rng.randint(lq, hq) | 1]) for _ in range(2)]
            qa = Fxp(ca, sq, wq, fq, raw=True, overflow='wrap', rounding=r, op_sizing='same')
            qb = Fxp(cb, sq, wq, fq, raw=True, overflow='wrap', rounding=r)
            _try(lambda: qa * qb)
            _try(lambda: fm.mul(qa, qb, out=Fxp(None, sq, wq, fq, overflow='wrap', rounding=r)))
            _try(lambda: fm.mul(qa, qb, out_like=Fxp(None, sq, wq, max(0, fq - 2), overflow='wrap', rounding=r)))
            qc = Fxp(rng.randint(lq, hq), sq, wq, min(wq, fq + rng.randint(1, 6)), raw=True)
            _try(lambda: qa + qc)
            _try(lambda: fm.sub(qa, qc, out=Fxp(None, sq, wq, fq, overflow='wrap', rounding=r)))
        # short unsigned operands subtracted / added into registers of 64+ bits
        if wide:
            ua = Fxp(rng.randint(0, 255), False, 8, 0, raw=True)
            ub = Fxp(rng.randint(0, 255), False, 8, rng.choice([0, 2]), raw=True)
            for sreg_ in (True, False):
                for fn in (fm.sub, fm.add):
                    _try(lambda: fn(ua, ub, out=Fxp(None, sreg_, n, rng.choice([0, 4]), overflow='wrap')))
                    _try(lambda: fn(Fxp([3, 200], False, 8, 0), Fxp([5, 100], False, 8, 0), out_like=Fxp(None, sreg_, n, 0, overflow='wrap')))
        # two unsigned operands of different fraction lengths, the coarser one subtracted: value(x) < value(y) although code(x) >= code(y); into wrap
        # registers with fewer fraction bits than x (rounding of a NEGATIVE difference), short and 64 bits wide
        if mixed_digit != 1:
            wx, fx_ = rng.choice([(12, 4), (16, 8), (10, 5), (24, 12), (31, 9)])
            wy = rng.choice([6, 8, 10])
            fy_ = rng.choice([0, 0, 1, 2])
            cy = rng.randint(1, (1 << wy) - 1)
            lo_c = cy + 1
            hi_c = min((1 << wx) - 1, (cy << (fx_ - fy_)) - 1)
            if lo_c <= hi_c:
                cx = rng.choice([hi_c, lo_c, rng.randint(lo_c, hi_c), rng.randint(lo_c, hi_c) | 1])
                ux = Fxp(cx, False, wx, fx_, raw=True)
                uy = Fxp(cy, False, wy, fy_, raw=True)
                for nreg_, freg_ in ((8, 0), (16, max(0, fx_ - 2)), (52, fy_), (64, 0), (12, fx_ - 1)):
                    _try(lambda: fm.sub(ux, uy, out=Fxp(None, True, nreg_, freg_, overflow='wrap', rounding=r)))
                    _try(lambda: fm.sub(ux, uy, out_like=Fxp(None, rng.random() < 0.5, nreg_, freg_, overflow='wrap', rounding=r)))
                _try(lambda: fm.sub(Fxp([cx, 0, cx], False, wx, fx_, raw=True), Fxp([cy, 1, 0], False, wy, fy_, raw=True), out=Fxp(None, True, 8, 0, overflow='wrap', rounding=r)))
                ctx.floor_hit(('register-uu-coarser-subtrahend',))
        # products / sums of short operands stored into registers of 65+ bits that have MORE fraction bits than the exact result: the raw result is shifted
        # up past 2^63 although the operand words together stay below 64 bits
        if wide and n > 64:
            wa_, wb_ = rng.randint(12, 30), rng.randint(12, 30)
            sa_ = rng.random() < 0.7
            la_, ha_ = R.code_range(sa_, wa_)
            lb_, hb_ = R.code_range(sa_, wb_)
            ca_ = rng.choice([la_, ha_, rng.randint(la_, ha_) | 1, rng.randint(la_, ha_)])
            cb_ = rng.choice([lb_, hb_, rng.randint(lb_, hb_) | 1, rng.randint(lb_, hb_)])
            fa_, fb_ = rng.choice([0, 0, 3]), rng.choice([0, 2])
            up_ = rng.randint(max(1, 62 - wa_ - wb_), 62)
            pa_, pb_ = Fxp(ca_, sa_, wa_, fa_, raw=True), Fxp(cb_, sa_, wb_, fb_, raw=True)
            for fn, nfres in ((fm.mul, fa_ + fb_), (fm.add, max(fa_, fb_)), (fm.sub, max(fa_, fb_))):
                if nfres + up_ <= n:
                    _try(lambda: fn(pa_, pb_, out=Fxp(None, True, n, nfres + up_, overflow='wrap')))
                    _try(lambda: fn(pa_, pb_, out_like=Fxp(None, sa_, n, nfres + up_, overflow='wrap')))
            pa_.config.op_out = Fxp(None, True, n, min(n, fa_ + fb_ + up_), overflow='wrap')
            _try(lambda: pa_ * pb_)
            ctx.floor_hit(('register-wide-upshift',))
        # accumulators of 55..62 bits that were created from a number (float value type) and then hold a code of more than 53 significant bits, moved into
        # short wrap registers by every route: every bit of the code counts for the residue
        if mixed_digit == 0:
            wa2 = rng.randint(55, 62)
            fa2 = rng.choice([4, 8])
            code_ = rng.choice([1, -1]) * ((1 << (wa2 - 2)) + rng.getrandbits(wa2 - 3) | 1)
            acc2 = _try(lambda: Fxp(0.0, True, wa2, fa2))
            if acc2 is not None:
                _try(lambda: acc2.set_val(code_, raw=True))
                for nr_, fr_ in ((16, fa2), (24, fa2), (32, fa2), (8, fa2)):
                    for sg_ in (True, False):
                        _try(lambda: Fxp(None, sg_, nr_, fr_, overflow='wrap')(acc2))
                        _try(lambda: Fxp(acc2, like=Fxp(None, sg_, nr_, fr_, overflow='wrap')))
                        _try(lambda: Fxp(None, sg_, nr_, fr_, overflow='wrap').set_val(acc2))
                        rr_ = Fxp(np.zeros(2), sg_, nr_, fr_, overflow='wrap')
                        _try(lambda: rr_.__setitem__(slice(0, 2), Fxp(np.array([code_, 1], dtype=object), True, wa2, fa2, raw=True)))
                        _try(lambda: Fxp(None, sg_, nr_, fr_, overflow='wrap').equal(acc2))
                ctx.floor_hit(('register-from-wide-accumulator',))
        # (A) sums / differences of operands whose fraction lengths lie far apart, into a core register whose fraction length lies in between: the exact sum has
        # more than 53 significant bits and its dropped bits are all ones (one LSB below a grid point) - a sum formed in doubles lands on the grid point
        if mixed_digit == 1:
            fxa = rng.randint(24, 30)
            dd = rng.randint(8, 12)
            nft = fxa - dd
            a_hi = rng.randint(1, 2 ** (31 - dd) - 1)
            cxa = (a_hi << dd) + (2 ** dd - 1)
            cya = rng.choice([2 ** 30 - 1, 2 ** 30 - rng.randint(2, 99), rng.randint(2 ** 29, 2 ** 30)]) * rng.choice([1, -1])
            xa_ = Fxp(cxa * rng.choice([1, -1]), True, 32, fxa, raw=True)
            ya_ = Fxp(cya, True, 32, 0, raw=True)
            for rr_ in ('floor', 'trunc', 'ceil', 'around'):
                for fn in (fm.add, fm.sub):
                    _try(lambda: fn(xa_, ya_, out=Fxp(None, True, rng.randint(40, 52), nft, overflow='wrap', rounding=rr_)))
                    _try(lambda: fn(ya_, xa_, out_like=Fxp(None, True, rng.randint(24, 52), nft, overflow='wrap', rounding=rr_)))
            xa_.config.op_out = Fxp(None, True, 48, nft, overflow='wrap', rounding='floor')
            _try(lambda: xa_ + ya_)
            ctx.floor_hit(('register-far-apart-fractions',))
        # (D) operands that are ELEMENTS of arrays (their codes are NumPy scalars, not arrays) whose exact raw result needs 64 bits or more, into wrap registers;
        # an unsigned element minus an unsigned operand with a negative difference into registers with fewer fraction bits / of more than 64 bits
        if mixed_digit == 0 and qxq_digit == 0:
            we_ = rng.randint(36, 44)
            le_, he_ = R.code_range(True, we_)
            ae_ = Fxp([rng.choice([le_, he_, rng.randint(le_, he_) | 1]) for _ in range(3)], True, we_, rng.choice([0, 3]), raw=True)
            be_ = Fxp([rng.choice([le_, he_, rng.randint(le_, he_) | 1]) for _ in range(3)], True, we_, rng.choice([0, 2]), raw=True)
            um_ = Fxp([rng.randint(2 ** 50, 2 ** 52 - 1), 3, 1], False, 52, 6, raw=True)
            sm_ = Fxp([-rng.randint(2 ** 49, 2 ** 51 - 1), 5], True, 52, 2, raw=True)
            for nr2, fr2 in ((72, 5), (16, 0), (24, 6), (64, 0)):
                for sg2 in (True, False):
                    reg2_ = lambda: Fxp(None, sg2, nr2, fr2, overflow='wrap', rounding=r)
                    _try(lambda: fm.mul(ae_[0], be_[1], out=reg2_()))
                    _try(lambda: fm.mul(ae_[2], be_, out_like=reg2_()))
                    if sg2:
                        _try(lambda: fm.add(um_[0], sm_[0], out=reg2_()))
                        _try(lambda: fm.sub(sm_[0], um_[0], out_like=reg2_()))
            ue_ = Fxp([rng.randint(0, 2 ** 20), rng.randint(2 ** 30, 2 ** 40), 7], False, 44, 8, raw=True)
            uf_ = Fxp([rng.randint(2 ** 41, 2 ** 43), 1], False, 44, 8, raw=True)
            for nr2, fr2, sg2 in ((16, 0, True), (72, 4, False), (24, 6, True), (64, 2, False)):
                for rr2 in ('trunc', 'floor', 'around', 'ceil'):
                    _try(lambda: fm.sub(ue_[0], uf_[0], out=Fxp(None, sg2, nr2, fr2, overflow='wrap', rounding=rr2)))
                    _try(lambda: fm.sub(ue_[1], uf_, out_like=Fxp(None, sg2, nr2, fr2, overflow='wrap', rounding=rr2)))
            ctx.floor_hit(('register-element-operands',))
        # (B) sources of 64..96 bits whose python-integer codes have more than 53 significant bits but whose VALUE is small, moved into core wrap registers with
        # fewer fraction bits by every route: the dropped bits decide the rounding (they must not pass through a double)
        if mixed_digit == 2:
            ww_ = rng.choice([64, 72, 96])
            fw_ = ww_ - rng.randint(18, 28)
            cw_ = rng.choice([1, -1]) * (((1 << (ww_ - 3)) + rng.getrandbits(ww_ - 4)) | 1)
            drop_ = rng.randint(fw_ - 20, fw_ - 2)
            lowones = (cw_ >> drop_ << drop_) + (2 ** drop_ - 1)         # dropped bits all ones
            for code_w in (cw_, lowones):
                srcw = _try(lambda: Fxp(code_w, True, ww_, fw_, raw=True))
                srca = _try(lambda: Fxp(np.array([code_w, 1, -code_w], dtype=object), True, ww_, fw_, raw=True))
                if srcw is None or srca is None:
                    continue
                for rr_ in ('trunc', 'floor', 'around', 'ceil'):
                    nr_ = rng.choice([16, 24, 40, 52])
                    fr_ = fw_ - drop_
                    sgr_ = rng.random() < 0.7
                    mkreg = lambda shp=None: Fxp(np.zeros(shp) if shp else None, sgr_, nr_, fr_, overflow='wrap', rounding=rr_)
                    # equal() and like() are not store events of their own for the judges: compared here with the residue of the rounded value
                    for nm_, f_ in (('equal', lambda: mkreg().equal(srcw)), ('like', lambda: srcw.like(mkreg())), ('equal-array', lambda: mkreg((3,)).equal(srca))):
                        try:
                            got_ = [int(c_) for c_ in np.asarray(f_().val, dtype=object).ravel().tolist()]
                        except Exception as e_:
                            ctx.violation('raises', '%s of a %d-bit source into a wrap register raised %s' % (nm_, ww_, type(e_).__name__), key='wrap.raises')
                            continue
                        srcs_ = [code_w] if nm_ != 'equal-array' else [code_w, 1, -code_w]
                        want_ = [R.wrap(R.round_exact(F(c_) / F(2) ** drop_, rr_), sgr_, nr_) for c_ in srcs_]
                        if got_ != want_:
                            ctx.violation('not_residue', '%s: fxp-s%d/%d code %d into fxp-%s%d/%d %s/wrap: register holds %s, the residue of the rounded value is %s' % (
                                nm_, ww_, fw_, code_w, 's' if sgr_ else 'u', nr_, fr_, rr_, got_, want_), key='wrap.equal_like')
                        ctx.judged(('register-equal-like', nm_, rr_), True, None)
                    _try(lambda: mkreg().equal(srcw))
                    _try(lambda: Fxp(srcw, like=mkreg()))
                    _try(lambda: srcw.like(mkreg()))
                    _try(lambda: mkreg()(srcw))
                    _try(lambda: mkreg((3,)).set_val(srca))
                    _try(lambda: mkreg((3,)).equal(srca))
                    _try(lambda: Fxp(srca, like=mkreg()))
            ctx.floor_hit(('register-from-wide-source-dropping-bits',))
        # (C) chained indexed assignment into an UNSIGNED 2-dimensional wrap register: the element / row object performs the store, the register keeps the residue
        # of its own (unsigned) word.  Workload-level comparison (the store event only sees the element object)
        if qxq_digit == 1 and mixed_digit != 1 and not wide:
            nu_ = rng.randint(4, 24)
            fu_ = rng.choice([0, 0, 2])
            regu = Fxp(np.zeros((2, 3)), False, nu_, fu_, overflow='wrap', rounding=r)
            vals_ = [float(rng.randint(2 ** (nu_ - 1), 2 ** nu_ - 1)) / 2 ** fu_, -float(rng.randint(1, 2 ** nu_)) / 2 ** fu_, float(rng.randint(2 ** nu_, 2 ** (nu_ + 2))) / 2 ** fu_]
            try:
                regu[0][1] = vals_[0]
                regu[1][2] = vals_[1]
                rowu = regu[1]
                rowu[0] = vals_[2]
                got_ = np.asarray(regu.val, dtype=object).tolist()
                for (a_, b_), v_ in (((0, 1), vals_[0]), ((1, 2), vals_[1]), ((1, 0), vals_[2])):
                    want_ = R.wrap(R.round_exact(F(v_) * F(2) ** fu_, r), False, nu_)
                    if int(got_[a_][b_]) != want_:
                        ctx.violation('not_residue', 'fxp-u%d/%d %s/wrap: reg[%d][%d] = %s left code %r in the register, the residue of the rounded input is %d' % (
                            nu_, fu_, r, a_, b_, v_, got_[a_][b_], want_), key='wrap.through_view')
                ctx.judged(('register-through-view', G.word_class(nu_), r), True, None)
                ctx.floor_hit(('register-through-view',))
            except Exception as e_:
                ctx.violation('raises', 'chained indexed assignment into an unsigned wrap register raised %s' % type(e_).__name__, key='wrap.raises')
        # stored results (fixed-point objects, scalars and lopsided arrays) moved into wrap registers of 64+ bits with more fraction bits, by every route
        if wide:
            ws_ = rng.randint(16, 44)
            ls_, hs_ = R.code_range(True, ws_)
            fs_ = rng.choice([0, 0, 4])
            arrs = [[ls_, 1, 0, rng.randint(1, 7)], [hs_, -1, ls_ + 1, 3], [rng.randint(ls_, hs_) for _ in range(3)]]
            srcs = [Fxp(rng.choice([ls_, hs_, rng.randint(ls_, hs_)]), True, ws_, fs_, raw=True)] + [Fxp(np.array(a_), True, ws_, fs_, raw=True) for a_ in arrs]
            for up_ in (rng.randint(max(1, 62 - ws_), 70 - ws_ + 10), rng.randint(1, 20)):
                nfreg = fs_ + up_
                if nfreg > n:
                    continue
                for sreg_ in (True, False):
                    for src in srcs:
                        shp_ = np.shape(src.val)
                        _try(lambda: Fxp(src, like=Fxp(None, sreg_, n, nfreg, overflow='wrap')))
                        _try(lambda: Fxp(src, sreg_, n, nfreg, overflow='wrap'))
                        _try(lambda: Fxp(np.zeros(shp_) if shp_ else None, sreg_, n, nfreg, overflow='wrap').set_val(src))
                        _try(lambda: Fxp(np.zeros(shp_) if shp_ else None, sreg_, n, nfreg, overflow='wrap')(src))
                        _try(lambda: Fxp(np.zeros(shp_) if shp_ else None, sreg_, n, nfreg, overflow='wrap').equal(src))
                        _try(lambda: src.like(Fxp(None, sreg_, n, nfreg, overflow='wrap')))
                        cp = _try(lambda: src.deepcopy())
                        if cp is not None:
                            cp.config.overflow = 'wrap'
                            _try(lambda: cp.resize(sreg_, n, nfreg))
        # results of the one-variable functions and of dot written to wrap registers: wide ones with more fraction bits (the raw result is shifted up
        # past 2^63), short ones that the exact result wraps around in; dot with operands of mixed signedness
        if qxq_digit == 1 or wide:
            wv = rng.choice([16, 24, 28, 29, 31, 31, 32, 40, 62, 63])     # (28 / 29: mixed-sign dot products of 54..61 bits; 62 / 63: sums that leave 64 bits)
            sv = rng.random() < 0.6
            lv, hv = R.code_range(sv, wv)
            vcodes = [rng.choice([lv, hv, rng.randint(lv, hv), rng.randint(lv, hv) | 1]) for _ in range(4)]
            fv = rng.choice([0, 0, 2])
            xv = Fxp(np.array(vcodes), sv, wv, fv, raw=True)
            xm = Fxp(np.array(vcodes).reshape(2, 2), sv, wv, fv, raw=True)
            if wide:
                nreg2, freg2 = n, min(n, fv + rng.randint(max(1, 60 - wv), 66))
            else:
                nreg2, freg2 = rng.choice([8, 16, 24, 32]), fv
            def reg2(sg=True):
                return Fxp(None, sg or sv, nreg2, freg2, overflow='wrap')
            for fn in (fm.sum, fm.cumsum, fm.fxp_max, fm.fxp_min, fm.sort):
                _try(lambda: fn(xv, out=reg2()))
                _try(lambda: fn(xv, out_like=reg2(rng.random() < 0.5)))
            _try(lambda: xv.sum(out=reg2()))
            _try(lambda: xm.sum(axis=0, out_like=reg2()))
            _try(lambda: fm.transpose(xm, out=Fxp(np.zeros((2, 2)), True, nreg2, freg2, overflow='wrap')))
            _try(lambda: fm.diagonal(xm, out_like=reg2()))
            _try(lambda: fm.trace(xm, out=reg2()))
            yv = Fxp(np.array([rng.choice([lv, hv, rng.randint(lv, hv)]) for _ in range(4)]) if sv else np.array([rng.randint(0, hv) for _ in range(4)]), not sv if wv <= 32 else sv, wv, 0, raw=True, overflow='wrap') \
                if rng.random() < 0.7 else Fxp(np.array(vcodes), sv, wv, 0, raw=True)
            # matrix products whose contracted length differs from the number of result columns ((m x K) . (K x n), n < K and n > K)
            kk_ = rng.choice([4, 8, 16])
            mcodes = [rng.choice([lv, hv, rng.randint(lv, hv)]) for _ in range(kk_)]
            xrow = Fxp(np.array(mcodes).reshape(1, kk_), sv, wv, 0, raw=True)
            ycol = Fxp(np.array(list(reversed(mcodes))).reshape(kk_, 1), sv, wv, 0, raw=True)
            y2 = Fxp(np.array((mcodes * 2)[:2 * kk_]).reshape(kk_, 2), sv, wv, 0, raw=True)
            for rw in ((96, 0), (65, 0), (128, 0)):
                _try(lambda: fm.dot(xrow, ycol, out=Fxp(np.zeros((1, 1)), True, rw[0], rw[1], overflow='wrap')))
                _try(lambda: fm.dot(xrow, y2, out_like=Fxp(None, True, rw[0], rw[1], overflow='wrap')))
                _try(lambda: xrow.dot(ycol, out_like=Fxp(None, True, rw[0], rw[1], overflow='wrap')))
            if 2 * fv <= freg2 or True:
                _try(lambda: fm.dot(xv, yv, out=Fxp(None, True, nreg2, max(freg2, fv), overflow='wrap')))
                _try(lambda: fm.dot(yv, xv, out_like=Fxp(None, True, nreg2 if nreg2 >= 16 else 16, fv, overflow='wrap')))
                _try(lambda: xv.dot(yv, out=Fxp(None, True, 32, fv, overflow='wrap')))
        # accumulate in place
        acc = mk(a, op_sizing='same')
        for _ in range(3):
            try:
                if op == 'add':
                    acc += mk(b)
                elif op == 'sub':
                    acc -= mk(b)
                else:
                    acc *= mk(b)
            except Exception:
                break
