"""C04 - status flags and callbacks report exactly what happened, and are sticky."""
from fractions import Fraction as F

import numpy as np

from .. import refmodel as R
from .. import gen as G
from .. import arith as A
from .. import universal as U
from ..exact import Unsupported
from ..storejudge import decode_store, expected_post_codes, in_core_domain, STORE_OPS, init_arguments, as_library_sees, UNDERFLOW_KEY

from ..monitor import CallbackRecorder
from .. import reducejudge as RJ

ID = 'C04'
TECHNIQUE = "runtime monitoring: recording callbacks (the library's own notification points) + status snapshots along write / reset / resize / arithmetic histories, judged against a shadow flag model; sticky-flag monitor (U3)"
TITLE = 'flags and callbacks exact and sticky'
RULE = ('write events on core-domain objects (plain values by constructor/call/set_val/indexed assignment; resize as a re-store): status '
        'after = status before OR {overflow: some rounded element > max, underflow: some < min, inaccuracy: some stored value != input}; the '
        'recording callback registered on the object must see exactly those conditions once each plus one value change; reset() clears the three '
        'flags and keeps every other key; no flag ever goes True->False otherwise; results of arithmetic / NumPy functions / Fxp(x) carry the '
        'inaccuracy flag when an operand carried it. Key = (op kind, scalar/array/indexed, flags raised by this step, flags already set); '
        'non-trivial = the step raised or had to preserve at least one flag, or is a reset after a raised flag.')
DECIDING_OPS = ['set_val', '__call__', '__setitem__', 'reset', 'resize', ('__add__', 'add')]
ANCHORS = ['objects.Fxp._overflow_action', 'objects.Fxp.set_val', 'objects.Fxp.reset', 'objects.Fxp._run_callbacks',
           'functions._function_over_two_vars', 'functions._function_over_one_var']
EXHAUSTIVE = {'quick': 'single writes of every quarter-LSB input within 1.25 LSB of both bounds (+ interior samples) for all formats n_word<=4, n_frac -2..n_word+2, 10 mode pairs',
              'thorough': 'same for n_word<=5, n_frac -8..n_word+8'}
SHARDS = {'quick': 16, 'thorough': 16}
_FL = ('overflow', 'underflow', 'inaccuracy')


def flagset(st):
    return tuple(f for f in _FL if st.get(f))


def _pyint_values(c):
    if isinstance(c, bool):
        return False
    if isinstance(c, int):
        return True
    if isinstance(c, (list, tuple)):
        return len(c) > 0 and all(_pyint_values(x) for x in c)
    return False


def make_judges(ctx):
    mon = ctx.mon
    Fxp = mon.Fxp
    rec = mon.recorder

    def has_recorder(obj):
        # number of recording callbacks registered on the object NOW (the history may have added, removed or replaced some since construction)
        cbs = getattr(obj, 'callbacks', None) or []
        return sum(1 for c in cbs if isinstance(c, CallbackRecorder))

    def judge_write(ev, kind, pre_status, post, over, under, inexact, rank, check_callbacks, alt=None):
        if alt is not None:
            # known finding: an input whose scaled double product underflows to +-0 is seen as 0 by the library
            got0 = dict((f, bool(post.status.get(f))) for f in _FL)
            e1 = dict((f, bool(pre_status.get(f))) for f in _FL)
            e1['overflow'] |= over
            e1['underflow'] |= under
            e1['inaccuracy'] |= inexact
            e2 = dict((f, bool(pre_status.get(f))) for f in _FL)
            e2['overflow'] |= alt[0]
            e2['underflow'] |= alt[1]
            e2['inaccuracy'] |= inexact      # (the inaccuracy comparison is made against the unscaled input)
            if got0 != e1 and got0 == e2:
                ctx.violation('status', '%s on %s: flags %s follow the input as scaled in double arithmetic (+-0), the exact input gives %s' % (ev.op, R.dtype_fxp(*post.fmt()), got0, e1), ev, key=UNDERFLOW_KEY)
                return
        exp = dict((f, bool(pre_status.get(f))) for f in _FL)
        exp['overflow'] |= over
        exp['underflow'] |= under
        exp['inaccuracy'] |= inexact
        got = dict((f, bool(post.status.get(f))) for f in _FL)
        if got != exp:
            ctx.violation('status', '%s on %s %s/%s: status %s, expected %s (this write: overflow=%s underflow=%s inexact=%s; before: %s)' % (
                ev.op, R.dtype_fxp(*post.fmt()), post.rounding, post.overflow, got, exp, over, under, inexact, flagset(pre_status)), ev)
        if check_callbacks:
            mine = [c for c, oid in ev.callbacks if oid == id(ev.receiver)]
            want = sorted((['overflow'] if over else []) + (['underflow'] if under else []) + (['inaccuracy'] if inexact else []) + ['value_change'])
            n = has_recorder(ev.receiver)
            if sorted(mine) != sorted(want * n):
                key = None
                if alt is not None:
                    want2 = sorted((['overflow'] if alt[0] else []) + (['underflow'] if alt[1] else []) + (['inaccuracy'] if inexact else []) + ['value_change'])
                    if sorted(mine) == sorted(want2 * n):
                        key = UNDERFLOW_KEY
                ctx.violation('callbacks', '%s on %s: callbacks invoked %s, expected %s' % (ev.op, R.dtype_fxp(*post.fmt()), sorted(mine), sorted(want * n)), ev, key=key)
            ctx.floor_hit(('callbacks', kind))
        raised = tuple(f for f, b in zip(_FL, (over, under, inexact)) if b)
        already = flagset(pre_status)
        nontriv = bool(raised or already)
        sample = None
        if ctx.want_sample() and nontriv:
            sample = {'op': ev.op, 'format': R.dtype_fxp(*post.fmt()), 'modes': [post.rounding, post.overflow], 'raised_now': raised, 'already_set': already,
                      'status_after': got, 'callbacks': [c for c, _ in ev.callbacks]}
        ctx.judged((kind, rank, raised, already, post.overflow), nontriv, sample)
        for f in raised:
            ctx.floor_hit(('raised', kind, f))

    def write_judge(ev):
        if ev.op not in STORE_OPS or ev.exc is not None:
            return
        try:
            si = decode_store(ev)
        except Unsupported as e:
            ctx.skip('write:' + str(e))
            return
        if si is None or si.post is None:
            return
        if (si.is_complex or si.post.is_complex) and (si.index is not None or not si.is_complex or si.fxp_source):
            return      # (complex values: whole-object writes of a complex value only; every component counts, each condition is reported once)
        post = si.post
        why = in_core_domain(si, post, allow_big_float_saturate=False)
        if why == 'input magnitude outside the core domain' and _pyint_values(si.carrier):
            why = None          # python integers of any size are exact inputs: what the write reports about them is decided like for any other value
            ctx.floor_hit(('huge-integer-write',))
        if why:
            ctx.skip('write:' + why)
            return
        try:
            codes, imag, shape, over, under, inexact, rounded = expected_post_codes(si)
        except Unsupported as e:
            ctx.skip('write:' + str(e))
            return
        if ev.op == '__init__':
            d = si.init_args or {}
            if getattr(Fxp, 'template', None) is not None or d.get('template') is not None:
                ctx.skip('write:constructor with a class template')
                return
            # a new object starts with a clear status record, also when it is built like= a template whose flags are raised
            pre_status = {}
            kind = 'constructor' if d.get('like') is None else 'constructor_like'
        else:
            pre_status = si.pre.status if si.pre is not None else {}
            kind = 'indexed' if si.index is not None else 'write'
        rank = 'scalar' if len(shape) == 0 else ('1d' if len(shape) == 1 else '2d')
        alt = None
        av = as_library_sees(si, post.n_frac)
        if av is not None:
            keep = si.values
            si.values = av
            try:
                r2 = expected_post_codes(si)
                alt = (r2[3], r2[4], r2[5])
            finally:
                si.values = keep
        judge_write(ev, kind, pre_status, post, over, under, inexact, rank, check_callbacks=(ev.op != '__init__' and has_recorder(ev.receiver) > 0), alt=alt)
        if si.is_complex:
            ctx.floor_hit(('complex-write-judged',))

    def resize_judge(ev):
        if ev.op != 'resize' or ev.exc is not None or ev.kind != 'method':
            return
        pre, post = ev.pre[0], ev.post[0]
        if pre is None or post is None or not A.usable(pre) or not A.usable(post):
            ctx.skip('resize:complex, scaled or uninitialised')
            return
        for s in (pre, post):
            if not (1 <= s.n_word <= 52 and -8 <= s.n_frac <= s.n_word + 8):
                ctx.skip('resize:outside the core domain')
                return
        d = dict(zip(('signed', 'n_word', 'n_frac', 'n_int', 'restore_val', 'dtype'), ev.args))
        d.update(ev.kwargs)
        if d.get('restore_val', True) is not True:
            return
        lsb = R.lsb(pre.n_frac)
        over = under = inexact = False
        nl = R.lsb(post.n_frac)
        for k in pre.codes:
            v = k * lsb
            c, ov, un, ru = R.quantize(v, post.signed, post.n_word, post.n_frac, post.rounding, post.overflow)
            over |= ov
            under |= un
            inexact |= (c * nl != v)
        rank = 'scalar' if len(pre.shape) == 0 else ('1d' if len(pre.shape) == 1 else '2d')
        judge_write(ev, 'resize', pre.status, post, over, under, inexact, rank, check_callbacks=has_recorder(ev.receiver) > 0)
        if bool(post.status.get('extended_prec')) != (post.n_word >= 64) or 'extended_prec' not in post.status:
            ctx.violation('status_record', 'after resize the status record is %r' % (post.status,), ev)

    def reset_judge(ev):
        if ev.op != 'reset' or ev.kind != 'method':
            return
        pre, post = ev.pre[0], ev.post[0]
        if ev.exc is not None:
            ctx.violation('reset_raises', 'reset() raised %s' % type(ev.exc).__name__, ev)
            return
        if pre is None or post is None:
            return
        bad = [f for f in _FL if post.status.get(f) is not False]
        if bad:
            ctx.violation('reset', 'after reset() the flags %s are not False: %r' % (bad, post.status), ev)
        lost = [k for k in pre.status if k not in post.status]
        changed = [k for k in pre.status if k not in _FL and k in post.status and post.status[k] != pre.status[k]]
        if lost or changed:
            ctx.violation('reset_record', 'reset() lost status keys %s / changed %s: before %r after %r' % (lost, changed, pre.status, post.status), ev,
                          key='status.reset_drops_key' if lost else None)
        try:        # "leaves the rest of the status record usable": every documented key is readable afterwards
            st = ev.receiver.status
            _ = [st[k] for k in pre.status]
            ev.receiver.get_status(str)
        except Exception as e:
            ctx.violation('reset_record', 'status record unusable after reset(): %s' % type(e).__name__, ev, key='status.reset_drops_key')
        ctx.judged(('reset', flagset(pre.status)), bool(flagset(pre.status)), None)
        ctx.floor_hit(('reset', bool(flagset(pre.status))))

    def fresh_callbacks_judge(ev):
        """callbacks are registered per object: an object built without callbacks= (and not from a template) starts with none, and nothing it does
        while being built is reported to a callback registered on some other object"""
        if ev.op != '__init__' or ev.kind != 'method' or ev.exc is not None or not ev.post or ev.post[0] is None:
            return
        d = init_arguments(ev)
        if d.get('like') is not None or 'callbacks' in d or getattr(Fxp, 'template', None) is not None:
            return
        mine = [c for c, oid in ev.callbacks if oid == id(ev.receiver)]
        if ev.post[0].n_callbacks or mine:
            ctx.violation('foreign_callbacks', 'an object built without callbacks= has %d callbacks registered and reported %s to callbacks registered elsewhere' % (
                ev.post[0].n_callbacks, sorted(mine)), ev, key='callbacks.shared')
        ctx.judged(('fresh-callbacks',), False, None)
        ctx.floor_hit(('fresh-callbacks',))

    def sticky_judge(ev):
        for p in U.u3_problems(ev):
            ctx.violation('flag_cleared', p[1], ev)

    def propagation_judge(ev):
        """results of arithmetic (and Fxp(x), like=) carry the inaccuracy flag whenever an operand carried it"""
        if ev.exc is not None or ev.result_snap is None and ev.op != '__init__':
            return
        route = None
        srcs = []
        ai = A.decode_arith(ev, mon)
        if ai is not None:
            route = 'binary:%s:%s' % (ai.op, ai.route)
            srcs = [s for s in (ai.x, ai.y) if s is not None]
            res = ai.res
        elif ev.kind == 'method' and ev.op == '__array_ufunc__' and len(ev.args) >= 3 and ev.args[1] == '__call__' \
                and ev.args[0] in (np.add, np.subtract, np.multiply) and not ev.kwargs:
            # the arithmetic ufuncs with a configured output (config.array_op_out / array_op_out_like of the dispatching operand)
            route = 'numpy:configured-output'
            ins = [a for a in ev.args[2:] if isinstance(a, Fxp)]
            srcs = [p for o, p in zip(ev.operands, ev.pre) if p is not None and any(o is a for a in ins)]
            res = ev.result_snap
        elif ev.kind == 'function' and ev.op in ('sum', 'cumsum', 'prod', 'cumprod', 'fxp_max', 'fxp_min', 'trace', 'dot', 'clip', 'transpose', 'diagonal', 'sort'):
            route = 'function:%s' % ev.op
            srcs = [p for o, p in zip(ev.operands, ev.pre) if p is not None and o is not ev.kwargs.get('out') and o is not ev.kwargs.get('out_like')]
            res = ev.result_snap
        elif ev.op == '__array_function__' and ev.kind == 'method':
            fn = ev.args[0]
            if getattr(fn, '__name__', '') not in ('sum', 'cumsum', 'prod', 'cumprod', 'max', 'min', 'amax', 'amin', 'trace', 'dot', 'clip', 'transpose', 'diagonal', 'sort'):
                return
            route = 'numpy:%s' % fn.__name__
            inner = ev.args[2] if len(ev.args) > 2 else ()
            ids = set(id(a) for a in inner if isinstance(a, Fxp))
            srcs = [p for o, p in zip(ev.operands, ev.pre) if p is not None and id(o) in ids]
            res = ev.result_snap
        elif ev.op in ('sum', 'cumsum', 'max', 'min', 'prod', 'cumprod', 'trace', 'dot') and ev.kind == 'method':
            route = 'method:%s' % ev.op
            srcs = [p for o, p in zip(ev.operands, ev.pre) if p is not None and (o is ev.receiver or any(o is a for a in ev.args))]
            res = ev.result_snap
        elif ev.op == '__init__':
            d = init_arguments(ev)
            v = d.get('val')
            if not isinstance(v, Fxp):
                return
            route = 'Fxp(x)' if d.get('like') is None else 'Fxp(x, like=)'
            srcs = [p for o, p in zip(ev.operands, ev.pre) if o is v and p is not None]
            res = ev.post[0]
        else:
            return
        if res is None or not srcs:
            return
        if any(s.n_word > 52 for s in srcs) or res.n_word > 64:
            ctx.skip('propagation:outside n_word<=52')
            return
        carried = any(s.status.get('inaccuracy') for s in srcs)
        if carried and not res.status.get('inaccuracy'):
            ctx.violation('propagation', '%s: an operand carried the inaccuracy flag, the result %s does not' % (route, R.dtype_fxp(*res.fmt())), ev)
        ctx.judged(('propagation', route, carried, tuple(bool(s.status.get('inaccuracy')) for s in srcs)), carried, None)
        if carried:
            ctx.floor_hit(('propagation', route.split(':')[0]))
    return [write_judge, resize_judge, reset_judge, sticky_judge, fresh_callbacks_judge, propagation_judge, RJ.make_judge(ctx, ctx.mon.Fxp, 'flags')]


def floors(tier):
    cells = [('raised', k, f) for k in ('write', 'indexed', 'constructor', 'resize') for f in _FL] + [('raised', 'constructor_like', 'inaccuracy')]
    cells += [('callbacks', k) for k in ('write', 'indexed', 'resize')] + [('callbacks-changed',)]
    cells += [('reset', True), ('propagation', 'binary'), ('propagation', 'function'), ('propagation', 'numpy'), ('propagation', 'method'),
              ('propagation', 'Fxp(x)'), ('propagation', 'Fxp(x, like=)'), ('huge-integer-write',), ('propagation-workload', 'configured-output'),
              ('reduction-flags', 'beyond-int64'), ('reduction-flags', 'moderate'), ('complex-write-workload',), ('complex-write-judged',), ('fresh-callbacks',), ('reduction-inaccuracy-kept',), ('derived-then-written',)]
    return cells


# ------------------------------------------------------------------------------------------ workload
def cases(tier, seed):
    wmax = 4 if tier == 'quick' else 5
    span = 2 if tier == 'quick' else 8
    for s in (True, False):
        for w in range(1, wmax + 1):
            for nf in range(-span, w + span + 1):
                for r, o in G.MODES:
                    yield {'k': 'bounds', 'signed': s, 'n_word': w, 'n_frac': nf, 'rounding': r, 'overflow': o}
    n = 2500 if tier == 'quick' else 60000
    for i in range(n):
        yield {'k': 'history', 'i': i}
    n = 400 if tier == 'quick' else 8000
    for i in range(n):
        yield {'k': 'propagate', 'i': i}
    for i in range(60 if tier == 'quick' else 1500):
        yield {'k': 'reduce', 'i': i}
    for i in range(150 if tier == 'quick' else 3000):
        yield {'k': 'complex', 'i': i}


def _try(f):
    try:
        return f()
    except Exception:
        return None


def run_case(case, ctx):
    Fxp = ctx.mon.Fxp
    fm = ctx.mon.fxpmath
    rec = ctx.mon.recorder
    k = case['k']
    if k == 'reduce':
        return RJ.workload(Fxp, fm, ctx.rng_for('reduce', case['i']), _try)
    if k == 'bounds':
        s, w, nf, r, o = case['signed'], case['n_word'], case['n_frac'], case['rounding'], case['overflow']
        lo, hi = R.code_range(s, w)
        qs = set()
        for b in (lo, hi):
            for q in range(b * 4 - 6, b * 4 + 7):
                qs.add(q)
        mid = (lo + hi) // 2
        for q in (mid * 4, mid * 4 + 1, mid * 4 + 2, mid * 4 + 3, 0, 1, -1, 2, -2):
            qs.add(q)
        x = Fxp(None, s, w, nf, rounding=r, overflow=o)
        x.callbacks.append(rec)
        arr = Fxp(np.zeros(2), s, w, nf, rounding=r, overflow=o)
        arr.callbacks.append(rec)
        for q in sorted(qs):
            v = q / 4.0 / (2.0 ** nf)
            x.reset()
            x(v)
            arr.reset()
            arr[1] = v
            Fxp(v, s, w, nf, rounding=r, overflow=o)
        return
    rng = ctx.rng_for(k, case['i'])
    i = case['i']
    if k == 'history':
        s, w, nf = G.core_format(rng)
        r, o = G.MODES[i % 10]
        rank = i % 3
        shape = [(), (3,), (2, 2)][rank]
        x = Fxp(np.zeros(shape) if rank else None, s, w, nf, rounding=r, overflow=o)
        x.callbacks.append(rec)

        def vals(n):
            vs = G.hostile_scaled_values(rng, x.signed, x.n_word, x.n_frac, n=n * 3)
            vs = [v for v in vs if G.can_carry(v, 'pyfloat') and abs(v) < 2 ** 53 and abs(v * F(2) ** x.n_frac) < 2 ** 62] or [F(0)]
            # mostly representable values, so that single flags are raised one at a time
            lo, hi = R.code_range(x.signed, x.n_word)
            out = []
            for v in (vs * n)[:n]:
                if rng.random() < 0.5:
                    v = F(rng.randint(lo, hi)) * R.lsb(x.n_frac)
                    if not G.can_carry(v, 'pyfloat'):
                        v = F(0)
                out.append(float(v))
            return out
        for step in range(rng.randint(1, 8)):
            c = rng.choice(['write', 'write', 'write', 'indexed', 'indexed', 'reset', 'resize', 'read', 'write_fxp', 'like_ctor', 'callbacks', 'derived'])
            if c == 'callbacks':
                # the registered callbacks change in the middle of the history: one more is appended, one is removed, or the list is replaced;
                # the next writes must notify exactly the callbacks registered at that time
                n_rec = sum(1 for cb in x.callbacks if isinstance(cb, CallbackRecorder))
                how = rng.choice(['add', 'add', 'remove', 'replace'])
                if how == 'add' and n_rec < 3:
                    x.callbacks.append(CallbackRecorder(ctx.mon.cb_log))
                elif how == 'remove' and n_rec > 0:
                    x.callbacks.remove([cb for cb in x.callbacks if isinstance(cb, CallbackRecorder)][-1])
                else:
                    x.callbacks = [CallbackRecorder(ctx.mon.cb_log)]
                ctx.floor_hit(('callbacks-changed',))
                c = 'write'
            if c == 'derived':
                # an object derived from x by an operator is written afterwards (flag-raising write): x's own record keeps telling x's own history, and the
                # callbacks registered on x are not notified of the other object's writes.  Workload-level (the later write's event only sees the derived object)
                how = rng.choice(['invert', 'and', 'or', 'xor', 'neg', 'add', 'lshift', 'like', 'deepcopy', 'getitem_copy'])
                try:
                    z = {'invert': lambda: ~x, 'and': lambda: x & 1, 'or': lambda: x | 2, 'xor': lambda: x ^ 1, 'neg': lambda: -x, 'add': lambda: x + 0, 'lshift': lambda: x << 0,
                         'like': lambda: Fxp(0, like=x), 'deepcopy': lambda: x.deepcopy(), 'getitem_copy': lambda: x[[0, 1]] if rank == 1 else x.deepcopy()}[how]()
                except Exception:
                    continue
                st0 = dict(x.status)
                n0 = len([1 for c_, oid in ctx.mon.cb_log if oid == id(x)])
                mon_was = ctx.mon.enabled
                try:
                    big = float(z.upper) * 4 + 1.3
                    z(big) if np.ndim(z.val) == 0 else z.set_val(np.full(np.shape(z.val), big))
                except Exception:
                    pass
                st1 = dict(x.status)
                n1 = len([1 for c_, oid in ctx.mon.cb_log if oid == id(x)])
                if st1 != st0 or n1 != n0:
                    ctx.violation('foreign_write', 'after z = <%s of x>, an overflowing write into z changed x\'s status record %r -> %r / notified x\'s callbacks %d times as x' % (how, st0, st1, n1 - n0),
                                  key='status.shared_with_derived')
                ctx.judged(('derived-then-written', how), True, None)
                ctx.floor_hit(('derived-then-written',))
                continue
            if c == 'write_fxp':
                # a write whose value is another (exact, fitting) Fxp must not clear a raised flag either
                lo_, hi_ = R.code_range(x.signed, x.n_word)
                src = Fxp(rng.randint(lo_, hi_) if rank == 0 else [rng.randint(lo_, hi_) for _ in range(int(np.prod(shape)))], x.signed, x.n_word, x.n_frac, raw=True)
                if rank == 2:
                    src = Fxp(np.asarray(src.val).reshape(shape), x.signed, x.n_word, x.n_frac, raw=True)
                how = rng.choice(['call', 'set_val', 'equal', 'index'])
                if how == 'index' and rank:
                    _try(lambda: x.__setitem__(0, src[0]))
                elif how == 'equal':
                    _try(lambda: x.equal(src))
                else:
                    _try(lambda: x(src) if how == 'call' else x.set_val(src))
                continue
            if c == 'like_ctor':
                # objects built from a template whose flags are raised start with a clear record
                v = vals(1)[0]
                _try(lambda: Fxp(v, like=x))
                _try(lambda: Fxp(np.array(vals(2)), like=x))
                continue
            if c == 'write':
                if rank == 0:
                    v = vals(1)[0]
                    _try(lambda: x(v) if rng.random() < 0.5 else x.set_val(v))
                else:
                    a = np.array(vals(int(np.prod(shape)))).reshape(shape)
                    _try(lambda: x(a) if rng.random() < 0.5 else x.set_val(a))
            elif c == 'indexed' and rank:
                if rank == 1:
                    idx = rng.choice([0, 1, 2, -1, slice(0, 2)])
                    v = vals(2) if isinstance(idx, slice) else vals(1)[0]
                else:
                    idx = rng.choice([0, 1, (0, 1), (1, 0), (slice(None), 1)])
                    v = vals(1)[0] if isinstance(idx, tuple) and not isinstance(idx[0], slice) else vals(2)
                _try(lambda: x.__setitem__(idx, v))
            elif c == 'reset':
                x.reset()
            elif c == 'resize':
                fd = G.core_format(rng)
                if rng.random() < 0.6:
                    fd = (x.signed, max(1, min(52, x.n_word + rng.randint(-2, 2))), max(-8, min(x.n_word + 6, x.n_frac + rng.randint(-2, 2))))
                _try(lambda: x.resize(fd[0], fd[1], fd[2]))
            else:
                x.get_val()
        return
    if k == 'complex':
        # whole-object writes of complex values into an object with a recording callback: both components out of range (on the same side, on
        # opposite sides), one of them, none; inexact components
        rng = ctx.rng_for('complex', case['i'])
        s, w, nf = G.core_format(rng, max_word=30)
        nf = max(0, min(nf, w))
        r, o = G.MODES[case['i'] % 10]
        lo, hi = R.code_range(s, w)
        lsb = R.lsb(nf)

        def comp(kind):
            if kind == 'over':
                return float((hi + rng.randint(1, 50)) * lsb)
            if kind == 'under':
                return float((lo - rng.randint(1, 50)) * lsb)
            if kind == 'inexact':
                return float((rng.randint(lo, hi - 1) + F(1, 4)) * lsb)
            return float(rng.randint(lo, hi) * lsb)
        arr = case['i'] % 3 == 0
        x = Fxp(np.zeros(2, dtype=complex) if arr else 0j, s, w, nf, rounding=r, overflow=o)
        x.callbacks.append(rec)
        for step in range(rng.randint(1, 4)):
            kinds = [rng.choice(['over', 'under', 'in', 'in', 'inexact']) for _ in range(4)]
            if step == 0:
                kinds[:2] = rng.choice([['over', 'over'], ['under', 'under'], ['over', 'under'], ['over', 'in'], ['in', 'under']])
            v = [complex(comp(kinds[0]), comp(kinds[1])), complex(comp(kinds[2]), comp(kinds[3]))] if arr else complex(comp(kinds[0]), comp(kinds[1]))
            if arr and rng.random() < 0.5:
                v = np.array(v)
            _try(lambda: x(v) if rng.random() < 0.5 else x.set_val(v))
            if rng.random() < 0.3:
                x.reset()
        ctx.floor_hit(('complex-write-workload',))
        return
    if k == 'propagate':
        fx = G.conventional_format(rng, 3, 12)
        fy = G.conventional_format(rng, 3, 12)

        def mk(f, inexact, arr=False):
            lo, hi = R.code_range(f[0], f[1])
            c = rng.randint(max(lo, -3), min(hi, 3)) or 1
            v = float(F(c) * R.lsb(f[2]))
            if arr:
                v = np.array([v, v])
            z = Fxp(v, f[0], f[1], f[2])
            if inexact:
                z.status['inaccuracy'] = False
                z2 = Fxp(np.array(v) + float(R.lsb(f[2] + 1)), f[0], f[1], f[2])   # half an LSB off: stored inexactly
                return z2
            return z
        for fl in ((True, False), (False, True), (True, True), (False, False)):
            x, y = mk(fx, fl[0]), mk(fy, fl[1])
            for f in (lambda: x + y, lambda: x - y, lambda: x * y, lambda: x / y, lambda: x // y, lambda: x % y,
                      lambda: fm.add(x, y), lambda: fm.mul(x, y), lambda: np.add(x, y), lambda: np.multiply(x, y),
                      lambda: fm.add(x, y, out=Fxp(None, True, 20, 8)), lambda: fm.add(x, y, out_like=Fxp(None, True, 20, 8))):
                _try(f)
        # writes of python integers whose scaled value sits around 2^62 .. 2^65 (beyond what 64-bit integers hold): flags and callbacks as for any value
        fh = G.conventional_format(rng, 8, 52)
        if fh[2] >= 1:
            for ov in ('saturate', 'wrap'):
                xh = Fxp(None, fh[0], fh[1], fh[2], overflow=ov, rounding=rng.choice(G.ROUNDINGS))
                xh.callbacks.append(rec)
                ah = Fxp(np.zeros(2), fh[0], fh[1], fh[2], overflow=ov)
                ah.callbacks.append(rec)
                for e_ in (62, 63, 64, 65):
                    for sg_ in (1, -1):
                        vh = sg_ * ((1 << max(0, e_ - fh[2])) + rng.choice([0, 1, -1, 5]))
                        _try(lambda: xh.reset())
                        _try(lambda: xh(vh))
                        _try(lambda: xh.reset())
                        _try(lambda: xh.set_val(vh))
                        _try(lambda: ah.reset())
                        _try(lambda: ah.__setitem__(1, vh))
                        _try(lambda: Fxp(vh, fh[0], fh[1], fh[2], overflow=ov))
        # the NumPy route with a configured output on the dispatching operand (config.array_op_out_like / array_op_out)
        for inx in (True, False):
            for opt in ('array_op_out_like', 'array_op_out'):
                for meth in ('repr', 'raw'):
                    xa = mk(fx, inx, arr=True)
                    ya = mk(fx, False, arr=True)
                    _try(lambda: setattr(xa.config, 'array_op_method', meth))
                    _try(lambda: setattr(xa.config, opt, Fxp(np.zeros(2), True, 30, 14)))
                    _try(lambda: np.add(xa, ya))
                    _try(lambda: np.multiply(xa, ya))
                    _try(lambda: np.sum(xa))
                    _try(lambda: np.cumsum(xa))
        ctx.floor_hit(('propagation-workload', 'configured-output'))
        for inx in (True, False):
            a = mk(fx, inx, arr=True)
            for f in (lambda: np.sum(a), lambda: np.cumsum(a), lambda: a.sum(), lambda: a.cumsum(), lambda: fm.sum(a), lambda: np.max(a), lambda: a.max(),
                      lambda: Fxp(a), lambda: Fxp(a, like=Fxp(None, True, 24, 10)), lambda: Fxp(a, True, 24, 10)):
                _try(f)
