"""C05 - rounding contracts: direction, error bound, idempotence, monotonicity (relational; guards the oracle of C01).

None of the checks here calls refmodel.quantize / round_exact: the relations are evaluated directly on Fractions.
"""
from fractions import Fraction as F

import numpy as np

from .. import refmodel as R
from .. import gen as G
from .. import universal as U
from ..exact import Unsupported
from ..storejudge import decode_store, in_core_domain, STORE_OPS, underflows_to_zero, UNDERFLOW_KEY
from . import c01

ID = 'C05'
TECHNIQUE = 'runtime monitoring: relational oracle over store events (direction, error bound, ties, idempotence, monotonicity computed on Fractions without the reference quantizer)'
TITLE = 'rounding contracts (relational)'
RULE = ('store events in the core domain whose input cannot overflow in any mode; per element the mode\'s relation between the '
        'stored value q and the input v is evaluated on Fractions (floor: q<=v<q+LSB; ceil: q-LSB<v<=q; trunc/fix: |q|<=|v|, '
        '|v|-|q|<LSB, sign; around: |q-v|<=LSB/2 and even code on ties; all: |q-v|<LSB); representable inputs must come back '
        'unchanged with no new flag; under saturate codes must be non-decreasing in the input. Key = (signedness, word class, '
        'fraction class, rounding, relation, sign of v, tie?); non-trivial = v not representable, or tie, or idempotence/monotonicity '
        'keys per (format class, mode pair).')
DECIDING_OPS = ['__init__', 'set_val', '__call__']
ANCHORS = ['objects.Fxp._round', 'objects.Fxp.set_val']
EXHAUSTIVE = c01.EXHAUSTIVE
SHARDS = {'quick': 16, 'thorough': 16}
_FL = ('overflow', 'underflow', 'inaccuracy')


def sign(x):
    return (x > 0) - (x < 0)


def make_judges(ctx):
    def rel_judge(ev):
        if ev.op not in STORE_OPS or ev.exc is not None:
            return
        try:
            si = decode_store(ev, allow_fxp=True)     # the input may itself be a fixed-point value
        except Unsupported as e:
            ctx.skip('store:' + str(e))
            return
        if si is None or si.post is None:
            return
        post = si.post
        why = in_core_domain(si, post, allow_big_float_saturate=False)
        if why:
            ctx.skip('store:' + why)
            return
        if si.index is not None:
            # indexed stores: only the idempotence clause (representable values are stored unchanged with no new flag)
            lo_, hi_ = R.code_range(post.signed, post.n_word)
            sc_ = F(2) ** post.n_frac
            xs_ = [v * sc_ for v in si.values] if not si.is_complex else None
            if xs_ is None or si.pre is None or not all(x.denominator == 1 and lo_ <= x <= hi_ for x in xs_):
                ctx.skip('store:indexed store of non-representable values (relations are checked on whole-object stores)')
                return
            try:
                from ..storejudge import apply_index
                want = apply_index(si.pre.codes, si.pre.shape, si.index, [int(x) for x in xs_], si.shape)
            except (IndexError, ValueError):
                ctx.skip('store:index not applicable in the model')
                return
            if post.codes != want:
                ctx.violation('idempotence', '%s: indexed store of representable values %s gave codes %s, expected %s' % (
                    R.dtype_fxp(*post.fmt()), [str(v) for v in si.values[:3]], post.codes[:6], want[:6]), ev)
            raised = [f for f in _FL if post.status.get(f) and not si.pre.status.get(f)]
            if si.fxp_source and (si.src_status or {}).get('inaccuracy'):
                raised = [f for f in raised if f != 'inaccuracy']      # a fixed-point input hands its own inaccuracy flag on (C04), that is not a flag of this store
            if raised:
                ctx.violation('idempotence_flag', '%s %s/%s: an indexed store of representable values raised %s' % (
                    R.dtype_fxp(*post.fmt()), post.rounding, post.overflow, raised), ev)
            ctx.judged(('s' if post.signed else 'u', G.word_class(post.n_word), G.frac_class(post.n_word, post.n_frac), post.rounding, 'idempotent-indexed', repr(si.index)[:12]), True, None,
                       elements=len(xs_))
            ctx.floor_hit(('idempotent-indexed',))
            return
        if tuple(post.shape) != tuple(si.shape):
            ctx.violation('shape', 'stored shape %r, input shape %r' % (post.shape, si.shape), ev)
            return
        lo, hi = R.code_range(post.signed, post.n_word)
        sc = F(2) ** post.n_frac
        mode = post.rounding
        fmtkey = ('s' if post.signed else 'u', G.word_class(post.n_word), G.frac_class(post.n_word, post.n_frac))
        comps = []
        if si.is_complex:
            im = post.imag or [0] * len(post.codes)
            for (a, b), k, ki in zip(si.values, post.codes, im):
                comps.append((a, k))
                comps.append((b, ki))
        else:
            comps = list(zip(si.values, post.codes))
        all_exact_in_range = True
        keys = set()
        nchecked = 0
        for v, q in comps:
            x = v * sc
            # "an input that does not overflow": the integer the configured mode has to pick lies inside the range
            # (computed directly on the Fraction: floor, ceiling, the one nearer to zero, the nearer one / the even one on a tie)
            fl = x.numerator // x.denominator
            ce = fl if x.denominator == 1 else fl + 1
            if mode == 'floor':
                tgt = (fl,)
            elif mode == 'ceil':
                tgt = (ce,)
            elif mode in ('trunc', 'fix'):
                tgt = (fl if x >= 0 else ce,)
            else:
                dl, dh = x - fl, ce - x
                tgt = (fl,) if dl < dh else ((ce,) if dh < dl else ((fl,) if fl % 2 == 0 else (ce,)))
            if any(t < lo or t > hi for t in tgt):
                all_exact_in_range = False
                continue
            nchecked += 1
            d = q - x
            ok = abs(d) < 1
            rel = 'bound'
            if x.denominator == 1:
                ok = (q == x)
                rel = 'idempotent'
            else:
                all_exact_in_range = False
                if mode == 'floor':
                    ok = ok and q <= x < q + 1
                elif mode == 'ceil':
                    ok = ok and q - 1 < x <= q
                elif mode in ('trunc', 'fix'):
                    ok = ok and abs(q) <= abs(x) and abs(x) - abs(q) < 1 and sign(q) in (0, sign(x))
                elif mode == 'around':
                    ok = ok and abs(d) <= F(1, 2)
                    if abs(d) == F(1, 2):
                        ok = ok and q % 2 == 0
                        rel = 'tie-even'
                else:
                    ok = False
            if not ok:
                if q == 0 and underflows_to_zero(v, post.n_frac):
                    ctx.violation('relation', '%s %s: input %.3e is scaled to +-0 in double arithmetic and stored as 0, which violates the %s contract' % (
                        R.dtype_fxp(*post.fmt()), mode, float(v), mode), ev, key=UNDERFLOW_KEY)
                    all_exact_in_range = False
                    continue
                ctx.violation('relation', '%s %s: input %.60s (scaled %.60s) stored as code %d violates the %s contract' % (
                    R.dtype_fxp(*post.fmt()), mode, v, x, q, mode), ev)
                break
            if len(keys) < 12:
                keys.add((rel if x.denominator != 1 else 'idempotent', sign(x), x.denominator == 2))
        # idempotence: a store of representable values raises no flag
        if all_exact_in_range and nchecked:
            before = si.pre.status if si.pre is not None else {}
            raised = [f for f in _FL if post.status.get(f) and not before.get(f)]
            if si.fxp_source and (si.src_status or {}).get('inaccuracy'):
                raised = [f for f in raised if f != 'inaccuracy']      # a fixed-point input hands its own inaccuracy flag on (C04), that is not a flag of this store
            if raised:
                ctx.violation('idempotence_flag', '%s %s/%s: storing representable values raised %s' % (
                    R.dtype_fxp(*post.fmt()), post.rounding, post.overflow, raised), ev)
            keys.add(('idempotent-noflag', post.rounding, post.overflow))
        # monotonicity under saturate (relational inside one event)
        if post.overflow == 'saturate' and len(comps) > 1 and not si.is_complex:
            pairs = sorted(comps, key=lambda t: t[0])
            for (v1, q1), (v2, q2) in zip(pairs, pairs[1:]):
                if q1 > q2:
                    ctx.violation('monotone', '%s %s/saturate: %s <= %s but codes %d > %d' % (R.dtype_fxp(*post.fmt()), mode, v1, v2, q1, q2), ev)
                    break
            keys.add(('monotone', post.rounding, len(comps) > 8))
        if nchecked == 0 and not keys:
            ctx.skip('store:every element could overflow')
            return
        nontriv = [k for k in keys if not (k[0] == 'idempotent')]
        sample = None
        if ctx.want_sample() and nontriv:
            sample = {'op': ev.op, 'format': R.dtype_fxp(*post.fmt()), 'rounding': mode, 'overflow': post.overflow,
                      'inputs': [str(v) for v, q in comps[:5]], 'codes': [int(q) for v, q in comps[:5]], 'relations': sorted(map(repr, keys))[:6]}
        first = True
        for k in sorted(keys, key=repr):
            full = fmtkey + (mode,) + k
            if first:
                ctx.judged(full, k[0] != 'idempotent', sample, elements=nchecked)
                first = False
            elif k[0] != 'idempotent':
                ctx.keys.add(repr(full))
        for k in keys:
            if k[0] in ('bound', 'tie-even'):
                ctx.floor_hit(('rel', mode, k[0]))
            if k[0] in ('monotone', 'idempotent-noflag'):
                ctx.floor_hit((k[0], k[1]))
    def frame_judge(ev):
        """a store / conversion writes its destination only: a fixed-point input (and the parent behind it) holds its own representable value afterwards, with no
        flag; the object returned by like() shares nothing with the template"""
        if ev.exc is not None or (ev.op not in STORE_OPS and ev.op not in ('like', 'resize')):
            return
        for p_ in U.u2_frame_problems(ev, ctx.mon.Fxp):
            ctx.violation('source_changed', p_[1], ev, key='frame.source')
        if ev.op == 'like':
            for p_ in U.u2_alias_problems(ev, ctx.mon.Fxp):
                ctx.violation('result_shares_state', p_[1], ev, key='frame.like_alias')
            ctx.floor_hit(('like-frame',))
    return [rel_judge, frame_judge]


def floors(tier):
    cells = [('rel', m, 'bound') for m in G.ROUNDINGS] + [('rel', 'around', 'tie-even')]
    cells += [('monotone', m) for m in G.ROUNDINGS] + [('idempotent-noflag', m) for m in G.ROUNDINGS] + [('idempotent-indexed',), ('restore-int',), ('idempotent-like-flagged-template',), ('wide-fixed-point-input',), ('restore-after-raw-route',), ('contract-through-view',), ('contract-after-resize',), ('like-frame',), ('fixed-point-array-to-more-fraction-bits',)]
    return cells


def hi_d_ok(s, w, nf):
    return (1 << nf) <= R.code_range(s, w)[1]


def cases(tier, seed):
    for c in c01.cases(tier, seed):
        if c['k'] in ('exh', 'matrix'):
            if c['k'] == 'exh':
                c = dict(c, single=False)
            yield c
    n = 400 if tier == 'quick' else 10000
    for i in range(n):
        yield {'k': 'restore', 'i': i}
    wmax = 6 if tier == 'quick' else 8
    for signed in (True, False):
        for n_word in range(1, wmax + 1):
            for n_frac in range(-2, n_word + 3):
                yield {'k': 'allcodes', 'signed': signed, 'n_word': n_word, 'n_frac': n_frac}


def run_case(case, ctx):
    Fxp = ctx.mon.Fxp
    k = case['k']
    if k in ('exh', 'matrix'):
        return c01.run_case(case, ctx)
    if k == 'allcodes':
        # every code of the format stored as a value comes back unchanged with no flag, in all ten mode pairs
        s, w, nf = case['signed'], case['n_word'], case['n_frac']
        lo, hi = R.code_range(s, w)
        vals = np.arange(lo, hi + 1, dtype=np.float64) / (2.0 ** nf)
        for r, o in G.MODES:
            x = Fxp(vals, s, w, nf, rounding=r, overflow=o)
            x(x())
            x.set_val(x.get_val())
            y = Fxp(None, s, w, nf, rounding=r, overflow=o)
            for v in vals.tolist()[:: max(1, len(vals) // 16)]:
                y(v)
            if nf <= 0:
                # the same with values given as python integers (integer value type; with n_frac < 0 every value is a multiple of 2^-n_frac):
                # reading the object and storing what was read must leave every code where it was
                ints = [int(c) * (1 << -nf) for c in range(lo, hi + 1)]
                for xi in (Fxp(ints, s, w, nf, rounding=r, overflow=o), Fxp(ints[len(ints) // 3], s, w, nf, rounding=r, overflow=o), Fxp(np.array(ints), s, w, nf, rounding=r, overflow=o)):
                    before = np.asarray(xi.val, dtype=object).tolist()
                    xi.reset()
                    xi(xi())
                    xi.set_val(xi.get_val())
                    after = np.asarray(xi.val, dtype=object).tolist()
                    if before != after or any(xi.status[f] for f in ('overflow', 'underflow', 'inaccuracy')):
                        ctx.violation('restore_changed', 'fxp-%s%d/%d %s/%s built from python integers: x(x()) changed the codes %r -> %r (status %s)' % (
                            's' if s else 'u', w, nf, r, o, before if not isinstance(before, list) else before[:4], after if not isinstance(after, list) else after[:4],
                            {f: xi.status[f] for f in ('overflow', 'underflow', 'inaccuracy')}))
                    ctx.judged(('restore-int', s, w, nf, r, o), True, None)
                    ctx.floor_hit(('restore-int',))
        return
    rng = ctx.rng_for(k, case['i'])
    s, w, nf = G.core_format(rng)
    r, o = G.MODES[case['i'] % 10]
    vals = G.hostile_scaled_values(rng, s, w, nf, n=6)
    vals = [v for v in vals if G.can_carry(v, 'pyfloat')] or [F(0)]
    x = Fxp(np.array([float(v) for v in vals]), s, w, nf, rounding=r, overflow=o)
    x.reset()
    x(x())                      # re-storing an object's own value is a no-op
    x.set_val(x.get_val())
    own = x.get_val()
    for j in (0, len(vals) - 1, -1):
        x.reset()
        x[j] = float(own[j])                        # ... also element by element (index 0 included)
        x.set_val(float(own[j]), index=j)
    y = Fxp(float(vals[0]), s, w, nf, rounding=r, overflow=o)
    y.reset()
    y(y())
    y.set_val(y.get_val())
    # an object built from integers that gets fraction bits by resize() and then a fractional value by a raw route (equal / a fixed-point input):
    # re-storing what it reads is a no-op
    if 1 <= nf <= w and w >= 3:
        try:
            xi = Fxp(1 if hi_d_ok(s, w, nf) else 0, s, w, 0, rounding=r, overflow=o)
            xi.resize(s, w, nf)
            srcf = Fxp(rng.choice([1, 3, -3 if s else 3]), s, w, nf, raw=True)
            xi.equal(srcf)
            xj = Fxp(np.array([0, 1]), s, w, 0, rounding=r, overflow=o)
            xj.resize(s, w, nf)
            xj.set_val(Fxp(np.array([1, 3]), s, w, nf, raw=True))
            for xo in (xi, xj):
                before = np.asarray(xo.val, dtype=object).ravel().tolist()
                xo.reset()
                xo(xo())
                xo.set_val(xo.get_val())
                after = np.asarray(xo.val, dtype=object).ravel().tolist()
                if before != after or any(xo.status[f] for f in ('overflow', 'underflow', 'inaccuracy')):
                    ctx.violation('restore_changed', 'fxp-%s%d/%d %s/%s (built from integers, resized, written by a raw route): x(x()) changed the codes %r -> %r (status %s)' % (
                        's' if s else 'u', w, nf, r, o, before, after, {f: xo.status[f] for f in ('overflow', 'underflow', 'inaccuracy')}))
                ctx.judged(('restore-after-raw-route', s, r, o), True, None)
            ctx.floor_hit(('restore-after-raw-route',))
        except Exception:
            pass
    # representable values stored into NEW objects built like a template whose own flags are raised: the new object reports no flag
    lo_t, hi_t = R.code_range(s, w)
    try:
        tmpl = Fxp(None, s, w, nf, rounding=r, overflow=o)
        tmpl(float(F(hi_t) / F(2) ** nf) * 2 + 3.3)                  # overflow (and inexact)
        tmpl(float(F(lo_t) / F(2) ** nf) * 2 - 3.3 if s else -1.0)  # underflow
        if any(tmpl.status[f] for f in ('overflow', 'underflow', 'inaccuracy')):
            Fxp(float(own[0]), like=tmpl)
            Fxp(np.array([float(v) for v in own]), like=tmpl)
            Fxp([float(own[0]), float(own[-1])], like=tmpl)
            ctx.floor_hit(('idempotent-like-flagged-template',))
    except Exception:
        pass
    # the contracts hold for the value that ends up in the object whatever the route: (a) written through an element / row object obtained by indexing
    # (x[i][j] = v: the object that performs the store is the view, the modes are x's), (b) an object's own value re-quantized by a resize that gives up
    # fraction bits.  Workload-level comparison with the model (the store event of (a) only sees the view)
    try:
        lo_c, hi_c = R.code_range(s, w)
        x2 = Fxp(np.zeros((2, 3)), s, w, nf, rounding=r, overflow=o)
        cands = [v for v in G.hostile_scaled_values(rng, s, w, nf, n=12) if G.can_carry(v, 'pyfloat') and abs(v) < 2 ** 52 and abs(v * F(2) ** nf) < 2 ** 61]
        cands = [v for v in cands if lo_c + 1 <= v * F(2) ** nf <= hi_c - 1][:3]
        for jj, v in enumerate(cands):
            if jj % 2 == 0:
                x2[1][jj] = float(v)
            else:
                row = x2[0]
                row[jj] = float(v)
            want = R.quantize(v, s, w, nf, r, o)[0]
            got = int(np.asarray(x2.val, dtype=object)[1 if jj % 2 == 0 else 0][jj])
            if got != want:
                # (the known finding - an input that is scaled to +-0 in double arithmetic - shows on this route like on every other: same classifier)
                ctx.violation('relation', '%s %s/%s: x[i][j] = %s stored code %d in x, the %s contract gives %d' % (R.dtype_fxp(s, w, nf), r, o, float(v), got, r, want),
                              key=UNDERFLOW_KEY if (got == 0 and underflows_to_zero(v, nf)) else 'relation.through_view')
            ctx.judged(('through-view', r, o), True, None)
            ctx.floor_hit(('contract-through-view',))
        up = rng.randint(1, 4)
        if w + up <= 52 and -8 <= nf + up <= w + up + 8:
            lo_w, hi_w = R.code_range(s, w + up)
            ks = [rng.randint(lo_c + 1, hi_c - 1) * 2 ** up + rng.choice([1, -1, 2 ** (up - 1), -(2 ** (up - 1)), rng.randint(-(2 ** up) + 1, 2 ** up - 1)]) for _ in range(4)] if hi_c - lo_c >= 2 else []
            ks = [k_ for k_ in ks if lo_w <= k_ <= hi_w]
            if ks:
                x3 = Fxp(np.array(ks), s, w + up, nf + up, raw=True, rounding=r, overflow=o)
                how = rng.choice(['sizes', 'n_frac', 'dtype'])
                if how == 'sizes':
                    x3.resize(s, w, nf)
                elif how == 'n_frac':
                    x3.resize(n_frac=nf)
                else:
                    x3.resize(dtype=R.dtype_fxp(s, w, nf))
                wf = (s, w if how != 'n_frac' else w + up, nf)
                want = [R.quantize(F(k_) / F(2) ** (nf + up), wf[0], wf[1], wf[2], r, o)[0] for k_ in ks]
                got = [int(c_) for c_ in np.asarray(x3.val, dtype=object).ravel().tolist()]
                if (x3.signed, x3.n_word, x3.n_frac) == wf and got != want:
                    ctx.violation('relation', '%s -> %s %s/%s by resize(%s): codes %s became %s, the %s contract gives %s' % (
                        R.dtype_fxp(s, w + up, nf + up), R.dtype_fxp(*wf), r, o, how, ks, got, r, want), key='relation.resize')
                ctx.judged(('resize-drops-fraction-bits', r, o, how), True, None)
                ctx.floor_hit(('contract-after-resize',))
    except Exception:
        pass
    # fixed-point arrays handed over to formats with MORE fraction bits, by every route, and like() of a template: the source (and the template) stay as they were
    try:
        lo_u, hi_u = R.code_range(s, w)
        srcu = Fxp(np.array([rng.randint(lo_u, hi_u) for _ in range(3)]), s, w, nf, raw=True)
        upb = rng.randint(1, 6)
        if w + upb <= 52 and -8 <= nf + upb <= w + upb + 8:
            Fxp(srcu, s, w + upb, nf + upb, rounding=r, overflow=o)
            du = Fxp(np.zeros(3), s, w + upb, nf + upb, rounding=r, overflow=o)
            du.set_val(srcu)
            du.equal(srcu)
            du(srcu)
            tu = Fxp(None, s, w + upb, nf + upb, rounding=r, overflow=o)
            srcu.like(tu)
            Fxp(0.0, s, w, nf).like(tu)
            eu = srcu[0:2]
            eu.resize(s, w + upb, nf + upb)
            ctx.floor_hit(('fixed-point-array-to-more-fraction-bits',))
    except Exception:
        pass
    # inputs given as fixed-point values with more fraction bits than the destination (both signednesses)
    for ssrc in (True, False):
        wsrc = min(52, w + 6)
        nfs = nf + rng.randint(1, 4)
        lo_s, hi_s = R.code_range(ssrc, wsrc)
        lo_d, hi_d = R.code_range(s, w)
        ks = []
        for _ in range(4):
            kd = rng.randint(lo_d, hi_d) if rng.random() < 0.8 else rng.choice([lo_d, hi_d])
            k = kd * 2 ** (nfs - nf) + rng.randint(-(2 ** (nfs - nf)) + 1, 2 ** (nfs - nf) - 1)
            if lo_s <= k <= hi_s:
                ks.append(k)
        if ks and -8 <= nfs <= wsrc + 8:
            src = Fxp(np.array(ks), ssrc, wsrc, nfs, raw=True)
            try:
                Fxp(src, s, w, nf, rounding=r, overflow=o)
                d = Fxp(None, s, w, nf, rounding=r, overflow=o)
                d(src)
                d.set_val(src)
                d.equal(src)
                Fxp(src[0], s, w, nf, rounding=r, overflow=o)
            except Exception:
                pass
    # inputs given as fixed-point values whose codes need 54 .. 62 bits (products of ordinary operands are like that): every bit counts for the direction
    wsrc = rng.randint(55, 62)
    lo_d, hi_d = R.code_range(s, w)
    extra = wsrc - 1 - max(abs(lo_d), abs(hi_d), 1).bit_length()       # fraction bits of the source beyond the destination's
    if extra >= 2 and -8 <= nf + extra <= wsrc + 8:
        ks = []
        for _ in range(4):
            kd = rng.randint(lo_d, hi_d) if rng.random() < 0.8 else rng.choice([lo_d, hi_d])
            k = kd * 2 ** extra + rng.choice([1, -1, rng.randint(-(2 ** extra) + 1, 2 ** extra - 1), 2 ** (extra - 1) + 1, 2 ** (extra - 1) - 1])
            if abs(k) < 2 ** (wsrc - 1) and (s or k >= 0):
                ks.append(k)
        if ks:
            try:
                src = Fxp(np.array(ks, dtype=object), True, wsrc, nf + extra, raw=True)
                Fxp(src, s, w, nf, rounding=r, overflow=o)
                d = Fxp(None, s, w, nf, rounding=r, overflow=o)
                d(src)
                d.set_val(src)
                Fxp(src[0], s, w, nf, rounding=r, overflow=o)
                one = Fxp(None, True, wsrc, nf + extra)
                one.set_val(ks[0], raw=True)
                Fxp(one, s, w, nf, rounding=r, overflow=o)
                ctx.floor_hit(('wide-fixed-point-input',))
            except Exception:
                pass
    # sorted hostile inputs (including out-of-range ones) for the monotonicity relation
    more = sorted(G.hostile_scaled_values(rng, s, w, nf, n=24))
    more = [float(v) for v in more if G.can_carry(v, 'pyfloat')]
    if len(more) > 1:
        Fxp(np.array(more), s, w, nf, rounding=r, overflow='saturate')
