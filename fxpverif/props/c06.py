"""C06 - size inference picks the smallest format that holds the values exactly."""
from fractions import Fraction as F

import numpy as np

from .. import refmodel as R
from .. import gen as G
from ..exact import exact_values, Unsupported
from ..storejudge import init_arguments

ID = 'C06'
TECHNIQUE = 'runtime monitoring: constructor events with unspecified sizes judged against an exact minimal-format model; capped case judged by error bound and flag'
TITLE = 'size inference exact and minimal'
RULE = ('constructor events with n_word and/or n_frac unspecified (default configuration, no like/template/dtype): the inferred format must equal '
        'the model (fewest fraction bits making all dyadic inputs exact, then fewest word bits with non-negative integer length plus sign; only '
        'n_word given: n_frac=min(exact, n_word-sign-integer bits); only n_frac given: minimal word for the trunc-rounded codes; n_int with one '
        'other size: arithmetic; n_word<=64), values must read back exactly with no flag whenever the format can hold them; non-dyadic doubles: '
        'n_word<=64, error < 1 LSB, inaccuracy flag iff inexact. Key = (signedness arg, given sizes, scalar/array, boundary class, capped?); '
        'non-trivial = inferred n_frac>0 or array input or boundary class != generic.')
DECIDING_OPS = ['__init__']
ANCHORS = ['objects.Fxp.set_best_sizes', 'objects.Fxp._init_size']
SHARDS = {'quick': 16, 'thorough': 16}


def int_bits(values, signed):
    i = 0
    while True:
        lim = F(2) ** i
        if all((-lim <= v < lim) if signed else (0 <= v < lim) for v in values):
            return i
        i += 1


def boundary_class(values):
    cls = set()
    for v in values:
        if v == 0:
            cls.add('zero')
            continue
        a = abs(v)
        n, d = a.numerator, a.denominator
        if n & (n - 1) == 0:
            cls.add('+2^k' if v > 0 else '-2^k')
        elif (n + 1) & n == 0:
            cls.add('2^k-lsb')
    return tuple(sorted(cls)) or ('generic',)


def G_flat(c):
    for x in c:
        if isinstance(x, (list, tuple)):
            for y in G_flat(x):
                yield y
        else:
            yield x


def make_judges(ctx):
    mon = ctx.mon
    Fxp = mon.Fxp

    def infer_judge(ev):
        if ev.op != '__init__' or ev.kind != 'method':
            return
        d = init_arguments(ev)
        if d.get('dtype') is not None or getattr(Fxp, 'template', None) is not None:
            return
        if d.get('like') is not None:
            # next to like=: "if n_int is given with one other size the third follows arithmetically" - with the signedness GIVEN in the call (the template only
            # hands on its configuration then); judged on the format alone
            sg_, nw_, nfr_, ni_ = d.get('signed'), d.get('n_word'), d.get('n_frac'), d.get('n_int')
            if not isinstance(d.get('like'), Fxp) or not isinstance(sg_, bool) or not isinstance(ni_, int) or (nw_ is None) == (nfr_ is None) \
                    or set(d) - {'val', 'signed', 'n_word', 'n_frac', 'n_int', 'like'} or ev.exc is not None or not ev.post or ev.post[0] is None:
                return
            s_ = 1 if sg_ else 0
            want_ = (sg_, nw_ if nw_ is not None else ni_ + nfr_ + s_, nfr_ if nfr_ is not None else nw_ - ni_ - s_)
            if not (1 <= want_[1] <= 64):
                return
            if ev.post[0].fmt() != want_ or ev.post[0].n_int != ni_:
                ctx.violation('format', 'Fxp(v, like=t, signed=%r, n_int=%d, %s) gave %s with n_int=%r, the third size follows arithmetically: %s' % (
                    sg_, ni_, 'n_word=%d' % nw_ if nw_ is not None else 'n_frac=%d' % nfr_, R.dtype_fxp(*ev.post[0].fmt()), ev.post[0].n_int, R.dtype_fxp(*want_)), ev)
            ctx.judged(('like-arithmetic', sg_, nw_ is not None), True, None)
            ctx.floor_hit(('like-with-n_int-and-signedness',))
            return
        extra = set(d) - {'val', 'signed', 'n_word', 'n_frac', 'n_int', 'like', 'dtype'}
        MAXW = 64
        if extra == {'n_word_max'} and isinstance(d['n_word_max'], int) and 8 <= d['n_word_max'] <= 64:
            MAXW = d['n_word_max']          # "the configured maximum": the same statement with another cap
            extra = set()
        is_raw = False
        if 'raw' in extra and 'n_word_max' in extra and isinstance(d['n_word_max'], int) and 8 <= d['n_word_max'] <= 64:
            MAXW = d['n_word_max']
            extra = extra - {'n_word_max'}
        if extra == {'raw'} and isinstance(d['raw'], bool):
            # a raw value given with its fraction length: the value is code * 2^-n_frac (only the word is inferred)
            is_raw = d['raw']
            extra = set()
            if is_raw and not isinstance(d.get('n_frac'), int):
                return
        if extra:
            ctx.skip('infer:non-default configuration or raw/scaled construction')
            return
        val = d.get('val')
        if val is None:
            return
        fxp_vals = None
        if isinstance(val, Fxp):
            # values supplied inside an (unscaled, real) fixed-point object: inferred like any other values
            sp_ = next((p_ for o_, p_ in zip(ev.operands, ev.pre) if o_ is val), None)
            if sp_ is None or sp_.is_complex or sp_.scaled or not (1 <= sp_.n_word <= 52) or any(not isinstance(k_, int) for k_ in sp_.codes) or extra or is_raw:
                return
            if any(sp_.status.get(f_) for f_ in ('inaccuracy', 'overflow', 'underflow')):
                return      # (a fixed-point input hands its own flags on: C04)
            fxp_vals = ([F(k_) * R.lsb(sp_.n_frac) for k_ in sp_.codes], tuple(sp_.shape), False)
        n_word, n_frac, n_int = d.get('n_word'), d.get('n_frac'), d.get('n_int')
        sg_arg = d.get('signed')
        signed = True if sg_arg is None else bool(sg_arg)
        s = 1 if signed else 0
        given = tuple(n for n, v in (('n_word', n_word), ('n_frac', n_frac), ('n_int', n_int)) if v is not None)
        if n_word is None and n_frac is not None and n_int is not None:
            n_word = n_int + n_frac + s
        elif n_frac is None and n_word is not None and n_int is not None:
            n_frac = n_word - n_int - s
        if n_word is not None and n_frac is not None and n_int is None:
            return                          # nothing inferred
        arithmetic = n_word is not None and n_frac is not None     # n_int with one other size: the third follows arithmetically
        if given == ('n_int',):
            ctx.skip('infer:n_int alone (not covered by the statement)')
            return
        try:
            vals, shape, is_c = fxp_vals if fxp_vals is not None else exact_values(val)
            if fxp_vals is not None:
                ctx.floor_hit(('fixed-point-input',))
        except Unsupported as e:
            ctx.skip('infer:' + str(e))
            return
        post_codes = None
        if is_c:
            # a complex input is sized for both components of every element: judged component-wise (real parts first in each pair)
            vals = [c for pair in vals for c in pair]
            p0 = ev.post[0] if ev.post else None
            if p0 is not None:
                im = p0.imag if p0.imag is not None else [0] * len(p0.codes)
                post_codes = [k for pair in zip(p0.codes, im) for k in pair]
                if any(not isinstance(k, int) for k in post_codes):
                    ctx.skip('infer:complex object whose codes are not integers')
                    return
        if is_raw:
            vals = [v * R.lsb(d['n_frac']) for v in vals]      # (raw values may carry fraction bits: floats, what the operators hand over)
        if not signed and any(v < 0 for v in vals):
            ctx.skip('infer:negative value for an unsigned format')
            return
        post = ev.post[0] if ev.post else None
        codes_of = (lambda: post_codes) if post_codes is not None else (lambda: post.codes)
        dyadic = all((v.denominator & (v.denominator - 1)) == 0 for v in vals)
        in_dom = dyadic and all(v.denominator <= 2 ** 20 and abs(v.numerator) < 2 ** 40 for v in vals)
        if ev.exc is not None or post is None:
            if in_dom:
                ctx.violation('raises', 'Fxp(%r, signed=%r, %s) raised %s' % (val if np.ndim(val) == 0 else '...', sg_arg, given, type(ev.exc).__name__ if ev.exc else 'nothing but no object'), ev)
            return
        rank = 'scalar' if shape == () else 'array'
        if post.n_word > MAXW:
            ctx.violation('cap', 'inferred word %d exceeds the configured maximum %d' % (post.n_word, MAXW), ev)
            return
        if not in_dom and fxp_vals is not None:
            ctx.skip('infer:fixed-point input outside the dyadic domain')
            return
        if not in_dom:
            # capped / non-dyadic case: quantization error below one LSB and flagged inexact iff inexact
            if not all(isinstance(x, float) for x in ([val] if shape == () else np.asarray(val).ravel().tolist())):
                ctx.skip('infer:outside the dyadic domain and not a double')
                return
            if given:
                ctx.skip('infer:non-dyadic with a given size')
                return
            if any(abs(v) >= 2 ** 40 or (v != 0 and abs(v) < F(1, 2 ** 200)) for v in vals):
                ctx.skip('infer:non-dyadic double of extreme magnitude')
                return
            lsb = R.lsb(post.n_frac)
            inexact = False
            for v, k in zip(vals, codes_of()):
                q = k * lsb
                if abs(q - v) >= lsb:
                    ctx.violation('capped_error', 'Fxp(%s) inferred %s and stored %s: error >= 1 LSB' % (float(v), R.dtype_fxp(*post.fmt()), q), ev)
                    break
                inexact |= (q != v)
            if bool(post.status.get('inaccuracy')) != inexact:
                ctx.violation('capped_flag', 'Fxp(%s) -> %s: inaccuracy flag %s but stored value %s the input' % (
                    [float(v) for v in vals[:3]], R.dtype_fxp(*post.fmt()), post.status.get('inaccuracy'), 'differs from' if inexact else 'equals'), ev)
            ctx.judged((sg_arg, given, rank, 'non-dyadic', post.n_word == MAXW, MAXW), True, None, elements=len(vals))
            ctx.floor_hit(('capped', inexact))
            if MAXW != 64:
                ctx.floor_hit(('capped_configured_maximum', inexact))
            return
        # ---- dyadic domain: exact model
        nf_exact = max(R.frac_bits_needed(v) for v in vals)
        if MAXW != 64 and ((given and not (is_raw and given == ('n_frac',))) or int_bits(vals, signed) + s > MAXW):
            ctx.skip('infer:configured maximum with a given size, or an integer part that does not fit the configured maximum')
            return
        if not given and nf_exact + int_bits(vals, signed) + s > MAXW:
            # the exact format is beyond the configured maximum: word <= maximum (checked above), error below one LSB, flagged inexact (the statement
            # does not fix the fraction length of the capped format)
            lsb = R.lsb(post.n_frac)
            got = [k * lsb for k in codes_of()]
            inexact = got != vals
            if any(abs(g - v) >= lsb for g, v in zip(got, vals)):
                ctx.violation('capped_error', 'inferred %s and stored %s for inputs %s: error >= 1 LSB' % (R.dtype_fxp(*post.fmt()), [str(g) for g in got[:4]], [str(v) for v in vals[:4]]), ev)
            elif bool(post.status.get('inaccuracy')) != inexact or post.status.get('overflow') or post.status.get('underflow'):
                ctx.violation('capped_flag', 'capped inference %s of %s: flags %r, stored value %s the input' % (R.dtype_fxp(*post.fmt()), [str(v) for v in vals[:4]], post.status, 'differs from' if inexact else 'equals'), ev)
            ctx.judged((sg_arg, given, rank, 'dyadic-capped', post.n_word == MAXW, MAXW), True, None, elements=len(vals))
            if MAXW != 64:
                ctx.floor_hit(('capped_configured_maximum', inexact))
            return
        if arithmetic:
            e_word, e_frac = n_word, n_frac
        elif n_word is None and n_frac is None:
            i = int_bits(vals, signed)
            e_frac = min(MAXW - s - i, nf_exact)
            e_word = e_frac + i + s
        elif n_frac is None:
            i = int_bits(vals, signed)
            e_frac = min(n_word - s - i, nf_exact)
            e_word = n_word
        else:
            if n_frac < 0:
                ctx.skip('infer:negative n_frac given')
                return
            sc = F(2) ** n_frac
            rv = [F(R.round_exact(v * sc, 'trunc')) / sc for v in vals]
            i = int_bits(rv, signed)
            e_frac = n_frac
            e_word = n_frac + i + s
            if e_word > MAXW:
                # the word is capped at the maximum: the integer part is kept, fraction bits are given up
                e_frac = MAXW - s - i
                e_word = MAXW
        e_word = min(e_word, MAXW)
        if (post.signed, post.n_word, post.n_frac) != (signed, e_word, e_frac):
            ctx.violation('format', 'Fxp(%s, signed=%r, given %s) inferred %s, the minimal exact format is %s' % (
                [str(v) for v in vals[:4]], sg_arg, {k: d.get(k) for k in given}, R.dtype_fxp(*post.fmt()), R.dtype_fxp(signed, e_word, e_frac)), ev)
        else:
            lsb = R.lsb(e_frac)
            lo, hi = R.code_range(signed, e_word)
            representable = all((v / lsb).denominator == 1 and lo <= v / lsb <= hi for v in vals)
            if representable:
                got = [k * lsb for k in codes_of()]
                if got != vals or tuple(post.shape) != tuple(shape) or (is_c and not post.is_complex):
                    ctx.violation('value', 'inferred %s but stored %s for inputs %s' % (R.dtype_fxp(*post.fmt()), [str(g) for g in got[:4]], [str(v) for v in vals[:4]]), ev)
                elif any(post.status.get(f) for f in ('overflow', 'underflow', 'inaccuracy')):
                    ctx.violation('flag', 'exact inference %s raised flags %r' % (R.dtype_fxp(*post.fmt()), post.status), ev)
        bc = boundary_class(vals)
        nontriv = e_frac > 0 or rank == 'array' or bc != ('generic',)
        sample = None
        if ctx.want_sample() and nontriv:
            sample = {'inputs': [str(v) for v in vals[:4]], 'signed_arg': sg_arg, 'given': {k: d.get(k) for k in given}, 'inferred': R.dtype_fxp(*post.fmt())}
        kinds = set(type(x).__name__ for x in G_flat(val)) if isinstance(val, (list, tuple)) else set()
        mixed = 'int' in kinds and 'float' in kinds
        ctx.judged((sg_arg, given, rank, bc, False, MAXW, mixed, is_c), nontriv, sample, elements=len(vals))
        if is_c:
            ctx.floor_hit(('complex-input', is_raw))
        ctx.floor_hit(('given', given, sg_arg))
        if mixed and e_frac > 0:
            ctx.floor_hit(('mixed_int_float_container', type(val).__name__))
    return [infer_judge]


def floors(tier):
    gs = [(), ('n_word',), ('n_frac',), ('n_frac', 'n_int'), ('n_word', 'n_int')]
    return [('given', g, sa) for g in gs for sa in (None, True, False)] + [('capped', True), ('capped', False), ('capped_configured_maximum', True),
                                                                         ('mixed_int_float_container', 'list'), ('mixed_int_float_container', 'tuple'), ('object-array-numpy-scalars',), ('raw-with-fraction-length',),
                                                                         ('complex-input', False), ('complex-input', True), ('like-with-n_int-and-signedness',), ('fixed-point-input',), ('negative-n_int-with-one-size',)]


# ------------------------------------------------------------------------------------------ workload
def cases(tier, seed):
    n = 2500 if tier == 'quick' else 50000
    for i in range(n):
        yield {'k': 'dyadic', 'i': i}
    n = 300 if tier == 'quick' else 6000
    for i in range(n):
        yield {'k': 'capped', 'i': i}


def _try(f):
    try:
        return f()
    except Exception:
        return None


def dyadic_value(rng, nonneg):
    c = rng.choice(['pow2', 'pow2m', 'pow2p', 'zero', 'generic', 'generic', 'small', 'int'])
    f = rng.randint(0, 20)
    if c == 'pow2':
        v = F(2) ** rng.randint(-f, 30)
    elif c == 'pow2m':
        v = F(2) ** rng.randint(0, 30) - F(1, 2 ** f)
    elif c == 'pow2p':
        v = F(2) ** rng.randint(0, 30) + F(1, 2 ** f)       # just beyond a power of two (negated: just below -2^k)
    elif c == 'zero':
        v = F(0)
    elif c == 'small':
        v = F(rng.randint(1, 2 ** 12), 2 ** f)
    elif c == 'int':
        v = F(rng.randint(0, 2 ** rng.randint(1, 38)))
    else:
        v = F(rng.randint(1, 2 ** rng.randint(1, 39)), 2 ** f)
    if not nonneg and rng.random() < 0.5:
        v = -v
    if abs(v.numerator) >= 2 ** 40 or v.denominator > 2 ** 20:
        v = F(v.numerator % (2 ** 39), v.denominator) * (1 if v > 0 else -1)
    return v


def run_case(case, ctx):
    Fxp = ctx.mon.Fxp
    rng = ctx.rng_for(case['k'], case['i'])
    i = case['i']
    if case['k'] == 'dyadic':
        sg = (None, True, False)[i % 3]
        nonneg = (sg is False)
        form = (i // 3) % 4
        if form == 0:
            v = dyadic_value(rng, nonneg)
            val = float(v) if (v.denominator != 1 or rng.random() < 0.5) else int(v)
            vals = [v]
        else:
            n = rng.randint(2, 5)
            vals = [dyadic_value(rng, nonneg) for _ in range(n)]
            if form == 1:
                val = [float(v) for v in vals]
            elif form == 2:
                val = np.array([float(v) for v in vals])
            else:
                vals = (vals * 2)[:4]
                val = np.array([float(v) for v in vals]).reshape(2, 2)
        s = 0 if sg is False else 1
        nfe = max(R.frac_bits_needed(v) for v in vals)
        ib = int_bits(vals, sg is not False)
        kw = {} if sg is None else {'signed': sg}
        _try(lambda: Fxp(val, **kw))
        # only n_word: enough room, exactly enough, too little
        for nw in {nfe + ib + s, nfe + ib + s + rng.randint(1, 6), max(1, nfe + ib + s - rng.randint(1, 3)), rng.randint(2, 48),
                   ib + s + rng.randint(0, 3), max(1, ib + s + nfe // 2)}:
            if 1 <= nw <= 64:
                _try(lambda: Fxp(val, n_word=nw, **kw))
        # only n_frac
        for nf in {nfe, nfe + rng.randint(1, 4), max(0, nfe - rng.randint(1, 3)), 0}:
            _try(lambda: Fxp(val, n_frac=nf, **kw))
        # the same values in other numeric carriers (inference must not depend on the dtype the values arrive in)
        alts = []
        for kind in ('np:float32', 'np:float16', 'np:int8', 'np:int16', 'np:int32', 'np:int64', 'np:uint8', 'np:uint16', 'np:uint32', 'pyint'):
            if all(G.can_carry(v, kind) for v in vals):
                if form == 0:
                    alts.append(G.element(vals[0], kind))
                    alts.append([G.element(vals[0], kind)])
                else:
                    alts.append(G.build_carrier(vals, kind, '1d'))
                    alts.append(G.build_carrier(vals, kind, 'list'))
        rng.shuffle(alts)
        for alt in alts[:4]:
            _try(lambda: Fxp(alt, **kw))
            _try(lambda: Fxp(alt, n_frac=nfe + rng.randint(0, 5), **kw))
            _try(lambda: Fxp(alt, n_frac=rng.randint(8, 24), **kw))
            _try(lambda: Fxp(alt, n_word=nfe + ib + s + rng.randint(0, 3), **kw))
        # containers mixing python integers with floats (list, tuple, nested): the integers must not decide the fraction length
        iv = F(rng.randint(0, 9) if nonneg else rng.randint(-9, 9))
        fv = F(rng.randint(0, 2 ** 6) * 2 + 1, 2 ** rng.randint(1, 12))
        mvals = [iv, fv] + [v for v in vals[:2]]
        if rng.random() < 0.5:
            rng.shuffle(mvals)
        mlist = [int(v) if v.denominator == 1 else float(v) for v in mvals]
        _try(lambda: Fxp(list(mlist), **kw))
        _try(lambda: Fxp(tuple(mlist), **kw))
        _try(lambda: Fxp([list(mlist), list(reversed(mlist))], **kw))
        _try(lambda: Fxp(list(mlist), n_word=rng.randint(20, 60), **kw))
        # object arrays holding narrow NumPy scalars next to python numbers (the size search must not multiply in the scalar's own type)
        if (i // 12) % 3 == 0:
            for first in (np.int8(100), np.uint8(200), np.int16(20000), np.float16(1000.0), np.float32(1.5), np.int8(-3)):
                if nonneg and first < 0:
                    continue
                oa_ = np.empty(2, dtype=object)
                oa_[:] = [first, float(F(rng.randint(1, 2 ** 9) * 2 + 1, 2 ** rng.randint(1, 10)))]
                _try(lambda: Fxp(oa_, **kw))
                _try(lambda: Fxp(oa_, n_frac=rng.randint(10, 14), **kw))
            ctx.floor_hit(('object-array-numpy-scalars',))
        # raw values given with their fraction length (only the word is inferred): also values whose word has to be limited to the maximum
        if form == 0:
            nfr = nfe + rng.randint(0, 6)
            kraw = int(vals[0] * 2 ** nfr)
            _try(lambda: Fxp(kraw, n_frac=nfr, raw=True, **kw))
            _try(lambda: Fxp([kraw, 1], n_frac=nfr, raw=True, **kw))
            big = rng.randint(2 ** 38, 2 ** 40 - 1) * (1 if nonneg or rng.random() < 0.5 else -1)
            nfb = rng.randint(24, 30)
            _try(lambda: Fxp(big * 2 ** nfb, n_frac=nfb, raw=True, **kw))
            _try(lambda: Fxp([big * 2 ** nfb, 3 * 2 ** (nfb - 3)], n_frac=nfb, raw=True, **kw))
            # raw values that carry fraction bits, and another configured maximum
            _try(lambda: Fxp(float(kraw) + 0.5, n_frac=nfr, raw=True, **kw))
            _try(lambda: Fxp(float(rng.randint(600, 4000)), n_frac=rng.randint(3, 6), raw=True, n_word_max=rng.choice([8, 10, 12]), **kw))
            _try(lambda: Fxp([float(rng.randint(600, 4000)), 3.0], n_frac=4, raw=True, n_word_max=8, **kw))
            _try(lambda: Fxp(rng.randint(600, 4000), n_frac=rng.randint(3, 6), raw=True, n_word_max=rng.choice([8, 10, 12]), **kw))
            ctx.floor_hit(('raw-with-fraction-length',))
            # values supplied inside a fixed-point object whose format is wider / finer than they need; sizes given next to like= with another signedness
            srcf = _try(lambda: Fxp(val, True, 52, 22))
            if srcf is not None and not nonneg or srcf is not None:
                _try(lambda: Fxp(srcf, **kw))
                _try(lambda: Fxp(srcf, n_word=rng.randint(24, 48), **kw))
            ib_ = int_bits(vals, not nonneg)
            tsg = rng.random() < 0.5
            tmpl_ = Fxp(None, tsg, 16, 8)
            for sg2 in (True, False):
                if not sg2 and any(v < 0 for v in vals):
                    continue
                ib2 = int_bits(vals, sg2)
                _try(lambda: Fxp(val, like=tmpl_, signed=sg2, n_word=ib2 + nfe + (1 if sg2 else 0), n_int=ib2))
                _try(lambda: Fxp(val, like=tmpl_, signed=sg2, n_frac=nfe, n_int=ib2))
            # a NEGATIVE integer length given with the fraction length (values below one half): the word follows arithmetically, n_word = n_int + n_frac + sign
            for _ in range(2):
                fneg = rng.randint(4, 12)
                nin_ = -rng.randint(1, fneg - 2)
                kneg = rng.randint(1, 2 ** (fneg + nin_) - 1)
                vneg = float(F(kneg, 2 ** fneg)) * (1 if nonneg or rng.random() < 0.5 else -1)
                _try(lambda: Fxp(vneg, n_int=nin_, n_frac=fneg, **kw))
                _try(lambda: Fxp([vneg, 0.0], n_int=nin_, n_frac=fneg, **kw))
                _try(lambda: Fxp(vneg, n_word=fneg + nin_ + (0 if sg is False else 1), n_int=nin_, **kw))
            ctx.floor_hit(('negative-n_int-with-one-size',))
            # complex inputs are sized for both components: values, and raw codes whose fraction length the configured maximum shortens
            cre, cim = vals[0], dyadic_value(rng, nonneg)
            _try(lambda: Fxp(complex(float(cre), float(cim)), **kw))
            _try(lambda: Fxp([complex(float(cre), float(cim)), complex(float(cim), 1.0)], **kw))
            _try(lambda: Fxp(np.complex64(complex(float(F(rng.randint(1, 2 ** 10), 2 ** rng.randint(0, 8))), float(F(rng.randint(1, 2 ** 10), 2 ** rng.randint(0, 8))))), **kw))
            nfc = rng.randint(3, 8)
            ca, cb = rng.randint(40, 120), rng.randint(0 if nonneg else -120, 120)
            _try(lambda: Fxp(complex(ca * 2 ** nfc, cb * 2 ** nfc), n_frac=nfc, raw=True, n_word_max=8, **kw))
            _try(lambda: Fxp([complex(ca * 2 ** nfc, cb * 2 ** nfc), complex(2 ** nfc, 0)], n_frac=nfc, raw=True, n_word_max=8, **kw))
            _try(lambda: Fxp(np.complex64(complex(cb * 2 ** nfc, ca * 2 ** nfc)), n_frac=nfc, raw=True, n_word_max=8, **kw))
        # another configured maximum
        nwm = rng.choice([16, 24, 32, 48])
        _try(lambda: Fxp(val, n_word_max=nwm, **kw))
        # integers whose code at the given fraction length needs 63 / 64 / 65 bits
        if form == 0 and vals[0].denominator == 1 and vals[0] != 0:
            bl = abs(int(vals[0])).bit_length()
            for tot in (62, 63, 64):
                if tot - bl >= 0:
                    _try(lambda: Fxp(int(vals[0]), n_frac=tot - bl, **kw))
        _try(lambda: Fxp(0, n_frac=63, **kw))
        # n_int with one other size
        _try(lambda: Fxp(val, n_frac=nfe, n_int=ib + rng.randint(0, 3), **kw))
        _try(lambda: Fxp(val, n_word=nfe + ib + s + 2, n_int=ib + 1, **kw))
        _try(lambda: Fxp(val, n_word=nfe + ib + s, n_int=ib, **kw))          # (n_int may be 0)
        if ib == 0:
            _try(lambda: Fxp(val, n_word=nfe + s + rng.randint(0, 4), n_int=0, **kw))
            _try(lambda: Fxp(val, n_frac=nfe + rng.randint(0, 2), n_int=0, **kw))
        return
    # capped case: non-dyadic doubles
    c = rng.choice(['third', 'small', 'rand', 'rand'])
    if c == 'third':
        v = rng.choice([1, -1]) * rng.randint(1, 1000) / 3.0
    elif c == 'small':
        v = rng.choice([1e-5, -1e-5, 1.1e-9, 0.1, -0.7, 123.456])
    else:
        v = rng.choice([-1, 1]) * rng.random() * 2.0 ** rng.randint(-30, 30)
    sg = (None, True, False)[i % 3]
    if sg is False:
        v = abs(v)
    kw = {} if sg is None else {'signed': sg}
    _try(lambda: Fxp(v, **kw))
    _try(lambda: Fxp([v, v / 7.0], **kw))
    nwm = rng.choice([12, 16, 24, 32, 48])
    if abs(v) < 2.0 ** (nwm - 2):
        _try(lambda: Fxp(v, n_word_max=nwm, **kw))
        _try(lambda: Fxp(np.array([v, v / 7.0]), n_word_max=nwm, **kw))
    # arrays mixing large and tiny magnitudes: the cap must take fraction bits away, not integer bits
    big = abs(v) * 2.0 ** rng.randint(5, 35) + rng.randint(1, 1000)
    if big < 2.0 ** 39:
        _try(lambda: Fxp(np.array([big, v / 1024.0 / 3.0]), **kw))
        _try(lambda: Fxp([v / 4096.0 / 7.0, big if sg is False else -big], **kw))
