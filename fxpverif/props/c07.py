"""C07 - add, subtract, multiply with optimal sizing are exact and never overflow."""
from fractions import Fraction as F

import numpy as np

from .. import refmodel as R
from .. import gen as G
from ..exact import Unsupported
from .. import arith as A

ID = 'C07'
TECHNIQUE = 'runtime monitoring: + - * events by operator, function and NumPy ufunc judged against exact Fraction arithmetic and the growth rules; operands unchanged (frame monitor)'
TITLE = '+ - * with optimal sizing are exact'
RULE = ('arithmetic events (+ - * by operator, by fxpmath.add/sub/mul, by np.add/subtract/multiply) with optimal sizing and no '
        'out/out_like, result word <= 53: result values (code*LSB as Fractions) must equal the exact result of the operand values '
        '(PRE snapshots), result format = growth rule, overflow/underflow clear (negative unsigned difference: Q(diff) into the '
        'unsigned result format). Key = (op, signedness pair, fraction-class pair, route, corner, rank); non-trivial = corner != '
        'interior or unequal n_frac or mixed signedness.')
DECIDING_OPS = [('__add__', '__radd__'), '__sub__', '__mul__', 'add', 'sub', 'mul', '__array_ufunc__']
ANCHORS = ['functions.add', 'functions.sub', 'functions.mul', 'functions.add.<locals>._add_raw', 'functions.sub.<locals>._sub_raw',
           'functions.mul.<locals>._mul_raw', 'functions._function_over_two_vars', 'functions._get_sizing']
EXHAUSTIVE = {'quick': 'every code pair of every operand format pair with n_word<=3, n_frac -1..n_word+1, 3 ops x 3 routes (broadcast column x row)',
              'thorough': 'same with n_word<=4'}
SHARDS = {'quick': 16, 'thorough': 16}
MAX_RESULT_WORD = 53


def corner_of(ai):
    def ext(s):
        lo, hi = R.code_range(s.signed, s.n_word)
        cs = set(s.codes)
        return ('lo' if lo in cs else '') + ('hi' if hi in cs else '')
    a, b = ext(ai.x), ext(ai.y)
    return (a or 'in', b or 'in')


def judge_optimal(ctx, ev, ai, max_word=MAX_RESULT_WORD, min_word=0, check_inaccuracy=False, who='C07'):
    """shared with C19: exactness of + - * with optimal sizing.  returns True if the event was judged."""
    x, y = ai.x, ai.y
    fx, fy = x.fmt(), y.fmt()
    efmt = A.optimal_format(ai.op, fx, fy)
    if efmt[1] > max_word or efmt[1] < max(1, min_word):
        ctx.skip('arith:result word %s the %s range' % ('outside', who))
        return False
    if ev.exc is not None:
        ctx.violation('raises', '%s %s %s raised %s: %s' % (R.dtype_fxp(*fx), ai.op, R.dtype_fxp(*fy), type(ev.exc).__name__, str(ev.exc)[:160]), ev,
                      key='arith.raises')
        return True
    res = ai.res
    if res is None:
        ctx.violation('result_type', '%s returned %s, not an Fxp' % (ev.op, type(ev.result).__name__), ev)
        return True
    if res.fmt() != efmt:
        ctx.violation('format', '%s %s %s -> %s, growth rule gives %s' % (R.dtype_fxp(*fx), ai.op, R.dtype_fxp(*fy), R.dtype_fxp(*res.fmt()), R.dtype_fxp(*efmt)), ev)
        return True
    ex = A.exact_op(ai.op, A.fr_array(x), A.fr_array(y))
    if A.beyond_double(ai, A.flat(ex)[0], A.fr_array(x), A.fr_array(y)):
        ctx.skip('arith:value (repr) method on values beyond double precision (float arithmetic by definition; the properties are anchored in the integer kernels)')
        return False
    exf, shape = A.flat(ex)
    if tuple(res.shape) != tuple(shape):
        ctx.violation('shape', 'result shape %r, broadcast shape %r' % (res.shape, shape), ev)
        return True
    lsb = R.lsb(res.n_frac)
    lo, hi = R.code_range(res.signed, res.n_word)
    neg_unsigned = (not x.signed and not y.signed and ai.op == 'sub')
    exp_over = exp_under = False
    bad = None
    for i, (e, k) in enumerate(zip(exf, res.codes)):
        if not isinstance(k, int):
            bad = 'element %d: non-integer code %r' % (i, k)
            break
        ek = e / lsb
        if ek.denominator != 1:
            bad = 'element %d: exact result %s is not a multiple of the result LSB (model error?)' % (i, e)
            break
        ek = ek.numerator
        if ek < lo or ek > hi:
            if neg_unsigned and ek < lo:
                exp_under = True
                ek2 = R.overflow_exact(ek, res.signed, res.n_word, res.overflow)
                if k != ek2:
                    bad = 'element %d: negative unsigned difference %s stored as code %d, %s gives %d' % (i, e, k, res.overflow, ek2)
                    break
                continue
            bad = 'element %d: exact result %s does not fit the documented result format %s' % (i, e, R.dtype_fxp(*efmt))
            break
        if k != ek:
            bad = 'element %d: %s %s %s = %s exactly (code %d), library code %d' % (i, '', ai.op, '', e, ek, k)
            break
    if bad:
        ctx.violation('inexact', '%s %s %s [%s, %s]: %s' % (R.dtype_fxp(*fx), ai.op, R.dtype_fxp(*fy), ai.route, ai.method, bad), ev)
    else:
        st = res.status
        if bool(st.get('overflow')) != exp_over or bool(st.get('underflow')) != exp_under:
            ctx.violation('flags', '%s %s %s: overflow=%s underflow=%s, expected %s/%s' % (R.dtype_fxp(*fx), ai.op, R.dtype_fxp(*fy),
                          st.get('overflow'), st.get('underflow'), exp_over, exp_under), ev)
    corner = corner_of(ai)
    sgn = ('s' if x.signed else 'u') + ('s' if y.signed else 'u')
    key = (ai.op, sgn, G.frac_class(x.n_word, x.n_frac), G.frac_class(y.n_word, y.n_frac), ai.route, corner, len(shape),
           G.word_class(efmt[1]), 'negdiff' if exp_under else '')
    nontriv = corner != ('in', 'in') or x.n_frac != y.n_frac or x.signed != y.signed
    sample = None
    if ctx.want_sample() and nontriv:
        sample = {'op': ev.op, 'x': x.describe(), 'y': y.describe(), 'result': res.describe(), 'route': ai.route}
    ctx.judged(key, nontriv, sample, elements=len(exf))
    ctx.floor_hit(('mix', ai.op, sgn, ai.route))
    if x.n_frac < 0 or y.n_frac < 0:
        ctx.floor_hit(('nfrac', '<0'))
    if x.n_frac > x.n_word or y.n_frac > y.n_word:
        ctx.floor_hit(('nfrac', '>w'))
    return True


def make_judges(ctx):
    mon = ctx.mon

    def arith_judge(ev):
        ai = A.decode_arith(ev, mon)
        if ai is None or ai.op not in ('add', 'sub', 'mul'):
            return
        if ai.sizing != 'optimal' or ai.out is not None or ai.out_like is not None:
            ctx.skip('arith:imposed format (C08)')
            return
        if ai.x is None or ai.y is None:
            ctx.skip('arith:constant operand (C08)')
            return
        if not (A.usable(ai.x) and A.usable(ai.y)):
            ctx.skip('arith:complex or scaled operand')
            return
        judge_optimal(ctx, ev, ai)
    return [arith_judge]


def floors(tier):
    return [('mix', op, sg, rt) for op in ('add', 'sub', 'mul') for sg in ('ss', 'su', 'us', 'uu') for rt in ('operator', 'function', 'numpy')] + \
           [('nfrac', '<0'), ('nfrac', '>w'), ('value-built',)] + [('integer-formats', sg) for sg in ('ss', 'su', 'us', 'uu')] + [('integer-formats-value-method', 0), ('integer-formats-value-method', 1)]


# ------------------------------------------------------------------------------------------ workload
def small_formats(wmax):
    out = []
    for s in (True, False):
        for w in range(1, wmax + 1):
            for nf in range(-1, w + 2):
                out.append((s, w, nf))
    return out


def cases(tier, seed):
    wmax = 3 if tier == 'quick' else 4
    fmts = small_formats(wmax)
    for i, fx in enumerate(fmts):
        for j, fy in enumerate(fmts):
            yield {'k': 'grid', 'x': list(fx), 'y': list(fy)}
    n = 1500 if tier == 'quick' else 30000
    for i in range(n):
        yield {'k': 'corner', 'i': i}
    n = 300 if tier == 'quick' else 8000
    for i in range(n):
        yield {'k': 'tree', 'i': i}


def all_codes(s, w):
    lo, hi = R.code_range(s, w)
    return list(range(lo, hi + 1))


def do_ops(ctx, x, y, ops=('add', 'sub', 'mul'), routes=('operator', 'function', 'numpy'), rng=None):
    fm = ctx.mon.fxpmath
    if rng is not None and rng.random() < 0.35:
        # operands with a history (same format and codes, obtained through another public route)
        x, hx = G.historied(ctx.mon.Fxp, x, rng)
        y, hy = G.historied(ctx.mon.Fxp, y, rng)
        ctx.notes['history:%s' % hx] += 1
        ctx.notes['history:%s' % hy] += 1
    for op in ops:
        for rt in routes:
            try:
                if rt == 'operator':
                    z = x + y if op == 'add' else (x - y if op == 'sub' else x * y)
                elif rt == 'function':
                    z = getattr(fm, op)(x, y)
                else:
                    z = {'add': np.add, 'sub': np.subtract, 'mul': np.multiply}[op](x, y)
            except Exception:
                pass


def pick_pair(rng, max_res=MAX_RESULT_WORD):
    for _ in range(200):
        sx, sy = rng.random() < 0.5, rng.random() < 0.5
        wx, wy = rng.randint(1, 30), rng.randint(1, 30)
        if rng.random() < 0.3:
            wx = rng.randint(1, 48)
            wy = rng.randint(1, 4)
        fx, fy = rng.randint(-1, wx + 1), rng.randint(-1, wy + 1)
        if max(R.fmt_add((sx, wx, fx), (sy, wy, fy))[1], wx + wy) <= max_res:
            return (sx, wx, fx), (sy, wy, fy)
    return (True, 8, 2), (False, 8, 3)


def run_case(case, ctx):
    Fxp = ctx.mon.Fxp
    k = case['k']
    if k == 'grid':
        fx, fy = tuple(case['x']), tuple(case['y'])
        cx = np.array(all_codes(fx[0], fx[1])).reshape(-1, 1)
        cy = np.array(all_codes(fy[0], fy[1])).reshape(1, -1)
        x = Fxp(cx, fx[0], fx[1], fx[2], raw=True)
        y = Fxp(cy, fy[0], fy[1], fy[2], raw=True)
        do_ops(ctx, x, y)
        return
    rng = ctx.rng_for(k, case['i'])
    if k == 'corner':
        fx, fy = pick_pair(rng)
        lox, hix = R.code_range(fx[0], fx[1])
        loy, hiy = R.code_range(fy[0], fy[1])
        form = case['i'] % 3
        if form == 0:       # the four extreme-code corners by broadcasting
            x = Fxp(np.array([[lox], [hix]]), fx[0], fx[1], fx[2], raw=True)
            y = Fxp(np.array([[loy, hiy]]), fy[0], fy[1], fy[2], raw=True)
        elif form == 1:     # scalars at / near extremes
            x = Fxp(rng.choice([lox, hix, min(hix, lox + 1), max(lox, hix - 1)]), fx[0], fx[1], fx[2], raw=True)
            y = Fxp(rng.choice([loy, hiy, min(hiy, loy + 1), max(loy, hiy - 1)]), fy[0], fy[1], fy[2], raw=True)
        else:               # random 1-d arrays
            n = rng.randint(1, 5)
            x = Fxp(np.array([rng.randint(lox, hix) for _ in range(n)]), fx[0], fx[1], fx[2], raw=True)
            y = Fxp(np.array([rng.randint(loy, hiy) for _ in range(n)]), fy[0], fy[1], fy[2], raw=True)
        do_ops(ctx, x, y, rng=rng)
        if (case['i'] // 3) % 2 == 0:
            # the same operands built from VALUES (python integers / integer arrays when the format has no fraction bits, floats otherwise) instead of raw codes:
            # their value type (int / float) must not change the result
            def from_values(src, f):
                codes = np.asarray(src.val, dtype=object)
                if f[2] <= 0:
                    vals = np.vectorize(lambda c: int(c) * (1 << -f[2]), otypes=[object])(codes)
                    v = int(vals.item()) if vals.ndim == 0 else np.array(vals.tolist())
                else:
                    vals = np.vectorize(lambda c: float(F(int(c)) * R.lsb(f[2])), otypes=[float])(codes)
                    v = float(vals) if vals.ndim == 0 else vals
                return Fxp(v, f[0], f[1], f[2])
            try:
                xv, yv = from_values(x, fx), from_values(y, fy)
            except Exception:
                xv = yv = None
            if xv is not None and np.array_equal(np.asarray(xv.val, dtype=object), np.asarray(x.val, dtype=object)) and np.array_equal(np.asarray(yv.val, dtype=object), np.asarray(y.val, dtype=object)):
                do_ops(ctx, xv, yv, routes=('operator', 'function', 'numpy'))
                do_ops(ctx, xv, y, routes=('operator',))
                ctx.floor_hit(('value-built',))
        if (case['i'] // 6) % 3 == 0:
            # integer formats (no fraction bits in either operand, hence none in the result) holding values given as python integers / integer arrays
            ix = (fx[0], min(fx[1], 24), rng.choice([0, 0, -1]))
            iy = (fy[0], min(fy[1], 24), rng.choice([0, 0, -1]))
            ilx, ihx = R.code_range(ix[0], ix[1])
            ily, ihy = R.code_range(iy[0], iy[1])
            for _rep in range(2):
                cxs = [rng.choice([ilx, ihx, rng.randint(ilx, ihx)]) for _ in range(3)]
                cys = [rng.choice([ily, ihy, rng.randint(ily, ihy)]) for _ in range(3)]
                try:
                    if _rep == 0:
                        xi = Fxp(cxs[0] * (1 << -ix[2]), ix[0], ix[1], ix[2])
                        yi = Fxp(cys[0] * (1 << -iy[2]), iy[0], iy[1], iy[2])
                    else:
                        xi = Fxp([c * (1 << -ix[2]) for c in cxs], ix[0], ix[1], ix[2])
                        yi = Fxp(np.array([c * (1 << -iy[2]) for c in cys]), iy[0], iy[1], iy[2])
                except Exception:
                    continue
                do_ops(ctx, xi, yi, routes=('operator', 'function', 'numpy'))
                ctx.floor_hit(('integer-formats', ('s' if ix[0] else 'u') + ('s' if iy[0] else 'u')))
                # the value based method on these integer-valued operands (whole objects, and elements taken by indexing - their values are NumPy scalars):
                # the same exact results (every value here is an exact double)
                fm_ = ctx.mon.fxpmath
                pairs_ = [(xi, yi)] if _rep == 0 else [(xi, yi), (xi[0], yi[1]), (xi[2], yi), (xi[1], yi[1])]
                for xa_, ya_ in pairs_:
                    for op_ in ('add', 'sub', 'mul'):
                        try:
                            getattr(fm_, op_)(xa_, ya_, method='repr')
                        except Exception:
                            pass
                    try:
                        xr_ = Fxp(xa_, like=xa_, op_method='repr')
                        xr_ - ya_
                        xr_ * ya_
                    except Exception:
                        pass
                ctx.floor_hit(('integer-formats-value-method', _rep))
        if case['i'] % 4 == 0:
            # operands with a history: signedness changed on its own, built like= another object with another sign, flags raised by an earlier store
            x2 = Fxp(np.asarray(x.val), fx[0], fx[1], fx[2], raw=True)
            try:
                if np.all(np.asarray(x2.val) >= 0):
                    x2.resize(signed=not fx[0])
                x3 = Fxp(abs(x.get_val()) if np.ndim(x.val) == 0 else np.abs(x.get_val()), like=x, signed=False)
            except Exception:
                x3 = None
            do_ops(ctx, x2, y, routes=('operator', 'function'))
            if x3 is not None:
                do_ops(ctx, x3, y, routes=('operator',))
            xf = Fxp(np.asarray(x.val), fx[0], fx[1], fx[2], raw=True)
            try:
                xf(float(xf.upper) * 2 + 1)           # saturates: raises its overflow flag
                xf.set_val(np.asarray(x.val), raw=True)
            except Exception:
                pass
            do_ops(ctx, xf, y, routes=('operator', 'numpy'))
            if not fx[0] and not fy[0]:
                import warnings
                with warnings.catch_warnings():
                    warnings.simplefilter('error')          # e.g. pytest -W error: the result must not depend on NumPy's warning state
                    for ov in ('saturate', 'wrap'):
                        a_ = Fxp(lox, False, fx[1], fx[2], raw=True, overflow=ov)
                        b_ = Fxp(hiy, False, fy[1], fy[2], raw=True)
                        try:
                            a_ - b_
                        except Exception:
                            pass
                        try:
                            ctx.mon.fxpmath.sub(Fxp(np.array([lox, hix]), False, fx[1], fx[2], raw=True, overflow=ov), Fxp(np.array([hiy, loy]), False, fy[1], fy[2], raw=True))
                        except Exception:
                            pass
                try:
                    d = Fxp(lox, False, fx[1], fx[2], raw=True) - Fxp(hiy, False, fy[1], fy[2], raw=True)   # documented exception: underflow raised
                    if d.n_word + y.n_word <= MAX_RESULT_WORD:
                        do_ops(ctx, d, y, ops=('add', 'mul'), routes=('operator',))
                except Exception:
                    pass
        return
    if k == 'tree':
        # random expression tree of depth <= 4 over 1..3-bit leaves; the root stays <= 53 bits
        def build(depth):
            if depth == 0 or rng.random() < 0.25:
                s = rng.random() < 0.5
                w = rng.randint(1, 3)
                nf = rng.randint(-1, w + 1)
                lo, hi = R.code_range(s, w)
                c = rng.choice([lo, hi, rng.randint(lo, hi)])
                return ('leaf', (s, w, nf), c)
            return (rng.choice(['add', 'sub', 'mul']), build(depth - 1), build(depth - 1))

        def fmt_of(t):
            if t[0] == 'leaf':
                return t[1]
            a, b = fmt_of(t[1]), fmt_of(t[2])
            return R.fmt_mul(a, b) if t[0] == 'mul' else R.fmt_add(a, b)

        def exact(t):
            if t[0] == 'leaf':
                return F(t[2]) * R.lsb(t[1][2])
            a, b = exact(t[1]), exact(t[2])
            return a + b if t[0] == 'add' else (a - b if t[0] == 'sub' else a * b)

        def has_unsigned_negative(t):
            if t[0] == 'leaf':
                return False
            if has_unsigned_negative(t[1]) or has_unsigned_negative(t[2]):
                return True
            return t[0] == 'sub' and not fmt_of(t)[0] and exact(t) < 0

        def evaluate(t):
            if t[0] == 'leaf':
                return Fxp(t[2], t[1][0], t[1][1], t[1][2], raw=True)
            a, b = evaluate(t[1]), evaluate(t[2])
            return a + b if t[0] == 'add' else (a - b if t[0] == 'sub' else a * b)

        for _ in range(20):
            t = build(rng.randint(2, 4))
            if t[0] != 'leaf' and fmt_of(t)[1] <= MAX_RESULT_WORD and not has_unsigned_negative(t):
                break
        else:
            return
        root = evaluate(t)
        want = exact(t)
        got = F(int(np.asarray(root.val).item())) * R.lsb(root.n_frac)
        if got != want or (root.signed, root.n_word, root.n_frac) != fmt_of(t):
            ctx.violation('tree', 'expression tree %r evaluates to %s (%s), exact value %s (format %s)' % (
                t, got, root.dtype, want, R.dtype_fxp(*fmt_of(t))))
        ctx.judged(('tree', fmt_of(t)[0], G.word_class(fmt_of(t)[1])), True, None)
