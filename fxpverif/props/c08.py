"""C08 - arithmetic into an imposed format equals the exact result quantized into it."""
from fractions import Fraction as F

import numpy as np

from .. import refmodel as R
from .. import gen as G
from ..exact import Unsupported, exact_values
from .. import arith as A

ID = 'C08'
TECHNIQUE = 'runtime monitoring: + - * events with an imposed format (sizing policy, constant, out, out_like) decoded from the event and judged against exact result -> exact quantization under the governing configuration'
TITLE = '+ - * into an imposed format = Q(exact result)'
RULE = ('arithmetic events (+ - *) whose result format is imposed (sizing same/largest/smallest, constant operand with '
        'op_input_size same/best, out=, out_like=, config.op_out/op_out_like, np ufunc out=): result codes must equal '
        'refmodel.quantize(exact result of the PRE operand values; target format, governing rounding, governing overflow), the '
        'result must carry the governing modes, overflow/underflow flags per quantize, out returned by identity; unary -x +x abs(x) '
        'exact and in the operand format when representable. Key = (op, way of imposing, sizing, method, governing modes, outcome); '
        'non-trivial = outcome != exact.')
DECIDING_OPS = [('__add__', '__radd__'), '__sub__', '__rsub__', '__mul__', 'add', 'mul', '__array_ufunc__', '__neg__', '__abs__', '__pos__']
ANCHORS = ['functions._function_over_two_vars', 'functions._get_sizing', 'objects.Fxp._convert_op_input_value',
           'objects.Fxp.__neg__', 'objects.Fxp.__pos__', 'objects.Fxp.__abs__']
EXHAUSTIVE = {'quick': 'a 1/6 sample of: every code pair of conventional operand formats with n_word<=3 into every conventional target '
                       'format with n_word<=4 under all 10 mode pairs for + and * (out=); unary ops for all codes n_word<=6',
              'thorough': 'the complete set; unary ops for all codes n_word<=7'}
SHARDS = {'quick': 16, 'thorough': 16}
DEFAULT_MODES = ('trunc', 'saturate')


def convert_constant(c, policy, me):
    """model of the constant conversion -> (format, exact stored value array, rounding, overflow) or None"""
    a = A.fr_const(c)
    if policy == 'same':
        fmt = me.fmt()
        lsb = R.lsb(fmt[2])
        q = np.frompyfunc(lambda v: R.quantize_code(v, fmt[0], fmt[1], fmt[2], me.rounding, me.overflow) * lsb, 1, 1)
        return fmt, (q(a) if isinstance(a, np.ndarray) and a.shape != () else q(a.item())), me.rounding, me.overflow
    if policy == 'best':
        vals = a.ravel().tolist()
        try:
            n_word, n_frac = R.minimal_format(vals, True)
        except ValueError:
            return None
        if n_word > 64:
            return None
        return (True, n_word, n_frac), (a if a.shape != () else a.item()), DEFAULT_MODES[0], DEFAULT_MODES[1]
    return None


def make_judges(ctx):
    mon = ctx.mon
    Fxp = mon.Fxp

    def arith_judge(ev):
        ai = A.decode_arith(ev, mon)
        if ai is None or ai.op not in ('add', 'sub', 'mul'):
            return
        imposed = ai.sizing != 'optimal' or ai.out is not None or ai.out_like is not None or ai.x is None or ai.y is None
        if not imposed:
            ctx.skip('arith:optimal sizing without target (C07)')
            return
        if ai.sizing not in ('optimal', 'same', 'largest', 'smallest'):
            ctx.skip('arith:sizing %s' % ai.sizing)
            return
        for s in (ai.x, ai.y):
            if s is not None and not A.usable(s):
                ctx.skip('arith:complex or scaled operand')
                return
        # ---- operands (constants are converted first)
        try:
            if ai.x is not None:
                fx, vx, gov_r, gov_o = ai.x.fmt(), A.fr_array(ai.x), ai.x.rounding, ai.x.overflow
            else:
                me = ai.y
                conv = convert_constant(ai.x_const, ai.const_policy, me)
                if conv is None:
                    ctx.skip('arith:constant outside the model')
                    return
                fx, vx, gov_r, gov_o = conv
            if ai.y is not None:
                fy, vy = ai.y.fmt(), A.fr_array(ai.y)
            else:
                me = ai.x
                conv = convert_constant(ai.y_const, ai.const_policy, me)
                if conv is None:
                    ctx.skip('arith:constant outside the model')
                    return
                fy, vy = conv[0], conv[1]
        except Unsupported as e:
            ctx.skip('arith:constant ' + str(e))
            return
        # ---- target format and governing modes
        way = ai.route
        if ai.out is not None:
            t = ai.out_pre
            if t is None or not A.usable(t):
                ctx.skip('arith:out target not usable')
                return
            tfmt, gov_r, gov_o = t.fmt(), t.rounding, t.overflow
            way += '+out'
        elif ai.out_like is not None:
            t = ai.out_like_pre
            if t is None or not A.usable(t):
                ctx.skip('arith:out_like target not usable')
                return
            tfmt, gov_r, gov_o = t.fmt(), t.rounding, t.overflow
            way += '+out_like'
        elif ai.sizing == 'optimal':
            tfmt = A.optimal_format(ai.op, fx, fy)
            way += '+const'
        else:
            tfmt = R.fmt_policy(ai.sizing, fx, fy)
            way += '+' + ai.sizing + ('+const' if (ai.x is None or ai.y is None) else '')
        if tfmt[1] < 1 or tfmt[1] > 63:
            ctx.skip('arith:degenerate or wide target format')
            return
        target_unsigned_for_signed = (ai.out is not None or ai.out_like is not None) and (not tfmt[0]) and (fx[0] or fy[0])
        if ev.exc is not None:
            if target_unsigned_for_signed:
                ctx.skip('arith:signed result into unsigned target is rejected (documented)')
                return
            ctx.violation('raises', '%s %s %s (%s) raised %s: %s' % (R.dtype_fxp(*fx), ai.op, R.dtype_fxp(*fy), way, type(ev.exc).__name__, str(ev.exc)[:160]), ev)
            return
        res = ai.res
        if res is None:
            ctx.violation('result_type', '%s returned %s' % (ev.op, type(ev.result).__name__), ev)
            return
        if ai.out is not None and ev.result is not ai.out:
            ctx.violation('out_identity', 'the result of %s is not the out object' % ev.op, ev)
        if res.fmt() != tfmt:
            ctx.violation('format', '%s %s %s via %s -> %s, imposed format is %s' % (R.dtype_fxp(*fx), ai.op, R.dtype_fxp(*fy), way, R.dtype_fxp(*res.fmt()), R.dtype_fxp(*tfmt)), ev)
            return
        if (res.rounding, res.overflow) != (gov_r, gov_o):
            ctx.violation('modes', 'result carries %s/%s, governing configuration has %s/%s (%s)' % (res.rounding, res.overflow, gov_r, gov_o, way), ev)
            return
        ex = A.exact_op(ai.op, vx, vy)
        exf, shape = A.flat(ex)
        if A.beyond_double(ai, exf, vx, vy):
            ctx.skip('arith:value (repr) method on values beyond double precision (outside the quantifier n_word<=12)')
            return
        if tuple(res.shape) != tuple(shape):
            ctx.violation('shape', 'result shape %r, expected %r' % (res.shape, shape), ev)
            return
        over = under = False
        outcomes = set()
        bad = None
        lsb = R.lsb(tfmt[2])
        for i, (e, k) in enumerate(zip(exf, res.codes)):
            ek, ov, un, ru = R.quantize(e, tfmt[0], tfmt[1], tfmt[2], gov_r, gov_o)
            over |= ov
            under |= un
            if ov:
                outcomes.add('overflow')
            elif un:
                outcomes.add('underflow')
            else:
                sc = e / lsb
                outcomes.add('exact' if sc.denominator == 1 else ('tie' if sc.denominator == 2 else 'inexact'))
            if k != ek and bad is None:
                bad = 'element %d: exact result %s -> code %d under %s/%s, library stored %r' % (i, e, ek, gov_r, gov_o, k)
        if bad:
            ctx.violation('wrong_code', '%s %s %s via %s [%s] into %s: %s' % (R.dtype_fxp(*fx), ai.op, R.dtype_fxp(*fy), way, ai.method, R.dtype_fxp(*tfmt), bad), ev)
        else:
            pre_flags = ai.out_pre.status if ai.out is not None else {}
            exp_o = over or bool(pre_flags.get('overflow'))
            exp_u = under or bool(pre_flags.get('underflow'))
            if bool(res.status.get('overflow')) != exp_o or bool(res.status.get('underflow')) != exp_u:
                ctx.violation('flags', '%s %s %s via %s into %s: overflow=%s underflow=%s, expected %s/%s' % (
                    R.dtype_fxp(*fx), ai.op, R.dtype_fxp(*fy), way, R.dtype_fxp(*tfmt), res.status.get('overflow'), res.status.get('underflow'), exp_o, exp_u), ev)
        nontriv = sorted(o for o in outcomes if o != 'exact')
        main = nontriv[0] if nontriv else 'exact'
        sample = None
        if ctx.want_sample() and nontriv:
            sample = {'op': ev.op, 'way': way, 'x': R.dtype_fxp(*fx), 'y': R.dtype_fxp(*fy), 'target': R.dtype_fxp(*tfmt), 'modes': [gov_r, gov_o],
                      'exact': [str(e) for e in exf[:4]], 'codes': [str(k) for k in res.codes[:4]], 'method': ai.method}
        ctx.judged((ai.op, way, ai.method, gov_r, gov_o, main), bool(nontriv), sample, elements=len(exf))
        for o in nontriv[1:]:
            ctx.keys.add(repr((ai.op, way, ai.method, gov_r, gov_o, o)))
        ctx.floor_hit(('way', way.split('+', 1)[1] if '+' in way else way))
        ctx.floor_hit(('method', ai.method))

    def unary_judge(ev):
        if ev.op not in ('__neg__', '__pos__', '__abs__') or ev.kind != 'method':
            return
        p = ev.pre[0] if ev.pre else None
        if p is None or not A.usable(p) or not (1 <= p.n_word <= 52):
            ctx.skip('unary:operand outside domain')
            return
        if ev.exc is not None:
            ctx.violation('raises', '%s on %s raised %s' % (ev.op, R.dtype_fxp(*p.fmt()), type(ev.exc).__name__), ev)
            return
        res = ev.result_snap
        if res is None:
            ctx.violation('result_type', '%s returned %s' % (ev.op, type(ev.result).__name__), ev)
            return
        if res.fmt() != p.fmt():
            ctx.violation('format', '%s of %s returned format %s' % (ev.op, R.dtype_fxp(*p.fmt()), R.dtype_fxp(*res.fmt())), ev)
            return
        lo, hi = R.code_range(p.signed, p.n_word)
        f = {'__neg__': lambda k: -k, '__pos__': lambda k: k, '__abs__': abs}[ev.op]
        nrep = 0
        for k, r in zip(p.codes, res.codes):
            e = f(k)
            if lo <= e <= hi:
                nrep += 1
                if r != e:
                    ctx.violation('unary_value', '%s of code %d in %s gave %r, exact %d is representable' % (ev.op, k, R.dtype_fxp(*p.fmt()), r, e), ev)
                    break
        ctx.judged(('unary', ev.op, 's' if p.signed else 'u', G.word_class(p.n_word), any(k < 0 for k in p.codes)), any(k < 0 for k in p.codes), None, elements=len(p.codes))
        ctx.floor_hit(('unary', ev.op))
    return [arith_judge, unary_judge]


def floors(tier):
    return [('way', w) for w in ('out', 'out_like', 'same', 'largest', 'smallest', 'same+const')] + [('method', 'raw'), ('method', 'repr')] + \
           [('unary', u) for u in ('__neg__', '__pos__', '__abs__')] + [('unary-config',)] + \
           [('wide-target-at-the-limit', m) for m in ('raw', 'repr')] + [('integer-operand-large-constant', m) for m in ('raw', 'repr')] + [('element-operands-coarser-target', m) for m in ('raw', 'repr')] + [('constant-carriers-and-reuse', m) for m in ('raw', 'repr')]


# ------------------------------------------------------------------------------------------ workload
def conv_formats(wmin, wmax):
    out = []
    for s in (True, False):
        for w in range(wmin, wmax + 1):
            for nf in range(0, w - (1 if s else 0) + 1):
                out.append((s, w, nf))
    return out


def cases(tier, seed):
    ofm = conv_formats(2, 3)
    tfm = conv_formats(2, 4)
    idx = 0
    for fx in ofm:
        for fy in ofm:
            for ft in tfm:
                idx += 1
                if tier == 'quick' and (idx + seed) % 6:
                    continue
                yield {'k': 'grid', 'x': list(fx), 'y': list(fy), 't': list(ft)}
    n = 1600 if tier == 'quick' else 32000
    for i in range(n):
        yield {'k': 'rand', 'i': i}
    wmax = 6 if tier == 'quick' else 7
    for s in (True, False):
        for w in range(1, wmax + 1):
            for nf in (0, w // 2, w):
                yield {'k': 'unary', 'signed': s, 'n_word': w, 'n_frac': nf}


def _codes(s, w):
    lo, hi = R.code_range(s, w)
    return list(range(lo, hi + 1))


def _try(f):
    try:
        return f()
    except Exception:
        return None


def run_case(case, ctx):
    Fxp = ctx.mon.Fxp
    fm = ctx.mon.fxpmath
    k = case['k']
    if k == 'grid':
        fx, fy, ft = tuple(case['x']), tuple(case['y']), tuple(case['t'])
        x = Fxp(np.array(_codes(fx[0], fx[1])).reshape(-1, 1), fx[0], fx[1], fx[2], raw=True)
        y = Fxp(np.array(_codes(fy[0], fy[1])).reshape(1, -1), fy[0], fy[1], fy[2], raw=True)
        for r, o in G.MODES:
            t = Fxp(None, ft[0], ft[1], ft[2], rounding=r, overflow=o)
            _try(lambda: fm.add(x, y, out=t))
            t = Fxp(None, ft[0], ft[1], ft[2], rounding=r, overflow=o)
            _try(lambda: fm.mul(x, y, out=t))
        return
    if k == 'unary':
        s, w, nf = case['signed'], case['n_word'], case['n_frac']
        x = Fxp(np.array(_codes(s, w)), s, w, nf, raw=True)
        for o in ('saturate', 'wrap'):
            x.config.overflow = o
            _try(lambda: -x)
            _try(lambda: +x)
            _try(lambda: abs(x))
        for c in _codes(s, w)[:: max(1, (1 << w) // 8)]:
            xs = Fxp(c, s, w, nf, raw=True)
            _try(lambda: -xs)
            _try(lambda: abs(xs))
            _try(lambda: +xs)
        # the unary operators are exact in the operand's own format whatever the operand's settings for BINARY operations are
        coarse = Fxp(None, True, 3, 0)
        cfgs = [dict(op_input_size='best'), dict(op_input_size='best', const_op_sizing='smallest'), dict(op_input_size='best', const_op_sizing='largest', op_sizing='smallest'),
                dict(op_sizing='same', op_method='repr'), dict(op_sizing='largest', const_op_sizing='optimal'), dict(op_out_like=coarse), dict(op_out=Fxp(None, True, 4, 1)),
                dict(op_method='repr', rounding='ceil'), dict(array_op_method='raw', array_output_type='array')]
        for ci, kw in enumerate(cfgs):
            xc = _try(lambda: Fxp(np.array(_codes(s, w)), s, w, nf, raw=True, **kw))
            if xc is None:
                continue
            _try(lambda: -xc)
            _try(lambda: abs(xc))
            _try(lambda: +xc)
            c0 = _codes(s, w)[(ci * 3) % len(_codes(s, w))]
            xs = _try(lambda: Fxp(c0, s, w, nf, raw=True, **kw))
            if xs is not None:
                _try(lambda: -xs)
                _try(lambda: abs(xs))
            ctx.floor_hit(('unary-config',))
        return
    rng = ctx.rng_for(k, case['i'])
    i = case['i']
    fx = G.conventional_format(rng)
    fy = G.conventional_format(rng)
    ft = G.conventional_format(rng)
    # different modes on every object, so that use of the wrong configuration shows
    m = list(G.MODES)
    rng.shuffle(m)
    (rx, ox), (ry, oy), (rt, ot) = m[0], m[1], m[2]

    def val(f):
        lo, hi = R.code_range(f[0], f[1])
        return rng.choice([lo, hi, rng.randint(lo, hi), rng.randint(lo, hi)])

    form = rng.choice(['scalar', 'array', 'bcast'])
    if form == 'scalar':
        cx, cy = val(fx), val(fy)
    elif form == 'array':
        n = rng.randint(2, 4)
        cx, cy = np.array([val(fx) for _ in range(n)]), np.array([val(fy) for _ in range(n)])
    else:
        cx, cy = np.array([[val(fx)], [val(fx)]]), np.array([[val(fy), val(fy), val(fy)]])
    method = ('raw', 'repr')[i % 2]

    hist = ((i // 6) % 3 == 1)      # (independent of the method digit i % 2 and the operation digit (i // 2) % 3)

    def mkx():
        x_ = Fxp(cx, fx[0], fx[1], fx[2], raw=True, rounding=rx, overflow=ox, op_method=method)
        return G.historied(Fxp, x_, rng)[0] if hist else x_

    def mky():
        y_ = Fxp(cy, fy[0], fy[1], fy[2], raw=True, rounding=ry, overflow=oy, op_method=method)
        return G.historied(Fxp, y_, rng)[0] if hist else y_

    def mkt():
        t = Fxp(None, ft[0], ft[1], ft[2], rounding=rt, overflow=ot)
        if (i // 18) % 5 == 0:
            # a target / template that already carries raised flags: out keeps them (sticky), an out_like result starts clean
            _try(lambda: t(float(t.upper) * 4 + 1.3))
            _try(lambda: t(float(t.lower) * 4 - 1.3))
            _try(lambda: t(0))
        return t

    ops = {'add': (lambda a, b: a + b, fm.add, np.add), 'sub': (lambda a, b: a - b, fm.sub, np.subtract), 'mul': (lambda a, b: a * b, fm.mul, np.multiply)}
    op = ('add', 'sub', 'mul')[(i // 2) % 3]
    oper, func, ufunc = ops[op]
    # 1. sizing policies by operator and by function
    for sizing in ('same', 'largest', 'smallest'):
        x, y = mkx(), mky()
        x.config.op_sizing = sizing
        _try(lambda: oper(x, y))
        _try(lambda: func(mkx(), mky(), sizing=sizing, method=method))
    # 2. explicit targets
    x, y = mkx(), mky()
    _try(lambda: func(x, y, out=mkt(), method=method))
    _try(lambda: func(x, y, out=(mkt(),), method=method))
    _try(lambda: func(x, y, out_like=mkt(), method=method))
    _try(lambda: ufunc(x, y, out=mkt()))
    x = mkx()
    x.config.op_out = mkt()
    _try(lambda: oper(x, y))
    x = mkx()
    x.config.op_out_like = mkt()
    _try(lambda: oper(x, y))
    # 3. constants (dyadic), both operand orders, both input-size policies, every const sizing
    cden = rng.choice([1, 1, 2, 4, 8, 16])
    c = F(rng.randint(-40, 40), cden)
    cc = int(c) if c.denominator == 1 and rng.random() < 0.7 else float(c)
    for pol in ('same', 'best'):
        for csz in ('same', 'largest', 'smallest', 'optimal'):
            x = mkx()
            x.config.op_input_size = pol
            x.config.const_op_sizing = csz
            _try(lambda: oper(x, cc))
            _try(lambda: oper(cc, x))
    # 3b. constants carried by narrow NumPy integers (their shift to the operand's fraction length must not happen in the carrier's own type), and the SAME
    #     constant used again after the operand's modes were changed in place (the constant is quantized under the modes of that moment)
    if (i // 12) % 4 == 3:
        ci_ = rng.randint(-100, 100)
        for tp_ in (np.int8, np.int16, np.uint8, np.int32):
            if tp_ is np.uint8 and ci_ < 0:
                continue
            for pol in ('same', 'best'):
                x = mkx()
                x.config.op_input_size = pol
                _try(lambda: oper(x, tp_(ci_)))
                _try(lambda: oper(tp_(ci_), x))
        cq_ = float(F(rng.randint(-400, 400) * 2 + 1, 128))        # (seven fraction bits: not representable in most operand formats)
        x = mkx()
        x.config.op_input_size = 'same'
        x.config.const_op_sizing = rng.choice(['same', 'largest', 'optimal'])
        _try(lambda: oper(x, cq_))
        _try(lambda: oper(cq_, x))
        (r2_, o2_) = m[3] if len(m) > 3 else ('ceil', 'wrap')
        x.config.rounding, x.config.overflow = r2_, o2_
        _try(lambda: oper(x, cq_))
        _try(lambda: oper(cq_, x))
        x.config.rounding = 'floor' if r2_ != 'floor' else 'ceil'
        _try(lambda: oper(x, cq_))
        ctx.floor_hit(('constant-carriers-and-reuse', method))
    # 4. targets of 54..63 bits in which the exact result lands exactly one code above the upper limit (limits that are not doubles), both methods
    if (i // 12) % 4 == 0:
        wt = rng.randint(54, 63)
        for st in (True, False):
            tf = (st, wt, wt - 2 if st else wt - 2)
            one = Fxp(1.0 if st else 2.0, st, 4, 1, op_method=method, rounding=rx)
            for ov in ('saturate', 'wrap'):
                _try(lambda: fm.add(one, one, out=Fxp(None, tf[0], tf[1], tf[2], overflow=ov), method=method))
                _try(lambda: fm.mul(one, Fxp(2.0, st, 4, 1), out_like=Fxp(None, tf[0], tf[1], tf[2], overflow=ov), method=method))
                _try(lambda: fm.sub(one, Fxp(-1.0 if st else 0.0, True, 4, 1), out=Fxp(None, True, wt, wt - 2, overflow=ov), method=method))
        ctx.floor_hit(('wide-target-at-the-limit', method))
    # 5. operands holding integers (built from python ints, no fraction bits) with integer constants of 2^51 .. 2^62: the value method must not wrap
    if (i // 12) % 4 == 1:
        wi = rng.choice([8, 12])
        si = rng.random() < 0.5
        lo_i, hi_i = R.code_range(si, wi)
        ci = rng.choice([hi_i, lo_i if si else hi_i - 1, (hi_i + 1) // 2, rng.randint(lo_i, hi_i)])
        big = rng.choice([1, -1]) * (2 ** rng.randint(51, 61) + rng.choice([0, 0, 2 ** 20, 1]))
        for pol in ('best', 'same'):
            for ov in ('saturate', 'wrap'):
                xi = Fxp(int(ci), si, wi, 0, op_method=method, op_input_size=pol, overflow=ov)
                _try(lambda: xi * big)
                _try(lambda: big * xi)
                _try(lambda: xi + big)
                _try(lambda: xi - big)
        ctx.floor_hit(('integer-operand-large-constant', method))
    # 6. operands taken out of arrays by indexing (their codes are NumPy scalars, not arrays): unsigned - unsigned with a negative difference into
    #    targets that have fewer fraction bits than the operands, and the other operations on the same pairs
    if (i // 12) % 4 == 2:
        wx_, wy_ = rng.randint(4, 30), rng.randint(4, 30)
        nfx_, nfy_ = rng.randint(2, wx_), rng.randint(2, wy_)
        ax = Fxp([rng.randint(0, 3), rng.randint(0, 2 ** wx_ - 1), 0], False, wx_, nfx_, raw=True, op_method=method, rounding=rx, overflow=ox)
        ay = Fxp([2 ** wy_ - 1 - rng.randint(0, 3), rng.randint(0, 2 ** wy_ - 1)], False, wy_, nfy_, raw=True, op_method=method, rounding=ry, overflow=oy)
        for xe, ye in ((ax[0], ay[0]), (ax[1], ay[1]), (ax[0], ay), (ax[1:], ay[0]), (ay[0], ax[1])):
            for st_ in (True, False):
                nft_ = rng.randint(0, min(nfx_, nfy_) - 1)
                for ov in ('saturate', 'wrap'):
                    _try(lambda: fm.sub(xe, ye, out=Fxp(None, st_, rng.randint(8, 40), nft_, rounding=rt, overflow=ov), method=method))
                    _try(lambda: fm.sub(xe, ye, out_like=Fxp(None, st_, rng.randint(8, 40), nft_, rounding=rt, overflow=ov), method=method))
            _try(lambda: fm.sub(xe, ye, sizing='smallest', method=method))
            _try(lambda: fm.add(xe, ye, out_like=Fxp(None, False, 24, 0, rounding=rt), method=method))
            _try(lambda: fm.mul(xe, ye, out_like=Fxp(None, False, 24, 1, rounding=rt), method=method))
        ctx.floor_hit(('element-operands-coarser-target', method))
    x = mkx()
    x += mky()
    x = mkx()
    x *= cc
