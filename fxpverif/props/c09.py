"""C09 - division family: quotient within one LSB, exact floor-division and modulo."""
from fractions import Fraction as F

import numpy as np

from .. import refmodel as R
from .. import gen as G
from .. import arith as A

ID = 'C09'
TECHNIQUE = 'runtime monitoring: / // % events judged against exact Fraction quotient / floor / modulo; library-level identity checked between real executions'
TITLE = '/ within one LSB, // and % exact'
RULE = ('division events (/ // % by operator, fxpmath function and NumPy ufunc) with optimal sizing, non-zero divisors, result word '
        '1..53: x/y must equal the exact quotient when representable and otherwise be floor or floor+1 of quotient*2^n_frac, with the '
        'documented format and no overflow/underflow flag; x//y = floor(x/y) and x%y = x - y*floor(x/y) exactly; the identity '
        '(x//y)*y + x%y == x is evaluated through the library. Key = (op, signedness pair, method, sign of quotient, quotient exact?, '
        'divisor class, rounding); non-trivial = quotient inexact or negative or divisor = +/-LSB.')
DECIDING_OPS = ['__truediv__', '__floordiv__', '__mod__', 'truediv', 'floordiv', 'mod', '__ifloordiv__', '__itruediv__', '__imod__']
ANCHORS = ['functions.truediv', 'functions.floordiv', 'functions.mod', 'functions.truediv.<locals>._truediv_raw',
           'functions.floordiv.<locals>._floordiv_raw', 'functions.mod.<locals>._mod_raw']
EXHAUSTIVE = {'quick': 'every code pair (divisor != 0) of every pair of conventional+edge formats with n_word<=4 (n_frac 0..n_word), / // %, three rounding modes on /',
              'thorough': 'same with n_word<=5'}
SHARDS = {'quick': 16, 'thorough': 16}


def make_judges(ctx):
    mon = ctx.mon

    def div_into(ev, ai):
        """x / y, x // y, x % y written to a destination (out= / out_like=): // and % are exact whenever the destination can hold the result; / is exact when
        the quotient is representable there and one of its two representable neighbours otherwise (no overflow involved)"""
        x, y = ai.x, ai.y
        op = ai.op
        t = ai.out_pre if ai.out is not None else ai.out_like_pre
        if t is None or not (A.usable(x) and A.usable(y) and A.usable(t)) or any(k == 0 for k in y.codes) or x.n_word > 63 or y.n_word > 63 or not (1 <= t.n_word <= 63):
            ctx.skip('div:%s into a destination outside the model' % op)
            return
        if not t.signed and (x.signed or y.signed):
            ctx.skip('div:signed result into unsigned target is rejected')
            return
        va, vb = A.fr_array(x), A.fr_array(y)
        ex = (va / vb) if op == 'truediv' else A.exact_op(op, va, vb)
        exf, shape = A.flat(ex)
        lo, hi = R.code_range(t.signed, t.n_word)
        sc = F(2) ** t.n_frac
        if op == 'truediv':
            if any(not (lo <= (e * sc).numerator // (e * sc).denominator and -((-(e * sc).numerator) // (e * sc).denominator) <= hi) for e in exf):
                ctx.skip('div:truediv into a destination whose range does not hold the quotient')
                return
        elif any((e * sc).denominator != 1 or not (lo <= e * sc <= hi) for e in exf):
            ctx.skip('div:%s into a destination that cannot hold the result' % op)
            return
        if ev.exc is not None:
            ctx.violation('raises', '%s %s %s into %s raised %s: %s' % (R.dtype_fxp(*x.fmt()), op, R.dtype_fxp(*y.fmt()), R.dtype_fxp(*t.fmt()), type(ev.exc).__name__, str(ev.exc)[:160]), ev)
            return
        res = ai.res
        if res is None or res.fmt() != t.fmt():
            ctx.violation('format', '%s into %s returned %s' % (op, R.dtype_fxp(*t.fmt()), res and R.dtype_fxp(*res.fmt())), ev)
            return
        bad = None
        for j_, (e, k) in enumerate(zip(exf, res.codes)):
            s_ = e * sc
            fl_ = s_.numerator // s_.denominator
            ok = (k == fl_) if s_.denominator == 1 else (op == 'truediv' and k in (fl_, fl_ + 1))
            if not ok:
                bad = j_
                break
        if bad is not None or len(res.codes) != len(exf):
            j_ = bad or 0
            ctx.violation('wrong_value', '%s %s %s into %s [%s]: element %d: exact result %s (scaled %s), library code %r' % (
                R.dtype_fxp(*x.fmt()), op, R.dtype_fxp(*y.fmt()), R.dtype_fxp(*t.fmt()), ai.method, j_, exf[j_], exf[j_] * sc, res.codes[j_] if j_ < len(res.codes) else None), ev)
        wide = max(x.n_word, y.n_word) > 53
        ctx.judged((op + '-into', 's' if t.signed else 'u', G.word_class(t.n_word), t.n_frac > 0, wide, t.n_frac < max(x.n_frac, y.n_frac)), True, None, elements=len(exf))
        if t.n_frac > 0 and op == 'floordiv':
            ctx.floor_hit(('floordiv-into-fraction-bits',))
        if wide and t.n_frac < max(x.n_frac, y.n_frac):
            ctx.floor_hit(('wide-operand-into-coarser-target', op))

    def div_judge(ev):
        ai = A.decode_arith(ev, mon)
        if ai is None or ai.op not in ('truediv', 'floordiv', 'mod'):
            return
        if (ai.out is not None or ai.out_like is not None) and ai.x is not None and ai.y is not None and ai.method == 'raw':
            return div_into(ev, ai)
        if ai.sizing != 'optimal' or ai.out is not None or ai.out_like is not None or ai.x is None or ai.y is None:
            ctx.skip('div:imposed format or constant')
            return
        x, y = ai.x, ai.y
        if not (A.usable(x) and A.usable(y)):
            ctx.skip('div:complex or scaled operand')
            return
        if any(k == 0 for k in y.codes):
            ctx.skip('div:zero divisor')
            return
        efmt = A.optimal_format(ai.op, x.fmt(), y.fmt())
        wlim = 63 if ai.method == 'raw' else 53         # (the value method works on doubles; the integer method is exact for any operand that yields a result word <= 53)
        if efmt[1] < 1 or efmt[1] > 53 or x.n_word > wlim or y.n_word > wlim:
            ctx.skip('div:degenerate or wide result format')
            return
        if x.n_word > 53 or y.n_word > 53:
            ctx.floor_hit(('wide-operand', ai.op))
        if ev.exc is not None:
            ctx.violation('raises', '%s %s %s raised %s: %s' % (R.dtype_fxp(*x.fmt()), ai.op, R.dtype_fxp(*y.fmt()), type(ev.exc).__name__, str(ev.exc)[:160]), ev)
            return
        res = ai.res
        if res is None:
            ctx.violation('result_type', '%s returned %s' % (ev.op, type(ev.result).__name__), ev)
            return
        if res.fmt() != efmt:
            ctx.violation('format', '%s %s %s -> %s, documented format %s' % (R.dtype_fxp(*x.fmt()), ai.op, R.dtype_fxp(*y.fmt()), R.dtype_fxp(*res.fmt()), R.dtype_fxp(*efmt)), ev)
            return
        va, vb = A.fr_array(x), A.fr_array(y)
        q = va / vb
        qf, shape = A.flat(q)
        if tuple(res.shape) != tuple(shape):
            ctx.violation('shape', 'result shape %r, expected %r' % (res.shape, shape), ev)
            return
        lsb = R.lsb(res.n_frac)
        bad = None
        keys = set()
        if ai.op == 'truediv':
            for i, (e, k) in enumerate(zip(qf, res.codes)):
                sc = e / lsb
                fl = sc.numerator // sc.denominator
                ok = (k == fl) if sc.denominator == 1 else (k in (fl, fl + 1))
                if not ok and bad is None:
                    bad = 'element %d: quotient %s (scaled %s) stored as code %r' % (i, e, sc, k)
                if len(keys) < 8:
                    keys.add(((e > 0) - (e < 0), sc.denominator == 1))
        else:
            ex = A.exact_op(ai.op, va, vb)
            exf, _ = A.flat(ex)
            for i, (e, k, qq) in enumerate(zip(exf, res.codes, qf)):
                if k * lsb != e and bad is None:
                    bad = 'element %d: exact %s is %s, library value %s (code %r)' % (i, ai.op, e, k * lsb if isinstance(k, int) else k, k)
                if len(keys) < 8:
                    keys.add(((qq > 0) - (qq < 0), qq.denominator == 1))
        if bad:
            ctx.violation('wrong_value', '%s %s %s [%s, %s, %s]: %s' % (R.dtype_fxp(*x.fmt()), ai.op, R.dtype_fxp(*y.fmt()), ai.route, ai.method, x.rounding, bad), ev)
        elif res.status.get('overflow') or res.status.get('underflow'):
            ctx.violation('flags', '%s %s %s raised overflow=%s underflow=%s with optimal sizing' % (R.dtype_fxp(*x.fmt()), ai.op, R.dtype_fxp(*y.fmt()),
                          res.status.get('overflow'), res.status.get('underflow')), ev)
        dcls = 'lsb' if any(abs(k) == 1 for k in y.codes) else ('extreme' if set(y.codes) & set(R.code_range(y.signed, y.n_word)) else 'generic')
        sgn = ('s' if x.signed else 'u') + ('s' if y.signed else 'u')
        first = True
        for sg, exact in sorted(keys):
            key = (ai.op, sgn, ai.method, ai.route, sg, exact, dcls, x.rounding if ai.op == 'truediv' else '')
            nontriv = (not exact) or sg < 0 or dcls == 'lsb'
            if first:
                sample = None
                if ctx.want_sample() and nontriv:
                    sample = {'op': ev.op, 'x': x.describe(), 'y': y.describe(), 'result': res.describe(), 'method': ai.method}
                ctx.judged(key, nontriv, sample, elements=len(qf))
                first = False
            elif nontriv:
                ctx.keys.add(repr(key))
        ctx.floor_hit(('op', ai.op, sgn, ai.method))
    return [div_judge]


def floors(tier):
    return [('op', op, sg, m) for op in ('truediv', 'floordiv', 'mod') for sg in ('ss', 'su', 'us', 'uu') for m in ('raw', 'repr')] + [('special', 'multiple'), ('special', 'widealign'), ('floordiv-into-fraction-bits',), ('wide-operand', 'floordiv')] + \
           [('wide-operand-into-coarser-target', op) for op in ('truediv', 'floordiv', 'mod')]


def fmts(wmax):
    out = []
    for s in (True, False):
        for w in range(1, wmax + 1):
            for nf in range(0, w + 1):
                out.append((s, w, nf))
    return out


def cases(tier, seed):
    wmax = 4 if tier == 'quick' else 5
    ff = fmts(wmax)
    for fx in ff:
        for fy in ff:
            yield {'k': 'grid', 'x': list(fx), 'y': list(fy)}
    n = 1500 if tier == 'quick' else 40000
    for i in range(n):
        yield {'k': 'rand', 'i': i}


def _try(f):
    try:
        return f()
    except Exception:
        return None


def run_case(case, ctx):
    Fxp = ctx.mon.Fxp
    fm = ctx.mon.fxpmath
    k = case['k']
    if k == 'grid':
        fx, fy = tuple(case['x']), tuple(case['y'])
        lox, hix = R.code_range(fx[0], fx[1])
        loy, hiy = R.code_range(fy[0], fy[1])
        cy = [c for c in range(loy, hiy + 1) if c != 0]
        if not cy:
            return
        x = Fxp(np.arange(lox, hix + 1).reshape(-1, 1), fx[0], fx[1], fx[2], raw=True)
        y = Fxp(np.array(cy).reshape(1, -1), fy[0], fy[1], fy[2], raw=True)
        for r in ('trunc', 'around', 'ceil'):
            x.config.rounding = r
            _try(lambda: x / y)
        x.config.rounding = 'trunc'
        _try(lambda: x // y)
        _try(lambda: x % y)
        x.config.op_method = 'repr'
        for r in ('trunc', 'around', 'ceil'):
            x.config.rounding = r
            _try(lambda: x / y)
        _try(lambda: x // y)
        _try(lambda: x % y)
        return
    rng = ctx.rng_for(k, case['i'])
    # independent digits of the case index: method, rounding, rank, history, special class
    j = case['i']
    method = ('raw', 'repr')[j % 2]
    j //= 2
    r = G.ROUNDINGS[j % 5]
    j //= 5
    scalar = j % 3 == 0
    j //= 3
    hist = j % 4 == 1
    j //= 4
    special = ('', 'multiple', 'widealign', 'wideop')[j % 4]
    for _ in range(50):
        sx, sy = rng.random() < 0.5, rng.random() < 0.5
        wx, wy = rng.randint(1, 40), rng.randint(1, 40)
        if rng.random() < 0.5:
            wy = rng.randint(1, 6)
        fx, fy = rng.randint(0, wx), rng.randint(0, wy)
        if special == 'widealign':
            # a coarse operand with many integer bits against a fine one with many fraction bits: the aligned codes need about 64 bits
            # although every result word stays short (the judge skips the operations whose own result exceeds 53 bits)
            sx = sy = rng.random() < 0.3
            wx, wy = rng.randint(24, 40), rng.randint(24, 40)
            fx, fy = rng.randint(0, 3), wy - rng.randint(0, 3)
            if rng.random() < 0.5:
                (wx, fx), (wy, fy) = (wy, fy), (wx, fx)
        if special == 'wideop':
            # a dividend (or divisor) word of 54..63 bits with so many fraction bits that every result word stays short: each of its bits counts for the floor
            sx = sy = rng.random() < 0.6
            if rng.random() < 0.3:
                sy = not sx
            wx = rng.randint(54, 62)
            fx = wx - rng.randint(2, 9)
            wy, fy = rng.randint(2, 8), rng.randint(0, 3)
            if not sx and sy and rng.random() < 0.5:
                fx = 0
                wx = 55
                wy, fy = 4, -3
        if special == 'multiple':
            wy = rng.randint(6, 12)
            wx = rng.randint(wy, 24)
            fx = fy = rng.choice([0, 0, 1, 3])
        X, Y = (sx, wx, fx), (sy, wy, fy)
        ws = [R.fmt_truediv(X, Y)[1], R.fmt_floordiv(X, Y)[1], R.fmt_mod(X, Y)[1]]
        if (max(ws) <= 53 or (special == 'widealign' and ws[2] <= 53) or (special == 'wideop' and ws[1] <= 53)) and min(ws) >= 1:
            break
    else:
        return
    lox, hix = R.code_range(*X[:2])
    loy, hiy = R.code_range(*Y[:2])

    def vx():
        if special == 'wideop':
            m_ = rng.randint(1, max(1, (hix >> (fx if fx > 0 else 0)) - 1)) << max(fx, 0)      # a whole multiple of ... minus / plus one LSB
            return max(lox, min(hix, rng.choice([m_ - 1, m_ + 1, hix, lox, rng.randint(lox, hix)])))
        return rng.choice([lox, hix, rng.randint(lox, hix), rng.randint(lox, hix)])

    def vy():
        for _ in range(20):
            c = rng.choice([loy, hiy, 1, -1 if sy else 1, rng.randint(loy, hiy), rng.randint(loy, hiy)])
            if c != 0 and loy <= c <= hiy:
                return c
        return 1
    if special == 'multiple':
        # dividends that are exact integer multiples of the divisor (the quotient is representable: it must come out exactly, in every rounding
        # mode and by both methods)
        def pair():
            d = vy()
            kmax = max(1, min(abs(hix), abs(lox)) // max(1, abs(d)))
            m = rng.randint(1, kmax) * (rng.choice([1, -1]) if sx else 1)
            c = m * d
            return (c if lox <= c <= hix else d), d
        if scalar:
            cx, cy = pair()
        else:
            ps = [pair() for _ in range(rng.randint(2, 4))]
            cx, cy = np.array([p_[0] for p_ in ps]), np.array([p_[1] for p_ in ps])
        ctx.floor_hit(('special', 'multiple'))
    elif scalar:
        cx, cy = vx(), vy()
    else:
        n = rng.randint(2, 4)
        cx, cy = np.array([vx() for _ in range(n)]), np.array([vy() for _ in range(n)])
    if special == 'widealign':
        ctx.floor_hit(('special', 'widealign'))
    x = Fxp(cx, sx, wx, fx, raw=True, op_method=method, rounding=r)
    y = Fxp(cy, sy, wy, fy, raw=True, op_method=method)
    if hist:
        x = G.historied(Fxp, x, rng)[0]
        y = G.historied(Fxp, y, rng)[0]
    q = _try(lambda: x / y)
    fl = _try(lambda: x // y)
    md = _try(lambda: x % y)
    _try(lambda: fm.truediv(x, y, method=method))
    _try(lambda: fm.floordiv(x, y, method=method))
    _try(lambda: fm.mod(x, y, method=method))
    import operator
    for op_ in (operator.itruediv, operator.ifloordiv, operator.imod):
        x_ = Fxp(cx, sx, wx, fx, raw=True, op_method=method, rounding=r)
        _try(lambda: op_(x_, y))
    _try(lambda: np.true_divide(x, y))
    _try(lambda: np.floor_divide(x, y))
    _try(lambda: np.mod(x, y))
    # the floor quotient written to a destination that has fraction bits (and can hold it)
    if method == 'raw':
        xa, ya = np.asarray(cx, dtype=object).ravel().tolist(), np.asarray(cy, dtype=object).ravel().tolist()
        if len(xa) == len(ya):
            qs = [(F(a_) / F(2) ** fx) / (F(b_) / F(2) ** fy) for a_, b_ in zip(xa, ya)]
            qb = max(abs(q_.numerator // q_.denominator) for q_ in qs).bit_length() + 1
            for wt in (53, rng.randint(min(52, max(qb + 1, 20)), 52)):
                ft = wt - 1 - qb
                if ft >= 1:
                    _try(lambda: fm.floordiv(x, y, out_like=Fxp(None, True, wt, ft)))
                    _try(lambda: fm.floordiv(x, y, out=Fxp(np.zeros(np.shape(cx)) if np.ndim(cx) else None, True, wt, ft)))
                    _try(lambda: np.floor_divide(x, y, out=Fxp(np.zeros(np.shape(cx)) if np.ndim(cx) else None, True, wt, ft)))
    # all three operators into destinations with FEWER fraction bits than the operands (the kernels must not scale the codes down with a float factor:
    # every bit of a 54..62 bits operand counts), by function, method keyword, NumPy and configured output
    if method == 'raw' and special in ('wideop', 'widealign'):
        fmin = min(fx, fy)
        for ft in sorted({0, max(0, fmin - 1), max(0, fmin // 2)}):
            for st in ((True,) if (sx or sy) else (True, False)):
                wt = rng.choice([53, 52, rng.randint(40, 52)])
                mk = lambda: Fxp(np.zeros(np.shape(cx)) if np.ndim(cx) else None, st, wt, ft, rounding=r)
                _try(lambda: fm.truediv(x, y, out=mk()))
                _try(lambda: fm.truediv(x, y, out_like=mk()))
                _try(lambda: fm.mod(x, y, out=mk()))
                _try(lambda: fm.mod(x, y, out_like=mk()))
                _try(lambda: fm.floordiv(x, y, out_like=mk()))
                _try(lambda: np.mod(x, y, out=mk()))
                _try(lambda: np.divide(x, y, out=mk()))
        # exact multiples and one LSB next to them: the quotient (remainder) is representable in a coarse destination
        dv = vy()
        yy = Fxp(dv, sy, wy, fy, raw=True)
        kq = rng.randint(2 ** 50, 2 ** 52)
        for cxx in (kq * abs(dv) * 2 + 1, kq * abs(dv) * 2, kq * abs(dv) * 2 - 1):
            xx = Fxp(cxx, sx or dv < 0, 62, 1 + fy, raw=True)          # value = cxx / 2^(1+fy); divisor value dv / 2^fy: quotient cxx / (2 dv)
            for tgt in (lambda: Fxp(None, True, 58, 0, rounding=r), lambda: Fxp(None, True, 60, 1, rounding=r)):
                _try(lambda: fm.truediv(xx, yy, out=tgt()))
                _try(lambda: fm.mod(xx, yy, out_like=tgt()))
                _try(lambda: fm.floordiv(xx, yy, out=tgt()))
    # the identity (x//y)*y + x%y == x through the library itself
    if fl is not None and md is not None and max(wx, wy) <= 53:      # (the comparison itself goes through doubles beyond that)
        try:
            back = fl * y + md
            same = np.all(np.asarray((back == x)))
        except Exception as e:
            same = None
        if same is not None and not bool(same):
            ctx.violation('identity', '(x//y)*y + x%%y != x for x=%s %r, y=%s %r' % (x.dtype, np.asarray(x.val).tolist(), y.dtype, np.asarray(y.val).tolist()))
        ctx.judged(('identity', sx, sy, method), True, None)
