"""C10 - format conversion gives the same correctly quantized value by every route."""
from fractions import Fraction as F

import numpy as np

from .. import refmodel as R
from .. import gen as G
from .. import arith as A
from .. import universal as U
from ..storejudge import apply_index, init_arguments

ID = 'C10'
TECHNIQUE = "runtime monitoring: conversion events by every route judged against exact quantization of the source's PRE snapshot; routes compared with each other; source frame monitor"
TITLE = 'conversions agree by every route'
RULE = ('conversion events: resize(sizes), resize(dtype=), Fxp(src, like=dst), Fxp(src, sizes), src.like(dst), dst(src), dst.set_val(src), '
        'dst.equal(src), dst[i]=src, dst.equal(src, index=i). The destination codes must equal refmodel.quantize(exact source value; '
        'destination format, destination rounding/overflow), the destination format must be the requested one, the shape must be preserved '
        'and the source snapshot unchanged. Key = (route, source construction, delta n_frac class, delta n_word sign, outcome, rank); '
        'non-trivial = outcome != exact.')
DECIDING_OPS = ['resize', '__init__', 'like', '__call__', 'set_val', 'equal', '__setitem__']
ANCHORS = ['objects.Fxp.resize', 'objects.Fxp.equal', 'objects.Fxp.like', 'objects.Fxp._format_inupt_val', 'utils.scale_raw']
EXHAUSTIVE = {'quick': 'all codes of every source format n_word<=4 (n_frac -1..n_word+1) into every destination format n_word<=4 for a rotating subset of the '
                       '10 mode pairs, routes resize / constructor / call / like / equal',
              'thorough': 'same with n_word<=6 on both sides (destination formats sampled 1/3) and all routes'}
SHARDS = {'quick': 16, 'thorough': 16}


def core(s):
    return s is not None and A.usable(s) and 1 <= s.n_word <= 52 and -8 <= s.n_frac <= s.n_word + 8


def resolve_sizes(signed, n_word, n_frac, n_int, cur):
    """model of the size reconciliation of resize(): cur = (signed, n_word, n_frac) or None"""
    sg = bool(signed) if signed is not None else (cur[0] if cur else True)
    if n_word is None and n_frac is not None and n_int is not None:
        n_word = n_int + n_frac + (1 if sg else 0)
    elif n_frac is None and n_word is not None and n_int is not None:
        n_frac = n_word - n_int - (1 if sg else 0)
    if n_word is None and cur:
        n_word = cur[1]
    if n_frac is None and cur:
        n_frac = cur[2]
    return sg, n_word, n_frac


def make_judges(ctx):
    mon = ctx.mon
    Fxp = mon.Fxp

    def check(ev, route, src, dst_post, expected_shape, pre_dst=None, index=None, want_fmt=None):
        """src: PRE snapshot of the source; dst_post: POST snapshot of the destination"""
        if dst_post is None:
            ctx.violation('no_destination', '%s produced no initialised destination' % route, ev)
            return
        if want_fmt is not None and dst_post.fmt() != tuple(want_fmt):
            ctx.violation('format', '%s: destination format %s, requested %s' % (route, R.dtype_fxp(*dst_post.fmt()), R.dtype_fxp(*want_fmt)), ev)
            return
        if not core(dst_post):
            ctx.skip('conv:destination outside the core domain')
            return
        d = dst_post
        lsb = R.lsb(src.n_frac)
        outcomes = set()
        codes = []
        for k in src.codes:
            v = k * lsb
            c, ov, un, ru = R.quantize(v, d.signed, d.n_word, d.n_frac, d.rounding, d.overflow)
            codes.append(c)
            if len(outcomes) < 4:
                outcomes.add('overflow' if ov else 'underflow' if un else ('exact' if (v * F(2) ** d.n_frac).denominator == 1 else 'inexact'))
        if index is not None:
            try:
                codes = apply_index(pre_dst.codes, pre_dst.shape, index, codes, src.shape)
            except (IndexError, ValueError):
                ctx.skip('conv:index not applicable in the model')
                return
            expected_shape = pre_dst.shape
        if tuple(d.shape) != tuple(expected_shape):
            ctx.violation('shape', '%s: destination shape %r, expected %r' % (route, d.shape, expected_shape), ev, key='conv.shape.%s' % route)
        elif d.codes != codes:
            i = next(i for i, (a, b) in enumerate(zip(d.codes, codes)) if a != b)
            ctx.violation('wrong_code', '%s: %s -> %s %s/%s: element %d is %r, exact conversion gives %r (source code %s)' % (
                route, R.dtype_fxp(*src.fmt()), R.dtype_fxp(*d.fmt()), d.rounding, d.overflow, i, d.codes[i], codes[i],
                src.codes[i] if index is None and i < len(src.codes) else '?'), ev)
        dn = d.n_frac - src.n_frac
        dcls = '0' if dn == 0 else ('+small' if 0 < dn < 32 else '+big' if dn >= 32 else '-small' if dn > -32 else '-big')
        dw = (d.n_word > src.n_word) - (d.n_word < src.n_word)
        vd = src.vdtype
        srcc = 'int' if (vd is int or (isinstance(vd, (type, np.dtype)) and np.issubdtype(vd, np.integer))) else 'float'
        nontriv = sorted(o for o in outcomes if o != 'exact')
        main = nontriv[0] if nontriv else 'exact'
        sample = None
        if ctx.want_sample() and nontriv:
            sample = {'route': route, 'source': src.describe(), 'destination': d.describe()}
        ctx.judged((route, srcc, dcls, dw, main, len(d.shape), d.rounding), bool(nontriv), sample, elements=len(src.codes))
        ctx.floor_hit(('route', route))

    def conv_judge(ev):
        if ev.kind != 'method':
            return
        op = ev.op
        snapmap = {id(o): (p, q) for o, p, q in zip(ev.operands, ev.pre, ev.post)}
        if op == 'resize':
            pre, post = snapmap.get(id(ev.receiver), (None, None))
            if not core(pre):
                ctx.skip('conv:source outside the core domain')
                return
            names = ('signed', 'n_word', 'n_frac', 'n_int', 'restore_val', 'dtype')
            d = dict(zip(names, ev.args))
            d.update(ev.kwargs)
            if d.get('restore_val', True) is not True:
                ctx.skip('conv:resize without value restoration')
                return
            route = 'resize'
            try:
                if d.get('dtype') is not None:
                    sg, w, nf, cx = R.parse_dtype(d['dtype'])
                    if cx:
                        ctx.skip('conv:complex dtype')
                        return
                    want = (sg, w, nf)
                    route = 'resize_dtype'
                else:
                    want = resolve_sizes(d.get('signed'), d.get('n_word'), d.get('n_frac'), d.get('n_int'), pre.fmt())
            except (ValueError, TypeError):
                ctx.skip('conv:unparsable request')
                return
            if not (isinstance(want[1], int) and isinstance(want[2], int)) or not (1 <= want[1] <= 52 and -8 <= want[2] <= want[1] + 8):
                ctx.skip('conv:destination outside the core domain')
                return
            if ev.exc is not None:
                ctx.violation('raises', 'resize %s -> %s raised %s: %s' % (R.dtype_fxp(*pre.fmt()), R.dtype_fxp(*want), type(ev.exc).__name__, str(ev.exc)[:160]), ev,
                              key='conv.raises.resize')
                return
            check(ev, route, pre, post, pre.shape, want_fmt=want)
            return
        # --- routes whose source is another Fxp
        src_obj = None
        index = None
        if op == '__init__':
            d = init_arguments(ev)
            src_obj = d.get('val')
            route = 'ctor_like' if d.get('like') is not None else 'ctor_sizes'
        elif op == 'like':
            src_obj = ev.receiver
            route = 'like'
        elif op in ('__call__',):
            src_obj = ev.args[0] if ev.args else None
            route = 'call'
        elif op == 'set_val':
            names = ('val', 'raw', 'vdtype', 'index')
            d = dict(zip(names, ev.args))
            d.update(ev.kwargs)
            src_obj = d.get('val')
            index = d.get('index')
            route = 'set_val' if index is None else 'set_val_index'
            if d.get('raw'):
                return
        elif op == 'equal':
            names = ('x', 'index')
            d = dict(zip(names, ev.args))
            d.update(ev.kwargs)
            src_obj = d.get('x')
            index = d.get('index')
            route = 'equal' if index is None else 'equal_index'
        elif op == '__setitem__':
            if len(ev.args) == 2:
                index, src_obj = ev.args
            route = 'setitem'
        else:
            return
        if not isinstance(src_obj, Fxp):
            return
        src_pre = snapmap.get(id(src_obj), (None, None))[0]
        if not core(src_pre):
            ctx.skip('conv:source outside the core domain')
            return
        if op == 'like':
            tmpl = ev.args[0] if ev.args else ev.kwargs.get('x')
            if not isinstance(tmpl, Fxp):
                return
            tp = snapmap.get(id(tmpl), (None, None))[0]
            if not core(tp):
                ctx.skip('conv:destination outside the core domain')
                return
            if ev.exc is not None:
                ctx.violation('raises', 'like() %s -> %s raised %s' % (R.dtype_fxp(*src_pre.fmt()), R.dtype_fxp(*tp.fmt()), type(ev.exc).__name__), ev, key='conv.raises.like')
                return
            res = ev.result_snap
            if res is not None and (res.rounding, res.overflow) != (tp.rounding, tp.overflow):
                ctx.violation('modes', 'like(): result has %s/%s, template %s/%s' % (res.rounding, res.overflow, tp.rounding, tp.overflow), ev)
                return
            check(ev, route, src_pre, res, src_pre.shape, want_fmt=tp.fmt())
            return
        pre_dst, post_dst = snapmap.get(id(ev.receiver), (None, None))
        want = None
        if op == '__init__':
            d = init_arguments(ev)
            cur = None
            lk = d.get('like')
            if isinstance(lk, Fxp):
                lp = snapmap.get(id(lk), (None, None))[0]
                cur = lp.fmt() if lp is not None else None
            else:
                cur = None      # sizes that are not given are inferred from the value (C06), not copied from the source
            try:
                if d.get('dtype') is not None:
                    sg, w, nf, cx = R.parse_dtype(d['dtype'])
                    want = (sg, w, nf)
                else:
                    want = resolve_sizes(d.get('signed'), d.get('n_word'), d.get('n_frac'), d.get('n_int'), cur)
            except (ValueError, TypeError):
                want = None
            if d.get('raw') or 'scale' in d or 'bias' in d:
                ctx.skip('conv:raw or scaled construction')
                return
            if want is None or want[1] is None or want[2] is None:
                # inferred destination format: only the value clause applies, in whatever format resulted
                want = None
                dom = post_dst.fmt() if post_dst is not None else None
            else:
                dom = want
        else:
            dom = pre_dst.fmt() if pre_dst is not None else None
            want = dom
        if dom is None or not (isinstance(dom[1], int) and isinstance(dom[2], int)) or not (1 <= dom[1] <= 52 and -8 <= dom[2] <= dom[1] + 8):
            ctx.skip('conv:destination outside the core domain')
            return
        if pre_dst is not None and not A.usable(pre_dst):
            ctx.skip('conv:destination complex or scaled')
            return
        if ev.exc is not None:
            ctx.violation('raises', '%s %s -> %s raised %s: %s' % (route, R.dtype_fxp(*src_pre.fmt()), R.dtype_fxp(*dom), type(ev.exc).__name__, str(ev.exc)[:160]), ev,
                          key='conv.raises.%s' % route)
            return
        check(ev, route, src_pre, post_dst, src_pre.shape, pre_dst=pre_dst, index=index, want_fmt=want)

    def source_unchanged(ev):
        if ev.op not in ('__init__', 'like', '__call__', 'set_val', 'equal', '__setitem__'):
            return
        for p in U.u2_frame_problems(ev, Fxp):
            ctx.violation('source_changed', p[1], ev, extra=p[2])
    from . import c16
    read_judge = c16.make_judges(ctx, conv_max_word=52)[2]      # C16's judge of get_val / call / astype(float): what is read is code * LSB
    return [conv_judge, source_unchanged, read_judge]


def floors(tier):
    return [('route', r) for r in ('resize', 'resize_dtype', 'ctor_like', 'ctor_sizes', 'like', 'call', 'set_val', 'equal', 'setitem', 'equal_index')] + [('noncontiguous_source',), ('then-written',)]


# ------------------------------------------------------------------------------------------ workload
def small_formats(wmax):
    return [(s, w, nf) for s in (True, False) for w in range(1, wmax + 1) for nf in range(-1, w + 2)]


def cases(tier, seed):
    wmax = 4 if tier == 'quick' else 6
    ff = small_formats(wmax)
    idx = 0
    for fs in ff:
        for fd in ff:
            idx += 1
            if tier == 'thorough' and (idx + seed) % 3:
                continue
            yield {'k': 'grid', 's': list(fs), 'd': list(fd), 'm': idx}
    n = 1500 if tier == 'quick' else 40000
    for i in range(n):
        yield {'k': 'rand', 'i': i}
    n = 300 if tier == 'quick' else 8000
    for i in range(n):
        yield {'k': 'chain', 'i': i}


def _try(f):
    try:
        return f()
    except Exception:
        return None


def all_routes(Fxp, mk_src, fd, r, o, routes=None, dst_history=False, then_written=False):
    """convert the source into format fd by every route (fresh source and destination for each); the converted object is then read
    (get_val / call / astype(float)): the value a user sees must be the converted code's value (judged by C16's conversion judge)"""
    s, w, nf = fd
    dt = R.dtype_fxp(s, w, nf)

    def dst(val=None):
        if dst_history and val is None:
            # a destination with a history: created from an integer at n_frac = 0 (integer value type), resized to the destination format afterwards
            d = Fxp(0, s, w, 0, rounding=r, overflow=o)
            d.resize(s, w, nf)
            return d
        if dst_history and isinstance(val, np.ndarray):
            d = Fxp(np.zeros(val.shape, dtype=int), s, w, 0, rounding=r, overflow=o)
            d.resize(s, w, nf)
            return d
        return Fxp(val, s, w, nf, rounding=r, overflow=o)

    def read(z):
        if z is not None and hasattr(z, 'get_val'):
            _try(lambda: z.get_val())
            _try(lambda: z())
            _try(lambda: z.astype(float))
        return z

    def r_resize():
        x = mk_src()
        x.config.rounding, x.config.overflow = r, o
        x.resize(s, w, nf)
        return x

    def r_resize_dtype():
        x = mk_src()
        x.config.rounding, x.config.overflow = r, o
        x.resize(dtype=dt)
        return x

    def r_resize_nint():
        x = mk_src()
        x.config.rounding, x.config.overflow = r, o
        x.resize(s, n_frac=nf, n_int=w - nf - (1 if s else 0))
        return x

    def r_setitem():
        x = mk_src()
        shp = np.asarray(x.val).shape
        if shp == ():
            d = dst(np.zeros(2))
            d[1] = x
        else:
            d = dst(np.zeros(shp))
            d[:] = x
            d2 = dst(np.zeros((2,) + shp))
            d2[1] = x
            d3 = dst(np.zeros(shp))
            d3[0] = x[0]
            read(d3)
        return d

    def r_equal_prefilled():
        # a destination that already holds an array with as many elements but another shape (or a scalar): the result has the shape of the SOURCE
        x = mk_src()
        shp = np.asarray(x.val).shape
        n_el = int(np.prod(shp)) if shp else 1
        other = (n_el, 1) if len(shp) == 1 else ((n_el,) if len(shp) == 2 else (1,))
        d = dst(np.zeros(other))
        d.equal(x)
        return d

    def r_ctor_like_modes():
        # modes given for ONE result next to like=: the template keeps its own configuration (a second conversion like it is not affected)
        t = dst()
        other_r = 'floor' if r != 'floor' else 'ceil'
        other_o = 'wrap' if o != 'wrap' else 'saturate'
        Fxp(mk_src(), like=t, rounding=other_r, overflow=other_o)
        return Fxp(mk_src(), like=t)

    def r_equal_index():
        x = mk_src()
        shp = np.asarray(x.val).shape
        d = dst(np.zeros((2,) + shp))
        d.equal(x, index=1)
        return d

    def r_ctor_like_override():
        # sizes (or a dtype) given next to like=: the template gives the configuration, the sizes given replace the template's; the source is quantized once,
        # into the requested format - not first into the template's
        tw = max(1, w - 3) if w > 4 else w + 5
        t1 = Fxp(None, s, tw, max(-8, nf - 4), rounding=r, overflow=o)
        t2 = Fxp(None, not s, min(52, w + 6), min(nf + 5, min(52, w + 6) + 8), rounding=r, overflow=o)
        read(_try(lambda: Fxp(mk_src(), like=t1, n_word=w, n_frac=nf)))
        read(_try(lambda: Fxp(mk_src(), like=t2, signed=s, n_word=w, n_frac=nf)))
        read(_try(lambda: Fxp(mk_src(), like=t1, n_frac=nf, n_int=w - nf - (1 if s else 0))))
        return Fxp(mk_src(), like=t2, dtype=dt)

    def r_then_written():
        # "the source object is left unchanged" also afterwards: the destination is written (whole and by index) after the conversion; a destination that
        # took over the source's codes instead of copying them would write into the source
        outs = []
        for how_ in ('equal', 'set_val', 'call', 'ctor_like', 'like'):
            x = mk_src()
            before = (tuple(np.asarray(x.val, dtype=object).ravel().tolist()), x.dtype, dict(x.status))
            shp = np.asarray(x.val).shape
            d = dst(np.zeros(shp) if shp else None) if how_ in ('equal', 'set_val', 'call') else None
            if how_ == 'equal':
                d.equal(x)
            elif how_ == 'set_val':
                d.set_val(x)
            elif how_ == 'call':
                d(x)
            elif how_ == 'ctor_like':
                d = Fxp(x, like=dst())
            else:
                d = x.like(dst())
            same_fmt = Fxp(np.zeros(shp) if shp else None, x.signed, x.n_word, x.n_frac)      # (the identical format: where a shortcut would sit)
            same_fmt.equal(x)
            for tgt in (d, same_fmt):
                lsbv = 2.0 ** -tgt.n_frac
                if shp:
                    tgt[(0,) * len(shp)] = lsbv if tgt.n_word > 1 or not tgt.signed else 0.0
                    tgt[(0,) * len(shp)] = 0.0
                    tgt[...] = np.zeros(shp)
                else:
                    tgt(0.0)
            after = (tuple(np.asarray(x.val, dtype=object).ravel().tolist()), x.dtype, dict(x.status))
            outs.append((how_, before, after))
        return outs

    def r_ctor_nint():
        # the destination given by its word and its integer length (the fraction length follows), with the signedness given or left to the default (signed)
        ni_ = w - nf - (1 if s else 0)
        read(_try(lambda: Fxp(mk_src(), s, n_word=w, n_int=ni_, rounding=r, overflow=o)))
        if s:
            read(_try(lambda: Fxp(mk_src(), n_word=w, n_int=ni_, rounding=r, overflow=o)))
        return Fxp(mk_src(), s, n_frac=nf, n_int=ni_, rounding=r, overflow=o)

    table = {
        'ctor_nint': r_ctor_nint,
        'ctor_like_override': r_ctor_like_override,
        'resize': r_resize, 'resize_dtype': r_resize_dtype, 'resize_nint': r_resize_nint,
        'ctor_like': lambda: Fxp(mk_src(), like=dst()),
        'ctor_sizes': lambda: Fxp(mk_src(), s, w, nf, rounding=r, overflow=o),
        'ctor_dtype': lambda: Fxp(mk_src(), dtype=dt, rounding=r, overflow=o),
        'like': lambda: mk_src().like(dst()),
        'call': lambda: dst()(mk_src()),
        'set_val': lambda: dst().set_val(mk_src()),
        'equal': lambda: dst().equal(mk_src()),
        'equal_prefilled': r_equal_prefilled, 'ctor_like_modes': r_ctor_like_modes,
        'setitem': r_setitem, 'equal_index': r_equal_index,
    }
    for name in (routes or table):
        read(_try(table[name]))
    if then_written:
        return _try(r_then_written)


def run_case(case, ctx):
    Fxp = ctx.mon.Fxp
    k = case['k']
    if k == 'grid':
        fs, fd = tuple(case['s']), tuple(case['d'])
        lo, hi = R.code_range(fs[0], fs[1])
        codes = np.arange(lo, hi + 1)
        m = case['m']
        modes = [G.MODES[m % 10], G.MODES[(m + 3) % 10]] if ctx.tier == 'quick' else G.MODES
        for r, o in modes:
            all_routes(Fxp, lambda: Fxp(codes, fs[0], fs[1], fs[2], raw=True), fd, r, o,
                       routes=('resize', 'ctor_sizes', 'call', 'like', 'equal') if ctx.tier == 'quick' else None)
        return
    rng = ctx.rng_for(k, case['i'])
    i = case['i']
    if k == 'rand':
        fs = G.core_format(rng)
        fd = G.core_format(rng)
        if rng.random() < 0.3:      # large fraction-length jumps
            fs = (fs[0], fs[1], -rng.randint(0, 8))
            fd = (fd[0], fd[1], fd[1] + rng.randint(0, 8))
        r, o = G.MODES[i % 10]
        lo, hi = R.code_range(fs[0], fs[1])
        rank = i % 3
        n = {0: 1, 1: rng.randint(1, 4), 2: 4}[rank]
        codes = [rng.choice([lo, hi, 0 if lo <= 0 <= hi else lo, rng.randint(lo, hi), rng.randint(lo, hi)]) for _ in range(n)]
        lsb = R.lsb(fs[2])
        how = ('raw', 'float', 'int')[(i // 3) % 3]
        vals = [c * lsb for c in codes]
        if how == 'float' and not all(G.can_carry(v, 'pyfloat') for v in vals):
            how = 'raw'
        if how == 'int' and not all(v.denominator == 1 and abs(v) < 2 ** 62 for v in vals):
            how = 'raw'

        def shape(a):
            a = np.array(a, dtype=object if how == 'int' else None)
            if rank == 0:
                return a.reshape(()) if False else a[0]
            if rank == 2:
                return a.reshape(2, 2)
            return a

        def mk_src():
            if how == 'raw':
                v = shape(codes)
                return Fxp(v if rank else int(v), fs[0], fs[1], fs[2], raw=True)
            if how == 'float':
                v = shape([float(x) for x in vals])
                return Fxp(v if rank else float(v), fs[0], fs[1], fs[2])
            v = shape([int(x) for x in vals])
            if rank:
                v = np.array(v.tolist())
                return Fxp(v, fs[0], fs[1], fs[2])
            return Fxp(int(v), fs[0], fs[1], fs[2])
        outs = all_routes(Fxp, mk_src, fd, r, o, dst_history=(i // 30) % 3 == 0 and fd[2] > 0, then_written=(i // 3) % 4 == 1)
        for how_, before, after in (outs or []):
            if before != after:
                ctx.violation('source_changed_later', 'after a conversion by %s, writing into the destination changed the SOURCE: codes/dtype/status %r -> %r' % (how_, before, after),
                              key='conv.source_written_through')
            ctx.judged(('then-written', how_, rank), True, None)
            ctx.floor_hit(('then-written',))
        if (i // 10) % 4 == 0 and fs[0] and 12 <= fs[1]:
            # a lopsided array (one code of large negative magnitude next to small positive ones) moved up by so many fraction bits that only the negative
            # element needs more than 63 bits
            up = 64 - fs[1] + rng.randint(-1, 3)
            nf2 = fs[2] + up
            fd2 = (True, rng.randint(max(8, nf2 - 8), 52) if nf2 - 8 <= 52 else 52, nf2)
            if -8 <= fd2[2] <= fd2[1] + 8:
                lop = [lo, 1, 0, rng.randint(1, 7)]
                def mk_lop():
                    return Fxp(np.array(lop), fs[0], fs[1], fs[2], raw=True)
                all_routes(Fxp, mk_lop, fd2, r, o, routes=('resize', 'ctor_sizes', 'like', 'equal', 'set_val', 'setitem'))
                lop2 = [hi, -1, 0, -rng.randint(1, 7)]
                all_routes(Fxp, lambda: Fxp(np.array(lop2), fs[0], fs[1], fs[2], raw=True), fd2, r, o, routes=('resize', 'like', 'equal'))
        if (i // 10) % 4 == 2 and fs[1] >= 3:
            # sources whose value buffer is not C-contiguous (a transpose, a reversed view, a column, a Fortran-ordered input): conversion must follow the
            # logical order of the elements; also with an up-shift that reaches 63 bits (the route through Python integers)
            dc = [lo, hi, rng.randint(lo, hi), rng.randint(lo, hi), (lo + hi) // 2, lo + 1]
            a2 = np.array(dc).reshape(2, 3)
            srcs = [lambda: Fxp(a2, fs[0], fs[1], fs[2], raw=True).T, lambda: Fxp(a2, fs[0], fs[1], fs[2], raw=True)[::-1],
                    lambda: Fxp(a2, fs[0], fs[1], fs[2], raw=True)[:, 1], lambda: Fxp(np.asfortranarray(a2), fs[0], fs[1], fs[2], raw=True),
                    lambda: Fxp(np.array(dc), fs[0], fs[1], fs[2], raw=True)[::-2]]
            fds = [fd]
            up = 64 - fs[1] + rng.randint(-1, 3)
            nf2 = fs[2] + up
            if -8 <= nf2 <= 60:
                fds.append((fs[0], rng.randint(max(8, min(52, nf2 - 8)), 52), nf2))
            for mk_nc in srcs:
                for fdx in fds:
                    if -8 <= fdx[2] <= fdx[1] + 8:
                        all_routes(Fxp, mk_nc, fdx, r, o, routes=('resize', 'ctor_sizes', 'ctor_like', 'like', 'equal', 'set_val', 'call', 'setitem'))
            ctx.floor_hit(('noncontiguous_source',))
        if (i // 10) % 4 == 1 and fs[1] <= 40:      # (independent of the mode digit i % 10)
            # a source filled from a list of (unsigned) NumPy scalars under wrap: its codes can be negative, its value dtype unsigned
            m = 1 << fs[1]
            for dt in (np.uint64, np.uint32, np.int16):
                raws = [c % m if dt != np.int16 else max(-2 ** 15, min(2 ** 15 - 1, c)) for c in codes[:3]] or [0]
                try:
                    lst = [dt(v) for v in raws]
                except OverflowError:
                    continue
                def mk2():
                    return Fxp(list(lst), fs[0], fs[1], 0, overflow='wrap')
                if _try(mk2) is not None:
                    all_routes(Fxp, mk2, (fd[0], fd[1], max(-8, min(fd[2], fd[1] + 8))), r, o, routes=('ctor_sizes', 'ctor_like', 'set_val', 'like', 'equal', 'resize', 'setitem'))
        return
    if k == 'chain':
        fs = G.core_format(rng)
        lo, hi = R.code_range(fs[0], fs[1])
        n = rng.choice([1, 3])
        codes = [rng.choice([lo, hi, rng.randint(lo, hi)]) for _ in range(n)]
        r, o = G.MODES[i % 10]
        x = Fxp(codes if n > 1 else codes[0], fs[0], fs[1], fs[2], raw=True, rounding=r, overflow=o)
        for step in range(rng.randint(2, 6)):
            fd = G.core_format(rng)
            if rng.random() < 0.5:
                # stay near the previous format so that values survive a few steps
                fd = (x.signed if rng.random() < 0.7 else fd[0], max(1, min(52, x.n_word + rng.randint(-3, 3))), max(-8, x.n_frac + rng.randint(-3, 3)))
                if fd[2] > fd[1] + 8:
                    fd = (fd[0], fd[1], fd[1] + 8)
            if rng.random() < 0.3:
                x.config.rounding, x.config.overflow = rng.choice(G.MODES)
            _try(lambda: x.resize(fd[0], fd[1], fd[2]) if rng.random() < 0.7 else x.resize(dtype=R.dtype_fxp(*fd)))
