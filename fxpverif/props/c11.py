"""C11 - binary and hex strings are faithful images of the code and parse back to it."""
import numpy as np

from .. import refmodel as R
from .. import gen as G
from .. import universal as U
from ..storejudge import init_arguments

ID = 'C11'
TECHNIQUE = 'runtime monitoring: render events judged against bit-pattern images, parse events against the code the string denotes; rendered strings fed back by every route; input-container monitor'
TITLE = 'bin/hex/base_repr strings'
RULE = ('render events bin()/bin(frac_dot)/bin(prefix)/hex()/base_repr(b) are compared with the two\'s-complement image of the receiver\'s codes '
        '(refmodel.bin_image / hex_image / base_numeral), element-wise for arrays; parse events (constructor, call, set_val, from_bin method and '
        'function) whose input is a full-width binary or hex string (scalar, nested list, NumPy string array) must restore exactly the code the '
        'string denotes (value mode for n_word<=53, raw mode for any width). Key = (direction, form, word class, fraction class, code class, '
        'rank, mode); non-trivial = negative code, or n_word not a multiple of 4, or n_frac in {0, n_word}.')
DECIDING_OPS = ['bin', 'hex', 'base_repr', '__init__', ('from_bin',), 'set_val', '__call__']
ANCHORS = ['utils.binary_repr', 'utils.hex_repr', 'utils.base_repr', 'utils.insert_frac_point', 'utils.add_binary_prefix', 'utils.strbin2int',
           'utils.strbin2float', 'utils.strhex2int', 'utils.strhex2float', 'utils.str2num', 'objects.Fxp.from_bin']
EXHAUSTIVE = {'quick': 'all codes of all formats n_word<=6 (n_frac 0..n_word) rendered and parsed back; boundary/random codes for 16..256 bits',
              'thorough': 'all codes n_word<=8'}
SHARDS = {'quick': 16, 'thorough': 16}
WIDE = (16, 31, 32, 33, 53, 63, 64, 65, 100, 128, 256)


def code_class(k, lo, hi):
    if k == lo:
        return 'min'
    if k == hi:
        return 'max'
    if k == -1:
        return '-1'
    if k == 0:
        return '0'
    return 'neg' if k < 0 else 'pos'


def nest(flat, shape):
    if len(shape) == 0:
        return flat[0]
    a = np.empty(len(flat), dtype=object)
    a[:] = flat
    return a.reshape(shape).tolist()


def normalise(r):
    if isinstance(r, str):
        return r
    try:
        return np.array(r).tolist()
    except Exception:
        return r


def strings_of(c):
    """(flat list of strings, shape) if the carrier consists of strings only, else None"""
    if isinstance(c, str):
        return [c], ()
    if isinstance(c, np.ndarray) and c.dtype.kind in 'US':
        return c.ravel().tolist(), tuple(c.shape)
    if isinstance(c, (list, tuple)) and len(c) > 0:
        if all(isinstance(x, str) for x in c):
            return list(c), (len(c),)
        if all(isinstance(x, (list, tuple)) and len(x) > 0 and all(isinstance(y, str) for y in x) for x in c) and len(set(len(x) for x in c)) == 1:
            return [y for x in c for y in x], (len(c), len(c[0]))
        # what bin() / hex() return for a 2-dimensional object: a list of arrays of strings
        if all(isinstance(x, np.ndarray) and x.dtype.kind in 'US' and x.ndim == 1 and x.size > 0 for x in c) and len(set(x.size for x in c)) == 1:
            return [y for x in c for y in x.tolist()], (len(c), c[0].size)
    return None


def denoted_code(s, signed, n_word, n_frac, from_bin):
    """code denoted by a full-width bin/hex string, or None if the string is not one the oracle covers"""
    t = s.strip()
    low = t.lower()
    hp = next((pf for pf in ('0x', '0h', 'x', 'h') if low.startswith(pf)), None)     # every prefix hex() can be asked for, in any case
    if hp is not None:
        digits = t[len(hp):]
        if len(digits) != (n_word + 3) // 4 or any(ch not in '0123456789abcdefABCDEF' for ch in digits):
            return None
        p = int(digits, 16)
        if p >= (1 << n_word):
            return None
        return R.from_pattern(p, signed, n_word)
    if low.startswith('0b'):
        body = t[2:]
    elif low.startswith('b'):
        body = t[1:]
    elif from_bin:
        body = t
    else:
        return None
    if '.' in body:
        ip, fp = body.split('.', 1)
        if n_frac is None or len(fp) != n_frac:
            return None
        body = ip + fp
    if len(body) != n_word or any(ch not in '01' for ch in body):
        return None
    return R.from_pattern(int(body, 2), signed, n_word)


def make_judges(ctx):
    mon = ctx.mon
    Fxp = mon.Fxp

    def render_judge(ev):
        if ev.kind != 'method' or ev.op not in ('bin', 'hex', 'base_repr'):
            return
        p = ev.pre[0] if ev.pre else None
        if p is None or p.is_complex or p.n_word < 1 or p.n_word > 256:
            ctx.skip('render:complex or outside 1..256 bits')
            return
        lo, hi = R.code_range(p.signed, p.n_word)
        if any((not isinstance(k, int)) or k < lo or k > hi for k in p.codes):
            ctx.skip('render:receiver holds an out-of-range code (C02)')
            return
        if ev.op == 'bin':
            d = dict(zip(('frac_dot', 'prefix'), ev.args))
            d.update(ev.kwargs)
            fd = bool(d.get('frac_dot', False))
            prefix = d.get('prefix')
            if prefix is None:
                prefix = p.cfg.get('_bin_prefix')
            if prefix is True:
                prefix = '0b'
            if prefix is not None and not isinstance(prefix, str):
                ctx.skip('render:non-string prefix')
                return
            if fd and not (0 <= p.n_frac <= p.n_word):
                ctx.skip('render:binary point outside the word')
                return
            form = 'bin.dot' if fd else ('bin+prefix' if prefix else 'bin')
            exp = [(prefix or '') + (R.bin_image_dot(k, p.n_word, p.n_frac) if fd else R.bin_image(k, p.n_word)) for k in p.codes]
        elif ev.op == 'hex':
            d = dict(zip(('padding', 'prefix'), ev.args))
            d.update(ev.kwargs)
            if d.get('padding', True) is not True:
                ctx.skip('render:hex without padding')
                return
            prefix = d.get('prefix')
            if prefix is None:
                prefix = p.cfg.get('_hex_prefix')
            if prefix is True:
                prefix = '0x'
            if prefix is None:
                prefix = ''
            if not isinstance(prefix, str):
                ctx.skip('render:non-string prefix')
                return
            form = 'hex'
            exp = [prefix + R.hex_image(k, p.n_word) for k in p.codes]
        else:
            d = dict(zip(('base', 'frac_dot'), ev.args))
            d.update(ev.kwargs)
            if d.get('frac_dot', False) or d.get('base') not in (2, 8, 10, 16, 36):
                ctx.skip('render:base_repr variant not covered')
                return
            form = 'base%d' % d['base']
            exp = [R.base_numeral(k, d['base']) for k in p.codes]
        if ev.exc is not None:
            ctx.violation('render_raises', '%s() on %s raised %s: %s' % (ev.op, R.dtype_fxp(*p.fmt()), type(ev.exc).__name__, str(ev.exc)[:120]), ev, key='render.raises')
            return
        got = normalise(ev.result)
        want = nest(exp, p.shape)
        if got != want:
            ctx.violation('render', '%s of %s codes %s: got %.200r, expected %.200r' % (form, R.dtype_fxp(*p.fmt()), [str(k) for k in p.codes[:3]], got, want), ev)
        cc = sorted(set(code_class(k, lo, hi) for k in p.codes[:16]))
        nontriv = any(k < 0 for k in p.codes) or p.n_word % 4 != 0 or p.n_frac in (0, p.n_word)
        sample = None
        if ctx.want_sample() and nontriv and len(p.codes) <= 4:
            sample = {'op': ev.op, 'form': form, 'format': R.dtype_fxp(*p.fmt()), 'codes': [str(k) for k in p.codes], 'rendered': got}
        ctx.judged(('render', form, bool(ev.op == 'bin' and prefix), G.word_class(p.n_word), G.frac_class(p.n_word, p.n_frac), tuple(cc), len(p.shape)), nontriv, sample, elements=len(p.codes))
        ctx.floor_hit(('render', form))
        if form == 'bin.dot' and prefix and p.n_frac in (0, p.n_word):
            ctx.floor_hit(('render-point-prefix-at-an-end',))

    def parse_judge(ev):
        from_bin = False
        raw = False
        if ev.kind == 'method' and ev.op == '__init__':
            d = init_arguments(ev)
            car = d.get('val')
            raw = bool(d.get('raw', False))
            route = 'constructor'
            if d.get('like') is not None or d.get('dtype') is not None or 'scale' in d or 'bias' in d:
                return
            if d.get('n_word') is None or d.get('n_frac') is None:
                return      # the property is about objects "of the same format"; inferred sizes are not covered
        elif ev.kind == 'method' and ev.op == 'set_val':
            d = dict(zip(('val', 'raw', 'vdtype', 'index'), ev.args))
            d.update(ev.kwargs)
            if d.get('index') is not None:
                return
            car = d.get('val')
            raw = bool(d.get('raw', False))
            route = 'set_val'
        elif ev.kind == 'method' and ev.op == '__call__':
            car = ev.args[0] if ev.args else None
            route = 'call'
        elif ev.kind == 'method' and ev.op == 'from_bin':
            d = dict(zip(('val', 'raw'), ev.args))
            d.update(ev.kwargs)
            car = d.get('val')
            raw = bool(d.get('raw', False))
            route = 'from_bin'
            from_bin = True
        elif ev.kind == 'function' and ev.op == 'from_bin':
            car = ev.args[0] if ev.args else ev.kwargs.get('x')
            kw = dict(ev.kwargs)
            raw = bool(kw.get('raw', False))
            fn_dom = None
            if isinstance(kw.get('like'), Fxp) and not any(kw.get(n_) is not None for n_ in ('signed', 'n_word', 'n_frac', 'n_int', 'dtype')):
                lp = next((p_ for o_, p_ in zip(ev.operands, ev.pre) if o_ is kw['like']), None)
                if lp is None or lp.is_complex or lp.scaled:
                    return
                fn_dom = lp.fmt()           # the template decides the format, its signedness included
            elif kw.get('like') is not None:
                return
            elif isinstance(kw.get('dtype'), str) and not any(kw.get(n_) is not None for n_ in ('signed', 'n_word', 'n_frac', 'n_int')):
                try:
                    sg_, w_, nf_, cx_ = R.parse_dtype(kw['dtype'])
                except (ValueError, TypeError):
                    return
                if cx_:
                    return
                fn_dom = (sg_, w_, nf_)
            elif kw.get('n_word') is None or kw.get('n_frac') is None:
                return
            route = 'from_bin_function'
            from_bin = True
        else:
            return
        so = strings_of(car)
        if so is None:
            return
        strs, shape = so
        if ev.kind == 'function':
            post = ev.result_snap
            dom = fn_dom or (bool(ev.kwargs.get('signed', True)) if ev.kwargs.get('signed') is not None else True, ev.kwargs.get('n_word'), ev.kwargs.get('n_frac'))
            if fn_dom is not None:
                ctx.floor_hit(('from_bin_function', 'like' if ev.kwargs.get('like') is not None else 'dtype', dom[0]))
        else:
            post = ev.post[0] if ev.post else None
            pre = ev.pre[0] if ev.pre else None
            ref = post or pre
            if ref is None:
                if ev.op != '__init__':
                    return
                d = init_arguments(ev)
                dom = (True if d.get('signed') is None else bool(d.get('signed')), d.get('n_word'), d.get('n_frac'))
            else:
                dom = ref.fmt()
                if ref.is_complex or ref.scaled:
                    return
        signed, n_word, n_frac = dom
        if not isinstance(n_word, int) or not isinstance(n_frac, int) or not (2 <= n_word <= 256) or not (0 <= n_frac <= n_word):
            ctx.skip('parse:format outside 2..256 bits / n_frac 0..n_word')
            return
        if not raw and n_word > 53:
            ctx.skip('parse:value mode beyond 53 bits')
            return
        codes = [denoted_code(s, signed, n_word, None if raw else n_frac, from_bin) for s in strs]
        if any(c is None for c in codes):
            ctx.skip('parse:string is not a full-width image of this format')
            return
        if raw and any('.' in s for s in strs):
            ctx.skip('parse:dotted string in raw mode')
            return
        if ev.exc is not None or post is None:
            ctx.violation('parse_raises', 'parsing %.80r into %s (%s%s) raised %s: %s' % (strs[0], R.dtype_fxp(signed, n_word, n_frac), route, ', raw' if raw else '',
                          type(ev.exc).__name__ if ev.exc else 'no object', str(ev.exc)[:120]), ev, key='parse.raises')
            return
        if post.fmt() != (signed, n_word, n_frac):
            ctx.violation('parse_format', 'parsing into %s changed the format to %s' % (R.dtype_fxp(signed, n_word, n_frac), R.dtype_fxp(*post.fmt())), ev)
            return
        if post.codes != codes or tuple(post.shape) != tuple(shape):
            ctx.violation('parse', '%s%s into %s: strings %.120r restored codes %s (shape %r), they denote %s (shape %r)' % (
                route, ' raw' if raw else '', R.dtype_fxp(signed, n_word, n_frac), strs[:3], [str(k) for k in post.codes[:3]], post.shape, [str(k) for k in codes[:3]], shape), ev)
        lo, hi = R.code_range(signed, n_word)
        form = 'hex' if strs[0].lower().lstrip('0')[:1] in ('x', 'h') else ('bin.dot' if '.' in strs[0] else 'bin')
        pfx = strs[0][:2] if strs[0][:1] == '0' else strs[0][:1]
        if pfx not in ('0b', '0x') and pfx[-1:].lower() in ('b', 'x', 'h'):
            ctx.floor_hit(('parse-prefix', pfx))
        if isinstance(car, list) and isinstance(car[0], np.ndarray):
            ctx.floor_hit(('parse-container', 'list-of-arrays', 2))
        cc = sorted(set(code_class(k, lo, hi) for k in codes[:16]))
        nontriv = any(k < 0 for k in codes) or n_word % 4 != 0 or n_frac in (0, n_word)
        ctx.judged(('parse', form, route, 'raw' if raw else 'value', G.word_class(n_word), G.frac_class(n_word, n_frac), tuple(cc), len(shape)), nontriv, None, elements=len(codes))
        ctx.floor_hit(('parse', form, route, 'raw' if raw else 'value'))
        if isinstance(car, (list, tuple, np.ndarray)):
            ctx.floor_hit(('parse-container', type(car).__name__, len(shape)))
        if form == 'bin.dot' and n_frac in (0, n_word):
            ctx.floor_hit(('parse-point-at-an-end', route))
    def container_judge(ev):
        # the rendered list handed back must still hold the strings afterwards (a caller parses the same rendering more than once)
        if ev.kind == 'method' and ev.op in ('__init__', 'set_val', '__call__', 'from_bin') or ev.kind == 'function' and ev.op == 'from_bin':
            for p in U.u2_container_problems(ev):
                ctx.violation('input_container_mutated', p[1], ev, extra=p[2], key='parse.container_mutated')
    return [render_judge, parse_judge, container_judge]


def floors(tier):
    cells = [('render', f) for f in ('bin', 'bin.dot', 'bin+prefix', 'hex', 'base2', 'base8', 'base10', 'base16', 'base36')]
    cells += [('parse', f, r, m) for f in ('bin', 'hex') for r in ('constructor', 'call', 'set_val') for m in ('raw', 'value') if not (r == 'call' and m == 'raw')]
    cells += [('parse', 'bin', 'from_bin', 'value'), ('parse', 'bin', 'from_bin', 'raw'), ('parse', 'bin', 'from_bin_function', 'value'), ('parse', 'bin.dot', 'constructor', 'value')]
    cells += [('parse-container', 'list', 1), ('parse-container', 'list', 2), ('parse-container', 'ndarray', 1), ('parse-container', 'ndarray', 2), ('parse-container', 'list-of-arrays', 2)]
    cells += [('parse-container', 'tuple', 1), ('parse-container', 'tuple', 2), ('parse', 'bin.dot', 'from_bin', 'value'), ('parse', 'bin.dot', 'from_bin_function', 'value'),
              ('parse-point-at-an-end', 'from_bin'), ('parse-point-at-an-end', 'constructor'), ('render-point-prefix-at-an-end',),
              ('roundtrip-as-returned', 'wide'), ('roundtrip-as-returned', 'core'), ('from_bin_function', 'like', True), ('from_bin_function', 'like', False), ('from_bin_function', 'dtype', False)]
    cells += [('parse-prefix', pf) for pf in ('b', 'B', '0B', 'x', 'X', '0X', 'h', '0h', 'H', '0H')] + [('render-cfg', 'bin_prefix'), ('render-cfg', 'hex_prefix_none')]
    return cells


# ------------------------------------------------------------------------------------------ workload
def cases(tier, seed):
    wmax = 6 if tier == 'quick' else 8
    for s in (True, False):
        for w in range(1, wmax + 1):
            for nf in range(0, w + 1):
                yield {'k': 'all', 'signed': s, 'n_word': w, 'n_frac': nf}
    n = 700 if tier == 'quick' else 15000
    for i in range(n):
        yield {'k': 'wide', 'i': i}


def _try(f):
    try:
        return f()
    except Exception:
        return None


def roundtrip(ctx, x, s, w, nf, arrays=True):
    """render the object and feed every rendered string back by every route (always on fresh copies)"""
    Fxp = ctx.mon.Fxp
    fm = ctx.mon.fxpmath
    import copy
    b = _try(lambda: x.bin())
    bd = _try(lambda: x.bin(frac_dot=True))
    bp = _try(lambda: x.bin(prefix='0b'))
    _try(lambda: x.bin(prefix=True))
    h = _try(lambda: x.hex())
    for base in (2, 8, 10, 16, 36):
        _try(lambda: x.base_repr(base))
    if w < 2:
        return

    def fresh(r, as_np=False):
        r = normalise(r)
        if as_np and not isinstance(r, str):
            return np.array(r)
        return copy.deepcopy(r)

    def mk():
        return Fxp(None, s, w, nf)
    for raw in (True, False):
        if not raw and w > 53:
            continue
        for r in (bp, h):
            if r is None:
                continue
            _try(lambda: Fxp(fresh(r), s, w, nf, raw=raw))
            if raw:
                _try(lambda: mk().set_val(fresh(r), raw=True))
            else:
                _try(lambda: mk().set_val(fresh(r)))
                _try(lambda: mk()(fresh(r)))
            if not isinstance(normalise(r), str):
                _try(lambda: Fxp(fresh(r, True), s, w, nf, raw=raw))
        if b is not None:
            _try(lambda: mk().from_bin(fresh(b), raw=raw))
            _try(lambda: fm.from_bin(fresh(b), signed=s, n_word=w, n_frac=nf, raw=raw))
            _try(lambda: fm.from_bin(fresh(b), like=mk(), raw=raw))
            _try(lambda: fm.from_bin(fresh(b), dtype=R.dtype_fxp(s, w, nf), raw=raw))
    # the renderings exactly as returned (a 2-dimensional object gives a list of arrays of strings)
    if not isinstance(h, str) and h is not None and len(getattr(x.val, 'shape', ())) == 2:
        for raw in (True, False):
            if not raw and w > 53:
                continue
            _try(lambda: Fxp(copy.deepcopy(h), s, w, nf, raw=raw))
            _try(lambda: Fxp(copy.deepcopy(bp), s, w, nf, raw=raw))
            if raw:
                # whatever container the rendering came in: fed back as it is, it restores the codes (workload-level, the parse judge only decodes the
                # containers it knows)
                want_codes = np.asarray(x.val, dtype=object).ravel().tolist()
                for nm, rr in (('hex()', h), ('bin(prefix=)', bp)):
                    if rr is None:
                        continue
                    try:
                        back = Fxp(copy.deepcopy(rr), s, w, nf, raw=True)
                        got_codes = np.asarray(back.val, dtype=object).ravel().tolist()
                        err = None
                    except Exception as e:
                        got_codes, err = None, e
                    if err is not None or [int(c_) for c_ in got_codes] != [int(c_) for c_ in want_codes]:
                        ctx.violation('roundtrip_as_returned', '%s of a 2-dimensional %s fed back as returned %s' % (
                            nm, R.dtype_fxp(s, w, nf), ('raised %s: %s' % (type(err).__name__, str(err)[:100])) if err is not None else 'gave codes %s instead of %s' % (got_codes[:4], want_codes[:4])),
                            key='roundtrip.as_returned')
                    ctx.judged(('roundtrip-as-returned', nm, G.word_class(w)), True, None)
                    ctx.floor_hit(('roundtrip-as-returned', 'wide' if w > 64 else 'core'))
            _try(lambda: mk().set_val(copy.deepcopy(h), raw=raw))
            if not raw:
                _try(lambda: mk()(copy.deepcopy(bp)))
            _try(lambda: mk().from_bin(copy.deepcopy(b), raw=raw))
    # every prefix that can be selected, by argument and by configuration, renders and parses back
    sel = ctx.rng_for('prefix', w * 1000 + nf * 7 + (1 if s else 0) + len(str(b)) % 97)
    bpf = sel.choice(['b', 'B', '0B'])
    hpf = sel.choice(['x', 'X', '0X', 'h', '0h', 'H', '0H'])
    rb = _try(lambda: x.bin(prefix=bpf))
    rh = _try(lambda: x.hex(prefix=hpf))
    xc = _try(lambda: copy.deepcopy(x))
    if xc is not None:
        _try(lambda: setattr(xc.config, 'bin_prefix', bpf))
        _try(lambda: xc.bin())
        if _try(lambda: xc.hex()) is not None or True:
            ctx.floor_hit(('render-cfg', 'bin_prefix'))
        _try(lambda: setattr(xc.config, 'hex_prefix', None))
        _try(lambda: xc.hex())
        ctx.floor_hit(('render-cfg', 'hex_prefix_none'))
        _try(lambda: setattr(xc.config, 'hex_prefix', hpf))
        _try(lambda: xc.hex())
    for raw in (True, False):
        if not raw and w > 53:
            continue
        for r in (rb, rh):
            if r is None:
                continue
            _try(lambda: Fxp(fresh(r), s, w, nf, raw=raw))
            _try(lambda: mk().set_val(fresh(r), raw=raw))
            if not raw:
                _try(lambda: mk()(fresh(r)))
        if rb is not None:
            # binary strings carrying any of the selectable prefixes also through from_bin (method and function)
            _try(lambda: mk().from_bin(fresh(rb), raw=raw))
            _try(lambda: fm.from_bin(fresh(rb), signed=s, n_word=w, n_frac=nf, raw=raw))
    if bd is not None and 0 < nf < w and w <= 53:
        r = normalise(bd)
        pre = ('0b' + r) if isinstance(r, str) else None
        if pre is not None:
            _try(lambda: Fxp(pre, s, w, nf))
            _try(lambda: mk().set_val(pre))
    # the binary point together with a prefix (argument, prefix=True, configuration), at every position including the two ends
    # (n_frac = 0: trailing point, n_frac = n_word: leading point), and the pointed strings read back by from_bin
    bdp = _try(lambda: x.bin(frac_dot=True, prefix='0b'))
    _try(lambda: x.bin(frac_dot=True, prefix=True))
    _try(lambda: x.bin(frac_dot=True, prefix=bpf))
    if xc is not None:
        _try(lambda: setattr(xc.config, 'bin_prefix', bpf))
        _try(lambda: xc.bin(frac_dot=True))
    if w <= 53:
        for r in (bd, bdp):
            if r is None:
                continue
            _try(lambda: mk().from_bin(fresh(r)))
            _try(lambda: fm.from_bin(fresh(r), signed=s, n_word=w, n_frac=nf))
        if bdp is not None:
            _try(lambda: Fxp(fresh(bdp), s, w, nf))
            _try(lambda: mk().set_val(fresh(bdp)))
            _try(lambda: mk()(fresh(bdp)))
    # renderings of arrays collected in tuples (nested for two dimensions) are carriers like lists
    def tup(r):
        r = normalise(r)
        if isinstance(r, str):
            return None
        return tuple(tuple(q) if isinstance(q, list) else q for q in r)
    for raw in (True, False):
        if not raw and w > 53:
            continue
        for r in (bp, h, b):
            t = tup(r) if r is not None else None
            if t is None:
                continue
            if r is b:
                _try(lambda: mk().from_bin(t, raw=raw))
                _try(lambda: fm.from_bin(t, signed=s, n_word=w, n_frac=nf, raw=raw))
            else:
                _try(lambda: Fxp(t, s, w, nf, raw=raw))
                _try(lambda: mk().set_val(t, raw=raw))
                if not raw:
                    _try(lambda: mk()(t))


def run_case(case, ctx):
    Fxp = ctx.mon.Fxp
    if case['k'] == 'all':
        s, w, nf = case['signed'], case['n_word'], case['n_frac']
        lo, hi = R.code_range(s, w)
        codes = list(range(lo, hi + 1))
        x = Fxp(np.array(codes), s, w, nf, raw=True)
        roundtrip(ctx, x, s, w, nf)
        if len(codes) % 2 == 0 and len(codes) >= 4:
            x2 = Fxp(np.array(codes).reshape(2, -1), s, w, nf, raw=True)
            roundtrip(ctx, x2, s, w, nf)
        for c in codes[:: max(1, len(codes) // 8)] + [hi]:
            roundtrip(ctx, Fxp(c, s, w, nf, raw=True), s, w, nf)
        return
    rng = ctx.rng_for('wide', case['i'])
    i = case['i']
    w = WIDE[i % len(WIDE)]
    s = bool((i // len(WIDE)) % 2)
    nf = rng.choice([0, 1, w // 2, w - 1, w, rng.randint(0, w)])
    lo, hi = R.code_range(s, w)

    def code():
        return rng.choice([lo, hi, -1 if s else hi - 1, 0, 1, lo + 1, hi - 1, rng.randint(lo, hi), rng.randint(lo, hi)])
    rank = i % 3
    if rank == 0:
        x = Fxp(code(), s, w, nf, raw=True)
    elif rank == 1:
        x = Fxp([code() for _ in range(3)], s, w, nf, raw=True)
    else:
        x = Fxp([[code(), code()], [code(), code()]], s, w, nf, raw=True)
    roundtrip(ctx, x, s, w, nf)
    if w >= 63 and i % 4 == 0:
        # codes beyond 2^63 next to short ones (NumPy's dtype discovery would turn such lists into float64)
        roundtrip(ctx, Fxp([hi, 1, lo if s else 0], s, w, nf, raw=True), s, w, nf)
        roundtrip(ctx, Fxp([[hi, 0], [1, hi - 1]], s, w, nf, raw=True), s, w, nf)
