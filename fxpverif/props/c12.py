"""C12 - dtype strings and formats determine each other in every notation."""
import numpy as np

from .. import refmodel as R
from .. import gen as G
from ..storejudge import init_arguments

ID = 'C12'
TECHNIQUE = 'runtime monitoring: dtype render / parse events and the dtype attribute of every rewritten receiver and fresh result judged against a string model of both notations'
TITLE = 'dtype strings <-> formats'
RULE = ('events get_dtype(notation) (result string vs the receiver\'s format, requested notation, else the configured one), constructor / resize with '
        'dtype=<string> (resulting signed, n_word, n_frac, complex must equal an independent parse of the string, in fxp and Q/UQ/S/U spellings and any '
        'letter case), the dtype attribute of every receiver after a writing call and of every freshly created result (configured notation, complex suffix = the object '
        'itself is complex, n_word<=52), fxp_sum(dtype=) in both notations and any case incl. the complex suffix (utils.get_sizes_from_dtype). Key = '
        '(signedness, word class, fraction class, complex, configured notation, requested notation / spelling family, event); non-trivial = fraction '
        'class in {<0, >n_word} or complex or requested notation != configured.')
DECIDING_OPS = ['get_dtype', '__init__', 'resize', 'fxp_sum']
ANCHORS = ['objects.Fxp._parseformatstr', 'objects.Fxp._update_dtype', 'objects.Fxp.get_dtype', 'utils.get_sizes_from_dtype']
EXHAUSTIVE = {'quick': 'both signednesses x n_word 1..40 (step-sampled above 16), 52, 53, 63, 64, 65, 100, 128, 256 x n_frac -8..n_word+8 x complex (n_word<=52, sampled) x both configured notations',
              'thorough': 'both signednesses x n_word 1..69, 100, 128, 200, 256 x n_frac -8..n_word+8 x complex (n_word<=52) x both configured notations'}
SHARDS = {'quick': 16, 'thorough': 16}


def spell(signed, n_word, n_frac, is_complex, notation):
    if notation == 'Q':
        return R.dtype_q(signed, n_word, n_frac)
    return R.dtype_fxp(signed, n_word, n_frac, is_complex)


def make_judges(ctx):
    mon = ctx.mon
    Fxp = mon.Fxp

    def key_of(s, cfgnot, what, ev):
        return ('s' if s.signed else 'u', G.word_class(s.n_word), G.frac_class(s.n_word, s.n_frac), s.is_complex, cfgnot, what, ev)

    def nontrivial(s, cfgnot, req):
        return G.frac_class(s.n_word, s.n_frac) in ('<0', '>w') or s.is_complex or (req is not None and req != cfgnot)

    def getdtype_judge(ev):
        if ev.kind != 'method' or ev.op != 'get_dtype':
            return
        p, q = ev.pre[0], ev.post[0]
        if p is None:
            return
        d = dict(zip(('notation',), ev.args))
        d.update(ev.kwargs)
        req = d.get('notation')
        cfgnot = p.cfg.get('_dtype_notation')
        if req not in (None, 'fxp', 'Q'):
            ctx.skip('get_dtype:unknown notation argument')
            return
        if ev.exc is not None:
            ctx.violation('raises', 'get_dtype(%r) raised %s' % (req, type(ev.exc).__name__), ev)
            return
        want = spell(p.signed, p.n_word, p.n_frac, p.is_complex, req or cfgnot)
        if ev.result != want:
            ctx.violation('get_dtype', 'get_dtype(%r) of %s (configured %s) returned %r, expected %r' % (req, R.dtype_fxp(*p.fmt()), cfgnot, ev.result, want), ev,
                          key='dtype.get_dtype_%s' % req)
        # (whether get_dtype(notation) leaves the `dtype` attribute in the requested or in the configured notation is not
        #  stated by the property; it is not asserted)
        ctx.judged(key_of(p, cfgnot, req, 'get_dtype'), nontrivial(p, cfgnot, req), None)
        ctx.floor_hit(('get_dtype', cfgnot, req))

    def parse_judge(ev):
        if ev.kind != 'method' or ev.op not in ('__init__', 'resize'):
            return
        if ev.op == '__init__':
            d = init_arguments(ev)
        else:
            d = dict(zip(('signed', 'n_word', 'n_frac', 'n_int', 'restore_val', 'dtype'), ev.args))
            d.update(ev.kwargs)
        post = ev.post[0] if ev.post else None
        s = d.get('dtype')
        if s is None:
            # dtype attribute follows the configured notation after construction / resize
            if ev.exc is None and post is not None and (ev.op == 'resize' or d.get('like') is None):
                cfgnot = post.cfg.get('_dtype_notation')
                want = spell(post.signed, post.n_word, post.n_frac, post.is_complex, cfgnot)
                if post.dtype != want:
                    ctx.violation('dtype_attr', 'dtype attribute %r after %s, format %s with configured notation %s' % (post.dtype, ev.op, want, cfgnot), ev)
                ctx.judged(key_of(post, cfgnot, None, 'attr:' + ev.op), nontrivial(post, cfgnot, None), None)
            return
        if not isinstance(s, str):
            return
        try:
            sg, w, nf, cx = R.parse_dtype(s)
        except (ValueError, IndexError):
            ctx.skip('parse:string outside the two documented notations')
            return
        if not (1 <= w <= 256 and -8 <= nf <= w + 8):
            ctx.skip('parse:format outside the quantifier')
            return
        fam = 'fxp' if s.lower().startswith('fxp') else s.rstrip('0123456789.+-').upper()
        if fam != 'fxp' and w - nf < 0:
            ctx.skip('parse:Q spelling with negative m')
            return
        if any(d.get(k) is not None for k in ('signed', 'n_word', 'n_frac', 'n_int')):
            return
        if ev.exc is not None or post is None:
            ctx.violation('parse_raises', '%s(dtype=%r) raised %s: %s' % (ev.op, s, type(ev.exc).__name__ if ev.exc else 'no object', str(ev.exc)[:100]), ev, key='dtype.parse_raises')
            return
        got = (post.signed, post.n_word, post.n_frac)
        if got != (sg, w, nf):
            ctx.violation('parse', '%s(dtype=%r) produced %s, the string denotes %s' % (ev.op, s, R.dtype_fxp(*got), R.dtype_fxp(sg, w, nf)), ev)
        elif cx and w <= 52 and not post.cx_obj:
            ctx.violation('parse_complex', '%s(dtype=%r) produced a non-complex object (value type %s)' % (ev.op, s, getattr(post.vdtype, '__name__', post.vdtype)), ev)
        elif cx and w <= 52 and post.cfg.get('_dtype_notation') == 'fxp' and not str(post.dtype).endswith('-complex'):
            # the dtype string and the (signed, n_word, n_frac, complex) tuple determine each other
            ctx.violation('parse_complex', 'after %s(dtype=%r) the dtype string is %r (no complex suffix)' % (ev.op, s, post.dtype), ev)
        elif ev.op == '__init__' and not cx and post.is_complex and d.get('val') is None:
            ctx.violation('parse_complex', '%s(dtype=%r) produced a complex object' % (ev.op, s), ev)
        cfgnot = post.cfg.get('_dtype_notation')
        ctx.judged(key_of(post, cfgnot, fam + (':case' if s != s.lower() and fam == 'fxp' or (fam != 'fxp' and s != s.upper()) else ''), 'parse:' + ev.op),
                   nontrivial(post, cfgnot, None) or fam != 'fxp', {'op': ev.op, 'dtype_arg': s, 'result': R.dtype_fxp(*got), 'complex': post.is_complex} if ctx.want_sample() and nf < 0 else None)
        ctx.floor_hit(('parse', ev.op, fam))

    WRITERS = ('__init__', 'resize', 'set_val', '__call__', '__setitem__')

    def attr_judge(ev):
        # "the dtype string of an object and its (signed, n_word, n_frac, complex) tuple determine each other": judged where the
        # library (re)renders the string - on the receiver after a writing call, and on a freshly created result object
        if ev.kind not in ('method', 'function'):
            return
        subj = []
        if ev.kind == 'method' and ev.op in WRITERS and ev.exc is None and ev.post and ev.post[0] is not None:
            subj.append(('receiver', ev.post[0]))
        r = ev.result_snap
        if r is not None and ev.exc is None and all(p is None or p.oid != r.oid for p in ev.pre):
            subj.append(('result', r))
        for role, q in subj:
            if not (1 <= q.n_word <= 256 and -8 <= q.n_frac <= q.n_word + 8):
                ctx.skip('attr:format outside the quantifier')
                continue
            cfgnot = q.cfg.get('_dtype_notation')
            if cfgnot == 'Q':
                want = [R.dtype_q(q.signed, q.n_word, q.n_frac)]
            elif q.n_word <= 52:
                want = [R.dtype_fxp(q.signed, q.n_word, q.n_frac, q.cx_obj)]
            else:
                want = [R.dtype_fxp(q.signed, q.n_word, q.n_frac, False), R.dtype_fxp(q.signed, q.n_word, q.n_frac, True)]
            if q.dtype not in want:
                ctx.violation('dtype_stale', 'after %s the %s has dtype attribute %r; its format is %s, complex=%s (value type %s), configured notation %s'
                              % (ev.op, role, q.dtype, R.dtype_fxp(*q.fmt()), q.cx_obj, getattr(q.vdtype, '__name__', q.vdtype), cfgnot), ev, key='dtype.attr_stale')
            ctx.judged(key_of(q, cfgnot, role, 'attr:' + (ev.op if ev.op in WRITERS or ev.op == '__getitem__' else 'op')), nontrivial(q, cfgnot, None) or q.cx_obj, None)
            if q.cx_obj:
                ctx.floor_hit(('attr_complex', role))

    def fxpsum_judge(ev):
        if ev.kind != 'function' or ev.op != 'fxp_sum':
            return
        s = ev.kwargs.get('dtype')
        if not isinstance(s, str):
            return
        try:
            sg, w, nf, cx = R.parse_dtype(s)
        except (ValueError, IndexError):
            return
        fam = 'fxp' if s.lower().startswith('fxp') else 'Q'
        if not (1 <= w <= 256 and -8 <= nf <= w + 8) or (fam == 'Q' and w - nf < 0):
            ctx.skip('fxp_sum:format outside the quantifier')
            return
        if ev.exc is not None or ev.result_snap is None:
            ctx.violation('fxp_sum_raises', 'fxp_sum(dtype=%r) raised %s: %s' % (s, type(ev.exc).__name__ if ev.exc else 'no object', str(ev.exc)[:100]), ev, key='dtype.get_sizes')
            return
        r = ev.result_snap
        if r.fmt() != (sg, w, nf):
            ctx.violation('fxp_sum', 'fxp_sum(dtype=%r) returned format %s' % (s, R.dtype_fxp(*r.fmt())), ev)
        elif cx and w <= 52 and not r.cx_obj:
            ctx.violation('fxp_sum_complex', 'fxp_sum(dtype=%r) returned a non-complex object' % (s,), ev, key='dtype.get_sizes_complex')
        ctx.judged(('fxp_sum', sg, G.word_class(w), G.frac_class(w, nf), cx, fam, s != s.lower()), nf < 0 or nf > w or cx or fam == 'Q', None)
        ctx.floor_hit(('fxp_sum', cx, 'neg' if nf < 0 else 'pos'))
        if fam == 'Q':
            ctx.floor_hit(('fxp_sum', 'Q'))
    return [getdtype_judge, parse_judge, attr_judge, fxpsum_judge]


def floors(tier):
    cells = [('get_dtype', c, r) for c in ('fxp', 'Q') for r in (None, 'fxp', 'Q')]
    cells += [('parse', op, fam) for op in ('__init__', 'resize') for fam in ('fxp', 'Q', 'UQ', 'S', 'U')]
    cells += [('fxp_sum', False, 'neg'), ('fxp_sum', True, 'pos'), ('fxp_sum', False, 'pos'), ('fxp_sum', 'Q'), ('attr_complex', 'receiver'), ('attr_complex', 'result'), ('resize-integer-holder',), ('get-sizes-both-forms',)]
    return cells


# ------------------------------------------------------------------------------------------ workload
def cases(tier, seed):
    if tier == 'quick':
        words = list(range(1, 17)) + list(range(17, 41, 3)) + [52, 53, 63, 64, 65, 100, 128, 256]
    else:
        words = list(range(1, 70)) + [100, 128, 200, 256]
    for s in (True, False):
        for w in words:
            yield {'k': 'fmt', 'signed': s, 'n_word': w}


def _try(f):
    try:
        return f()
    except Exception:
        return None


def swapcase_some(s, j):
    return s.upper() if j % 3 == 0 else (s.swapcase() if j % 3 == 1 else s.lower())


def run_case(case, ctx):
    Fxp = ctx.mon.Fxp
    fm = ctx.mon.fxpmath
    s, w = case['signed'], case['n_word']
    j = 0
    for nf in range(-8, w + 9):
        for cfgnot in ('fxp', 'Q'):
            j += 1
            x = _try(lambda: Fxp(None, s, w, nf, dtype_notation=cfgnot))
            if x is None:
                continue
            _try(lambda: x.get_dtype())
            _try(lambda: x.get_dtype('Q'))
            _try(lambda: x.get_dtype('fxp'))
            fx = R.dtype_fxp(s, w, nf)
            # constructing / resizing with the object's own dtype string reproduces its format
            _try(lambda: Fxp(None, dtype=x.dtype, dtype_notation=cfgnot))
            _try(lambda: Fxp(None, dtype=swapcase_some(fx, j)))
            near = _try(lambda: Fxp(None, s, w, nf + (1 if j % 2 else -1)))
            if near is not None:
                _try(lambda: near.resize(dtype=swapcase_some(fx, j + 1)))
            # resize by a dtype string that differs from the object in ONE component only (signedness / word / fraction)
            for so, wo, nfo in ((not s, w, nf), (s, w + 1, nf), (s, w, nf - 1)):
                if (j + wo + nfo) % 3 == 0 and -8 <= nfo:
                    oth = _try(lambda: Fxp(None, so, wo, nfo, dtype_notation=cfgnot))
                    if oth is not None:
                        _try(lambda: oth.resize(dtype=fx))
                        _try(lambda: oth.get_dtype('fxp'))
                        if w - nf >= 0:
                            oth2 = _try(lambda: Fxp(None, so, wo, nfo))
                            if oth2 is not None:
                                _try(lambda: oth2.resize(dtype='%s%d.%d' % ('Q' if s else 'UQ', w - nf, nf)))
            if w - nf >= 0:
                m = w - nf
                fams = ['Q', 'S'] if s else ['UQ', 'U', 'QU']
                for fam in fams:
                    q = '%s%d.%d' % (fam, m, nf)
                    if fam in ('Q', 'UQ') or j % 4 == 0:
                        _try(lambda: Fxp(None, dtype=swapcase_some(q, j)))
                if nf == 0:
                    _try(lambda: Fxp(None, dtype='%s%d' % (fams[0], m)))
                near2 = _try(lambda: Fxp(None, s, w, nf))
                if near2 is not None:
                    _try(lambda: near2.resize(dtype='%s%d.%d' % (fams[j % len(fams)], m, nf)))
            # objects holding integers (built from ints / from nothing with no fraction bits, scalars and arrays) resized by the string, whatever the distance
            if (nf >= 60 or nf < 0 or j % 6 == 0) and w <= 64:
                for src in (lambda: Fxp(3 if s else 3, True, 8, 0), lambda: Fxp(None, True, 16, 0), lambda: Fxp([0, 255], False, 8, 0), lambda: Fxp(-256 if s else 256, True, 16, -8)):
                    o = _try(src)
                    if o is not None:
                        if not s:
                            _try(lambda: o.set_val(abs(np.asarray(o.val)), raw=True))
                        _try(lambda: o.resize(dtype=fx))
                _try(lambda: Fxp(None, like=Fxp(3, True, 8, 0), dtype=fx))
                ctx.floor_hit(('resize-integer-holder',))
            # the configured notation is switched on a live object
            if j % 3 == 0:
                y = _try(lambda: Fxp(None, s, w, nf, dtype_notation=cfgnot))
                if y is not None:
                    other = 'Q' if cfgnot == 'fxp' else 'fxp'
                    _try(lambda: setattr(y.config, 'dtype_notation', other))
                    _try(lambda: y.get_dtype(other))
                    _try(lambda: y.get_dtype())
                    _try(lambda: y.get_dtype(cfgnot))
                    _try(lambda: y.config.update(dtype_notation=cfgnot))
                    _try(lambda: y.get_dtype(cfgnot))
            # complex suffix
            if w <= 52 and (ctx.tier == 'thorough' or j % 5 == 0):
                cx = R.dtype_fxp(s, w, nf, True)
                z = _try(lambda: Fxp(None, dtype=cx, dtype_notation=cfgnot))
                if z is not None:
                    _try(lambda: z.get_dtype())
                    _try(lambda: z.get_dtype('fxp'))
                    _try(lambda: z.get_dtype('Q'))
                    _try(lambda: Fxp(None, dtype=z.get_dtype('fxp')))
                # a real object made complex by a dtype string only
                rz = _try(lambda: Fxp(None, s, w, nf + (1 if j % 2 else -1), dtype_notation=cfgnot))
                if rz is not None:
                    _try(lambda: rz.resize(dtype=cx))
                    _try(lambda: rz.get_dtype('fxp'))
                    _try(lambda: Fxp(None, dtype=rz.get_dtype('fxp')))
                _try(lambda: Fxp(1, raw=True, dtype=cx))
                z2 = _try(lambda: Fxp(1 + 2j, s, max(w, 4), nf if w >= 4 else 0))
                if z2 is not None:
                    _try(lambda: z2.get_dtype())
                    _try(lambda: Fxp(None, dtype=z2.get_dtype('fxp')))
                # complex objects with a history: results of arithmetic, their elements, real / complex writes under a complex or real string
                if ctx.tier == 'thorough' or j % 10 == 0:
                    r0 = _try(lambda: Fxp([0.0, 0.0], s, w, nf, dtype_notation=cfgnot))
                    if r0 is not None:
                        zr = _try(lambda: r0 * 1j)
                        for zz in (zr, _try(lambda: r0 + 0j), _try(lambda: -zr), _try(lambda: zr.conj()), _try(lambda: np.cumsum(zr)),
                                   _try(lambda: Fxp(zr, s, w, nf + (1 if j % 2 else -1)))):
                            if zz is not None:
                                e = _try(lambda: zz[0])
                                _try(lambda: zz[-1:])
                                if e is not None:
                                    _try(lambda: e.get_dtype('fxp'))
                                    _try(lambda: Fxp(None, dtype=e.dtype))
                    _try(lambda: Fxp(0, dtype=cx, dtype_notation=cfgnot))
                    _try(lambda: Fxp([0.0, 0], dtype=cx))
                    zl = _try(lambda: Fxp(0j, s, w, nf))
                    if zl is not None:
                        _try(lambda: Fxp(0.0, like=zl))
                        _try(lambda: zl(0.0))
                    rw = _try(lambda: Fxp(0.0, s, w, nf + (1 if j % 2 else -1), dtype_notation=cfgnot))
                    if rw is not None:
                        _try(lambda: rw.resize(dtype=cx))
                        _try(lambda: rw(0.0))
                    x3 = _try(lambda: Fxp([0.0, 0.0], s, w, nf))
                    if x3 is not None:
                        _try(lambda: x3.set_val(x3.val, raw=True, vdtype=complex))
                    x4 = _try(lambda: Fxp([0.0, 0.0], s, w, nf))
                    if x4 is not None:
                        _try(lambda: x4.set_val(np.array([0j, 0j])))
            # fxp_sum(dtype=) goes through utils.get_sizes_from_dtype
            if w <= 40 and (ctx.tier == 'thorough' or j % 7 == 0 or nf < 0):
                a = _try(lambda: Fxp(np.zeros(2), s, w, nf, dtype_notation=cfgnot))
                if a is not None:
                    # the public helper itself in both of its call forms on the SAME string, in both orders, around the fxp_sum calls that use it: three sizes
                    # (or four with the complex flag), whatever was asked of it before
                    try:
                        g = fm.utils.get_sizes_from_dtype
                        t3 = tuple(g(fx))
                        _try(lambda: fm.fxp_sum(a, dtype=fx))
                        t4 = tuple(g(fx, complex_flag=True))
                        t3b = tuple(g(fx))
                        if t3 != (s, w, nf) or t3b != t3 or t4[:3] != t3 or len(t4) != 4 or bool(t4[3]):
                            ctx.violation('get_sizes', 'utils.get_sizes_from_dtype(%r) gave %r, then %r with the complex flag, then %r' % (fx, t3, t4, t3b), key='dtype.get_sizes_forms')
                        ctx.judged(('get-sizes-both-forms',), True, None)
                        ctx.floor_hit(('get-sizes-both-forms',))
                    except Exception as e_:
                        ctx.violation('get_sizes', 'utils.get_sizes_from_dtype(%r) raised %s' % (fx, type(e_).__name__), key='dtype.get_sizes_forms')
                    _try(lambda: fm.fxp_sum(a, dtype=fx))
                    _try(lambda: fm.fxp_sum(a, dtype=a.dtype))      # (Q notation when that is the configured one)
                    if j % 2:
                        _try(lambda: fm.fxp_sum(a, dtype=R.dtype_fxp(s, w, nf, True)))
                    else:
                        _try(lambda: fm.fxp_sum(a, dtype=swapcase_some(fx, j // 2)))
                        if w - nf >= 0:
                            _try(lambda: fm.fxp_sum(a, dtype=swapcase_some('%s%d.%d' % ('Q' if s else 'UQ', w - nf, nf), j // 2)))
