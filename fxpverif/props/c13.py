"""C13 - bitwise operators act on the n_word-bit two's-complement word."""
import numpy as np

from .. import refmodel as R
from .. import gen as G
from .. import universal as U

ID = 'C13'
TITLE = 'bitwise ~ & | ^ on the n_word-bit pattern'
RULE = ('events __invert__/__and__/__or__/__xor__ (and reflected forms with an integer mask): the result must have x\'s format and the code whose '
        'n_word-bit pattern is NOT/AND/OR/XOR of the operands\' patterns (code mod 2^n_word; masks reduced mod 2^n_word), x unchanged; operands of '
        'different word lengths must raise; the laws ~~x==x, ~x==-x-LSB (signed), De Morgan are evaluated through the library. Key = (op, signedness '
        'pair, y kind, word class, top bits of the two patterns); non-trivial = at least one operand pattern has the top bit set.')
DECIDING_OPS = ['__invert__', '__and__', '__or__', '__xor__', ('__rand__', '__ror__', '__rxor__'), ('__iand__', '__ior__', '__ixor__')]
ANCHORS = ['objects.Fxp.__invert__', 'objects.Fxp.__and__', 'objects.Fxp.__or__', 'objects.Fxp.__xor__', 'utils.binary_invert', 'utils.binary_and',
           'utils.binary_or', 'utils.binary_xor', 'utils.twos_complement_repr']
EXHAUSTIVE = {'quick': 'all code pairs for n_word<=4, every signedness combination, n_frac in {0, n_word//2, n_word}; y as Fxp and as integer mask',
              'thorough': 'all code pairs for n_word<=6, n_frac 0..n_word'}
SHARDS = {'quick': 16, 'thorough': 16}
WIDE = (16, 31, 32, 33, 63, 64, 65, 100, 128)
OPS = {'__and__': 'and', '__rand__': 'and', '__iand__': 'and', '__or__': 'or', '__ror__': 'or', '__ior__': 'or',
       '__xor__': 'xor', '__rxor__': 'xor', '__ixor__': 'xor'}


def make_judges(ctx):
    mon = ctx.mon
    Fxp = mon.Fxp

    def bit_judge(ev):
        if ev.kind != 'method' or (ev.op != '__invert__' and ev.op not in OPS):
            return
        x = ev.pre[0] if ev.pre else None
        if x is None or x.is_complex or x.scaled or not (1 <= x.n_word <= 256):
            ctx.skip('bitwise:operand outside domain')
            return
        n = x.n_word
        m = 1 << n
        lo, hi = R.code_range(x.signed, n)
        if any((not isinstance(k, int)) or k < lo or k > hi for k in x.codes):
            ctx.skip('bitwise:operand holds an out-of-range code (C02)')
            return
        if ev.op == '__invert__':
            op, ykind, ypat, sy = 'not', '-', None, ''
        else:
            op = OPS[ev.op]
            y = ev.args[0] if ev.args else None
            if isinstance(y, Fxp):
                ys = None
                for o, p in zip(ev.operands, ev.pre):
                    if o is y:
                        ys = p
                if ys is None or ys.is_complex:
                    ctx.skip('bitwise:y not usable')
                    return
                if ys.n_word != n:
                    if ev.exc is None:
                        ctx.violation('mismatch_accepted', '%s of %s with %s did not raise' % (ev.op, R.dtype_fxp(*x.fmt()), R.dtype_fxp(*ys.fmt())), ev)
                    ctx.judged(('mismatch', op, x.signed, ys.signed), True, None)
                    ctx.floor_hit(('mismatch',))
                    return
                if len(ys.codes) != 1 or len(x.codes) != 1:
                    ctx.skip('bitwise:array operands (scalar property)')
                    return
                ypat = [ys.codes[0] % m]
                ykind, sy = 'Fxp', 's' if ys.signed else 'u'
            elif isinstance(y, (int, np.integer)) and not isinstance(y, bool):
                if len(x.codes) != 1:
                    ctx.skip('bitwise:array operands (scalar property)')
                    return
                ypat = [int(y) % m]
                ykind = ('-mask' if y < 0 else '+mask') + ('.r' if ev.op.startswith('__r') else '')
                sy = ''
            else:
                ctx.skip('bitwise:y of unsupported type')
                return
        if ev.exc is not None:
            ctx.violation('raises', '%s on %s raised %s: %s' % (ev.op, R.dtype_fxp(*x.fmt()), type(ev.exc).__name__, str(ev.exc)[:120]), ev, key='bitwise.raises')
            return
        res = ev.result_snap
        if res is None:
            ctx.violation('result_type', '%s returned %s' % (ev.op, type(ev.result).__name__), ev)
            return
        if res.fmt() != x.fmt():
            ctx.violation('format', '%s of %s returned format %s' % (ev.op, R.dtype_fxp(*x.fmt()), R.dtype_fxp(*res.fmt())), ev)
            return
        exp = []
        for i, k in enumerate(x.codes):
            p = k % m
            if op == 'not':
                r = (~p) % m
            else:
                q = ypat[0]
                r = (p & q) if op == 'and' else ((p | q) if op == 'or' else (p ^ q))
            exp.append(R.from_pattern(r, x.signed, n))
        if res.codes != exp or tuple(res.shape) != tuple(x.shape):
            ctx.violation('pattern', '%s %s on %s code %s%s: result code %s, bit pattern operation gives %s' % (
                op, ykind, R.dtype_fxp(*x.fmt()), x.codes[0], '' if ypat is None else ' with pattern %d' % ypat[0], [str(k) for k in res.codes[:3]], [str(k) for k in exp[:3]]), ev)
        top = (any((k % m) >> (n - 1) for k in x.codes), bool(ypat and (ypat[0] >> (n - 1))))
        sample = None
        if ctx.want_sample() and any(top) and len(x.codes) == 1:
            sample = {'op': ev.op, 'x': R.dtype_fxp(*x.fmt()), 'x_bits': R.bin_image(x.codes[0], n), 'y_bits': None if ypat is None else format(ypat[0], '0%db' % n),
                      'result_bits': R.bin_image(res.codes[0], n) if isinstance(res.codes[0], int) else None}
        ctx.judged((op, ('s' if x.signed else 'u') + sy, ykind, G.word_class(n), top, len(x.shape)), any(top), sample, elements=len(x.codes))
        ctx.floor_hit((op, ykind.split('.')[0] if ykind != '-' else '-'))
        for p in U.u2_frame_problems(ev, Fxp):
            ctx.violation('operand_changed', p[1], ev, extra=p[2])
    return [bit_judge]


def floors(tier):
    return [('not', '-')] + [(op, yk) for op in ('and', 'or', 'xor') for yk in ('Fxp', '+mask', '-mask')] + [('mismatch',)]


# ------------------------------------------------------------------------------------------ workload
def cases(tier, seed):
    wmax = 4 if tier == 'quick' else 6
    for w in range(1, wmax + 1):
        fr = sorted(set([0, w // 2, w])) if tier == 'quick' else list(range(0, w + 1))
        for nf in fr:
            for sx in (True, False):
                for sy in (True, False):
                    yield {'k': 'all', 'n_word': w, 'n_frac': nf, 'sx': sx, 'sy': sy}
    n = 600 if tier == 'quick' else 20000
    for i in range(n):
        yield {'k': 'wide', 'i': i}


def _try(f):
    try:
        return f()
    except Exception:
        return None


def _code(x):
    return int(np.asarray(x.val).item())


def laws(ctx, x, y):
    """identities evaluated through the library itself"""
    nx = _try(lambda: ~x)
    if nx is None:
        return
    nnx = _try(lambda: ~nx)
    if nnx is not None and _code(nnx) != _code(x):
        ctx.violation('law', '~~x != x for %s code %d' % (x.dtype, _code(x)))
    if x.signed:
        lo, hi = R.code_range(True, x.n_word)
        if _code(nx) != -_code(x) - 1:
            ctx.violation('law', '~x != -x - LSB for %s code %d (got %d)' % (x.dtype, _code(x), _code(nx)))
    if y is not None and y.n_word == x.n_word:
        a = _try(lambda: ~(x & y))
        b = _try(lambda: (~x) | (~y))
        if a is not None and b is not None and _code(a) % (1 << x.n_word) != _code(b) % (1 << x.n_word):
            ctx.violation('law', 'De Morgan ~(x&y) != ~x|~y for %s %d, %s %d' % (x.dtype, _code(x), y.dtype, _code(y)))
        a = _try(lambda: ~(x | y))
        b = _try(lambda: (~x) & (~y))
        if a is not None and b is not None and _code(a) % (1 << x.n_word) != _code(b) % (1 << x.n_word):
            ctx.violation('law', 'De Morgan ~(x|y) != ~x&~y for %s %d, %s %d' % (x.dtype, _code(x), y.dtype, _code(y)))
    ctx.judged(('laws', x.signed, G.word_class(x.n_word)), _code(x) < 0, None)


def run_case(case, ctx):
    Fxp = ctx.mon.Fxp
    if case['k'] == 'all':
        w, nf, sx, sy = case['n_word'], case['n_frac'], case['sx'], case['sy']
        lox, hix = R.code_range(sx, w)
        loy, hiy = R.code_range(sy, w)
        nfy = (nf + 1) % (w + 1)
        for a in range(lox, hix + 1):
            x = Fxp(a, sx, w, nf, raw=True)
            _try(lambda: ~x)
            for b in range(loy, hiy + 1):
                y = Fxp(b, sy, w, nfy, raw=True)
                _try(lambda: x & y)
                _try(lambda: x | y)
                _try(lambda: x ^ y)
                if sy:      # integer masks: non-negative and negative, on either side
                    mk = b if b < 0 else b + (1 << w) * (b % 2)
                    _try(lambda: x & mk)
                    _try(lambda: x | mk)
                    _try(lambda: x ^ mk)
                    _try(lambda: mk & x)
                    _try(lambda: mk | x)
                    _try(lambda: mk ^ x)
            # in-place forms
            import operator
            for b in (loy, hiy, (loy + hiy) // 2):
                for op_ in (operator.iand, operator.ior, operator.ixor):
                    xi = Fxp(a, sx, w, nf, raw=True)
                    yb = Fxp(b, sy, w, nfy, raw=True)
                    _try(lambda: op_(xi, yb))
                    xi = Fxp(a, sx, w, nf, raw=True)
                    _try(lambda: op_(xi, b if b >= 0 else b))
            laws(ctx, x, Fxp(loy if a % 2 else hiy, sy, w, nfy, raw=True))
        # arrays: ~ only
        _try(lambda: ~Fxp(np.arange(lox, hix + 1), sx, w, nf, raw=True))
        # mismatched word lengths are rejected
        x = Fxp(hix, sx, w, nf, raw=True)
        for wz in (w + 1, w - 1, w + 7):
            if wz >= 1:
                z = Fxp(1 if wz > 1 or not sy else 0, sy, wz, 0, raw=True)
                _try(lambda: x & z)
                _try(lambda: x | z)
                _try(lambda: x ^ z)
                _try(lambda: z & x)
                _try(lambda: z | x)
                _try(lambda: z ^ x)
        return
    rng = ctx.rng_for('wide', case['i'])
    i = case['i']
    w = WIDE[i % len(WIDE)]
    sx, sy = bool((i // 9) % 2), bool((i // 18) % 2)
    nf = rng.choice([0, w // 2, w])
    lox, hix = R.code_range(sx, w)
    loy, hiy = R.code_range(sy, w)

    def code(lo, hi):
        return rng.choice([lo, hi, 0, -1 if lo < 0 else hi - 1, rng.randint(lo, hi), rng.randint(lo, hi), (hi >> 1) ^ rng.getrandbits(max(1, w - 2))])
    a, b = code(lox, hix), code(loy, hiy)
    a = max(lox, min(hix, a))
    b = max(loy, min(hiy, b))
    x = Fxp(a, sx, w, nf, raw=True)
    y = Fxp(b, sy, w, rng.choice([0, w // 2]), raw=True)
    if i % 3 == 0:
        x = G.historied(Fxp, x, rng)[0]
        y = G.historied(Fxp, y, rng)[0]
    _try(lambda: ~x)
    _try(lambda: x & y)
    _try(lambda: x | y)
    _try(lambda: x ^ y)
    mk = rng.choice([1, -1]) * rng.getrandbits(rng.randint(1, w + 3))
    _try(lambda: x & mk)
    _try(lambda: x | mk)
    _try(lambda: x ^ mk)
    _try(lambda: mk & x)
    _try(lambda: mk | x)
    _try(lambda: mk ^ x)
    import operator
    for op_ in (operator.iand, operator.ior, operator.ixor):
        xi = Fxp(a, sx, w, nf, raw=True)
        _try(lambda: op_(xi, y))
        xi = Fxp(a, sx, w, nf, raw=True)
        _try(lambda: op_(xi, mk))
    # float-valued operands (created from values, n_frac > 0) at 54..63 bits
    if nf > 0 and w <= 63:
        xv = _try(lambda: Fxp(float(a) / 2.0 ** nf, sx, w, nf)) if abs(a) < 2 ** 53 else None
        xr = Fxp(a, sx, w, nf, raw=True)
        xr.vdtype = float
        for xx in (xv, xr):
            if xx is not None:
                _try(lambda: ~xx)
                _try(lambda: xx & y)
                _try(lambda: xx | y)
                _try(lambda: xx ^ mk)
    laws(ctx, x, y)
    z = Fxp(1, sy, w + rng.choice([-1, 1]), 0, raw=True)
    _try(lambda: x & z)
    _try(lambda: x | z)
    _try(lambda: x ^ z)
