"""C13 - bitwise operators act on the n_word-bit two's-complement word."""
import numpy as np

from .. import refmodel as R
from .. import gen as G
from .. import universal as U

ID = 'C13'
TECHNIQUE = 'runtime monitoring: bitwise operator / NumPy bitwise function events judged against the n_word-bit pattern model (Python ints); in-place indexed forms checked on the stored word'
TITLE = 'bitwise ~ & | ^ on the n_word-bit pattern'
RULE = ('events __invert__/__and__/__or__/__xor__ (and reflected forms with an integer mask): the result must have x\'s format and the code whose '
        'n_word-bit pattern is NOT/AND/OR/XOR of the operands\' patterns (code mod 2^n_word; masks reduced mod 2^n_word), x unchanged; operands of '
        'different word lengths must raise; the laws ~~x==x, ~x==-x-LSB (signed), De Morgan are evaluated through the library. Key = (op, signedness '
        'pair, y kind, word class, top bits of the two patterns); non-trivial = at least one operand pattern has the top bit set.')
DECIDING_OPS = ['__invert__', '__and__', '__or__', '__xor__', ('__rand__', '__ror__', '__rxor__'), ('__iand__', '__ior__', '__ixor__'), '__array_ufunc__']
ANCHORS = ['objects.Fxp.__invert__', 'objects.Fxp.__and__', 'objects.Fxp.__or__', 'objects.Fxp.__xor__', 'utils.binary_invert', 'utils.binary_and',
           'utils.binary_or', 'utils.binary_xor', 'utils.twos_complement_repr']
EXHAUSTIVE = {'quick': 'all code pairs for n_word<=4, every signedness combination, n_frac in {0, n_word//2, n_word}; y as Fxp and as integer mask',
              'thorough': 'all code pairs for n_word<=6, n_frac 0..n_word'}
SHARDS = {'quick': 16, 'thorough': 16}
WIDE = (16, 31, 32, 33, 63, 64, 65, 100, 128)
OPS = {'__and__': 'and', '__rand__': 'and', '__iand__': 'and', '__or__': 'or', '__ror__': 'or', '__ior__': 'or',
       '__xor__': 'xor', '__rxor__': 'xor', '__ixor__': 'xor'}


def make_judges(ctx):
    mon = ctx.mon
    Fxp = mon.Fxp

    UF = {np.bitwise_and: 'and', np.bitwise_or: 'or', np.bitwise_xor: 'xor', np.invert: 'not'}

    def snap_of(ev, obj):
        for o, p in zip(ev.operands, ev.pre):
            if o is obj:
                return p
        return None

    def bit_judge(ev):
        # decode the event: (operation, x = the fixed-point operand whose word is acted on, y = the other operand, route)
        if ev.kind != 'method':
            return
        if ev.op == '__invert__':
            op, xobj, y, route = 'not', ev.receiver, None, 'operator'
        elif ev.op in OPS:
            op, xobj, y = OPS[ev.op], ev.receiver, (ev.args[0] if ev.args else None)
            route = 'reflected' if ev.op.startswith('__r') else ('inplace' if ev.op.startswith('__i') and ev.op != '__invert__' else 'operator')
        elif ev.op == '__array_ufunc__' and len(ev.args) >= 3 and ev.args[0] in UF and ev.args[1] == '__call__' and not ev.kwargs:
            # np.bitwise_and(x, y), np.invert(x), or a NumPy integer / array mask on the left of the operator
            op = UF[ev.args[0]]
            ins = ev.args[2:]
            if op == 'not':
                xobj, y = ins[0], None
            elif len(ins) != 2:
                return
            elif isinstance(ins[0], Fxp):
                xobj, y = ins[0], ins[1]
            else:
                xobj, y = ins[1], ins[0]
            route = 'numpy'
        else:
            return
        if not isinstance(xobj, Fxp):
            return
        x = snap_of(ev, xobj)
        if x is None or x.is_complex or x.scaled or not (1 <= x.n_word <= 256):
            ctx.skip('bitwise:operand outside domain')
            return
        n = x.n_word
        m = 1 << n
        lo, hi = R.code_range(x.signed, n)
        if any((not isinstance(k, int)) or k < lo or k > hi for k in x.codes):
            ctx.skip('bitwise:operand holds an out-of-range code (C02)')
            return
        xa = np.empty(len(x.codes), dtype=object)
        xa[:] = [k % m for k in x.codes]
        xa = xa.reshape(x.shape)
        ya, ykind, sy = None, '-', ''
        if op != 'not':
            if isinstance(y, Fxp):
                ys = snap_of(ev, y)
                if ys is None or ys.is_complex:
                    ctx.skip('bitwise:y not usable')
                    return
                if ys.n_word != n:
                    if ev.exc is None:
                        ctx.violation('mismatch_accepted', '%s of %s with %s did not raise' % (ev.op, R.dtype_fxp(*x.fmt()), R.dtype_fxp(*ys.fmt())), ev)
                    ctx.judged(('mismatch', op, x.signed, ys.signed, route), True, None)
                    ctx.floor_hit(('mismatch',))
                    if route == 'numpy':
                        ctx.floor_hit(('mismatch-numpy',))
                    return
                ya = np.empty(len(ys.codes), dtype=object)
                ya[:] = [k % m for k in ys.codes]
                ya = ya.reshape(ys.shape)
                ykind, sy = 'Fxp', 's' if ys.signed else 'u'
            elif isinstance(y, (int, np.integer)) and not isinstance(y, bool):
                ya = np.array(int(y) % m, dtype=object)
                ykind = ('-mask' if y < 0 else '+mask') + ('.np' if isinstance(y, np.integer) else '')
            elif isinstance(y, (list, tuple, np.ndarray)) and np.asarray(y, dtype=object).size > 0 \
                    and all(isinstance(v, (int, np.integer)) and not isinstance(v, bool) for v in np.asarray(y, dtype=object).ravel().tolist()):
                yo = np.asarray(y, dtype=object)
                ya = np.empty(yo.size, dtype=object)
                ya[:] = [int(v) % m for v in yo.ravel().tolist()]
                ya = ya.reshape(yo.shape)
                ykind = 'masks'
            else:
                ctx.skip('bitwise:y of unsupported type')
                return
            try:
                xb, yb = np.broadcast_arrays(xa, ya)
            except ValueError:
                ctx.skip('bitwise:shapes do not broadcast')
                return
        else:
            xb, yb = xa, None
        if ev.exc is not None:
            ctx.violation('raises', '%s (%s, y=%s) on %s raised %s: %s' % (ev.op, route, ykind, R.dtype_fxp(*x.fmt()), type(ev.exc).__name__, str(ev.exc)[:120]), ev, key='bitwise.raises')
            return
        res = ev.result_snap
        if res is None:
            ctx.violation('result_type', '%s returned %s' % (ev.op, type(ev.result).__name__), ev)
            return
        if res.fmt() != x.fmt():
            ctx.violation('format', '%s (%s, y=%s) of %s returned format %s' % (ev.op, route, ykind, R.dtype_fxp(*x.fmt()), R.dtype_fxp(*res.fmt())), ev)
            return
        exp = []
        xs_ = xb.ravel().tolist()
        ys_ = yb.ravel().tolist() if yb is not None else [None] * len(xs_)
        for pp, q in zip(xs_, ys_):
            if op == 'not':
                r = (~pp) % m
            else:
                r = (pp & q) if op == 'and' else ((pp | q) if op == 'or' else (pp ^ q))
            exp.append(R.from_pattern(r, x.signed, n))
        if res.codes != exp or tuple(res.shape) != tuple(xb.shape):
            ctx.violation('pattern', '%s %s (%s) on %s codes %s%s: result codes %s (shape %r), bit pattern operation gives %s (shape %r)' % (
                op, ykind, route, R.dtype_fxp(*x.fmt()), x.codes[:3], '' if yb is None else ' with patterns %s' % ys_[:3], [str(k) for k in res.codes[:3]], res.shape,
                [str(k) for k in exp[:3]], tuple(xb.shape)), ev)
        top = (any(pp >> (n - 1) for pp in xs_), bool(yb is not None and any(q >> (n - 1) for q in ys_)))
        sample = None
        if ctx.want_sample() and any(top) and len(x.codes) == 1 and len(exp) == 1:
            sample = {'op': ev.op, 'x': R.dtype_fxp(*x.fmt()), 'x_bits': R.bin_image(x.codes[0], n), 'y_bits': None if yb is None else format(ys_[0], '0%db' % n),
                      'result_bits': R.bin_image(res.codes[0], n) if isinstance(res.codes[0], int) else None}
        arrk = (len(x.shape) > 0, bool(yb is not None and np.ndim(ya) > 0))
        ctx.judged((op, ('s' if x.signed else 'u') + sy, ykind, route, G.word_class(n), top, arrk), any(top), sample, elements=len(exp))
        ctx.floor_hit((op, ykind.split('.')[0] if ykind not in ('-', 'masks') else ykind))
        if route == 'numpy':
            ctx.floor_hit(('numpy', op))
        if yb is not None and tuple(xb.shape) != tuple(np.shape(xa)) and tuple(xb.shape) != tuple(np.shape(ya)):
            ctx.floor_hit(('broadcast-table',))      # both operands had to be expanded (row against column)
        if any(arrk):
            ctx.floor_hit(('arrays', op, arrk))
            if n in (63, 64, 65) and arrk[0]:
                ctx.floor_hit(('wide-array', n, x.signed))
        for p in U.u2_frame_problems(ev, Fxp):
            ctx.violation('operand_changed', p[1], ev, extra=p[2])
    return [bit_judge]


def floors(tier):
    return [('not', '-')] + [(op, yk) for op in ('and', 'or', 'xor') for yk in ('Fxp', '+mask', '-mask', 'masks')] + [('mismatch',), ('mismatch-numpy',), ('broadcast-table',), ('mixed-magnitude-mask-list',), ('element-against-mask-array',), ('inplace-indexed', '53-63'), ('inplace-indexed', '64'), ('inplace-indexed', '65-128')] + \
           [('numpy', op) for op in ('and', 'or', 'xor', 'not')] + [('arrays', op, k) for op in ('and', 'or', 'xor') for k in ((True, True), (True, False), (False, True))] + [('arrays', 'not', (True, False))] + \
           [('wide-array', w_, sg) for w_ in (63, 64, 65) for sg in (True, False)] + [('sequence-on-same-objects',)] + [('unsigned-numpy-mask-as-wide-as-the-word', w_) for w_ in (16, 32, 64)]


# ------------------------------------------------------------------------------------------ workload
def cases(tier, seed):
    wmax = 4 if tier == 'quick' else 6
    for w in range(1, wmax + 1):
        fr = sorted(set([0, w // 2, w])) if tier == 'quick' else list(range(0, w + 1))
        for nf in fr:
            for sx in (True, False):
                for sy in (True, False):
                    yield {'k': 'all', 'n_word': w, 'n_frac': nf, 'sx': sx, 'sy': sy}
    n = 600 if tier == 'quick' else 20000
    for i in range(n):
        yield {'k': 'wide', 'i': i}


def _try(f):
    try:
        return f()
    except Exception:
        return None


def _code(x):
    return int(np.asarray(x.val).item())


def laws(ctx, x, y):
    """identities evaluated through the library itself"""
    nx = _try(lambda: ~x)
    if nx is None:
        return
    nnx = _try(lambda: ~nx)
    if nnx is not None and _code(nnx) != _code(x):
        ctx.violation('law', '~~x != x for %s code %d' % (x.dtype, _code(x)))
    if x.signed:
        lo, hi = R.code_range(True, x.n_word)
        if _code(nx) != -_code(x) - 1:
            ctx.violation('law', '~x != -x - LSB for %s code %d (got %d)' % (x.dtype, _code(x), _code(nx)))
    if y is not None and y.n_word == x.n_word:
        a = _try(lambda: ~(x & y))
        b = _try(lambda: (~x) | (~y))
        if a is not None and b is not None and _code(a) % (1 << x.n_word) != _code(b) % (1 << x.n_word):
            ctx.violation('law', 'De Morgan ~(x&y) != ~x|~y for %s %d, %s %d' % (x.dtype, _code(x), y.dtype, _code(y)))
        a = _try(lambda: ~(x | y))
        b = _try(lambda: (~x) & (~y))
        if a is not None and b is not None and _code(a) % (1 << x.n_word) != _code(b) % (1 << x.n_word):
            ctx.violation('law', 'De Morgan ~(x|y) != ~x&~y for %s %d, %s %d' % (x.dtype, _code(x), y.dtype, _code(y)))
    ctx.judged(('laws', x.signed, G.word_class(x.n_word)), _code(x) < 0, None)


def run_case(case, ctx):
    Fxp = ctx.mon.Fxp
    if case['k'] == 'all':
        w, nf, sx, sy = case['n_word'], case['n_frac'], case['sx'], case['sy']
        lox, hix = R.code_range(sx, w)
        loy, hiy = R.code_range(sy, w)
        nfy = (nf + 1) % (w + 1)
        for a in range(lox, hix + 1):
            x = Fxp(a, sx, w, nf, raw=True)
            _try(lambda: ~x)
            for b in range(loy, hiy + 1):
                y = Fxp(b, sy, w, nfy, raw=True)
                _try(lambda: x & y)
                _try(lambda: x | y)
                _try(lambda: x ^ y)
                if sy:      # integer masks: non-negative and negative, on either side
                    mk = b if b < 0 else b + (1 << w) * (b % 2)
                    _try(lambda: x & mk)
                    _try(lambda: x | mk)
                    _try(lambda: x ^ mk)
                    _try(lambda: mk & x)
                    _try(lambda: mk | x)
                    _try(lambda: mk ^ x)
            # in-place forms
            import operator
            for b in (loy, hiy, (loy + hiy) // 2):
                for op_ in (operator.iand, operator.ior, operator.ixor):
                    xi = Fxp(a, sx, w, nf, raw=True)
                    yb = Fxp(b, sy, w, nfy, raw=True)
                    _try(lambda: op_(xi, yb))
                    xi = Fxp(a, sx, w, nf, raw=True)
                    _try(lambda: op_(xi, b if b >= 0 else b))
            laws(ctx, x, Fxp(loy if a % 2 else hiy, sy, w, nfy, raw=True))
        # arrays: every code of x against an array of y codes / masks (element-wise, broadcast), a scalar against an array
        xarr = Fxp(np.arange(lox, hix + 1), sx, w, nf, raw=True)
        _try(lambda: ~xarr)
        ycodes = [(loy + (j * 5) % (hiy - loy + 1)) for j in range(hix - lox + 1)]
        yarr = Fxp(np.array(ycodes), sy, w, nfy, raw=True)
        for f_ in (lambda u, v: u & v, lambda u, v: u | v, lambda u, v: u ^ v):
            _try(lambda: f_(xarr, yarr))
            _try(lambda: f_(xarr, Fxp(hiy, sy, w, nfy, raw=True)))
            _try(lambda: f_(Fxp(lox, sx, w, nf, raw=True), yarr))
            _try(lambda: f_(xarr, ycodes))
            _try(lambda: f_(xarr, np.array(ycodes)))
            _try(lambda: f_(np.array(ycodes), xarr))
            _try(lambda: f_(np.int64(ycodes[-1]), xarr))
            _try(lambda: f_(np.int8(-1), Fxp(hix, sx, w, nf, raw=True)))
        _try(lambda: np.bitwise_and(xarr, yarr))
        _try(lambda: np.bitwise_or(xarr, 1))
        _try(lambda: np.bitwise_xor(Fxp(lox, sx, w, nf, raw=True), Fxp(hiy, sy, w, nfy, raw=True)))
        _try(lambda: np.invert(xarr))
        # a row against a column (same number of elements, different shapes: the result is the full table), a matrix against a row
        kk = min(4, hix - lox + 1)
        if kk >= 2:
            row = Fxp(np.arange(lox, lox + kk), sx, w, nf, raw=True)
            col = Fxp(np.array(ycodes[:kk]).reshape(kk, 1), sy, w, nfy, raw=True)
            mat = Fxp(np.array((ycodes * 2)[:2 * kk]).reshape(2, kk), sy, w, nfy, raw=True)
            for f_ in (lambda u, v: u & v, lambda u, v: u | v, lambda u, v: u ^ v):
                _try(lambda: f_(row, col))
                _try(lambda: f_(col, row))
                _try(lambda: f_(row, np.array(ycodes[:kk]).reshape(kk, 1)))
                _try(lambda: f_(mat, row))
                _try(lambda: f_(row, mat))
            _try(lambda: np.bitwise_and(row, col))
            _try(lambda: np.bitwise_xor(col, row))
        # mismatched word lengths are rejected
        x = Fxp(hix, sx, w, nf, raw=True)
        for wz in (w + 1, w - 1, w + 7):
            if wz >= 1:
                z = Fxp(1 if wz > 1 or not sy else 0, sy, wz, 0, raw=True)
                _try(lambda: np.bitwise_and(x, z))
                _try(lambda: np.bitwise_or(z, x))
                _try(lambda: np.bitwise_xor(xarr, Fxp(np.zeros(hix - lox + 1), sy, wz, 0)))
                _try(lambda: x & z)
                _try(lambda: x | z)
                _try(lambda: x ^ z)
                _try(lambda: z & x)
                _try(lambda: z | x)
                _try(lambda: z ^ x)
        return
    rng = ctx.rng_for('wide', case['i'])
    i = case['i']
    w = WIDE[i % len(WIDE)]
    sx, sy = bool((i // 9) % 2), bool((i // 18) % 2)
    nf = rng.choice([0, w // 2, w])
    lox, hix = R.code_range(sx, w)
    loy, hiy = R.code_range(sy, w)

    def code(lo, hi):
        return rng.choice([lo, hi, 0, -1 if lo < 0 else hi - 1, rng.randint(lo, hi), rng.randint(lo, hi), (hi >> 1) ^ rng.getrandbits(max(1, w - 2))])
    a, b = code(lox, hix), code(loy, hiy)
    a = max(lox, min(hix, a))
    b = max(loy, min(hiy, b))
    x = Fxp(a, sx, w, nf, raw=True)
    y = Fxp(b, sy, w, rng.choice([0, w // 2]), raw=True)
    if (i // 36) % 3 == 0:      # (independent of the width digit i % 9 and the signedness digits)
        x = G.historied(Fxp, x, rng)[0]
        y = G.historied(Fxp, y, rng)[0]
    _try(lambda: ~x)
    _try(lambda: x & y)
    _try(lambda: x | y)
    _try(lambda: x ^ y)
    mk = rng.choice([1, -1]) * rng.getrandbits(rng.randint(1, w + 3))
    _try(lambda: x & mk)
    _try(lambda: x | mk)
    _try(lambda: x ^ mk)
    _try(lambda: mk & x)
    _try(lambda: mk | x)
    _try(lambda: mk ^ x)
    import operator
    for op_ in (operator.iand, operator.ior, operator.ixor):
        xi = Fxp(a, sx, w, nf, raw=True)
        _try(lambda: op_(xi, y))
        xi = Fxp(a, sx, w, nf, raw=True)
        _try(lambda: op_(xi, mk))
    # sequences on the same objects: (1) ~x, then the word is lengthened by a route that does not name n_word, then ~x again; (2) x op y, an indexed store into
    # the array y (in place), x op y again; (3) unsigned NumPy masks exactly as wide as the word, top bit set, against negative codes
    if (i // 4) % 3 == 0 and w <= 60:
        xs_ = Fxp([a, lox, hix], sx, w, nf, raw=True)
        _try(lambda: ~xs_)
        how_ = rng.choice(['dtype', 'n_int', 'like'])
        w2_ = w + rng.randint(1, 3)
        if how_ == 'dtype':
            _try(lambda: xs_.resize(dtype=R.dtype_fxp(sx, w2_, nf)))
        elif how_ == 'n_int':
            _try(lambda: xs_.resize(n_int=w2_ - nf - (1 if sx else 0), n_frac=nf))
        else:
            xl_ = _try(lambda: Fxp(xs_, like=xs_, n_int=w2_ - nf - (1 if sx else 0), n_frac=nf))
            xs_ = xl_ if xl_ is not None else xs_
        _try(lambda: ~xs_)
        _try(lambda: ~~xs_)
        xb_ = Fxp([a, lox, hix], sx, w, nf, raw=True)
        yb_ = Fxp([b, loy, hiy], sy, w, 0, raw=True)
        for op_ in (operator.and_, operator.or_, operator.xor):
            _try(lambda: op_(xb_, yb_))
            _try(lambda: yb_.__setitem__(rng.randint(0, 2), Fxp(code(loy, hiy) if loy <= code(loy, hiy) <= hiy else b, sy, w, 0, raw=True)))
            _try(lambda: yb_.set_val(max(loy, min(hiy, ~b if sy else (hiy - b))), raw=True, index=0))
            _try(lambda: op_(xb_, yb_))
        ctx.floor_hit(('sequence-on-same-objects',))
    if w in (8, 16, 32, 64):
        tp_ = {8: np.uint8, 16: np.uint16, 32: np.uint32, 64: np.uint64}[w]
        top_ = (1 << (w - 1)) | rng.getrandbits(w - 1)
        xn_ = Fxp(lox if sx else hix, sx, w, nf, raw=True)
        xm_ = Fxp([lox if sx else hix, -1 if sx else hix - 1, a], sx, w, nf, raw=True)
        for xx in (xn_, xm_):
            for m_ in (tp_(top_), tp_((1 << w) - 1), np.array([top_, (1 << w) - 1, 1], dtype=tp_)):
                _try(lambda: xx & m_)
                _try(lambda: xx | m_)
                _try(lambda: xx ^ m_)
                _try(lambda: m_ & xx)
                _try(lambda: np.bitwise_and(xx, m_))
        xi_ = Fxp(lox if sx else hix, sx, w, nf, raw=True)
        _try(lambda: operator.iand(xi_, tp_(top_)))
        ctx.floor_hit(('unsigned-numpy-mask-as-wide-as-the-word', w))
    # float-valued operands (created from values, n_frac > 0) at 54..63 bits
    if nf > 0 and w <= 63:
        xv = _try(lambda: Fxp(float(a) / 2.0 ** nf, sx, w, nf)) if abs(a) < 2 ** 53 else None
        xr = Fxp(a, sx, w, nf, raw=True)
        xr.vdtype = float
        for xx in (xv, xr):
            if xx is not None:
                _try(lambda: ~xx)
                _try(lambda: xx & y)
                _try(lambda: xx | y)
                _try(lambda: xx ^ mk)
    # arrays at these widths (also the rows / elements of arrays), array right operands, NumPy masks on the left, the NumPy functions
    if i % 2 == 0 or w in (63, 64, 65):
        xa_ = _try(lambda: Fxp([a, max(lox, min(hix, code(lox, hix))), lox if i % 4 else hix], sx, w, nf, raw=True))
        ya_ = _try(lambda: Fxp([b, loy, hiy], sy, w, 0, raw=True))
        if xa_ is not None and ya_ is not None:
            _try(lambda: ~xa_)
            _try(lambda: xa_ & ya_)
            _try(lambda: xa_ | ya_)
            _try(lambda: xa_ ^ ya_)
            _try(lambda: xa_ & mk)
            _try(lambda: mk | xa_)
            _try(lambda: xa_ ^ [mk, 1, -1])
            # masks given as NumPy arrays of machine integers (int64, uint64, int8) against the array, either side
            small3 = [rng.getrandbits(min(w, 62)), 1, rng.getrandbits(7)]
            _try(lambda: xa_ & np.array(small3))
            _try(lambda: np.array(small3, dtype=np.uint64) | xa_)
            _try(lambda: xa_ ^ np.array([-1, 1, -3], dtype=np.int8))
            _try(lambda: xa_ | np.array([[1, 2, 3], small3]))
            # operands whose codes are not stored row-major (a transposed matrix, a Fortran-ordered input): ~ and scalar operands go element by element
            if w <= 63:
                m6 = [a, lox, hix, b if lox <= b <= hix else 0, 0, (lox + hix) // 2]
                xt_ = _try(lambda: Fxp(np.array(m6).reshape(2, 3), sx, w, nf, raw=True).T)
                xf_ = _try(lambda: Fxp(np.asfortranarray(np.array(m6).reshape(2, 3)), sx, w, nf, raw=True))
                for xo_ in (xt_, xf_):
                    if xo_ is not None:
                        _try(lambda: ~xo_)
                        _try(lambda: xo_ & mk)
                        _try(lambda: mk ^ xo_)
                        _try(lambda: xo_ | y)
            _try(lambda: xa_ & (mk, 1, 3))                  # a tuple of masks
            _try(lambda: (1, mk, -1) | xa_)
            if w >= 64:
                # lists of masks mixing integers below and above 2^63 (numpy would make doubles of such a list)
                big = (1 << 63) + rng.choice([1, 5, (1 << 20) + 3])
                _try(lambda: xa_ & [big, 1, -1 if sx else 3])
                _try(lambda: xa_ | [3, big, 1])
                _try(lambda: [big, 7, 1] ^ xa_)
                _try(lambda: xa_ ^ [[big, 1, 2], [1, big, 3]])
                ctx.floor_hit(('mixed-magnitude-mask-list',))
                # an element taken out of the array (its code is a python integer) against an array of machine-integer masks whose results
                # lie below and above 2^63, either side
                el_ = _try(lambda: xa_[1])
                if el_ is not None:
                    marr = np.array([-2, 1, (1 << 62) + 1, rng.getrandbits(62)])
                    _try(lambda: el_ | marr)
                    _try(lambda: el_ ^ marr)
                    _try(lambda: marr & el_)
                    _try(lambda: el_ | np.array([[1, -1], [(1 << 62) + 5, 3]]))
                    _try(lambda: np.array([1, 2 ** 63 + 1], dtype=np.uint64) ^ el_)
                    ctx.floor_hit(('element-against-mask-array',))
            _try(lambda: x & ya_)
            _try(lambda: ~xa_[1])
            _try(lambda: xa_[2] | ya_[0])
            _try(lambda: np.bitwise_and(xa_, ya_))
            _try(lambda: np.bitwise_or(x, y))
            _try(lambda: np.bitwise_xor(xa_, 5))
            _try(lambda: np.invert(xa_))
        small = np.int64(mk % (1 << 62)) * (1 if mk >= 0 else -1)
        _try(lambda: small & x)
        _try(lambda: small | x)
        _try(lambda: small ^ x)
    # an element changed in place through its index (x[i] |= m is x[i] = x[i] | m): the word written back is the word computed, every other
    # element stays; also for words of 54..63 bits that carry fraction bits (codes beyond the precision of a double)
    if (i // 9) % 3 != 1:      # (independent of the width digit i % 9)
        cs3 = [a, max(lox, min(hix, code(lox, hix))), hix - 1 if hix > lox else hix]
        xs_ = _try(lambda: Fxp(np.array(cs3, dtype=object if w >= 63 else None), sx, w, nf, raw=True))
        if xs_ is not None:
            m_ = 1 << w
            j_ = rng.randint(0, 2)
            mk2 = rng.choice([5, 1, mk])
            opn = rng.choice(['or', 'and', 'xor'])
            try:
                ctx.mon.enabled = False
                try:
                    if opn == 'or':
                        xs_[j_] |= mk2
                    elif opn == 'and':
                        xs_[j_] &= mk2
                    else:
                        xs_[j_] ^= mk2
                    xs_[(j_ + 1) % 3] = xs_[(j_ + 1) % 3]
                    got = [int(v) for v in np.asarray(xs_.val, dtype=object).ravel().tolist()]
                finally:
                    ctx.mon.enabled = True
                pj = cs3[j_] % m_
                pm = mk2 % m_
                want = list(cs3)
                want[j_] = R.from_pattern((pj | pm) if opn == 'or' else ((pj & pm) if opn == 'and' else (pj ^ pm)), sx, w)
                if got != want:
                    ctx.violation('inplace_indexed', 'x[%d] %s= %d on %s codes %s left codes %s, expected %s' % (j_, opn, mk2, R.dtype_fxp(sx, w, nf), cs3, got, want))
                ctx.judged(('inplace-indexed', opn, G.word_class(w), G.frac_class(w, nf), sx), True, None)
                ctx.floor_hit(('inplace-indexed', G.word_class(w)))
            except Exception as e:
                ctx.violation('inplace_indexed_raises', 'x[%d] %s= %d on %s raised %s: %s' % (j_, opn, mk2, R.dtype_fxp(sx, w, nf), type(e).__name__, str(e)[:100]))
    laws(ctx, x, y)
    z = Fxp(1, sy, w + rng.choice([-1, 1]), 0, raw=True)
    _try(lambda: x & z)
    _try(lambda: x | z)
    _try(lambda: x ^ z)
