"""C14 - shifts scale by powers of two: lossless in expand mode, arithmetic otherwise."""
from fractions import Fraction as F

import numpy as np

from .. import refmodel as R
from .. import gen as G
from .. import universal as U

ID = 'C14'
TECHNIQUE = 'runtime monitoring: shift events (operators, NumPy shift functions) judged against exact x*2^n / arithmetic shift of the PRE snapshot; operand frame monitor'
TITLE = 'shifts'
RULE = ('events x<<n and x>>n under the three shifting modes: expand: result value = v*2^n resp. v/2^n exactly (compared as Fractions) with codes inside the '
        'result\'s own range; trunc/keep: format unchanged, x>>n = floor(code/2^n), x<<n = code*2^n when representable and otherwise the clamped or the wrapped value; '
        'n=0 is the identity; x is never modified. Key = (direction, shifting mode, signedness, count class, code class, rank, overflowed?); non-trivial = '
        'count>0 and (code negative or trailing-zero run < count or overflowed).')
DECIDING_OPS = ['__lshift__', '__rshift__']
ANCHORS = ['objects.Fxp.__rshift__', 'objects.Fxp.__lshift__', 'utils.min_pow2']
EXHAUSTIVE = {'quick': 'all codes for n_word<=5, n_frac in {0, n_word//2}, counts 0..n_word+3, 3 shifting modes x 2 overflow modes',
              'thorough': 'all codes for n_word<=6'}
SHARDS = {'quick': 16, 'thorough': 16}


def make_judges(ctx):
    mon = ctx.mon
    Fxp = mon.Fxp

    def shift_judge(ev):
        numpy_route = False
        if ev.kind == 'method' and ev.op == '__array_ufunc__' and len(ev.args) == 4 and ev.args[0] in (np.left_shift, np.right_shift) \
                and ev.args[1] == '__call__' and not ev.kwargs and ev.args[2] is ev.receiver:
            numpy_route = True          # np.left_shift(x, n) / np.right_shift(x, n): where it gives a result, it is the result of the operator
        elif ev.kind != 'method' or ev.op not in ('__lshift__', '__rshift__', '__ilshift__', '__irshift__'):
            return
        x = ev.pre[0] if ev.pre else None
        n = (ev.args[3] if numpy_route else ev.args[0]) if ev.args else None
        ntype = type(n).__name__
        if isinstance(n, np.ndarray) and n.ndim == 0 and n.dtype.kind in 'iu':
            n = n.item()
        if x is None or x.is_complex or x.scaled or not isinstance(n, (int, np.integer)) or isinstance(n, bool):
            ctx.skip('shift:operand outside domain')
            return
        n = int(n)
        if not (1 <= x.n_word <= 32 and n >= 0 and x.n_word + n <= 62 and -8 <= x.n_frac <= x.n_word + 8):
            ctx.skip('shift:outside the quantifier (n_word<=32, n_word+n<=62)')
            return
        lo, hi = R.code_range(x.signed, x.n_word)
        if any((not isinstance(k, int)) or k < lo or k > hi for k in x.codes):
            ctx.skip('shift:operand holds an out-of-range code (C02)')
            return
        left = (ev.args[0] is np.left_shift) if numpy_route else ('lshift' in ev.op)
        mode = x.shifting
        if ev.exc is not None and numpy_route:
            ctx.skip('shift:the NumPy function is not supported for this operand (an error, not a wrong result)')
            return
        if numpy_route:
            ctx.floor_hit(('numpy-function', 'L' if left else 'R', mode))
        if ev.exc is not None:
            ctx.violation('raises', '%s by %d on %s (%s) raised %s: %s' % (ev.op, n, R.dtype_fxp(*x.fmt()), mode, type(ev.exc).__name__, str(ev.exc)[:120]), ev, key='shift.raises')
            return
        res = ev.result_snap
        if res is None:
            ctx.violation('result_type', '%s returned %s' % (ev.op, type(ev.result).__name__), ev)
            return
        if tuple(res.shape) != tuple(x.shape):
            ctx.violation('shape', 'shift changed the shape %r -> %r' % (x.shape, res.shape), ev)
            return
        rlo, rhi = R.code_range(res.signed, res.n_word)
        overflowed = False
        bad = None
        if mode == 'expand':
            lx, lr = R.lsb(x.n_frac), R.lsb(res.n_frac)
            f = F(2) ** n if left else F(1, 2 ** n)
            for k, r in zip(x.codes, res.codes):
                if not isinstance(r, int) or r < rlo or r > rhi:
                    bad = 'result code %r outside the result range of %s' % (r, R.dtype_fxp(*res.fmt()))
                    break
                if r * lr != k * lx * f:
                    bad = 'code %d (value %s) %s %d gives value %s, exact %s' % (k, k * lx, '<<' if left else '>>', n, r * lr, k * lx * f)
                    break
            if res.signed != x.signed:
                bad = 'signedness changed'
        else:
            if res.fmt() != x.fmt():
                bad = 'format changed to %s in %s mode' % (R.dtype_fxp(*res.fmt()), mode)
            else:
                for k, r in zip(x.codes, res.codes):
                    if not isinstance(r, int) or r < rlo or r > rhi:
                        bad = 'result code %r outside the range' % (r,)
                        break
                    if left:
                        e = k << n
                        if lo <= e <= hi:
                            if r != e:
                                bad = 'code %d << %d is representable (%d) but the result code is %d' % (k, n, e, r)
                                break
                        else:
                            overflowed = True
                            # "a value clamped or wrapped into the format's range": the bound on the value's own side, or the residue of code * 2^n
                            clamped = hi if e > hi else lo
                            if r not in (clamped, R.wrap(e, x.signed, x.n_word)):
                                bad = 'code %d << %d = %d is not representable: the result code %d is neither the clamped value %d nor the wrapped one %d' % (
                                    k, n, e, r, clamped, R.wrap(e, x.signed, x.n_word))
                                break
                    else:
                        e = k >> n          # floor(code / 2^n): arithmetic shift
                        if r != e:
                            bad = 'code %d >> %d must be floor(code/2^n) = %d, result code %d' % (k, n, e, r)
                            break
        if bad:
            ctx.violation('shift', '%s %s by %d [%s/%s]: %s' % (R.dtype_fxp(*x.fmt()), 'lshift' if left else 'rshift', n, mode, x.overflow, bad), ev)
        cnt = '0' if n == 0 else ('<w' if n < x.n_word else '>=w')
        neg = any(k < 0 for k in x.codes)
        tz = min(((k & -k).bit_length() - 1) if k else 99 for k in x.codes)
        nontriv = n > 0 and (neg or tz < n or overflowed)
        sample = None
        if ctx.want_sample() and nontriv and len(x.codes) <= 3:
            sample = {'op': ev.op, 'count': n, 'mode': mode, 'x': x.describe(), 'result': res.describe()}
        ctx.judged(('L' if left else 'R', mode, 's' if x.signed else 'u', cnt, 'neg' if neg else 'pos', tz < n, len(x.shape), overflowed), nontriv, sample, elements=len(x.codes))
        ctx.floor_hit(('L' if left else 'R', mode, cnt))
        if ntype != 'int':
            ctx.floor_hit(('count-type', 'numpy', 'L' if left else 'R', mode))
        for p in U.u2_frame_problems(ev, Fxp):
            ctx.violation('operand_changed', p[1], ev, extra=p[2])
    def own_codes_judge(ev):
        """the result of a shift is a new object: it does not share its codes (nor its configuration or status record) with the operand - a later store into
        either of them must not reach the other ("the operand is never modified", also afterwards)"""
        if ev.kind != 'method' or ev.op not in ('__lshift__', '__rshift__') or ev.exc is not None:
            return
        for p_ in U.u2_alias_problems(ev, ctx.mon.Fxp):
            ctx.violation('result_shares_state', p_[1], ev, key='alias.shift')
        ctx.floor_hit(('own-codes',))
    return [shift_judge, own_codes_judge]


def floors(tier):
    return [('own-codes',)] + [(d, m, c) for d in 'LR' for m in ('expand', 'trunc', 'keep') for c in ('0', '<w', '>=w')] + [('count-type', 'numpy', d, m) for d in 'LR' for m in ('expand', 'trunc', 'keep')] + \
           [('numpy-function', d, m) for d in 'LR' for m in ('expand', 'trunc', 'keep')]


def cases(tier, seed):
    wmax = 5 if tier == 'quick' else 6
    for s in (True, False):
        for w in range(1, wmax + 1):
            for nf in sorted(set([0, w // 2])):
                yield {'k': 'all', 'signed': s, 'n_word': w, 'n_frac': nf}
    n = 600 if tier == 'quick' else 15000
    for i in range(n):
        yield {'k': 'rand', 'i': i}


def _try(f):
    try:
        return f()
    except Exception:
        return None


def run_case(case, ctx):
    Fxp = ctx.mon.Fxp
    if case['k'] == 'all':
        s, w, nf = case['signed'], case['n_word'], case['n_frac']
        lo, hi = R.code_range(s, w)
        for mode in ('expand', 'trunc', 'keep'):
            for ov in ('saturate', 'wrap'):
                for c in range(lo, hi + 1):
                    x = Fxp(c, s, w, nf, raw=True, shifting=mode, overflow=ov)
                    for n in range(0, w + 4):
                        _try(lambda: x << n)
                        _try(lambda: x >> n)
                for rr in ('around', 'ceil', 'fix', 'floor'):
                    xr = Fxp(np.arange(lo, hi + 1), s, w, nf, raw=True, shifting=mode, overflow=ov, rounding=rr)
                    for n in (1, 2, w):
                        _try(lambda: xr >> n)
                        _try(lambda: xr << n)
                xa = Fxp(np.arange(lo, hi + 1), s, w, nf, raw=True, shifting=mode, overflow=ov)
                for n in range(0, w + 4):
                    _try(lambda: xa << n)
                    _try(lambda: xa >> n)
        return
    rng = ctx.rng_for('rand', case['i'])
    i = case['i']
    w = rng.choice([8, 12, 16, 24, 31, 32])
    s = rng.random() < 0.5
    nf = rng.choice([0, w // 2])
    lo, hi = R.code_range(s, w)
    mode = ('expand', 'trunc', 'keep')[(i // 3) % 3]       # (independent of the rank below, which is i % 3)
    ov = ('saturate', 'wrap')[(i // 9) % 2]

    def code():
        c = rng.choice(['ext', 'odd', 'tz', 'rand', 'zero', 'pow2', 'pow2'])
        if c == 'pow2':
            # a single set bit (or its neighbours): the sizes of the expanding shifts are decided by one bit position
            k = rng.randint(0, max(0, w - 2))
            return max(lo, min(hi, rng.choice([1, 1, 1, -1] if s else [1]) * (1 << k) + rng.choice([0, 0, 0, -1, 1])))
        if c == 'ext':
            return rng.choice([lo, hi, lo + 1, hi - 1])
        if c == 'odd':
            return max(lo, min(hi, rng.randint(lo, hi) | 1))
        if c == 'tz':
            return max(lo, min(hi, (rng.randint(lo, hi) >> rng.randint(1, w - 1)) << rng.randint(1, w - 1)))
        if c == 'zero':
            return 0
        return rng.randint(lo, hi)
    rank = i % 3
    v = code() if rank == 0 else ([code() for _ in range(rng.randint(2, 5))] if rank == 1 else [[code(), code()], [code(), code()]])
    if rank and rng.random() < 0.3:
        v = np.array(v)
        v.flat[0] = 0
    x = Fxp(v, s, w, nf, raw=True, shifting=mode, overflow=ov, rounding=G.ROUNDINGS[(i // 18) % 5])
    if i % 4 == 2:
        x = G.historied(Fxp, x, rng)[0]
    top = max([abs(int(c_)) for c_ in np.asarray(v, dtype=object).ravel().tolist()] + [1])
    cross = [t - int(top).bit_length() + d for t in (48, 52, 53, 54) for d in (0, 1)]       # counts that carry the largest magnitude across 2^48 .. 2^54
    for n in sorted(set([0, 1, rng.randint(0, w + 3), rng.randint(0, w + 3), w - 1, w, min(w + 3, 62 - w)] + [c_ for c_ in cross if 0 <= c_ <= w + 3])):
        if 0 <= n and w + n <= 62:
            # the count as a python integer or as a NumPy integer (np.int64, np.uint8, an element of np.arange, a 0-d array)
            nn = n if (i + n) % 3 else rng.choice([np.int64(n), np.int32(n), np.uint8(n), np.arange(n + 1)[n], np.array(n)])
            _try(lambda: x << nn)
            _try(lambda: x >> nn)
            if (i + n) % 2 == 0:
                _try(lambda: np.left_shift(x, nn))
                _try(lambda: np.right_shift(x, nn))
    # expanding shifts of single-bit codes whose shifted magnitude lands on 2^47 .. 2^54 (where sizes computed through floating point go wrong)
    if w >= 24 and mode == 'expand':
        for t in (47, 48, 49, 52, 53, 54):
            k_lo = max(0, t - min(w + 3, 62 - w))
            if k_lo > w - 2:
                continue
            k = rng.randint(k_lo, w - 2)
            n = t - k
            if 0 <= n <= w + 3 and w + n <= 62 and k >= 0:
                for c_ in ((1 << k), -(1 << k) if s else (1 << k) - 1, [1 << k, 3, 0]):
                    xp = Fxp(c_, s, w, nf, raw=True, shifting='expand', overflow=ov)
                    _try(lambda: xp << n)
                    _try(lambda: xp >> min(n, w))
    # an array that is shifted, has one element overwritten (indexed store), and is shifted again: the second shift must be sized from the
    # new contents (lowest set bit / largest magnitude across the array)
    if rank and (i // 27) % 2 == 0:
        ya = Fxp(np.array(v).copy(), s, w, nf, raw=True, shifting=mode, overflow=ov)
        n1 = rng.randint(1, max(1, min(w - 1, 62 - w)))
        _try(lambda: ya >> n1)
        _try(lambda: ya << n1)
        idx = (0,) * np.ndim(ya.val)
        new_code = rng.choice([1, hi, lo, hi - 1, (lo | 1) if lo else 1, rng.randint(lo, hi) | 1])
        _try(lambda: ya.set_val(new_code, raw=True, index=idx))
        _try(lambda: ya >> n1)
        _try(lambda: ya << n1)
        _try(lambda: ya.__setitem__(idx, float(F(rng.choice([1, 3, hi])) * R.lsb(nf))))
        n2 = rng.randint(1, max(1, min(w + 3, 62 - w)))
        if w + n2 <= 62:
            _try(lambda: ya >> n2)
            _try(lambda: ya << n2)
