"""C15 - NumPy reductions and linear algebra on fixed-point arrays are exact."""
from fractions import Fraction as F

import numpy as np

from .. import refmodel as R
from .. import gen as G
from .. import arith as A
from .. import universal as U

ID = 'C15'
TECHNIQUE = 'runtime monitoring: reduction / linear-algebra events by the NumPy, method and function routes judged against the same function on object arrays of exact Fractions'
TITLE = 'reductions and linear algebra exact'
RULE = ('events sum, cumsum, prod, cumprod, dot, matmul, trace, max, min, sort, clip, transpose, diagonal called through NumPy (np.f(x)), through the '
        'method (x.f()) and through the fxpmath function: the result must be an Fxp whose values (code*LSB as Fractions) equal the same NumPy function '
        'evaluated on an object array of the exact element values (NumPy used for index bookkeeping only), same shape, codes in range, and no overflow / '
        'underflow flag for the accumulating ones. Key = (function, route, axis kind, shape, element class, signedness); non-trivial = element class != '
        'random, or odd length, or axis != None.')
DECIDING_OPS = ['__array_function__', 'sum', 'cumsum', 'prod', 'cumprod', 'dot', 'trace', 'max', 'min', 'sort', 'clip', 'transpose', 'diagonal']
ANCHORS = ['functions.sum', 'functions.cumsum', 'functions.cumprod', 'functions.prod', 'functions.trace', 'functions.dot', 'functions.fxp_max',
           'functions.fxp_min', 'functions.sort', 'functions.clip', 'functions.transpose', 'functions.diagonal', 'functions._function_over_one_var',
           'objects.Fxp.__array_function__']
SHARDS = {'quick': 16, 'thorough': 16}
ACCUM = ('sum', 'cumsum', 'prod', 'cumprod', 'trace', 'dot')
NPF = {'sum': np.sum, 'cumsum': np.cumsum, 'prod': np.prod, 'cumprod': np.cumprod, 'max': np.max, 'min': np.min, 'amax': np.max, 'amin': np.min,
       'sort': np.sort, 'clip': np.clip, 'transpose': np.transpose, 'diagonal': np.diagonal, 'trace': np.trace, 'dot': np.dot, 'matmul': np.matmul,
       'fxp_max': np.max, 'fxp_min': np.min}
CANON = {'amax': 'max', 'amin': 'min', 'fxp_max': 'max', 'fxp_min': 'min'}
ALLOWED_KW = {'axis', 'offset', 'axis1', 'axis2', 'axes', 'a_min', 'a_max', 'min', 'max'}


def make_judges(ctx):
    mon = ctx.mon
    Fxp = mon.Fxp

    def snap_of(ev, obj):
        for o, p in zip(ev.operands, ev.pre):
            if o is obj:
                return p
        return None

    def red_judge(ev):
        route = None
        if ev.kind == 'method' and ev.op == '__array_function__':
            if len(ev.args) < 4:
                return
            func, _types, fargs, fkw = ev.args[:4]
            name = getattr(func, '__name__', None)
            route = 'numpy'
        elif ev.kind == 'method' and ev.op == '__array_ufunc__':
            if len(ev.args) < 2 or ev.args[0] is not np.matmul or ev.args[1] != '__call__':
                return
            name, fargs, fkw, route = 'matmul', ev.args[2:], dict(ev.kwargs), 'numpy'
        elif ev.kind == 'method' and ev.op in NPF:
            name, fargs, fkw, route = ev.op, (ev.receiver,) + tuple(ev.args), dict(ev.kwargs), 'method'
        elif ev.kind == 'function' and ev.op in NPF:
            name, fargs, fkw, route = ev.op, tuple(ev.args), dict(ev.kwargs), 'function'
        else:
            return
        if name not in NPF:
            return
        cname = CANON.get(name, name)
        fkw = dict(fkw or {})
        if fkw.get('method') in ('raw', 'repr'):
            # (both calculation methods give the exact results: every value of the quantifier - operands and results of up to 53 bits - is an exact double)
            if fkw.pop('method') == 'repr' and cname != 'clip':
                ctx.floor_hit(('value-method', cname if cname in ('prod', 'sum') else 'other'))
        if set(fkw) - ALLOWED_KW:
            ctx.skip('red:keyword outside the model (out/sizing/...)')
            return
        # operands
        ops = []
        for a in fargs:
            if isinstance(a, Fxp):
                s = snap_of(ev, a)
                if s is None or not A.usable(s):
                    ctx.skip('red:complex or scaled operand')
                    return
                if s.cfg.get('_op_sizing') != 'optimal' or s.cfg.get('_op_out') is not None or s.cfg.get('_op_out_like') is not None \
                        or s.cfg.get('_array_op_out') is not None or s.cfg.get('_array_op_out_like') is not None or s.cfg.get('_array_output_type') != 'fxp':
                    ctx.skip('red:non-default output configuration')
                    return
                ops.append(s)
            else:
                ops.append(a)
        snaps = [s for s in ops if hasattr(s, 'codes')]
        if not snaps or not hasattr(ops[0], 'codes'):
            return
        x = snaps[0]
        shaped = snaps[:1] if cname == 'clip' else snaps      # (the bounds of clip can be fixed-point scalars)
        if any(not (1 <= s.n_word <= 12 and -8 <= s.n_frac <= s.n_word + 8) or len(s.codes) > 9 for s in shaped) or any(len(s.shape) == 0 or len(s.shape) > 2 for s in shaped) \
                or any(s.n_word > 53 or len(s.codes) > 9 for s in snaps):
            ctx.skip('red:operand outside the quantifier (n_word<=12, -8<=n_frac<=n_word+8, up to 3x3 / length 8)')
            return
        # exact evaluation
        try:
            eargs = [A.fr_array(s) if hasattr(s, 'codes') else s for s in ops]
            ekw = dict(fkw)
            if cname == 'clip':
                names = ('a', 'a_min', 'a_max')
                d = dict(zip(names, eargs))
                d.update(ekw)
                if 'min' in d or 'max' in d:        # (the NumPy 2.1 spelling of the bounds)
                    d.setdefault('a_min', d.get('min'))
                    d.setdefault('a_max', d.get('max'))
                    if d.get('a_min') is None:
                        d['a_min'] = d.get('min')
                    if d.get('a_max') is None:
                        d['a_max'] = d.get('max')
                    ctx.floor_hit(('clip_min_max_keywords',))
                lo_, hi_ = d.get('a_min'), d.get('a_max')
                if lo_ is None and hi_ is None:
                    ctx.skip('red:clip without any bound')
                    return

                def bound(b):
                    # exact value(s) of a bound: number, list / tuple / array of numbers, fixed-point object (its PRE picture), or missing
                    if b is None:
                        return None
                    if hasattr(b, 'codes'):
                        return A.fr_array(b) if len(b.shape) else A.fr_array(b).item()
                    if isinstance(b, (list, tuple, np.ndarray)):
                        return np.array([F(v) for v in np.asarray(b).ravel().tolist()], dtype=object).reshape(np.asarray(b).shape)
                    if isinstance(b, np.generic):
                        b = b.item()        # (a Fraction built on a NumPy integer would calculate - and wrap - in that integer's type)
                    return F(b)
                blo, bhi = bound(lo_), bound(hi_)
                exp = d['a']
                if blo is not None:
                    exp = np.maximum(exp, blo)
                if bhi is not None:
                    exp = np.minimum(exp, bhi)
            else:
                exp = NPF[name](*eargs, **ekw)
        except Exception as e:
            ctx.skip('red:the exact evaluation itself raised %s (argument error)' % type(e).__name__)
            return
        expf, shape = A.flat(exp)
        if len(expf) == 0:
            ctx.skip('red:empty result (not supported by the library)')
            return
        # result word bound of the quantifier
        if cname in ('prod', 'cumprod'):
            # documented growth: prod multiplies the word by the number of factors along the axis, cumprod by the array size
            ax_ = fkw.get('axis')
            cnt = len(x.codes) if (ax_ is None or cname == 'cumprod') else (int(np.prod([x.shape[a_] for a_ in ax_])) if isinstance(ax_, tuple) else x.shape[ax_])
            if x.n_word * cnt > 53:
                ctx.skip('red:result word beyond 53 bits')
                return
        if cname in ACCUM and ev.result_snap is not None and ev.result_snap.n_word > 53:
            ctx.skip('red:result word beyond 53 bits')
            return
        if ev.exc is not None:
            ctx.violation('raises', '%s(%s) via %s raised %s: %s' % (cname, R.dtype_fxp(*x.fmt()), route, type(ev.exc).__name__, str(ev.exc)[:120]), ev, key='red.raises.%s' % cname)
            return
        if cname == 'sort' and route == 'method':
            res = ev.post[0]        # x.sort() sorts in place and returns None
        else:
            res = ev.result_snap
            if res is None:
                ctx.violation('result_type', '%s via %s returned %s, not an Fxp' % (cname, route, type(ev.result).__name__), ev)
                return
        if res.is_complex or res.scaled:
            ctx.violation('result_kind', '%s returned a complex/scaled object' % cname, ev)
            return
        lsb = R.lsb(res.n_frac)
        rlo, rhi = R.code_range(res.signed, res.n_word)
        bad = None
        if cname == 'clip' and any((e / lsb).denominator != 1 or not (rlo <= e / lsb <= rhi) for e in expf):
            if ev.exc is not None:
                ctx.violation('raises', 'clip(%s) with numeric bounds raised %s: %s' % (R.dtype_fxp(*x.fmt()), type(ev.exc).__name__, str(ev.exc)[:120]), ev, key='red.raises.clip')
                return
            if all((e / lsb).denominator == 1 for e in expf) and res.overflow == 'saturate' and tuple(res.shape) == tuple(shape):
                # bounds on the grid but beyond the range of the format: the clipped values saturate on their own side
                want = [min(max(int(e / lsb), rlo), rhi) for e in expf]
                if res.codes != want:
                    ctx.violation('value', 'clip(%s) at bounds beyond the range: codes %s, the clipped values %s saturate to %s' % (
                        R.dtype_fxp(*x.fmt()), res.codes[:4], [str(e) for e in expf[:4]], want[:4]), ev)
                ctx.judged(('clip-beyond-range', route, 's' if x.signed else 'u'), True, None, elements=len(want))
                ctx.floor_hit(('clip_beyond_range', 's' if x.signed else 'u'))
                return
            ctx.skip('red:clip with a bound that the result format cannot represent (the clipped value is then quantized, not exact)')
            return
        if tuple(res.shape) != tuple(shape):
            bad = 'shape %r, expected %r' % (res.shape, shape)
        else:
            for i, (e, k) in enumerate(zip(expf, res.codes)):
                if not isinstance(k, int) or k < rlo or k > rhi:
                    bad = 'element %d: code %r outside the result range' % (i, k)
                    break
                if k * lsb != e:
                    bad = 'element %d: %s, exact %s' % (i, k * lsb, e)
                    break
        if bad:
            ctx.violation('value', '%s(%s%s) via %s %r -> %s: %s' % (cname, R.dtype_fxp(*x.fmt()), ', ' + R.dtype_fxp(*snaps[1].fmt()) if len(snaps) > 1 else '', route,
                          {k: v for k, v in fkw.items()}, R.dtype_fxp(*res.fmt()), bad), ev)
        elif cname in ACCUM and (res.status.get('overflow') or res.status.get('underflow')):
            ctx.violation('flags', '%s via %s raised overflow=%s underflow=%s' % (cname, route, res.status.get('overflow'), res.status.get('underflow')), ev)
        lo, hi = R.code_range(x.signed, x.n_word)
        cs = set(x.codes)
        ecls = 'all-lo' if cs == {lo} else ('all-hi' if cs == {hi} else ('mixed-ext' if cs <= {lo, hi} else 'random'))
        axk = 'none' if fkw.get('axis') is None else 'axis%s' % (fkw.get('axis'),)
        fcls = G.frac_class(x.n_word, x.n_frac)
        if cname == 'clip':
            d_ = dict(zip(('a', 'a_min', 'a_max'), fargs))
            d_.update(fkw)
            if d_.get('a_min') is None:
                d_['a_min'] = d_.get('min')
            if d_.get('a_max') is None:
                d_['a_max'] = d_.get('max')
            axk = 'bounds:%s/%s' % tuple('none' if b is None else type(b).__name__ for b in (d_.get('a_min'), d_.get('a_max')))
            for b_ in (d_.get('a_min'), d_.get('a_max')):
                if isinstance(b_, (np.generic, np.ndarray)) and np.asarray(b_).dtype.itemsize < 8 and np.asarray(b_).dtype.kind in 'iuf':
                    ctx.floor_hit(('clip_narrow_numpy_bound', np.asarray(b_).dtype.kind))
            ctx.floor_hit(('clip_bounds', axk.split(':')[1]))
        if cname == 'transpose' and fkw.get('axes') is not None:
            axk = 'axes%s' % (tuple(fkw['axes']),)
            ctx.floor_hit(('transpose_axes',))
        if fcls in ('<0', '>w'):
            ctx.floor_hit(('edge_format', cname))
        if cname in ('dot', 'matmul', 'sum', 'trace', 'cumsum') and not bad:
            # accumulated raw results that a narrower accumulator (float16: 11 bits, float32: 24 bits) could not hold exactly
            for k in res.codes:
                m = abs(k)
                if m:
                    span = m.bit_length() - ((m & -m).bit_length() - 1)     # significant bits of the code
                    if span > 24:
                        ctx.floor_hit(('acc_significant_bits>24', 'dot' if cname in ('dot', 'matmul') else 'sum'))
                    if span > 11:
                        ctx.floor_hit(('acc_significant_bits>11', 'dot' if cname in ('dot', 'matmul') else 'sum'))
        nontriv = ecls != 'random' or len(x.codes) % 2 == 1 or axk != 'none'
        sample = None
        if ctx.want_sample() and nontriv and cname in ACCUM:
            sample = {'function': cname, 'route': route, 'kwargs': {k: str(v) for k, v in fkw.items()}, 'x': x.describe(), 'result': res.describe()}
        nontriv = nontriv or fcls in ('<0', '>w')
        ctx.judged((cname, route, axk, tuple(x.shape), ecls, ''.join('s' if s.signed else 'u' for s in snaps), fcls), nontriv, sample, elements=len(expf))
        ctx.floor_hit((cname, route))
    def frame_judge(ev):
        """the functions return their result: neither an operand nor a bound handed over in an array / list is changed (only the in-place `sort` method writes
        its receiver)"""
        name = None
        if ev.kind == 'method' and ev.op == '__array_function__' and len(ev.args) >= 1:
            name = getattr(ev.args[0], '__name__', None)
        elif ev.op in NPF and ev.kind in ('method', 'function'):
            name = ev.op
        if ev.op == 'T' and ev.exc is None:
            name = 'transpose'          # (the T attribute: an independent object like np.transpose(x))
        if name not in NPF or ev.exc is not None or (ev.kind == 'method' and ev.op == 'sort'):
            return
        for p_ in U.u2_alias_problems(ev, Fxp):
            # the result is an object of its own: a later in-place step on it (sort, an indexed store) must not reach the operand, nor the other way round
            ctx.violation('result_shares_state', '%s: %s' % (name, p_[1]), ev, key='frame.alias')
        for p_ in U.u2_frame_problems(ev, Fxp):
            ctx.violation('operand_changed', '%s: %s' % (name, p_[1]), ev, key='frame.operand')
        for p_ in U.u2_container_problems(ev):
            ctx.violation('bound_changed', '%s: %s' % (name, p_[1]), ev, key='frame.container')
        ctx.floor_hit(('frame',))
    return [red_judge, frame_judge]


def floors(tier):
    cells = [(f, r) for f in ('sum', 'cumsum', 'prod', 'cumprod', 'max', 'min', 'clip', 'transpose', 'diagonal', 'trace', 'dot') for r in ('numpy', 'method')]
    cells += [('sort', 'numpy'), ('sort', 'method'), ('matmul', 'numpy'), ('transpose_axes',)]
    cells += [('clip_bounds', b) for b in ('float/float', 'ndarray/ndarray', 'list/list', 'Fxp/Fxp', 'float/none', 'none/float')]
    cells += [('clip_bounds_other_format',), ('clip_value_method_fxp_bounds',), ('clip_min_max_keywords',), ('clip_narrow_numpy_bound', 'i'), ('clip_narrow_numpy_bound', 'u'), ('clip_narrow_numpy_bound', 'f'), ('clip_beyond_range', 's'), ('clip_beyond_range', 'u')]
    cells += [('edge_format', f) for f in ('sum', 'cumsum', 'prod', 'cumprod', 'dot', 'clip', 'max', 'sort')]
    cells += [('acc_significant_bits>24', 'dot'), ('acc_significant_bits>11', 'dot'), ('acc_significant_bits>11', 'sum'), ('noncontiguous_operand',), ('value-method', 'prod'), ('value-method', 'sum'), ('value-method-integer-product-beyond-64-bits',), ('frame',), ('clip_int64_array_bounds_twice',), ('transpose-then-written',)]
    return cells


SHAPES = [(1,), (2,), (3,), (5,), (8,), (2, 2), (2, 3), (3, 3), (3, 1), (1, 3)]


def cases(tier, seed):
    n = 1600 if tier == 'quick' else 40000
    for i in range(n):
        yield {'k': 'arr', 'i': i}
    for i in range(320 if tier == 'quick' else 8000):
        yield {'k': 'acc', 'i': i}


def _try(f):
    try:
        return f()
    except Exception:
        return None


ACC_SHAPES = [((8,), (8,)), ((7,), (7,)), ((5,), (5,)), ((3,), (3,)), ((3, 3), (3, 3)), ((2, 3), (3, 2)), ((3, 3), (3,)), ((1, 3), (3, 3)), ((3,), (3, 3)), ((2, 2), (2, 2))]


def run_acc(case, ctx):
    """accumulation at the widest operands of the quantifier (words 9..12, up to length 8 / 3x3), codes at and next to the extremes: the exact
    sums of products need up to 28 significant bits - more than a float32 (24) or float16 (11) accumulator holds"""
    Fxp = ctx.mon.Fxp
    fm = ctx.mon.fxpmath
    i = case['i']
    rng = ctx.rng_for('acc', i)
    shp1, shp2 = ACC_SHAPES[i % len(ACC_SHAPES)]
    s1, s2 = bool((i // 10) % 2), bool((i // 20) % 2)
    w1, w2 = rng.choice([12, 12, 11, 10, 9]), rng.choice([12, 12, 11, 10, 9])
    nf1, nf2 = rng.randint(0, w1), rng.randint(0, w2)
    style = ('hi', 'lo', 'near', 'mixed', 'random')[(i // 40) % 5]

    def codes(s, w, n):
        lo, hi = R.code_range(s, w)
        if style == 'hi':
            return [hi] * n
        if style == 'lo':
            return [lo if s else hi - 1] * n
        if style == 'near':
            return [rng.choice([hi - rng.randint(0, 5), (lo + rng.randint(0, 5)) if s else hi - rng.randint(0, 9)]) for _ in range(n)]
        if style == 'mixed':
            return [rng.choice([lo, hi, hi - 1, lo + 1]) for _ in range(n)]
        return [rng.randint(lo, hi) for _ in range(n)]
    x = Fxp(np.array(codes(s1, w1, int(np.prod(shp1)))).reshape(shp1), s1, w1, nf1, raw=True)
    z = Fxp(np.array(codes(s2, w2, int(np.prod(shp2)))).reshape(shp2), s2, w2, nf2, raw=True)
    if i % 3 == 2:
        x = G.historied(Fxp, x, rng)[0]
    _try(lambda: np.dot(x, z))
    _try(lambda: x.dot(z))
    _try(lambda: fm.dot(x, z))
    _try(lambda: np.dot(z.T, x.T) if len(shp1) == 2 and len(shp2) == 2 else None)
    if len(shp1) == 2 or len(shp2) == 2:
        _try(lambda: np.matmul(x, z))
    for o in (x, z):
        _try(lambda: np.sum(o))
        _try(lambda: o.sum())
        _try(lambda: np.cumsum(o))
        if len(o.shape) == 2:
            _try(lambda: np.sum(o, axis=0))
            _try(lambda: o.sum(axis=1))
            _try(lambda: np.trace(o))
            _try(lambda: o.trace())


def run_case(case, ctx):
    if case.get('k') == 'acc':
        return run_acc(case, ctx)
    Fxp = ctx.mon.Fxp
    fm = ctx.mon.fxpmath
    rng = ctx.rng_for('arr', case['i'])
    i = case['i']
    shape = SHAPES[i % len(SHAPES)]
    size = int(np.prod(shape))
    s = bool((i // len(SHAPES)) % 2)
    w = rng.randint(1, 12)
    nf = rng.randint(0, w)
    if (i // 100) % 5 == 4 or (i // 7) % 11 == 3:      # (independent of the shape digit i % 10, the signedness digit and the element-class digit)
        nf = rng.choice([rng.randint(-8, -1), rng.randint(w + 1, w + 8), w - (1 if s else 0) + 1])   # negative fraction / negative integer length
    lo, hi = R.code_range(s, w)
    ecls = ('all-lo', 'all-hi', 'mixed', 'random', 'random')[(i // 20) % 5]
    if ecls == 'all-lo':
        codes = [lo] * size
    elif ecls == 'all-hi':
        codes = [hi] * size
    elif ecls == 'mixed':
        codes = [rng.choice([lo, hi]) for _ in range(size)]
    else:
        codes = [rng.randint(lo, hi) for _ in range(size)]

    def mk():
        return Fxp(np.array(codes).reshape(shape), s, w, nf, raw=True)
    x = mk()
    if i % 4 == 3:
        x = G.historied(Fxp, x, rng)[0]
    axes = [None] + list(range(len(shape)))
    for ax in axes:
        kw = {} if ax is None else {'axis': ax}
        for f, m in ((np.sum, 'sum'), (np.cumsum, 'cumsum'), (np.max, 'max'), (np.min, 'min')):
            _try(lambda: f(x, **kw))
            _try(lambda: getattr(x, m)(**kw))
        if w * (size if ax is None else shape[ax]) <= 53:
            _try(lambda: np.prod(x, **kw))
            _try(lambda: x.prod(**kw))
            _try(lambda: np.cumprod(x, **kw))
            _try(lambda: x.cumprod(**kw))
    _try(lambda: fm.sum(x))
    _try(lambda: fm.cumsum(x))
    # the value based method gives the same exact results (integer-valued formats - a fraction length <= 0 - are calculated with integers there:
    # their sums and products must not wrap around in 64 bits integers)
    if (i // 3) % 4 == 0:
        for ax in axes[:2]:
            kw = {'method': 'repr'} if ax is None else {'axis': ax, 'method': 'repr'}
            _try(lambda: x.sum(**kw))
            _try(lambda: fm.cumsum(x, **kw))
            _try(lambda: x.max(**kw))
            if w * (size if ax is None else shape[ax]) <= 53:
                _try(lambda: x.prod(**kw))
                _try(lambda: fm.prod(x, **kw))
                _try(lambda: x.cumprod(**kw))
        if len(shape) == 2:
            _try(lambda: x.trace(method='repr'))
        # integer-valued operands (negative fraction length) at the extremes: the product of the values needs more than 64 bits, the result word stays <= 53
        nfi = -rng.randint(5, 8)
        wi = rng.randint(5, 8) if size <= 5 else rng.randint(3, 5)
        if wi * size <= 53 and (wi - nfi) * size >= 64:
            loi, hii = R.code_range(s, wi)
            # (built from the integer VALUES: the object then hands out integers, not doubles)
            xi = Fxp(np.array([rng.choice([hii, hii, loi, hii - 1]) * 2 ** (-nfi) for _ in range(size)]).reshape(shape), s, wi, nfi)
            _try(lambda: xi.prod(method='repr'))
            _try(lambda: fm.prod(xi, method='repr'))
            _try(lambda: xi.cumprod(method='repr'))
            _try(lambda: xi.prod())
            _try(lambda: xi.sum(method='repr'))
            ctx.floor_hit(('value-method-integer-product-beyond-64-bits',))
    _try(lambda: np.sort(x))
    _try(lambda: np.sort(x, axis=0))
    _try(lambda: np.sort(x, axis=None))            # (the flattened array, sorted)
    _try(lambda: np.sort(x, axis=-1))
    for nax in ([-1] if len(shape) == 1 else [-1, -2]):
        if w * (size if False else shape[nax]) <= 53:
            _try(lambda: np.cumprod(x, axis=nax))
            _try(lambda: x.cumprod(axis=nax))
            _try(lambda: np.prod(x, axis=nax))
        _try(lambda: np.cumsum(x, axis=nax))
        _try(lambda: x.sum(axis=nax))
        _try(lambda: np.max(x, axis=nax))
    y = mk()
    _try(lambda: y.sort())
    a, b = sorted([rng.randint(lo, hi), rng.randint(lo, hi)])
    amin, amax = float(F(a) * R.lsb(nf)), float(F(b) * R.lsb(nf))
    _try(lambda: np.clip(x, amin, amax))
    _try(lambda: x.clip(amin, amax))
    # bounds given as arrays (twice: the caller's arrays must still hold the bounds), lists, fixed-point objects, or one bound only
    alo, ahi = np.full(shape, amin), np.full(shape, amax)
    _try(lambda: np.clip(x, alo, ahi))
    _try(lambda: np.clip(x, alo, ahi))
    _try(lambda: x.clip(alo.tolist(), ahi.tolist()))
    if nf <= w - (1 if s else 0):
        flo, fhi = _try(lambda: Fxp(a, s, w, nf, raw=True)), _try(lambda: Fxp(b, s, w, nf, raw=True))
        if flo is not None and fhi is not None:
            _try(lambda: np.clip(x, flo, fhi))
            _try(lambda: x.clip(flo, fhi))
        # fixed-point bounds held in OTHER formats (coarser / finer fraction, other word, other signedness) that represent the bound exactly
        nfb = nf + rng.choice([-2, -1, 1, 2, 3])
        lo_v, hi_v = F(a) * R.lsb(nf), F(b) * R.lsb(nf)
        if nfb < nf:
            lo_v, hi_v = lo_v - lo_v % R.lsb(nfb), hi_v - hi_v % R.lsb(nfb)     # (representable in the coarser grid)
        blo = _try(lambda: Fxp(float(lo_v), True, 24, nfb))
        bhi = _try(lambda: Fxp(float(hi_v), True, 20, max(nfb, nf + 1) if nfb >= nf else nfb))
        in_x_range = F(lo) * R.lsb(nf) <= lo_v <= hi_v <= F(hi) * R.lsb(nf)      # (a bound outside x's own range is not representable in the result)
        if in_x_range and blo is not None and bhi is not None and F(int(np.asarray(blo.val).item())) * R.lsb(blo.n_frac) == lo_v and F(int(np.asarray(bhi.val).item())) * R.lsb(bhi.n_frac) == hi_v:
            _try(lambda: np.clip(x, blo, bhi))
            _try(lambda: x.clip(blo, bhi))
            _try(lambda: np.clip(x, blo, amax))
            ctx.floor_hit(('clip_bounds_other_format',))
            # the same by the value based method (every value here is an exact double): given by keyword, and configured on the operand
            _try(lambda: x.clip(blo, bhi, method='repr'))
            _try(lambda: np.clip(x, None, bhi, method='repr'))
            xr_ = _try(lambda: Fxp(np.asarray(x.val).copy(), s, w, nf, raw=True, op_method='repr', array_op_method='repr'))
            if xr_ is not None:
                _try(lambda: xr_.clip(blo, bhi))
                _try(lambda: np.clip(xr_, blo, None))
            ctx.floor_hit(('clip_value_method_fxp_bounds',))
    # bounds given as NumPy numbers / arrays of a narrow type (int8, uint8, int16, float16, float32), whole-valued so that every type carries them exactly; with the
    # element that gets clipped first or last; the NumPy 2.1 keyword spelling
    ia, ib = sorted([int(F(a) * R.lsb(nf)), int(F(b) * R.lsb(nf))])
    for tp in (np.int8, np.uint8, np.int16, np.float16, np.float32):
        if nf < 0 or F(ia) != F(a) * R.lsb(nf) or F(ib) != F(b) * R.lsb(nf):
            break                   # (the bounds have to be whole numbers that the format holds)
        if tp is np.uint8 and ia < 0:
            if ib < 0 or lo > 0:
                continue
            ia_, ib_ = 0, ib
        else:
            ia_, ib_ = ia, ib
        if -128 <= ia_ <= 127 and -128 <= ib_ <= 127 and (tp is not np.uint8 or ia_ >= 0) and ia_ <= ib_:
            _try(lambda: np.clip(x, tp(ia_), tp(ib_)))
            _try(lambda: x.clip(tp(ia_), None))
            _try(lambda: np.clip(x, None, np.full(shape, ib_, dtype=tp)))
            _try(lambda: np.clip(x[::-1], tp(ia_), float(ib_)))
    # whole-number bounds held in int64 arrays (NumPy's default integer type), used for two calls by each route: the caller's arrays still hold the bounds
    if nf > 0 and F(ia) == F(a) * R.lsb(nf) and F(ib) == F(b) * R.lsb(nf) and ia <= ib:
        ilo, ihi = np.full(shape, ia, dtype=np.int64), np.full(shape, ib, dtype=np.int64)
        for _ in range(2):
            _try(lambda: x.clip(ilo, ihi))
            _try(lambda: fm.clip(x, ilo, ihi))
            _try(lambda: np.clip(x, ilo, ihi))
        if ilo.tolist() != np.full(shape, ia).tolist() or ihi.tolist() != np.full(shape, ib).tolist():
            ctx.violation('bound_changed', 'clip changed the arrays that held its bounds: %s / %s, were %d / %d' % (ilo.ravel().tolist()[:3], ihi.ravel().tolist()[:3], ia, ib), key='frame.container')
        ctx.floor_hit(('clip_int64_array_bounds_twice',))
    # integer bounds beyond the range of the format (an unsigned object clipped below zero, huge integers): the result saturates on the bound's side
    if nf >= 0:
        if not s:
            _try(lambda: np.clip(x, None, -1))
            _try(lambda: x.clip(-3, -1))
            _try(lambda: np.clip(x, None, np.int64(-1)))
            _try(lambda: np.clip(x[(0,) * len(shape)], None, -1))
        else:
            _try(lambda: np.clip(x, 2 ** 61, None))
            _try(lambda: x.clip(None, -10 ** 30))
            _try(lambda: np.clip(x, -(hi + 5), hi + 7))
    _try(lambda: np.clip(x, min=amin, max=amax))
    _try(lambda: x.clip(min=amin))
    _try(lambda: np.clip(x, amin, max=amax))
    _try(lambda: np.clip(x, amin, None))
    _try(lambda: x.clip(a_max=amax))
    _try(lambda: np.clip(x, None, amax))
    _try(lambda: np.transpose(x))
    if len(shape) == 2:
        # a transposed object is a result like any other: sorting it in place / storing into it leaves the operand as it was (and the other way round);
        # workload-level (the T attribute is not a call the monitor records)
        for how_ in ('T', 'np.transpose', 'method'):
            xs_ = mk()
            before_ = np.asarray(xs_.val, dtype=object).tolist()
            try:
                t_ = xs_.T if how_ == 'T' else (np.transpose(xs_) if how_ == 'np.transpose' else xs_.transpose())
                tb_ = np.asarray(t_.val, dtype=object).tolist()
                t_.sort(axis=0)
                t_[0, 0] = 0.0
                after_ = np.asarray(xs_.val, dtype=object).tolist()
                xs_.sort(axis=1)
                xs_[0, 0] = 0.0
            except Exception:
                continue
            if after_ != before_:
                ctx.violation('operand_changed', 'an in-place sort of / store into the transpose obtained by %s changed the operand: %s -> %s' % (how_, before_, after_), key='frame.transpose_alias')
            ctx.judged(('transpose-then-written', how_), True, None)
            ctx.floor_hit(('transpose-then-written',))
    _try(lambda: x.transpose())
    perms = [(0,)] if len(shape) == 1 else [(0, 1), (1, 0)]
    for pm in perms:
        _try(lambda: np.transpose(x, axes=pm))
        _try(lambda: x.transpose(axes=pm))
    if len(shape) == 2 and w * size <= 53:
        _try(lambda: np.prod(x, axis=(0, 1)))
        _try(lambda: x.prod(axis=(1, 0)))
        _try(lambda: np.sum(x, axis=(0, 1)))
    if len(shape) == 2:
        for off in (0, 1, -1):
            if (off >= 0 and off < shape[1]) or (off < 0 and -off < shape[0]):
                _try(lambda: np.diagonal(x, offset=off))
                _try(lambda: x.diagonal(offset=off))
                _try(lambda: np.trace(x, offset=off))
                _try(lambda: x.trace(offset=off))
        _try(lambda: np.diagonal(x))
        _try(lambda: x.trace())
    # the same functions on objects whose value buffer is not C-contiguous (a transpose, a Fortran-ordered input, a reversed view)
    if size >= 2:
        others = []
        if len(shape) == 2:
            others.append(_try(lambda: x.T))
            others.append(_try(lambda: Fxp(np.asfortranarray(np.array(codes).reshape(shape)), s, w, nf, raw=True)))
        others.append(_try(lambda: x[::-1]))
        for o in others:
            if o is None:
                continue
            ctx.floor_hit(('noncontiguous_operand',))
            for f, m in ((np.sum, 'sum'), (np.cumsum, 'cumsum'), (np.max, 'max'), (np.min, 'min')):
                _try(lambda: f(o))
                _try(lambda: getattr(o, m)())
                _try(lambda: f(o, axis=0))
            if w * size <= 53:
                _try(lambda: np.cumprod(o))
                _try(lambda: o.cumprod())
                _try(lambda: np.prod(o))
            _try(lambda: np.sort(o))
            _try(lambda: np.sort(o, axis=0))
            _try(lambda: np.clip(o, amin, amax))
            _try(lambda: np.transpose(o))
            if len(o.shape) == 2:
                _try(lambda: np.diagonal(o))
                _try(lambda: np.trace(o))
                _try(lambda: o.diagonal(offset=1) if o.shape[1] > 1 else None)
            _try(lambda: np.dot(o, o.T) if len(o.shape) == 2 else np.dot(o, o))
    # dot / matmul with mixed signedness
    s2 = bool(rng.random() < 0.5)
    w2 = rng.randint(1, 12)
    nf2 = rng.randint(0, w2) if (i // 7) % 5 != 4 else rng.randint(-8, w2 + 8)
    lo2, hi2 = R.code_range(s2, w2)
    if len(shape) == 1:
        shp2 = shape
    else:
        shp2 = (shape[1], rng.choice([1, 2, 3]))
    c2 = [rng.choice([lo2, hi2, rng.randint(lo2, hi2)]) for _ in range(int(np.prod(shp2)))]
    z = Fxp(np.array(c2).reshape(shp2), s2, w2, nf2, raw=True)
    _try(lambda: np.dot(x, z))
    _try(lambda: x.dot(z))
    _try(lambda: fm.dot(x, z))
    if len(shape) == 2:
        _try(lambda: np.matmul(x, z))
        v = Fxp(np.array(c2[:shape[1]] if len(c2) >= shape[1] else (c2 * 3)[:shape[1]]), s2, w2, nf2, raw=True)
        _try(lambda: np.dot(x, v))
