"""C16 - comparisons and numeric conversions agree with the exact stored value."""
from fractions import Fraction as F
import operator

import numpy as np

from .. import refmodel as R
from .. import gen as G
from .. import arith as A
from ..exact import exact_values, Unsupported

ID = 'C16'
TECHNIQUE = 'runtime monitoring: comparison events (dunder and __array_ufunc__ routes) and numeric conversions judged against exact Fractions of the stored codes'
TITLE = 'comparisons and conversions'
RULE = ('comparison events (< <= == != > >= between two Fxp of any formats with n_word<=24, Fxp vs number, number vs Fxp, arrays) must return the truth '
        'value of the same relation between the exact stored values (Fractions); conversion events get_val()/astype(float)/float() = code*LSB exactly, '
        'astype(int)/int() = floor(code*LSB), bool() iff code != 0, raw() = code, uraw() = code mod 2^n_word. Key = (relation, operand kinds, delta class, '
        'formats equal?) and (conversion, fraction class, sign); non-trivial = formats differ and delta != far; conversions: negative non-integer value '
        'or fraction class not inside.')
DECIDING_OPS = ['__lt__', '__le__', '__eq__', '__ne__', '__gt__', '__ge__', 'get_val', 'astype', '__float__', '__int__', '__bool__', 'raw', 'uraw']
ANCHORS = ['objects.Fxp.__lt__', 'objects.Fxp.__eq__', 'objects.Fxp.__ge__', 'objects.Fxp.astype', 'objects.Fxp.get_val', 'objects.Fxp.raw', 'objects.Fxp.uraw',
           'objects.Fxp.__int__', 'objects.Fxp.__float__', 'objects.Fxp.__bool__']
EXHAUSTIVE = {'quick': 'conversions for every code of every format n_word<=6, n_frac -1..n_word+1 (scalar and array)', 'thorough': 'n_word<=8'}
SHARDS = {'quick': 16, 'thorough': 16}
REL = {'__lt__': operator.lt, '__le__': operator.le, '__eq__': operator.eq, '__ne__': operator.ne, '__gt__': operator.gt, '__ge__': operator.ge}


def make_judges(ctx, conv_max_word=24):
    mon = ctx.mon
    Fxp = mon.Fxp

    def cmp_judge(ev):
        if ev.kind != 'method' or ev.op not in REL or len(ev.args) != 1:
            return
        x = ev.pre[0] if ev.pre else None
        if x is None or not A.usable(x) or not (1 <= x.n_word <= 24 and -8 <= x.n_frac <= x.n_word + 8):
            ctx.skip('cmp:operand outside domain (n_word<=24, real, unscaled)')
            return
        y = ev.args[0]
        if isinstance(y, Fxp):
            ys = None
            for o, p in zip(ev.operands, ev.pre):
                if o is y:
                    ys = p
            if ys is None or not A.usable(ys) or not (1 <= ys.n_word <= 24 and -8 <= ys.n_frac <= ys.n_word + 8):
                ctx.skip('cmp:operand outside domain (n_word<=24, real, unscaled)')
                return
            vy = A.fr_array(ys)
            kind = 'Fxp'
            same = ys.fmt() == x.fmt()
        else:
            try:
                vals, shape, is_c = exact_values(y)
            except Unsupported as e:
                ctx.skip('cmp:' + str(e))
                return
            if is_c:
                ctx.skip('cmp:complex')
                return
            vy = np.empty(len(vals), dtype=object)
            vy[:] = vals
            vy = vy.reshape(shape)
            kind = 'number' if shape == () else 'array'
            same = False
        vx = A.fr_array(x)
        try:
            exp = REL[ev.op](vx, vy)
        except Exception:
            ctx.skip('cmp:shapes do not broadcast')
            return
        if ev.exc is not None:
            ctx.violation('raises', '%s raised %s' % (ev.op, type(ev.exc).__name__), ev)
            return
        expf, shape = A.flat(np.asarray(exp, dtype=object)) if isinstance(exp, np.ndarray) else ([exp], ())
        got = np.asarray(ev.result)
        if got.dtype != bool and got.dtype != object:
            ctx.violation('result_type', '%s returned %r' % (ev.op, ev.result), ev)
            return
        gotf = [bool(v) for v in got.ravel().tolist()]
        if tuple(got.shape) != tuple(shape) or gotf != [bool(v) for v in expf]:
            ctx.violation('relation', '%s: %s %s %s returned %r, exact values give %r' % (ev.op, [str(v) for v in np.ravel(vx)[:3]], ev.op, [str(v) for v in np.ravel(vy)[:3]], gotf[:4], [bool(v) for v in expf[:4]]), ev)
        # delta class in units of the finer LSB
        fine = min(R.lsb(x.n_frac), R.lsb(ys.n_frac) if kind == 'Fxp' else R.lsb(x.n_frac))
        d = np.ravel(np.asarray(vx - vy, dtype=object))[0]
        dc = 'equal' if d == 0 else ('adjacent' if abs(d) <= fine else 'far')
        nontriv = (not same) and dc != 'far'
        ctx.judged((ev.op, kind, dc, same, len(shape)), nontriv,
                   {'op': ev.op, 'x': x.describe(), 'y': ys.describe() if kind == 'Fxp' else repr(y)[:80], 'result': gotf[:4]} if ctx.want_sample() and nontriv and kind == 'Fxp' else None,
                   elements=len(expf))
        ctx.floor_hit((ev.op, kind))

    UF = {np.less: operator.lt, np.less_equal: operator.le, np.equal: operator.eq, np.not_equal: operator.ne, np.greater: operator.gt, np.greater_equal: operator.ge}

    def ufunc_cmp_judge(ev):
        # number (NumPy scalar / array) on the LEFT of a relation, or np.less(x, y) ...: NumPy hands the comparison to Fxp.__array_ufunc__
        if ev.kind != 'method' or ev.op != '__array_ufunc__' or len(ev.args) != 4 or ev.args[0] not in UF or ev.args[1] != '__call__' or ev.kwargs:
            return
        rel = UF[ev.args[0]]
        sides, kinds = [], []
        for a in ev.args[2:]:
            if isinstance(a, Fxp):
                sn = None
                for o, p in zip(ev.operands, ev.pre):
                    if o is a:
                        sn = p
                if sn is None or not A.usable(sn) or not (1 <= sn.n_word <= 24 and -8 <= sn.n_frac <= sn.n_word + 8) or sn.cfg.get('_array_op_method') == 'raw':
                    ctx.skip('cmp:operand outside domain (n_word<=24, real, unscaled, default array configuration)')
                    return
                sides.append(A.fr_array(sn))
                kinds.append('Fxp')
            else:
                try:
                    vals, shape, is_c = exact_values(a)
                except Unsupported as e:
                    ctx.skip('cmp:' + str(e))
                    return
                if is_c:
                    ctx.skip('cmp:complex')
                    return
                v = np.empty(len(vals), dtype=object)
                v[:] = vals
                sides.append(v.reshape(shape))
                kinds.append(type(a).__name__ if shape == () else 'array')
        try:
            exp = rel(sides[0], sides[1])
        except Exception:
            ctx.skip('cmp:shapes do not broadcast')
            return
        name = ev.args[0].__name__
        if ev.exc is not None:
            ctx.violation('raises', 'np.%s(%s, %s) raised %s: %s' % (name, kinds[0], kinds[1], type(ev.exc).__name__, str(ev.exc)[:80]), ev, key='cmp.ufunc_raises')
            return
        expf, shape = A.flat(np.asarray(exp, dtype=object)) if isinstance(exp, np.ndarray) else ([exp], ())
        if isinstance(ev.result, Fxp):
            ctx.violation('result_type', 'np.%s returned a fixed-point object, not truth values' % name, ev)
            return
        got = np.asarray(ev.result)
        gotf = [bool(v) for v in got.ravel().tolist()]
        if got.dtype != bool or tuple(got.shape) != tuple(shape) or gotf != [bool(v) for v in expf]:
            ctx.violation('relation', 'np.%s(%s, %s): %s vs %s returned %r, exact values give %r' % (name, kinds[0], kinds[1], [str(v) for v in np.ravel(sides[0])[:3]],
                          [str(v) for v in np.ravel(sides[1])[:3]], gotf[:4], [bool(v) for v in expf[:4]]), ev)
        d = np.ravel(np.asarray(sides[0] - sides[1], dtype=object))[0]
        ctx.judged(('ufunc', name, kinds[0], kinds[1], 'equal' if d == 0 else 'differ', len(shape)), True, None, elements=len(expf))
        ctx.floor_hit(('ufunc', name))
        ctx.floor_hit(('ufunc-left', kinds[0] if kinds[0] != 'Fxp' else 'Fxp'))

    def conv_judge(ev):
        if ev.kind != 'method' or ev.op not in ('get_val', 'astype', '__float__', '__int__', '__bool__', 'raw', 'uraw', '__call__'):
            return
        sel = None
        if ev.kwargs:
            # element-wise reads: get_val(item=) / astype(t, item=) (flat position or tuple) and index= (a NumPy index)
            if ev.op not in ('get_val', 'astype') or set(ev.kwargs) - {'item', 'index'} or len(ev.kwargs) != 1 or list(ev.kwargs.values())[0] is None:
                return
            sel = list(ev.kwargs.items())[0]
        x = ev.pre[0] if ev.pre else None
        if x is not None and ev.post and ev.post[0] is not None and ev.exc is None and not (ev.op == '__call__' and ev.args) and x.key() != ev.post[0].key():
            # a read returns something: it does not change the object it reads
            ctx.violation('read_modifies', '%s changed the object it was called on: %s codes %s -> %s' % (ev.op, R.dtype_fxp(*x.fmt()), x.codes[:4], ev.post[0].codes[:4]), ev, key='read.modifies')
        if x is None or not A.usable(x) or not (1 <= x.n_word <= conv_max_word and -8 <= x.n_frac <= x.n_word + 8):
            ctx.skip('conv:operand outside domain')
            return
        lsb = R.lsb(x.n_frac)
        codes_sel = x.codes
        if sel is not None:
            if x.is_complex:
                return
            try:
                ca = np.empty(len(x.codes), dtype=object)
                ca[:] = x.codes
                ca = ca.reshape(tuple(x.shape))
                picked = ca.item(sel[1]) if sel[0] == 'item' else ca[sel[1]]
            except Exception:
                return      # (an index error of the caller)
            codes_sel = list(np.asarray(picked, dtype=object).ravel().tolist())
        vals = [k * lsb for k in codes_sel]
        what = ev.op
        if ev.op == 'astype':
            if len(ev.args) != 1 or ev.args[0] not in (float, int):
                return
            what = 'astype(%s)' % ev.args[0].__name__
            if sel is not None:
                ctx.floor_hit(('element-read', sel[0]))
        elif ev.op in ('get_val', '__call__'):
            if ev.args:
                return
            try:
                dt = np.dtype(x.vdtype)
            except TypeError:
                dt = None
            if dt is not None and dt.kind == 'f' and dt.itemsize < 8:
                ctx.skip('conv:value dtype narrower than a double')
                return
        if ev.exc is not None:
            if ev.op in ('__float__', '__int__', '__bool__') and len(x.codes) > 1:
                return      # documented: only length-1 objects convert to python scalars
            ctx.violation('raises', '%s on %s raised %s: %s' % (what, R.dtype_fxp(*x.fmt()), type(ev.exc).__name__, str(ev.exc)[:100]), ev)
            return
        res = ev.result
        if ev.op == '__bool__':
            exp = [vals[0] != 0]
            got = [bool(res)]
        elif ev.op in ('raw', 'uraw'):
            m = 1 << x.n_word
            exp = [F(k) if ev.op == 'raw' else F(k % m) for k in codes_sel]
            try:
                got = exact_values(res)[0]
            except Unsupported:
                got = None
        else:
            floor_it = what in ('astype(int)', '__int__')
            exp = [F(R.floor_f(v)) if floor_it else v for v in vals]
            try:
                got = exact_values(res)[0]
            except Unsupported:
                got = None
            if ev.op == '__int__' and not isinstance(res, int):
                got = None
            if ev.op == '__float__' and not isinstance(res, float):
                got = None
        if ev.op in ('__float__', '__int__') and len(x.shape) >= 1:
            ctx.floor_hit(('conv1', ev.op))
        if got != exp:
            ctx.violation('conversion', '%s of %s codes %s returned %.100r, expected %s' % (what, R.dtype_fxp(*x.fmt()), x.codes[:3], res, [str(e) for e in exp[:3]]), ev)
        neg_nonint = any(v < 0 and v.denominator != 1 for v in vals)
        fc = G.frac_class(x.n_word, x.n_frac)
        ctx.judged((what, fc, neg_nonint, len(x.shape), sel[0] if sel else None), neg_nonint or fc != 'in', None, elements=len(vals))
        ctx.floor_hit(('conv', what.split('[')[0]))
    return [cmp_judge, ufunc_cmp_judge, conv_judge]


def floors(tier):
    return [(op, k) for op in REL for k in ('Fxp', 'number', 'array')] + [('ufunc', n) for n in ('less', 'less_equal', 'equal', 'not_equal', 'greater', 'greater_equal')] + \
           [('ufunc-left', k) for k in ('float64', 'array', 'Fxp')] + [('conv1', '__float__'), ('conv1', '__int__'), ('cmp-config',)] + \
           [('conv', w) for w in ('get_val', 'astype(float)', 'astype(int)', '__float__', '__int__', '__bool__', 'raw', 'uraw')] + [('element-read', 'item'), ('element-read', 'index'), ('read-then-read',), ('cmp-integer-beyond-doubles',), ('element-read-2d',), ('cmp-narrow-numpy-integer',)]


def cases(tier, seed):
    n = 2500 if tier == 'quick' else 50000
    for i in range(n):
        yield {'k': 'cmp', 'i': i}
    wmax = 6 if tier == 'quick' else 8
    for s in (True, False):
        for w in range(1, wmax + 1):
            for nf in range(-1, w + 2):
                yield {'k': 'conv', 'signed': s, 'n_word': w, 'n_frac': nf}


def _try(f):
    try:
        return f()
    except Exception:
        return None


def run_case(case, ctx):
    Fxp = ctx.mon.Fxp
    if case['k'] == 'conv':
        s, w, nf = case['signed'], case['n_word'], case['n_frac']
        lo, hi = R.code_range(s, w)
        xa = Fxp(np.arange(lo, hi + 1), s, w, nf, raw=True)
        xf = Fxp(np.arange(lo, hi + 1) / 2.0 ** nf, s, w, nf)
        for x in (xa, xf):
            # reading twice gives the same thing: a read that rewrote the codes shows in the second one (and in the frame condition of the first)
            _try(lambda: x.uraw())
            _try(lambda: x.raw())
            _try(lambda: x.get_val())
            ctx.floor_hit(('read-then-read',))
            # element-wise reads by flat position (0 and the last one included), by tuple and by index
            for it in sorted({0, 1 % (hi - lo + 1), hi - lo, (hi - lo) // 2}):
                _try(lambda: x.get_val(item=it))
                _try(lambda: x.astype(float, item=it))
                _try(lambda: x.astype(int, item=it))
                _try(lambda: x.astype(float, index=it))
                _try(lambda: x.astype(int, index=slice(it, None)))
            _try(lambda: x.get_val())
            _try(lambda: x.astype(float))
            _try(lambda: x.astype(int))
            _try(lambda: x.raw())
            _try(lambda: x.uraw())
        # the same conversions on two-dimensional objects whose codes are not stored row-major (a transposed matrix, a Fortran-ordered input, a reversed view)
        n_ = hi - lo + 1
        if n_ >= 4:
            c2 = np.arange(lo, lo + (n_ // 2) * 2).reshape(2, -1)
            for x in (_try(lambda: Fxp(c2, s, w, nf, raw=True).T), _try(lambda: Fxp(np.asfortranarray(c2), s, w, nf, raw=True)), _try(lambda: Fxp(c2, s, w, nf, raw=True)[::-1])):
                if x is not None:
                    _try(lambda: x.get_val())
                    _try(lambda: x.astype(float))
                    _try(lambda: x.astype(int))
                    _try(lambda: x.get_val(int))
                    # element-wise reads of a two-dimensional object: a row by index, an element by flat position and by tuple
                    _try(lambda: x.get_val(index=1))
                    _try(lambda: x.get_val(index=(1, 0)))
                    _try(lambda: x.get_val(item=1))
                    _try(lambda: x.get_val(item=(0, 1)))
                    _try(lambda: x.astype(float, index=0))
                    _try(lambda: x.astype(int, item=2))
                    ctx.floor_hit(('element-read-2d',))
                    _try(lambda: x.raw())
                    _try(lambda: x.uraw())
        # objects that were created from integers and got their fraction bits / values later, through raw routes
        if nf > 0:
            for c in (lo, hi, lo + 1 if hi > lo else lo):
                z = Fxp(0, s, w, 0)
                _try(lambda: z.resize(s, w, nf))
                _try(lambda: z.equal(Fxp(c, s, w, nf, raw=True)))
                z2 = Fxp(1, s, max(w, 2), 0)
                _try(lambda: z2.resize(n_frac=nf, restore_val=False))
                z3 = _try(lambda: Fxp(c, like=Fxp(0, s, w, 0), n_frac=nf, raw=True))
                for q in (z, z2, z3):
                    if q is not None:
                        _try(lambda: q.get_val())
                        _try(lambda: q())
                        _try(lambda: float(q))
                        _try(lambda: q.astype(float))
                        _try(lambda: int(q))
        for c in range(lo, hi + 1):
            for x in (Fxp(c, s, w, nf, raw=True), Fxp(c / 2.0 ** nf, s, w, nf)):
                _try(lambda: x.get_val())
                _try(lambda: x.astype(float))
                _try(lambda: x.astype(int))
                _try(lambda: float(x))
                _try(lambda: int(x))
                _try(lambda: bool(x))
                _try(lambda: x.raw())
                _try(lambda: x.uraw())
        return
    rng = ctx.rng_for('cmp', case['i'])
    i = case['i']

    def fmt():
        s = rng.random() < 0.5
        w = rng.randint(1, 24)
        nf = rng.randint(-1, w + 1)
        return s, w, nf
    fx, fy = fmt(), fmt()
    if i % 5 == 0:
        fy = fx
    lox, hix = R.code_range(fx[0], fx[1])
    loy, hiy = R.code_range(fy[0], fy[1])
    cx = rng.choice([lox, hix, rng.randint(lox, hix), rng.randint(lox, hix)])
    vx = F(cx) * R.lsb(fx[2])
    # y's code chosen next to x's value in y's grid
    near = R.floor_f(vx / R.lsb(fy[2]))
    cy = max(loy, min(hiy, near + rng.choice([-1, 0, 0, 1, 1, 2])))
    if rng.random() < 0.2:
        cy = rng.randint(loy, hiy)
    x = Fxp(cx, fx[0], fx[1], fx[2], raw=True)
    y = Fxp(cy, fy[0], fy[1], fy[2], raw=True)
    if i % 4 == 0:
        x = G.historied(Fxp, x, rng)[0]
        y = G.historied(Fxp, y, rng)[0]
        for cv in (x, y):
            for f_ in (lambda: cv.get_val(), lambda: cv(), lambda: float(cv), lambda: int(cv), lambda: cv.astype(float), lambda: cv.astype(int), lambda: cv.raw(), lambda: cv.uraw(), lambda: bool(cv)):
                _try(f_)
    vy = F(cy) * R.lsb(fy[2])
    rels = [operator.lt, operator.le, operator.eq, operator.ne, operator.gt, operator.ge]
    xa_big = lambda b_: Fxp([cx, cx], fx[0], fx[1], fx[2], raw=True) < b_
    for r in rels:
        _try(lambda: r(x, y))
    # operands carrying non-default configuration (the relation is about the stored values whatever the array / operation settings are)
    if (i // 5) % 3 == 0:
        cfgs = [dict(array_op_method='raw'), dict(array_output_type='array'), dict(op_method='repr', op_sizing='same'), dict(rounding='around', overflow='wrap', shifting='keep')]
        kwx, kwy = rng.choice(cfgs), rng.choice(cfgs)
        xc = _try(lambda: Fxp(cx, fx[0], fx[1], fx[2], raw=True, **kwx))
        yc = _try(lambda: Fxp(cy, fy[0], fy[1], fy[2], raw=True, **kwy))
        if xc is not None and yc is not None:
            for r in rels:
                _try(lambda: r(xc, yc))
                _try(lambda: r(x, yc))
            ctx.floor_hit(('cmp-config',))
    num = float(vy) if rng.random() < 0.6 or vy.denominator != 1 else int(vy)
    for r in rels:
        _try(lambda: r(x, num))
        _try(lambda: r(num, x))
    # narrow NumPy integers as comparands (a comparison must not shift or scale them in their own type)
    if (i // 3) % 4 == 1:
        for tp_ in (np.int8, np.uint8, np.int16, np.uint16, np.int32):
            info_ = np.iinfo(tp_)
            for k_ in (info_.max, info_.max // 2 + 1, int(vy) if vy.denominator == 1 and info_.min <= vy <= info_.max else info_.min, rng.randint(info_.min, info_.max)):
                for r in rels[:4] if k_ != info_.max else rels:
                    _try(lambda: r(x, tp_(k_)))
                _try(lambda: tp_(k_) < x)
        ctx.floor_hit(('cmp-narrow-numpy-integer',))
    # python integers of any size are plain numbers: beyond 2^63, and beyond the range of doubles (either sign, either side)
    if (i // 3) % 4 == 0:
        for big in (2 ** 64 + 1, -(2 ** 70), 2 ** 1024, -(10 ** 309), 10 ** 400 + 1):
            for r in rels:
                _try(lambda: r(x, big))
                _try(lambda: r(big, x))
            _try(lambda: xa_big(big))
            _try(lambda: np.less(x, big))
            _try(lambda: np.greater_equal(big, x))
            _try(lambda: np.not_equal(Fxp([cx, cx], fx[0], fx[1], fx[2], raw=True), big))
        ctx.floor_hit(('cmp-integer-beyond-doubles',))
    # NumPy numbers on the left (NumPy hands the relation to the fixed-point object), and the NumPy functions themselves
    if i % 2 == 0:
        npnum = rng.choice([np.float64(num), np.float64(num), np.array(float(num)), np.float32(num) if F(float(np.float32(num))) == vy else np.float64(num),
                            np.int64(int(vy)) if vy.denominator == 1 and abs(vy) < 2 ** 62 else np.float64(num)])
        for r in rels:
            _try(lambda: r(npnum, x))
        uf = [np.less, np.less_equal, np.equal, np.not_equal, np.greater, np.greater_equal]
        _try(lambda: uf[i % 6](x, y))
        _try(lambda: uf[(i + 1) % 6](x, num))
        _try(lambda: uf[(i + 2) % 6](npnum, y))
    # arrays
    n = rng.randint(2, 4)
    cxa = [max(lox, min(hix, cx + d)) for d in range(n)]
    xa = Fxp(cxa, fx[0], fx[1], fx[2], raw=True)
    cya = [max(loy, min(hiy, R.floor_f(F(c) * R.lsb(fx[2]) / R.lsb(fy[2])) + rng.choice([-1, 0, 1]))) for c in cxa]
    ya = Fxp(cya, fy[0], fy[1], fy[2], raw=True)
    arr = np.array([float(F(c) * R.lsb(fy[2])) for c in cya])
    if i % 3 == 0:
        for r in rels:
            _try(lambda: r(arr, xa))          # ndarray on the left
        _try(lambda: np.greater_equal(xa, ya))
        _try(lambda: np.not_equal(arr, xa))
    # one-element arrays convert to python scalars like scalars do
    if i % 3 == 1:
        for one in (_try(lambda: Fxp([cx], fx[0], fx[1], fx[2], raw=True)), _try(lambda: Fxp([[cy]], fy[0], fy[1], fy[2], raw=True)), _try(lambda: xa[:1])):
            if one is not None:
                _try(lambda: float(one))
                _try(lambda: int(one))
                _try(lambda: bool(one))
    for r in rels:
        _try(lambda: r(xa, ya))
        _try(lambda: r(xa, arr))
        _try(lambda: r(xa, y))
