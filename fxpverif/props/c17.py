"""C17 - scale and bias act as an exact affine wrapper around the stored code."""
from fractions import Fraction as F

import numpy as np

from .. import refmodel as R
from .. import gen as G
from .. import universal as U
from ..exact import exact_values, Unsupported
from ..storejudge import decode_store, expected_post_codes, STORE_OPS, init_arguments
from .c06 import int_bits

ID = 'C17'
TECHNIQUE = 'runtime monitoring: stores into / reads of / resizes of / equal() and like() between scaled objects judged against the exact affine model around exact quantization'
TITLE = 'scale and bias: exact affine wrapper'
RULE = ('store events on objects created with scale s and bias b (constructor, call, set_val, indexed assignment): the stored codes must equal '
        'refmodel.quantize((v-b)/s) in the object\'s format and modes, the status flags must be those of the unscaled value (v-b)/s, reads (get_val, '
        'astype(float)) must return s*code*LSB+b exactly, upper/lower/precision must be the unscaled limits mapped through the affine map (precision '
        'through s only), and inferred sizes must be the sizes inferred for (v-b)/s. Only cases in which v, v-b and (v-b)/s are exact doubles. Key = (sign of '
        'scale, scale=1?, bias=0?, int/float parameters, rounding, overflow, outcome); non-trivial = (scale != 1 or bias != 0) and outcome != exact.')
DECIDING_OPS = ['__init__', '__call__', 'get_val', '__setitem__', '__getitem__', 'resize']
ANCHORS = ['objects.Fxp._format_inupt_val', 'objects.Fxp.astype', 'objects.Fxp.resize']
SHARDS = {'quick': 16, 'thorough': 16}
_FL = ('overflow', 'underflow', 'inaccuracy')


def is_double(fr):
    try:
        return F(float(fr)) == fr
    except OverflowError:
        return False


def _py(v):
    return v.item() if isinstance(v, (np.generic, np.ndarray)) and np.ndim(v) == 0 else v      # (a Fraction built on a NumPy integer would calculate - and wrap - in that integer's type)


def affine_of(s):
    try:
        return F(_py(s.scale)), F(_py(s.bias))
    except (TypeError, ValueError):
        return None


def make_judges(ctx):
    mon = ctx.mon
    Fxp = mon.Fxp

    def store_judge(ev):
        if ev.op not in STORE_OPS or ev.kind != 'method':
            return
        try:
            si = decode_store(ev, allow_fxp=True, allow_scaled_src=True)
        except Unsupported as e:
            ctx.skip('store:' + str(e))
            return
        if si is None or si.is_complex:
            return
        post = si.post
        if post is None:
            if ev.exc is not None and si.init_args and ('scale' in si.init_args or 'bias' in si.init_args):
                ctx.violation('raises', 'constructing a scaled object raised %s: %s' % (type(ev.exc).__name__, str(ev.exc)[:100]), ev, key='scaled.ctor_raises')
            return
        if post.scale == 1 and post.bias == 0 and not si.src_scaled:
            return
        if si.fxp_source and si.init_args is not None and any(si.init_args.get(k) is None for k in ('signed', 'n_word', 'n_frac')) and si.init_args.get('dtype') is None \
                and si.init_args.get('like') is None:
            ctx.skip('store:fixed-point source without an explicit destination format')
            return
        ab = affine_of(post)
        if ab is None or ab[0] == 0 or post.is_complex:
            ctx.skip('store:scale/bias not numeric')
            return
        sc, bi = ab
        if not (1 <= post.n_word <= 16 and -8 <= post.n_frac <= post.n_word + 8):
            inferred = si.init_args is not None and si.init_args.get('n_word') is None and si.init_args.get('n_frac') is None
            if not inferred or post.n_word > 60:
                ctx.skip('store:format outside n_word<=16')
                return
        us = []
        for v in si.values:
            d = v - bi
            u = d / sc
            if not (is_double(v) and is_double(d) and is_double(u) and is_double(u * F(2) ** post.n_frac)):
                ctx.skip('store:an intermediate is not an exact double')
                return
            if abs(u * F(2) ** post.n_frac) >= 2 ** 62:
                # (the core domain of C01, which this property wraps: |v * 2^n_frac| < 2^62; reachable here through inferred formats of 17..60 bits)
                ctx.skip('store:transformed value outside the core domain (scaled magnitude >= 2^62)')
                return
            us.append(u)
        if ev.exc is not None:
            ctx.violation('raises', 'storing into a scaled %s raised %s: %s' % (R.dtype_fxp(*post.fmt()), type(ev.exc).__name__, str(ev.exc)[:100]), ev, key='scaled.store_raises')
            return
        # size inference sizes the transformed value
        if si.init_args is not None and si.init_args.get('n_word') is None and si.init_args.get('n_frac') is None and si.init_args.get('n_int') is None \
                and si.init_args.get('like') is None and si.init_args.get('dtype') is None:
            sg = si.init_args.get('signed')
            signed = True if sg is None else bool(sg)
            if signed or all(u >= 0 for u in us):
                nfe = max(R.frac_bits_needed(u) for u in us)
                ib = int_bits(us, signed)
                want = (signed, nfe + ib + (1 if signed else 0), nfe)
                if want[1] <= 64 and post.fmt() != want:
                    ctx.violation('inference', 'Fxp(%s, scale=%s, bias=%s) inferred %s; the transformed value %s needs %s' % (
                        [str(v) for v in si.values[:3]], post.scale, post.bias, R.dtype_fxp(*post.fmt()), [str(u) for u in us[:3]], R.dtype_fxp(*want)), ev)
                ctx.floor_hit(('inferred',))
        si.values = us
        try:
            codes, imag, shape, over, under, inexact, rounded = expected_post_codes(si)
        except Unsupported as e:
            ctx.skip('store:' + str(e))
            return
        if post.codes != codes or tuple(post.shape) != tuple(shape):
            i = next((i for i, (a, b) in enumerate(zip(post.codes, codes)) if a != b), 0)
            ctx.violation('wrong_code', '%s scale=%r bias=%r %s/%s via %s: stored %s, Q((v-b)/s) = %s (transformed inputs %s)' % (
                R.dtype_fxp(*post.fmt()), post.scale, post.bias, post.rounding, post.overflow, si.route, post.codes[i:i + 3], codes[i:i + 3], [str(u) for u in us[i:i + 3]]), ev)
        elif si.fxp_source:
            # (a fixed-point source hands its inaccuracy flag over: only the range flags are compared - and that the flag IS handed over, as into an
            #  unscaled destination)
            if (si.src_status or {}).get('inaccuracy') and not post.status.get('inaccuracy'):
                ctx.violation('flags', '%s scale=%r bias=%r from a fixed-point source that carries the inaccuracy flag: the flag is not handed on' % (R.dtype_fxp(*post.fmt()), post.scale, post.bias), ev,
                              key='scaled.source_inaccuracy')
            if (si.src_status or {}).get('inaccuracy'):
                ctx.floor_hit(('inexact-fixed-point-source',))
            pre_status = si.pre.status if (si.pre is not None and ev.op != '__init__') else {}
            for f, now in (('overflow', over), ('underflow', under)):
                if bool(post.status.get(f)) != (bool(pre_status.get(f)) or now) and (si.init_args is None or si.init_args.get('like') is None):
                    ctx.violation('flags', '%s scale=%r bias=%r from a fixed-point source: %s flag %s, expected %s' % (R.dtype_fxp(*post.fmt()), post.scale, post.bias, f, post.status.get(f), bool(pre_status.get(f)) or now), ev)
        else:
            pre_status = si.pre.status if (si.pre is not None and ev.op != '__init__') else {}
            exp = dict((f, bool(pre_status.get(f))) for f in _FL)
            exp['overflow'] |= over
            exp['underflow'] |= under
            exp['inaccuracy'] |= inexact
            got = dict((f, bool(post.status.get(f))) for f in _FL)
            if got != exp and si.init_args is None or (got != exp and si.init_args is not None and si.init_args.get('like') is None):
                ctx.violation('flags', '%s scale=%r bias=%r: status %s, the unscaled value gives %s' % (R.dtype_fxp(*post.fmt()), post.scale, post.bias, got, exp), ev)
        # limits
        for tag, detail in U.u1_problems(post):
            if tag in ('upper', 'lower', 'precision', 'n_int', 'dtype'):
                ctx.violation('limits', detail, ev)
        lo, hi = R.code_range(post.signed, post.n_word)
        out = 'overflow' if over else ('underflow' if under else ('inexact' if inexact else 'exact'))
        ptypes = ('i' if isinstance(post.scale, int) else 'f') + ('i' if isinstance(post.bias, int) else 'f')
        key = ((sc > 0), sc == 1, bi == 0, ptypes, post.rounding, post.overflow, out, si.route)
        sample = None
        if ctx.want_sample() and out != 'exact':
            sample = {'op': ev.op, 'format': R.dtype_fxp(*post.fmt()), 'scale': repr(post.scale), 'bias': repr(post.bias), 'inputs': [str(float(u * sc + bi)) for u in us[:3]],
                      'transformed': [str(u) for u in us[:3]], 'codes': post.codes[:3]}
        ctype = 'Fxp%s' % ('-scaled' if si.src_scaled else '') if si.fxp_source else (
            str(si.carrier.dtype) if isinstance(si.carrier, (np.ndarray, np.generic)) else type(si.carrier).__name__)
        ctx.judged(key + (ctype,), out != 'exact', sample, elements=len(us))
        ctx.floor_hit(('carrier', ctype))
        ctx.floor_hit(('route', si.route))
        ctx.floor_hit(('params', sc > 0, sc == 1, bi == 0))

    def read_judge(ev):
        if ev.kind != 'method' or ev.op not in ('get_val', 'astype', '__call__'):
            return
        x = ev.pre[0] if ev.pre else None
        if x is None or (x.scale == 1 and x.bias == 0) or x.is_complex:
            return
        index = item = None
        if ev.op == '__call__':
            if ev.args or ev.kwargs:
                return
        else:
            d = dict(zip(('dtype', 'index', 'item'), ev.args))
            d.update(ev.kwargs)
            if d.get('dtype') is int and ev.exc is not None and isinstance(ev.exc, (OverflowError, TypeError)) and affine_of(x) is not None and 1 <= x.n_word <= 16:
                ctx.violation('read_raises', '%s(int, ...) of scaled %s (scale=%r, bias=%r) raised %s: %s' % (ev.op, R.dtype_fxp(*x.fmt()), x.scale, x.bias, type(ev.exc).__name__, str(ev.exc)[:100]), ev,
                              key='scaled.read_raises')
                return
            if ev.op == 'astype' and d.get('dtype') is int and x.n_frac <= 0 and affine_of(x) is not None and all(
                    (affine_of(x)[0] * k * R.lsb(x.n_frac) + affine_of(x)[1]).denominator == 1 for k in x.codes):
                pass        # (integer valued: the floor of astype(int) changes nothing, the value is scale*code*LSB + bias whatever the order of the steps)
            elif ev.op == 'astype' and d.get('dtype') is not float:
                return
            if ev.op == 'get_val' and d.get('dtype') is not None:
                return
            index, item = d.get('index'), d.get('item')
        ab = affine_of(x)
        if ab is None or not (1 <= x.n_word <= 16 and -8 <= x.n_frac <= x.n_word + 8):
            ctx.skip('read:outside domain')
            return
        sc, bi = ab
        lsb = R.lsb(x.n_frac)
        codes = x.codes
        if index is not None or item is not None:
            try:
                a = np.empty(len(x.codes), dtype=object)
                a[:] = x.codes
                a = a.reshape(x.shape)
                sel = a[index] if index is not None else a.item(item)
                codes = np.asarray(sel, dtype=object).ravel().tolist()
            except Exception:
                ctx.skip('read:index not applicable in the model')
                return
        exp = [sc * k * lsb + bi for k in codes]
        if not all(is_double(e) and is_double(sc * k * lsb) for e, k in zip(exp, codes)):
            ctx.skip('read:an intermediate is not an exact double')
            return
        if ev.exc is not None:
            ctx.violation('read_raises', '%s of scaled %s (scale=%r, bias=%r) raised %s: %s' % (ev.op, R.dtype_fxp(*x.fmt()), x.scale, x.bias, type(ev.exc).__name__, str(ev.exc)[:100]), ev,
                          key='scaled.read_raises')
            return
        try:
            got = exact_values(ev.result)[0]
        except Unsupported:
            got = None
        try:
            dt = np.dtype(x.vdtype)
        except TypeError:
            dt = None
        ok = got == exp
        if not ok:
            ctx.violation('read', '%s of %s scale=%r bias=%r codes %s returned %.80r, expected %s' % (ev.op, R.dtype_fxp(*x.fmt()), x.scale, x.bias, x.codes[:3], ev.result, [str(e) for e in exp[:3]]), ev)
        ctx.judged(('read', ev.op, 'element' if (index is not None or item is not None) else 'whole', sc > 0, sc == 1, bi == 0, any(k < 0 for k in codes)), True, None, elements=len(exp))
        ctx.floor_hit(('read', ev.op))
        if index is not None or item is not None:
            ctx.floor_hit(('read', 'element'))
    def resize_judge(ev):
        """resize of a scaled object re-stores the same (scaled) value: the unscaled value code*LSB is re-quantized"""
        if ev.kind != 'method' or ev.op != 'resize':
            return
        pre, post = (ev.pre[0], ev.post[0]) if ev.pre and ev.post else (None, None)
        if pre is None or post is None or (pre.scale == 1 and pre.bias == 0) or pre.is_complex:
            return
        d = dict(zip(('signed', 'n_word', 'n_frac', 'n_int', 'restore_val', 'dtype'), ev.args))
        d.update(ev.kwargs)
        if d.get('restore_val', True) is not True:
            return
        if not (1 <= pre.n_word <= 16 and 1 <= post.n_word <= 20 and -8 <= pre.n_frac <= pre.n_word + 8 and -8 <= post.n_frac <= post.n_word + 8):
            ctx.skip('resize:outside domain')
            return
        ab = affine_of(pre)
        if ab is None or ab[0] == 0:
            return
        sc, bi = ab
        lsb = R.lsb(pre.n_frac)
        us = [k * lsb for k in pre.codes]
        if not all(is_double(u) and is_double(sc * u) and is_double(sc * u + bi) and is_double((sc * u + bi) - bi) for u in us):
            ctx.skip('resize:an intermediate is not an exact double')
            return
        if ev.exc is not None:
            ctx.violation('raises', 'resize of a scaled object raised %s: %s' % (type(ev.exc).__name__, str(ev.exc)[:100]), ev, key='scaled.resize_raises')
            return
        exp = [R.quantize_code(u, post.signed, post.n_word, post.n_frac, post.rounding, post.overflow) for u in us]
        if post.codes != exp:
            ctx.violation('resize', 'resize of scaled %s (scale=%r, bias=%r) to %s: codes %s, the unscaled values %s quantize to %s' % (
                R.dtype_fxp(*pre.fmt()), pre.scale, pre.bias, R.dtype_fxp(*post.fmt()), post.codes[:3], [str(u) for u in us[:3]], exp[:3]), ev)
        if (post.scale, post.bias) != (pre.scale, pre.bias):
            ctx.violation('resize', 'resize changed scale/bias', ev)
        for tag, detail in U.u1_problems(post):
            if tag in ('upper', 'lower', 'precision', 'n_int', 'dtype'):
                ctx.violation('limits', 'after resize: ' + detail, ev)
        ctx.judged(('resize', sc > 0, sc == 1, bi == 0, post.n_frac - pre.n_frac), True, None, elements=len(us))
        ctx.floor_hit(('resize',))
    def equal_like_judge(ev):
        """dst.equal(src) and src.like(template) with a scaled source or destination store the VALUE of the source: code = Q((v - b)/s) in the
        destination's format, like the other store routes"""
        if ev.kind != 'method' or ev.op not in ('equal', 'like') or len(ev.args) < 1 or not isinstance(ev.args[0], Fxp):
            return
        snaps = {id(o): (p_, q_) for o, p_, q_ in zip(ev.operands, ev.pre, ev.post)}
        if ev.op == 'equal':
            if len(ev.args) > 1 or ev.kwargs.get('index') is not None:
                return
            src = snaps.get(id(ev.args[0]), (None, None))[0]
            dpre, dst = snaps.get(id(ev.receiver), (None, None))
        else:
            src = snaps.get(id(ev.receiver), (None, None))[0]
            dpre = snaps.get(id(ev.args[0]), (None, None))[0]
            dst = ev.result_snap
        if src is None or dpre is None or src.is_complex or dpre.is_complex:
            return
        if (src.scale == 1 and src.bias == 0) and (dpre.scale == 1 and dpre.bias == 0):
            return
        sa, da = affine_of(src), affine_of(dpre)
        if sa is None or da is None or da[0] == 0 or not (1 <= dpre.n_word <= 16 and -8 <= dpre.n_frac <= dpre.n_word + 8) or not (1 <= src.n_word <= 24):
            ctx.skip('equal/like:outside domain')
            return
        vals = [sa[0] * k * R.lsb(src.n_frac) + sa[1] for k in src.codes]
        us = [(v - da[1]) / da[0] for v in vals]
        if not all(is_double(v) and is_double(v - da[1]) and is_double(u) and is_double(u * F(2) ** dpre.n_frac) for v, u in zip(vals, us)):
            ctx.skip('equal/like:an intermediate is not an exact double')
            return
        if ev.exc is not None or dst is None:
            ctx.violation('raises', '%s between scaled objects raised %s' % (ev.op, type(ev.exc).__name__ if ev.exc else 'nothing but gave no object'), ev, key='scaled.store_raises')
            return
        want = [R.quantize(u, dpre.signed, dpre.n_word, dpre.n_frac, dpre.rounding, dpre.overflow)[0] for u in us]
        if dst.codes != want or dst.fmt() != dpre.fmt():
            ctx.violation('wrong_code', '%s: source %s (scale=%r, bias=%r) values %s into %s (scale=%r, bias=%r): stored %s, Q((v-b)/s) = %s' % (
                ev.op, R.dtype_fxp(*src.fmt()), src.scale, src.bias, [str(v) for v in vals[:3]], R.dtype_fxp(*dpre.fmt()), dpre.scale, dpre.bias, dst.codes[:3], want[:3]), ev)
        ctx.judged(('equal-like', ev.op, src.scale != 1 or src.bias != 0, dpre.scale != 1 or dpre.bias != 0), True, None, elements=len(want))
        ctx.floor_hit(('route', ev.op))
    return [store_judge, read_judge, resize_judge, equal_like_judge]


def floors(tier):
    return [('route', r) for r in ('constructor', 'call', 'setitem', 'set_val', 'equal', 'like')] + [('complex-value-odd-scale',), ('scaled-target-numpy-out',), ('inexact-fixed-point-source',), ('read-huge-integer-bias',), ('inference-tolerance',), ('numpy-parameters',), ('object-array-numpy-scalars',), ('parameter-by-value',), ('scaled-operand-huge-bias',)] + [('scaled-target', w_, m_) for w_ in ('out', 'out_like') for m_ in ('raw', 'repr')] + [('carrier', c) for c in ('int8', 'int16', 'int32', 'uint8', 'uint16', 'uint64', 'float32', 'float16', 'Fxp', 'Fxp-scaled', 'int', 'float', 'float64', 'list')] + [('read', 'get_val'), ('read', 'astype'), ('read', '__call__'), ('read', 'element'), ('inferred',), ('resize',), ('raw-then-read',)] + \
           [('params', True, False, True), ('params', False, False, True), ('params', True, True, False), ('params', True, False, False), ('params', False, False, False)]


def cases(tier, seed):
    n = 2500 if tier == 'quick' else 50000
    for i in range(n):
        yield {'k': 'sc', 'i': i}


def _try(f):
    try:
        return f()
    except Exception:
        return None


def _fresh(x):
    x.reset()       # (the value the object was built with - 0 - need not be representable through the scale: its flag is not the next write's)
    return x


def run_case(case, ctx):
    Fxp = ctx.mon.Fxp
    rng = ctx.rng_for('sc', case['i'])
    i = case['i']
    s, w, nf = G.core_format(rng, max_word=16)
    w = min(w, 16)
    nf = max(-8, min(nf, w + 8))
    r, o = G.MODES[i % 10]
    # dyadic scale (also negative, also 1) and dyadic bias (also 0), given as int or float
    j = rng.choice([0, 0, 1, 2, 3])
    sc = F(rng.choice([1, 1, 2, 3, 4, 5, -1, -2, -3, 8]), 2 ** j)
    bi = F(rng.choice([0, 0, 1, -1, 3, -27, 5, 100]), 2 ** rng.choice([0, 0, 1, 2]))
    if i % 7 == 0:
        sc = F(1)
    if i % 11 == 0:
        bi = F(0)
    if sc == 1 and bi == 0:
        bi = F(3)
    scale = int(sc) if sc.denominator == 1 and rng.random() < 0.6 else float(sc)
    bias = int(bi) if bi.denominator == 1 and rng.random() < 0.6 else float(bi)
    us = G.hostile_scaled_values(rng, s, w, nf, n=6)
    vs = []
    for u in us:
        v = u * sc + bi
        if G.can_carry(v, 'pyfloat') and G.can_carry(v - bi, 'pyfloat') and G.can_carry(u, 'pyfloat') and abs(v) < 2 ** 50:
            vs.append(v)
    if not vs:
        vs = [bi]

    def inp(v):
        return int(v) if (v.denominator == 1 and rng.random() < 0.5) else float(v)
    kw = dict(rounding=r, overflow=o, scale=scale, bias=bias)
    if i % 5 == 0:
        # complex values with a scale k / 2^j whose numerator is not a power of two: the transformed value (v - b) / s has short dyadic components (every
        # intermediate is an exact double); the stored code is their C01 quantization, no flag, and the value reads back exactly.  Workload-level
        # comparison (the event judges of this property decode real values only)
        kq = rng.choice([49, 75, 77, 91, 93, 98, 99, 103, 105, 107, 3, 7, 255])
        scq = F(kq, 2 ** rng.choice([0, 0, 2, 4]))
        biq = F(rng.choice([0, 0, 1, -3, 5]), 2 ** rng.choice([0, 1]))
        nfq = rng.choice([0, 0, 2])
        ca, cb = rng.randint(-100, 100), rng.randint(-100, 100)
        ua, ub = F(ca, 2 ** nfq), F(cb, 2 ** nfq)
        va, vb = ua * scq + biq, ub * scq
        if all(G.can_carry(t_, 'pyfloat') for t_ in (va, vb, va - biq, scq, biq)):
            vq = complex(float(va), float(vb))
            kwq = dict(rounding=r, overflow=o, scale=int(scq) if scq.denominator == 1 and rng.random() < 0.5 else float(scq), bias=int(biq) if biq.denominator == 1 and rng.random() < 0.5 else float(biq))
            for pos_, mk_ in ((0, lambda: Fxp(vq, True, 16, nfq, **kwq)), (1, lambda: Fxp(np.array([vq, vq]), True, 16, nfq, **kwq)), (0, lambda: Fxp([vq], True, 16, nfq, **kwq)),
                              (1, lambda: _fresh(Fxp(np.zeros(2, dtype=complex), True, 16, nfq, **kwq)).set_val(vq, index=1)), (0, lambda: _fresh(Fxp(0j, True, 16, nfq, **kwq))(vq))):
                try:
                    xq = mk_()
                    got_ = complex(np.asarray(xq.val).ravel().tolist()[pos_])
                    if (got_.real, got_.imag) != (float(ca), float(cb)) or xq.status['inaccuracy']:
                        ctx.violation('wrong_code', 'complex %r into fxp-s16/%d-complex scale=%r bias=%r %s/%s: stored code %r (inaccuracy %s), Q((v-b)/s) = (%d, %d) exactly' % (
                            vq, nfq, kwq['scale'], kwq['bias'], r, o, got_, xq.status['inaccuracy'], ca, cb), key='scaled.complex')
                except Exception as e_:
                    ctx.violation('raises', 'storing a complex value into a scaled object raised %s: %s' % (type(e_).__name__, str(e_)[:80]), key='scaled.store_raises')
            ctx.judged(('complex-scaled', kq, r), True, None)
            ctx.floor_hit(('complex-value-odd-scale',))
    x = _try(lambda: Fxp(inp(vs[0]), s, w, nf, **kw))
    if x is not None:
        _try(lambda: x.get_val())
        _try(lambda: x.astype(float))
        for v in vs[1:4]:
            _try(lambda: x(inp(v)))
            _try(lambda: x.get_val())
        _try(lambda: x.set_val(inp(vs[-1])))
        _try(lambda: x())
    if x is not None:
        # a raw code written into the scaled object: reads and limits keep the affine map
        lo_, hi_ = R.code_range(s, w)
        kraw = rng.randint(lo_, hi_)
        _try(lambda: x.set_val(kraw, raw=True))
        _try(lambda: x.get_val())
        _try(lambda: x.astype(float))
        ctx.floor_hit(('raw-then-read',))
        y2 = _try(lambda: Fxp(kraw, s, w, nf, raw=True, **kw))
        if y2 is not None:
            _try(lambda: y2.get_val())
        # resizes of a scaled object (value preserved / re-quantized, limits re-mapped)
        xr = _try(lambda: Fxp(inp(vs[0]), s, w, nf, **kw))
        if xr is not None:
            _try(lambda: xr.resize(s, min(20, w + 2), max(-8, nf + rng.choice([-2, -1, 1, 2]))))
            _try(lambda: xr.get_val())
            _try(lambda: xr.resize(n_frac=max(-8, xr.n_frac - 1)))
            _try(lambda: xr.get_val())
            _try(lambda: xr.resize(dtype=R.dtype_fxp(s, max(2, min(20, w + 1)), max(-8, nf))))
            _try(lambda: xr.astype(float))
    # inferred sizes under another tolerance (max_error) of the fraction-length search: a scaled object is sized like the plain object holding (v - b)/s
    if i % 4 == 1 and sc != 1:
        me = rng.choice([2.0 ** -6, 2.0 ** -10, 2.0 ** -4])
        uq = F(rng.randint(-200, 200), 2 ** rng.randint(3, 12))
        vq = uq * sc + bi
        if G.can_carry(vq, 'pyfloat') and G.can_carry(uq, 'pyfloat') and G.can_carry(vq - bi, 'pyfloat'):
            ctx.mon.enabled = False
            try:
                a_ = _try(lambda: Fxp(float(vq), scale=scale, bias=bias, max_error=me))
                b_ = _try(lambda: Fxp(float(uq), max_error=me))
            finally:
                ctx.mon.enabled = True
            if a_ is not None and b_ is not None:
                fa, fb = (a_.signed, a_.n_word, a_.n_frac), (b_.signed, b_.n_word, b_.n_frac)
                ca, cb = int(np.asarray(a_.val).item()), int(np.asarray(b_.val).item())
                if fa != fb or ca != cb or bool(a_.status['inaccuracy']) != bool(b_.status['inaccuracy']):
                    ctx.violation('inference', 'Fxp(%s, scale=%r, bias=%r, max_error=%r) is %s code %d (inexact=%s); the plain object for (v-b)/s = %s is %s code %d (inexact=%s)' % (
                        float(vq), scale, bias, me, R.dtype_fxp(*fa), ca, a_.status['inaccuracy'], float(uq), R.dtype_fxp(*fb), cb, b_.status['inaccuracy']))
                ctx.judged(('inference-tolerance', sc > 0, bi == 0), True, None)
                ctx.floor_hit(('inference-tolerance',))
    # equal() and like() between plain and scaled objects (either side, both sides)
    if x is not None and i % 3 == 0:
        plain = _try(lambda: Fxp(float(us[0]) if G.can_carry(us[0], 'pyfloat') else 0.0, s, w, nf, rounding=r, overflow=o))
        other = _try(lambda: Fxp(inp(vs[0]), s, min(16, w + 2), nf, rounding=r, overflow=o, scale=float(sc) * 2, bias=bias))
        xs_ = _try(lambda: Fxp(inp(vs[1 % len(vs)]), s, w, nf, **kw))
        for srcf, dstf in ((plain, xs_), (xs_, plain), (other, xs_), (xs_, other)):
            if srcf is not None and dstf is not None:
                d1 = _try(lambda: dstf.deepcopy())
                if d1 is not None:
                    _try(lambda: d1.equal(srcf))
                    _try(lambda: d1.get_val())
                _try(lambda: srcf.like(dstf))
    # integer valued objects with an integer bias next to the limits of 64 bits: the value read is scale*code + bias, in python integers if need be
    if i % 50 == 7:
        for code, b_ in ((2048, 2 ** 63 - 2 ** 11), (-2048, -2 ** 63), (100, 2 ** 63), (5, 2 ** 62), (2048, np.int64(2 ** 63 - 2 ** 11)), (7, np.int64(2 ** 62))):
            xb = _try(lambda: Fxp(code + int(b_), True, 16, 0, bias=b_))
            if xb is not None:
                _try(lambda: xb())
                _try(lambda: xb.get_val())
            xa = _try(lambda: Fxp([code + int(b_), int(b_)], True, 16, 0, bias=b_))
            if xa is not None:
                _try(lambda: xa.get_val())
                _try(lambda: xa.get_val(index=0))
                _try(lambda: xa[0]())
                _try(lambda: xa.get_val(item=0))
        for sc_, b_ in ((2 ** 48, 2.0 ** 50), (np.int64(2 ** 48), 2.0 ** 50), (-(2 ** 49), 0.5), (2 ** 50, 2 ** 51)):
            xs_ = _try(lambda: Fxp(None, False, 16, 0, scale=sc_, bias=b_))
            if xs_ is not None:
                _try(lambda: xs_.set_val([65535, 1, 40000], raw=True))
                _try(lambda: xs_.get_val())
                _try(lambda: xs_.astype(float))
                _try(lambda: xs_.astype(int))
                _try(lambda: xs_.astype(int, item=0))
                _try(lambda: xs_[0]())
        ctx.floor_hit(('read-huge-integer-bias',))
    arr = [float(v) for v in (vs * 3)[:3]]
    a = _try(lambda: Fxp(np.array(arr), s, w, nf, **kw))
    if a is not None:
        _try(lambda: a.get_val())
        _try(lambda: a.astype(float))
        _try(lambda: a.__setitem__(1, inp(vs[0])))
        _try(lambda: a.get_val())
        _try(lambda: a.get_val(index=1))
        _try(lambda: a.get_val(item=2))
        _try(lambda: a[0]())
        _try(lambda: a.astype(float, index=2))
    ia = [int(v) for v in vs if v.denominator == 1][:3]
    if ia:
        b = _try(lambda: Fxp(ia, s, w, nf, **kw))
        if b is not None:
            _try(lambda: b.get_val())
            _try(lambda: b.astype(float))
            _try(lambda: b())
            _try(lambda: b.get_val(index=0))
            _try(lambda: b[len(ia) - 1]())
            _try(lambda: b.get_val(item=0))
    # narrow / unsigned NumPy carriers (the affine conversion must not be calculated in the carrier's own type)
    if i % 3 == 0:
        for tname in ('int8', 'int16', 'int32', 'uint8', 'uint16', 'uint32', 'uint64', 'float32', 'float16'):
            dt = np.dtype(tname)
            if dt.kind in 'iu':
                info = np.iinfo(dt)
                cand = [v for v in vs if v.denominator == 1 and info.min <= v <= info.max]
                # values of the carrier for which v - b leaves the carrier's own range or sign
                extra = [F(t) for t in (info.min, info.max, 0, 3, info.max // 2 + 1) if abs(F(t) - bi) < 2 ** 50]
                cand = (cand + [rng.choice(extra)] + extra[:1])[:3]
            else:
                cand = [v for v in vs if np.isfinite(dt.type(float(v))) and F(float(dt.type(float(v)))) == v][:3]
            if not cand:
                continue
            k = rng.randrange(4)
            xs = _try(lambda: Fxp(None, s, w, nf, **kw))
            if k == 0:
                _try(lambda: Fxp(np.array([dt.type(c) for c in cand], dtype=dt), s, w, nf, **kw))
            elif k == 1:
                _try(lambda: Fxp(dt.type(cand[0]), s, w, nf, **kw))
            elif k == 2:
                _try(lambda: Fxp([dt.type(c) for c in cand], s, w, nf, **kw))
            elif xs is not None:
                _try(lambda: xs(dt.type(cand[0])))
                _try(lambda: xs.set_val(np.array([dt.type(c) for c in cand], dtype=dt)))
            if xs is not None and k != 3:
                _try(lambda: xs(np.array([dt.type(c) for c in cand], dtype=dt)))
    # fixed-point values stored into a scaled object, and scaled objects stored into plain ones: the value is what is converted
    if i % 3 == 1:
        src_w = rng.randint(4, 16)
        src_nf = rng.randint(0, 6)
        slo, shi = R.code_range(True, src_w)
        src = _try(lambda: Fxp([rng.randint(slo, shi) for _ in range(3)], True, src_w, src_nf, raw=True))
        src0 = _try(lambda: Fxp(rng.randint(slo, shi), True, src_w, src_nf, raw=True))
        if src is not None and src0 is not None:
            # a source that carries the inaccuracy flag itself (its own value was rounded): the flag is handed on into a scaled destination like into a plain one
            inx = _try(lambda: Fxp([0.3, 1.0, -0.7], True, src_w, max(src_nf, 1)))
            inx0 = _try(lambda: Fxp(0.3, True, src_w, max(src_nf, 1)))
            if inx is not None and inx0 is not None and inx.status['inaccuracy']:
                _try(lambda: Fxp(inx, True, 16, 8, **kw))
                _try(lambda: Fxp(inx0, True, 16, 8, **kw))
                dq = _try(lambda: Fxp([0.0, 0.0, 0.0], True, 16, 8, **kw))
                if dq is not None:
                    _try(lambda: dq.reset())
                    _try(lambda: dq.set_val(inx))
                    _try(lambda: dq.reset())
                    _try(lambda: dq.equal(inx))
                    _try(lambda: dq.reset())
                    _try(lambda: dq.__setitem__(1, inx0))
            _try(lambda: Fxp(src, s, w, nf, **kw))
            _try(lambda: Fxp(src0, s, w, nf, **kw))
            dst = _try(lambda: Fxp([0.0, 0.0, 0.0], s, w, nf, **kw))
            if dst is not None:
                _try(lambda: dst(src))
                _try(lambda: dst.get_val())
                _try(lambda: dst.set_val(src))
                _try(lambda: dst.__setitem__(1, src0))
                _try(lambda: dst.get_val())
            ssrc = _try(lambda: Fxp([rng.randint(slo, shi) for _ in range(3)], True, src_w, src_nf, raw=True, scale=scale, bias=bias))
            if ssrc is not None:
                _try(lambda: Fxp(ssrc, True, 24, 8, rounding=r, overflow=o))
                plain = _try(lambda: Fxp([0.0, 0.0, 0.0], True, 24, 8, rounding=r, overflow=o))
                if plain is not None:
                    _try(lambda: plain(ssrc))
                    _try(lambda: plain.get_val())
                _try(lambda: Fxp(ssrc, s, w, nf, rounding=r, overflow=o, scale=rng.choice([2, 0.5, -1]), bias=rng.choice([0, 1, -0.5])))
    # integer-only corner: unsigned, n_frac = 0, integer inputs, unit scale, negative integer bias (unsigned codes + negative bias)
    if i % 4 == 0:
        wu = rng.randint(1, 16)
        bneg = -rng.randint(1, 40)
        hi_u = (1 << wu) - 1
        ints = [rng.randint(0, hi_u) + bneg for _ in range(3)]
        for r2, o2 in (G.MODES[i % 10], G.MODES[(i + 5) % 10]):
            c = _try(lambda: Fxp(ints, False, wu, 0, bias=bneg, rounding=r2, overflow=o2))
            if c is not None:
                _try(lambda: c.get_val())
                _try(lambda: c())
                _try(lambda: c.get_val(index=0))
                _try(lambda: c[1]())
                _try(lambda: c.get_val(item=2))
                _try(lambda: c.astype(float))
                _try(lambda: c.__setitem__(0, ints[2] + 1))
                _try(lambda: c.get_val(index=0))
            d1 = _try(lambda: Fxp(ints[0], False, wu, 0, bias=bneg, scale=rng.choice([1, -1, 2])))
            if d1 is not None:
                _try(lambda: d1.get_val())
                _try(lambda: d1())
    # size inference sizes the transformed value
    dy = [v for v in vs if abs(((v - bi) / sc).numerator) < 2 ** 30 and ((v - bi) / sc).denominator <= 2 ** 16]
    if dy:
        sg = rng.choice([None, True])
        z = _try(lambda: Fxp(float(dy[0]), signed=sg, scale=scale, bias=bias) if sg is not None else Fxp(float(dy[0]), scale=scale, bias=bias))
        if z is not None:
            _try(lambda: z.get_val())
        # integer-typed inputs (python int, numpy integer, integer array, list) whose transformed value is not an integer
        iv = [v for v in dy if v.denominator == 1]
        if iv:
            for val in (int(iv[0]), np.int64(int(iv[0])), np.array([int(v) for v in iv[:3]]), [int(v) for v in iv[:2]]):
                z = _try(lambda: Fxp(val, scale=scale, bias=bias))
                if z is not None:
                    _try(lambda: z.get_val())
            _try(lambda: Fxp(int(iv[0]), n_word=rng.randint(8, 16), scale=scale, bias=bias))
    # parameters given as NumPy numbers (np.float32 / np.float16 scale or bias, NumPy integers up to the limits of int64), object arrays holding
    # NumPy scalars as carriers: nothing is calculated in the parameter's or the carrier's own narrow type
    if i % 3 == 2:
        np_scale = rng.choice([np.float32(float(sc)), np.float16(float(sc)), np.int8(int(sc)) if sc.denominator == 1 else np.float32(float(sc)), scale])
        np_bias = rng.choice([np.float32(float(bi)), np.float16(float(bi)) if abs(bi) < 1000 else np.float32(float(bi)), np.int16(int(bi)) if bi.denominator == 1 else np.float32(float(bi)), bias])
        if F(float(np_scale)) == sc and F(float(np_bias)) == bi:
            kwn = dict(rounding=r, overflow=o, scale=np_scale, bias=np_bias)
            xn = _try(lambda: Fxp(inp(vs[0]), s, w, nf, **kwn))
            if xn is not None:
                _try(lambda: xn.get_val())
                _try(lambda: xn(inp(vs[-1])))
                _try(lambda: xn.astype(float))
            an = _try(lambda: Fxp([float(v) for v in (vs * 3)[:3]], s, w, nf, **kwn))
            if an is not None:
                _try(lambda: an.get_val())
                _try(lambda: an.get_val(index=1))
                _try(lambda: an.astype(int, item=0))
                _try(lambda: an.get_val(int, item=1))
                _try(lambda: an.get_val(item=0))
                _try(lambda: an.astype(float, item=1))
                _try(lambda: an.get_val(item=2))
                _try(lambda: an[1]())
            # the same value held in a 0-dimensional object array (what the library itself builds around a long python integer)
            z0 = np.array(float(vs[0]), dtype=object)
            xz = _try(lambda: Fxp(None, s, w, nf, **kwn))
            if xz is not None:
                _try(lambda: xz.set_val(z0))
                _try(lambda: xz.get_val())
            _try(lambda: Fxp(np.array(0.5, dtype=np.float16) if False else inp(vs[0]), s, w, nf, rounding=r, overflow=o, scale=np.array(np_scale), bias=np.array(np_bias)))
            ctx.floor_hit(('numpy-parameters',))
        # a NumPy integer bias at the limits of int64 (its absolute value does not exist in int64)
        for b_ in (np.int64(-2 ** 63), np.int64(2 ** 63 - 1), np.int64(-2 ** 62)):
            _try(lambda: Fxp(rng.choice([0, 5, -7]), s, w, max(nf, 0) % 4, rounding=r, overflow=o, bias=b_))
            _try(lambda: Fxp(np.array([0, 5, -7]), True, 16, 0, rounding=r, overflow=o, bias=b_))
        # object arrays holding narrow NumPy scalars next to python numbers, the NumPy scalar first
        ints = [v for v in vs if v.denominator == 1 and -128 <= v <= 127]
        for first in ([np.int8(int(ints[0]))] if ints else []) + [np.int8(rng.choice([100, -100, 27])), np.uint8(rng.choice([163, 200, 5])), np.float32(1.5)]:
            if not all(G.can_carry(F(first.item()) - bi, 'pyfloat') and G.can_carry((F(first.item()) - bi) / sc, 'pyfloat') for _ in (0,)):
                continue
            oa = np.empty(2, dtype=object)
            oa[:] = [first, float(vs[0])]
            _try(lambda: Fxp(oa, s, w, nf, **kw))
            xo = _try(lambda: Fxp(None, s, w, nf, **kw))
            if xo is not None:
                _try(lambda: xo.set_val(oa))
                _try(lambda: xo.get_val())
            ctx.floor_hit(('object-array-numpy-scalars',))
    # results of arithmetic stored into a scaled target (out= / out_like=): the target takes the value of the result, by the integer method and
    # by the value method alike (workload-level check against the exact quantization of (result - b)/s)
    if i % 4 == 2:
        fm = ctx.mon.fxpmath
        wa, wb = rng.randint(3, 8), rng.randint(3, 8)
        fa, fb = rng.randint(0, 3), rng.randint(0, 3)
        loa, hia = R.code_range(True, wa)
        lob, hib = R.code_range(True, wb)
        ca, cb = [rng.randint(loa, hia) for _ in range(3)], [rng.randint(lob, hib) for _ in range(3)]
        opn = rng.choice(['add', 'sub', 'mul'])
        way = rng.choice(['out', 'out_like', 'numpy_out'])
        for meth in ('raw', 'repr'):
            try:
                xa_ = Fxp(ca, True, wa, fa, raw=True)
                xb_ = Fxp(cb, True, wb, fb, raw=True)
                t_ = Fxp(np.zeros(3) if way != 'out_like' else None, True, 16, rng.choice([2, 4, 6]), rounding=r, overflow=o, scale=scale, bias=bias)
                tf = (t_.signed, t_.n_word, t_.n_frac)
                if way == 'numpy_out':
                    # (NumPy hands out= over as a tuple)
                    if meth == 'repr':
                        continue
                    z_ = {'add': np.add, 'sub': np.subtract, 'mul': np.multiply}[opn](xa_, xb_, out=t_)
                    ctx.floor_hit(('scaled-target-numpy-out',))
                else:
                    z_ = getattr(fm, opn)(xa_, xb_, method=meth, **{way: t_})
                got = [int(k) for k in np.asarray(z_.val).ravel().tolist()]
            except Exception as ex:     # noqa
                ctx.violation('scaled_target_raises', '%s(..., %s=<scaled %s>, method=%r) raised %s: %s' % (opn, way, R.dtype_fxp(True, 16, 0), meth, type(ex).__name__, str(ex)[:100]), key='scaled.target_raises')
                continue
            ex_vals = [{'add': a_ * R.lsb(fa) + b_ * R.lsb(fb), 'sub': a_ * R.lsb(fa) - b_ * R.lsb(fb), 'mul': a_ * R.lsb(fa) * b_ * R.lsb(fb)}[opn] for a_, b_ in zip(ca, cb)]
            us_ = [(v - bi) / sc for v in ex_vals]
            if not all(is_double(v) and is_double(v - bi) and is_double(u) and is_double(u * F(2) ** tf[2]) for v, u in zip(ex_vals, us_)):
                ctx.skip('scaled target:an intermediate is not an exact double')
                continue
            exp = [R.overflow_exact(R.round_exact(u * F(2) ** tf[2], r), True, 16, o) for u in us_]
            if got != exp:
                ctx.violation('scaled_target', '%s of %s codes %s and %s codes %s into %s=<s16/%d scale=%r bias=%r %s/%s> by method %r: codes %s, Q((result - b)/s) = %s' % (
                    opn, R.dtype_fxp(True, wa, fa), ca, R.dtype_fxp(True, wb, fb), cb, way, tf[2], scale, bias, r, o, meth, got, exp), key='scaled.target')
            ctx.judged(('scaled-target', opn, way, meth), True, None, elements=3)
            if way != 'numpy_out':
                ctx.floor_hit(('scaled-target', way, meth))
    # a 0-dimensional array given as parameter is taken by value (changing the caller's array later changes nothing), and the value of a scaled
    # operand enters arithmetic whatever its magnitude: an integer bias of 2^50 / next to 2^63 makes sums and products that leave int64 - they
    # saturate on their own side
    if i % 5 == 3:
        s0, b0 = np.array(float(sc)), np.array(float(bi))
        xv = _try(lambda: Fxp(inp(vs[0]), s, w, nf, rounding=r, overflow=o, scale=s0, bias=b0))
        if xv is not None:
            try:
                before = (repr(xv.get_val()), repr(xv.upper), repr(xv.lower))
                s0[()] = float(sc) * 2 + 1
                b0[()] = float(bi) - 3
                after = (repr(xv.get_val()), repr(xv.upper), repr(xv.lower))
            except Exception:
                before = after = None
            if before != after:
                ctx.violation('parameter_shared', 'scale / bias given as 0-dimensional arrays: after the caller changes the arrays the object reads %s (before: %s)' % (after, before), key='scaled.parameter_shared')
            ctx.judged(('parameter-by-value',), True, None)
            ctx.floor_hit(('parameter-by-value',))
        for big_b in (2 ** 50, 2 ** 63 - 15, -(2 ** 62)):
            for opn in ('mul', 'add', 'sub'):
                try:
                    ka, kb = rng.randint(20000, 32767), rng.randint(1, 9)
                    xa_ = Fxp(ka, True, 16, 0)
                    yb_ = Fxp(kb + big_b, True, 16, 0, bias=big_b)
                    order = rng.random() < 0.5
                    a_, b_ = (xa_, yb_) if order else (yb_, xa_)
                    z_ = {'mul': lambda: a_ * b_, 'add': lambda: a_ + b_, 'sub': lambda: a_ - b_}[opn]()
                    va, vb = (ka, kb + big_b) if order else (kb + big_b, ka)
                    exact = {'mul': va * vb, 'add': va + vb, 'sub': va - vb}[opn]
                    code = int(np.asarray(z_.val).item())
                    lo_, hi_ = R.code_range(z_.signed, z_.n_word)
                    scaled_exact = F(exact) * F(2) ** z_.n_frac
                except Exception as ex:     # noqa
                    ctx.violation('scaled_operand_raises', '%s with a scaled operand (integer bias %d) raised %s: %s' % (opn, big_b, type(ex).__name__, str(ex)[:100]), key='scaled.operand_raises')
                    continue
                if z_.scaled:
                    continue
                if scaled_exact > hi_ and (code != hi_ or not z_.status['overflow'] or z_.status['underflow']):
                    ctx.violation('scaled_operand_side', '%s of 16-bit operands, one with bias %d: exact result %d is above the range of %s, stored %d, flags %r' % (
                        opn, big_b, exact, z_.dtype, code, {k_: v_ for k_, v_ in z_.status.items() if k_ != 'extended_prec'}), key='scaled.operand_side')
                elif scaled_exact < lo_ and (code != lo_ or not z_.status['underflow'] or z_.status['overflow']):
                    ctx.violation('scaled_operand_side', '%s of 16-bit operands, one with bias %d: exact result %d is below the range of %s, stored %d, flags %r' % (
                        opn, big_b, exact, z_.dtype, code, {k_: v_ for k_, v_ in z_.status.items() if k_ != 'extended_prec'}), key='scaled.operand_side')
                elif lo_ <= scaled_exact <= hi_ and scaled_exact.denominator == 1 and code != scaled_exact:
                    ctx.violation('scaled_operand_value', '%s of 16-bit operands, one with bias %d: exact result %d fits %s, stored code %d' % (opn, big_b, exact, z_.dtype, code), key='scaled.operand_value')
                ctx.judged(('scaled-operand', opn, order), True, None)
                ctx.floor_hit(('scaled-operand-huge-bias',))
