"""C18 - extended precision: words of 64+ bits store and render integers bit-exactly."""
from fractions import Fraction as F

import numpy as np

from .. import refmodel as R
from .. import gen as G
from ..exact import Unsupported
from ..storejudge import decode_store, STORE_OPS
from . import c11, c13
from .c03 import _pyint_carrier

ID = 'C18'
TECHNIQUE = 'runtime monitoring: wide (64..256 bit) store events judged against exact integer saturate / wrap and flags; C11 and C13 judges re-used on wide objects; extended_prec indicator monitor'
TITLE = 'extended precision (64..256 bits) bit-exact'
RULE = ('events on objects with n_word in 64..256: stores of Python integers (raw=True codes, or integer values with v*2^n_frac integral) must give exactly '
        'saturate/wrap of the integer with exact overflow/underflow flags and Python-int codes; full-width bin/hex strings in raw mode restore their code '
        '(C11 parse oracle); bin()/hex() are the exact images (C11 render oracle); ~ & | ^ are exact (C13 oracle); status[extended_prec] == (n_word>=64) '
        'after construction, after resize across the boundary in both directions and after reset(). Key = (word class, fraction class, signedness, '
        'overflow, route, code class); non-trivial = code class != in, or the code has bits set above bit 63.')
DECIDING_OPS = ['__init__', 'set_val', 'bin', 'hex', '__invert__', ('__and__', '__or__', '__xor__'), 'resize', 'reset']
ANCHORS = ['objects.Fxp.set_val', 'utils.wrap', 'utils.int_array', 'objects.Fxp.resize', 'objects.Fxp.reset']
SHARDS = {'quick': 16, 'thorough': 16}
WIDTHS = (64, 65, 66, 72, 96, 127, 128, 129, 200, 256)


def _pyint_carrier_mixed(c):
    """python-integer carriers (C03's rule), and lists / tuples that hold NumPy integers next to python integers: the python integers in them are
    stored bit-exactly like any other"""
    if _pyint_carrier(c):
        return True
    if isinstance(c, (list, tuple)) and len(c) > 0:
        flat = []
        for x in c:
            flat.extend(x if isinstance(x, (list, tuple)) else [x])
        return all(isinstance(x, (int, np.integer)) and not isinstance(x, (bool, np.bool_)) for x in flat) and any(type(x) is int for x in flat)
    return False


def make_judges(ctx):
    mon = ctx.mon
    Fxp = mon.Fxp

    def wide_store_judge(ev):
        if ev.op not in STORE_OPS or ev.kind != 'method':
            return
        try:
            si = decode_store(ev, allow_raw=True)
        except Unsupported as e:
            ctx.skip('store:' + str(e))
            return
        if si is None or si.is_complex:
            return
        post = si.post or si.pre
        if post is None:
            d = si.init_args or {}
            if ev.exc is not None and isinstance(d.get('n_word'), int) and 64 <= d['n_word'] <= 256 and _pyint_carrier_mixed(si.carrier):
                ctx.violation('raises', 'storing a Python integer into a %d-bit word raised %s: %s' % (d['n_word'], type(ev.exc).__name__, str(ev.exc)[:100]), ev, key='wide.raises')
            return
        if not (64 <= post.n_word <= 256) or post.scaled or post.is_complex:
            return
        if not _pyint_carrier_mixed(si.carrier):
            ctx.skip('store:not a Python-integer carrier')
            return
        nf = 0 if si.raw else post.n_frac
        sc = F(2) ** nf
        xs = [v * sc for v in si.values]
        if any(x.denominator != 1 for x in xs):
            ctx.skip('store:integer value not a multiple of the LSB')
            return
        if si.index is not None:
            ctx.skip('store:indexed')
            return
        if ev.exc is not None:
            ctx.violation('raises', 'storing %s into %s raised %s: %s' % ([str(v)[:30] for v in si.values[:2]], R.dtype_fxp(*post.fmt()), type(ev.exc).__name__, str(ev.exc)[:100]), ev,
                          key='wide.raises')
            return
        lo, hi = R.code_range(post.signed, post.n_word)
        m = 1 << post.n_word
        over = under = False
        exp = []
        classes = set()
        for x in xs:
            k = x.numerator
            over |= k > hi
            under |= k < lo
            exp.append(R.overflow_exact(k, post.signed, post.n_word, post.overflow))
            if k in (lo, hi):
                classes.add('at-bound')
            elif k in (lo - 1, hi + 1):
                classes.add('beyond-1')
            elif k % m == 0 and k != 0:
                classes.add('modulus')
            elif lo <= k <= hi:
                classes.add('in-high' if abs(k) >> 63 else 'in')
            else:
                classes.add('far')
        if si.post.codes != exp or tuple(si.post.shape) != tuple(si.shape):
            i = next((i for i, (a, b) in enumerate(zip(si.post.codes, exp)) if a != b), 0)
            ctx.violation('wrong_code', '%s %s%s: integer %s stored as %r, exact %s gives %d' % (R.dtype_fxp(*post.fmt()), post.overflow, ' raw' if si.raw else '',
                          str(si.values[i])[:60], si.post.codes[i] if i < len(si.post.codes) else None, post.overflow, exp[i]), ev)
        elif not si.post.ints_ok:
            ctx.violation('code_type', 'stored code of type %s in a %d-bit object' % (si.post.bad_type, post.n_word), ev)
        else:
            pre_status = si.pre.status if (si.pre is not None and ev.op != '__init__') else {}
            eo = over or bool(pre_status.get('overflow'))
            eu = under or bool(pre_status.get('underflow'))
            if bool(si.post.status.get('overflow')) != eo or bool(si.post.status.get('underflow')) != eu:
                ctx.violation('flags', '%s: overflow=%s underflow=%s, expected %s/%s' % (R.dtype_fxp(*post.fmt()), si.post.status.get('overflow'), si.post.status.get('underflow'), eo, eu), ev)
        first = True
        for c in sorted(classes):
            key = (G.word_class(post.n_word), G.frac_class(post.n_word, post.n_frac), 's' if post.signed else 'u', post.overflow, si.route + ('.raw' if si.raw else ''), c)
            if first:
                ctx.judged(key, c != 'in', {'op': ev.op, 'format': R.dtype_fxp(*post.fmt()), 'overflow': post.overflow, 'raw': si.raw, 'input': str(si.values[0])[:80],
                                            'code': str(si.post.codes[0])[:80]} if ctx.want_sample() and c != 'in' else None, elements=len(xs))
                first = False
            elif c != 'in':
                ctx.keys.add(repr(key))
        ctx.floor_hit(('store', post.n_word, post.overflow))
        ctx.floor_hit(('route', si.route + ('.raw' if si.raw else '')))

    def extprec_judge(ev):
        if ev.kind != 'method' or ev.op not in ('__init__', 'resize', 'reset', '__getitem__', 'like', 'deepcopy') or ev.exc is not None:
            return
        post = ev.post[0] if ev.post else None
        pre = ev.pre[0] if ev.pre else None
        if ev.op in ('__getitem__', 'like', 'deepcopy'):
            post = ev.result_snap
        if post is None:
            return
        if not (post.n_word >= 54 or (pre is not None and pre.n_word >= 54)):
            return
        if 'extended_prec' not in post.status:
            ctx.violation('status_record', 'status record without extended_prec after %s: %r' % (ev.op, post.status), ev, key='status.reset_drops_key')
        elif bool(post.status['extended_prec']) != (post.n_word >= 64):
            ctx.violation('extended_prec', 'after %s the object %s reports extended_prec=%s' % (ev.op, R.dtype_fxp(*post.fmt()), post.status['extended_prec']), ev)
        crossing = pre is not None and (pre.n_word >= 64) != (post.n_word >= 64)
        ctx.judged(('extended_prec', ev.op, post.n_word >= 64, crossing), True, None)
        ctx.floor_hit(('extprec', ev.op, post.n_word >= 64))
    j11 = c11.make_judges(ctx)
    j13 = c13.make_judges(ctx)

    def only_wide(j):
        def w(ev):
            s = (ev.post[0] if ev.post else None) or (ev.pre[0] if ev.pre else None) or ev.result_snap
            if s is not None and s.n_word >= 64:
                j(ev)
        w.__name__ = getattr(j, '__name__', 'judge') + '_wide'
        return w
    return [wide_store_judge, extprec_judge] + [only_wide(j) for j in j11 + j13]


def floors(tier):
    cells = [('store', n, o) for n in WIDTHS for o in ('saturate', 'wrap')]
    cells += [('route', r) for r in ('constructor.raw', 'constructor', 'set_val.raw', 'set_val', 'call')]
    cells += [('extprec', op, b) for op in ('__init__', 'resize', 'reset') for b in (True, False)] + [('extprec', '__getitem__', True), ('extprec', 'like', True), ('extprec', 'like', False)]
    cells += [('render', 'bin'), ('render', 'hex'), ('parse', 'bin', 'constructor', 'raw'), ('parse', 'hex', 'constructor', 'raw'), ('parse', 'bin', 'set_val', 'raw'),
              ('not', '-'), ('and', 'Fxp'), ('or', '+mask'), ('xor', '-mask'), ('list-numpy-and-python-integers',), ('render-store-render',), ('bitwise-non-row-major',)]
    return cells


def cases(tier, seed):
    n = 1500 if tier == 'quick' else 40000
    for i in range(n):
        yield {'k': 'wide', 'i': i}


def _try(f):
    try:
        return f()
    except Exception:
        return None


def run_case(case, ctx):
    Fxp = ctx.mon.Fxp
    rng = ctx.rng_for('wide', case['i'])
    i = case['i']
    n = WIDTHS[i % len(WIDTHS)]
    s = bool((i // 10) % 2)
    o = ('saturate', 'wrap')[(i // 20) % 2]
    nf = rng.choice([0, 1, n // 2, n - 1, n])
    lo, hi = R.code_range(s, n)
    m = 1 << n

    def code():
        c = rng.choice(['bound', 'beyond', 'mult', 'rand', 'in', 'in'])
        if c == 'bound':
            return rng.choice([lo, hi])
        if c == 'beyond':
            return rng.choice([lo - 1, hi + 1, lo - 2, hi + 2])
        if c == 'mult':
            return rng.choice([-3, -1, 1, 2, 5]) * m
        if c == 'rand':
            return rng.choice([-1, 1]) * rng.getrandbits(rng.randint(n - 2, 4 * n))
        return rng.randint(lo, hi)
    ks = [code() for _ in range(4)]
    x = None
    for k in ks[:3]:
        x = _try(lambda: Fxp(k, s, n, nf, raw=True, overflow=o))
        # integer value: n_frac = 0, or a value that is a multiple of the LSB
        _try(lambda: Fxp(k, s, n, 0, overflow=o))
    y = _try(lambda: Fxp(None, s, n, nf, overflow=o))
    if y is not None:
        _try(lambda: y.set_val(ks[3], raw=True))
        _try(lambda: y.reset())
        _try(lambda: y.get_status())
    y0 = _try(lambda: Fxp(None, s, n, 0, overflow=o))
    if y0 is not None:
        _try(lambda: y0(ks[0]))
        _try(lambda: y0.set_val(ks[1]))
    _try(lambda: Fxp([ks[0], ks[1]], s, n, nf, raw=True, overflow=o))
    _try(lambda: Fxp([[ks[0], 1], [-1 if s else 0, ks[2]]], s, n, nf, raw=True, overflow=o))
    # lists / tuples that hold NumPy integers next to python integers beyond 64 bits (numpy would choose float64 for them)
    _try(lambda: Fxp([np.int64(-1 if s else 1), ks[0]], s, n, nf, raw=True, overflow=o))
    _try(lambda: Fxp((np.int8(3), ks[1], np.uint64(2 ** 63 + 1)), s, n, 0, overflow=o))
    _try(lambda: Fxp([np.uint64(3), 2 ** 62 + 1 + rng.randint(0, 99)], s, n, nf, raw=True, overflow=o))
    _try(lambda: Fxp((np.uint64(5), -(2 ** 60) - 1 if s else 2 ** 60 + 1, 2 ** 53 + 1), s, n, 0, overflow=o))
    ctx.floor_hit(('list-numpy-and-python-integers',))
    # render / parse / bitwise at this width
    inr = [rng.choice([lo, hi, -1 if s else hi, 0, rng.randint(lo, hi), rng.randint(lo, hi)]) for _ in range(3)]
    for k in inr[:2]:
        z = Fxp(k, s, n, nf, raw=True, overflow=o)
        c11.roundtrip(ctx, z, s, n, nf)
        w2 = Fxp(inr[2], rng.random() < 0.5, n, 0, raw=True)
        _try(lambda: ~z)
        _try(lambda: z & w2)
        _try(lambda: z | w2)
        _try(lambda: z ^ w2)
        mk = rng.choice([1, -1]) * rng.getrandbits(n + 2)
        _try(lambda: z & mk)
        _try(lambda: z | mk)
        _try(lambda: z ^ mk)
    za = Fxp([inr[0], inr[1], inr[2]], s, n, nf, raw=True)
    c11.roundtrip(ctx, za, s, n, nf)
    _try(lambda: ~za)
    # two-dimensional arrays of python integers that are not C-contiguous (a transposed view, Fortran order): every code stays at its own position
    oa = np.empty(6, dtype=object)
    oa[:] = [hi, 1, lo, inr[0], inr[1], 0]
    oa = oa.reshape(2, 3)
    for arr_ in (oa.T, np.asfortranarray(oa), oa[:, ::-1]):
        _try(lambda: Fxp(arr_, s, n, nf, raw=True, overflow=o))
        yz = Fxp(None, s, n, nf, overflow=o)
        _try(lambda: yz.set_val(arr_, raw=True))
        if nf == 0:
            _try(lambda: Fxp(arr_, s, n, 0, overflow=o))
    zb = Fxp([[hi, 1], [lo, inr[0]]], s, n, nf, raw=True)        # codes beyond 2^63 next to short ones
    c11.roundtrip(ctx, zb, s, n, nf)
    # the same rendering asked twice with an indexed store (in place) in between, by three store routes: the second rendering shows the new code
    zr = Fxp([inr[0], inr[1], inr[2]], s, n, nf, raw=True)
    for store_ in (lambda: zr.__setitem__(1, Fxp(inr[2], s, n, nf, raw=True)), lambda: zr.set_val(inr[0], raw=True, index=2), lambda: zr[0:2].set_val(inr[1], raw=True, index=0)):
        _try(lambda: zr.bin())
        _try(lambda: zr.hex())
        _try(store_)
        _try(lambda: zr.bin())
        _try(lambda: zr.hex())
        _try(lambda: zr.bin(frac_dot=True))
    ctx.floor_hit(('render-store-render',))
    # bitwise operators on two-dimensional operands that are not stored row-major (transposes, a reversed view), against arrays, rows and lists of masks
    ob = np.empty(6, dtype=object)
    ob[:] = [rng.randint(lo, hi) for _ in range(6)]
    xt, yt = Fxp(oa, s, n, nf, raw=True), Fxp(ob.reshape(2, 3), s, n, 0, raw=True)
    for f_ in (lambda: xt.T & yt.T, lambda: xt.T | yt.T, lambda: xt.T ^ yt.T, lambda: xt.T & [inr[0], -1 if s else hi], lambda: xt.T ^ np.array([inr[1], inr[2]], dtype=object),
               lambda: xt[:, ::-1] | yt, lambda: xt & yt[:, ::-1], lambda: ~(xt.T), lambda: xt.T & yt.T[0]):
        _try(f_)
    ctx.floor_hit(('bitwise-non-row-major',))
    # objects derived from a wide one keep the indicator
    wide = Fxp([inr[0], inr[1]], s, n, nf, raw=True)
    _try(lambda: Fxp(inr[2], like=wide, raw=True))
    _try(lambda: Fxp(None, like=wide))
    _try(lambda: wide[0])
    _try(lambda: wide[1:])
    _try(lambda: wide.deepcopy())
    _try(lambda: Fxp(3, s, 16, 0).like(wide))
    _try(lambda: Fxp(inr[0], s, n, nf, raw=True).like(Fxp(None, s, 32, 0)))
    # a new object built like a wide template whose own overflow / underflow flags are raised: its flags are those of its own store
    ref = _try(lambda: Fxp(hi + 5, s, n, nf, raw=True, overflow=o))
    if ref is not None:
        _try(lambda: ref.set_val(lo - 7, raw=True))
        _try(lambda: Fxp(inr[0], like=ref, raw=True))
        _try(lambda: Fxp([inr[1], inr[2]], like=ref, raw=True))
    # the indicator does not depend on the configured maximum for inferred words
    for nwm, ww in ((128, 60), (128, 64), (128, 100), (32, 40), (32, 63), (32, 64), (256, n)):
        tm = _try(lambda: Fxp(3, s, ww, 0, n_word_max=nwm))
        if tm is not None:
            _try(lambda: tm.resize(s, 64 if ww < 64 else 63, 0))
            _try(lambda: tm.reset())
            _try(lambda: tm.resize(s, ww, 0))
    # extended_prec indicator across the boundary, both directions
    t = Fxp(3, s, 60, 0)
    _try(lambda: t.resize(s, n, 0))
    _try(lambda: t.reset())
    _try(lambda: t.resize(s, 63, 0))
    _try(lambda: t.reset())
    _try(lambda: t.resize(s, 64, 0))
    u = Fxp(5, s, n, 0)
    _try(lambda: u.resize(s, 32, 0))
