"""C19 - no silent wrap at the 64-bit machine boundary in arithmetic or in storing."""
from fractions import Fraction as F

import numpy as np

from .. import refmodel as R
from .. import gen as G
from .. import arith as A
from ..exact import Unsupported
from ..storejudge import decode_store, expected_post_codes, STORE_OPS
from . import c07

ID = 'C19'
TECHNIQUE = 'runtime monitoring: + - * events at the 53 / 64-bit transition and huge-integer stores judged against exact ints; integer-code-type monitor (U4); sys.monitoring taps on the raw kernels for diagnostics'
TITLE = 'no silent wrap at 53/64 bits'
RULE = ('arithmetic events + - * with optimal sizing whose documented result word is 54..256 bits (operand words 2..70, any signedness mix): result values must '
        'equal the exact integers/Fractions computed from the PRE operand codes, format = growth rule, overflow/underflow clear, codes Python/NumPy integers '
        '(never floats); store events of scalar Python integers of any size (up to 2^1000) into formats of 1..52 bits with 0<=n_frac<=n_word+3 by constructor, '
        'call, set_val and indexed assignment must store refmodel.quantize(v) and raise nothing. Key = (op, signedness pair, width class, code class) and '
        '(store route, overflow, magnitude class); every key is non-trivial (the whole domain is the transition zone).')
DECIDING_OPS = [('__add__', 'add'), ('__sub__', 'sub'), ('__mul__', 'mul'), '__init__', '__call__', 'set_val', '__setitem__']
ANCHORS = ['functions.add.<locals>._add_raw', 'functions.sub.<locals>._sub_raw', 'functions.mul.<locals>._mul_raw', 'functions._raw_cast', 'objects.Fxp.set_val', 'utils.wrap']
SHARDS = {'quick': 16, 'thorough': 16}


def width_class(x, y, res_word):
    a, b = x.n_word >= 64, y.n_word >= 64
    if a and b:
        return 'both>=64'
    if a or b:
        return 'one>=64'
    return 'both<64->%s' % ('>=64' if res_word >= 64 else '54..63')


def make_judges(ctx):
    mon = ctx.mon

    def arith_judge(ev):
        ai = A.decode_arith(ev, mon)
        if ai is None or ai.op not in ('add', 'sub', 'mul'):
            return
        if ai.sizing != 'optimal' or ai.out is not None or ai.out_like is not None or ai.x is None or ai.y is None:
            return
        x, y = ai.x, ai.y
        if not (A.usable(x) and A.usable(y)):
            return
        if not (2 <= x.n_word <= 70 and 2 <= y.n_word <= 70 and 0 <= x.n_frac <= x.n_word and 0 <= y.n_frac <= y.n_word):
            ctx.skip('arith:operand outside words 2..70 / n_frac 0..n_word')
            return
        efmt = A.optimal_format(ai.op, x.fmt(), y.fmt())
        if efmt[1] <= 53:
            ctx.skip('arith:result word <= 53 (C07)')
            return
        n0 = ctx.evaluations
        nv = len(ctx.violations)
        if c07.judge_optimal(ctx, ev, ai, max_word=256, min_word=54, who='C19'):
            res = ai.res
            if res is not None and ev.exc is None and not res.ints_ok and len(ctx.violations) == nv:
                ctx.violation('code_type', '%s %s %s: result holds a code of type %s' % (R.dtype_fxp(*x.fmt()), ai.op, R.dtype_fxp(*y.fmt()), res.bad_type), ev)
            mixed = x.signed != y.signed
            big = any(abs(k) > 2 ** 53 for k in x.codes + y.codes)
            ctx.keys.add(repr((ai.op, ('s' if x.signed else 'u') + ('s' if y.signed else 'u'), width_class(x, y, efmt[1]), 'big' if big else 'small', ai.route)))
            ctx.floor_hit((ai.op, width_class(x, y, efmt[1])))
            if mixed and big:
                ctx.floor_hit((ai.op, 'mixed>2^53'))

    def bigint_store_judge(ev):
        if ev.op not in STORE_OPS or ev.kind != 'method':
            return
        try:
            si = decode_store(ev)
        except Unsupported:
            return
        _seq = isinstance(si.carrier, (list, tuple)) and len(si.carrier) > 0 and all(type(c) is int for c in si.carrier) if si is not None else False
        if si is None or si.is_complex or not (isinstance(si.carrier, int) or _seq) or isinstance(si.carrier, bool):
            return
        _car = max(si.carrier, key=abs) if _seq else si.carrier     # (a list / tuple of python integers: judged as a whole, described by its largest element)
        post = si.post or si.pre
        if post is None:
            d = si.init_args or {}
            if ev.exc is not None and isinstance(d.get('n_word'), int) and 1 <= d['n_word'] <= 52 and isinstance(d.get('n_frac'), int) and 0 <= d['n_frac'] <= d['n_word'] + 3 \
                    and d.get('like') is None and d.get('dtype') is None and 'scale' not in d and 'bias' not in d:
                ctx.violation('store_raises', 'Fxp(%s..., n_word=%d, n_frac=%d) raised %s: %s' % (str(_car)[:24], d['n_word'], d['n_frac'], type(ev.exc).__name__, str(ev.exc)[:100]), ev,
                              key='store.int_raises')
            return
        if post.scaled or post.is_complex or not (1 <= post.n_word <= 52 and 0 <= post.n_frac <= post.n_word + 3):
            return
        if all(abs(v * F(2) ** (0 if si.raw else post.n_frac)) < 2 ** 62 and abs(v) < 2 ** 53 for v in si.values):
            return      # C01's own domain
        if ev.exc is not None:
            ctx.violation('store_raises', 'storing the integer %s... into %s (%s) raised %s: %s' % (str(_car)[:24], R.dtype_fxp(*post.fmt()), post.overflow, type(ev.exc).__name__, str(ev.exc)[:100]), ev,
                          key='store.int_raises')
            return
        try:
            codes, imag, shape, over, under, inexact, rounded = expected_post_codes(si)
        except Unsupported as e:
            ctx.skip('store:' + str(e))
            return
        if si.post.codes != codes:
            i = next((i for i, (a, b) in enumerate(zip(si.post.codes, codes)) if a != b), 0)
            ctx.violation('store_code', '%s %s via %s: integer %s... stored as %r, exact quantization gives %d' % (R.dtype_fxp(*post.fmt()), post.overflow, si.route, str(_car)[:30],
                          si.post.codes[i], codes[i]), ev)
        elif not si.post.ints_ok:
            ctx.violation('code_type', 'stored code of type %s' % si.post.bad_type, ev)
        bl = abs(_car).bit_length() + post.n_frac
        mag = '62..63' if bl <= 63 else ('64' if bl <= 64 else ('65..128' if bl <= 128 else '>128'))
        ctx.judged(('store', si.route, post.overflow, mag, _car < 0), True,
                   {'op': ev.op, 'format': R.dtype_fxp(*post.fmt()), 'overflow': post.overflow, 'input_bits': abs(_car).bit_length(), 'stored': str(si.post.codes[:2])} if ctx.want_sample() else None)
        ctx.floor_hit(('store', si.route, post.overflow))
    return [arith_judge, bigint_store_judge]


def floors(tier):
    cells = [(op, wc) for op in ('add', 'sub', 'mul') for wc in ('both>=64', 'one>=64', 'both<64->>=64', 'both<64->54..63', 'mixed>2^53')]
    cells += [('store', r, o) for r in ('constructor', 'call', 'set_val', 'setitem') for o in ('saturate', 'wrap')]
    cells += [('usable_after_store', t) for t in ('element', 'scalar')] + [('operands-rewritten-in-place',), ('operands-with-another-n_word_max',)]
    return cells


def cases(tier, seed):
    n = 3000 if tier == 'quick' else 60000
    for i in range(n):
        yield {'k': 'arith', 'i': i}
    n = 1500 if tier == 'quick' else 30000
    for i in range(n):
        yield {'k': 'store', 'i': i}
    # the four extreme-code corners of operand pairs whose product / sum width sits right at the 53- and 64-bit thresholds
    sums = (53, 54, 55, 62, 63, 64, 65, 66, 70, 100, 128)
    for tot in sums:
        splits = sorted(set([2, 3, tot // 3, tot // 2, tot - 3, tot - 2, 32, 33]))
        for wx in splits:
            wy = tot - wx
            if 2 <= wx <= 70 and 2 <= wy <= 70:
                for sx in (True, False):
                    for sy in (True, False):
                        yield {'k': 'corner', 'wx': wx, 'wy': wy, 'sx': sx, 'sy': sy}


def _try(f):
    try:
        return f()
    except Exception:
        return None


def run_case(case, ctx):
    Fxp = ctx.mon.Fxp
    fm = ctx.mon.fxpmath
    i = case.get('i', 0)
    rng = ctx.rng_for(case['k'], i)
    if case['k'] == 'arith':
        cls = i % 4
        for _ in range(100):
            if cls == 0:        # both < 64, result >= 54
                wx, wy = rng.randint(20, 63), rng.randint(2, 63)
            elif cls == 1:      # exactly one >= 64
                wx, wy = rng.randint(64, 70), rng.randint(2, 63)
            elif cls == 2:      # both >= 64
                wx, wy = rng.randint(64, 70), rng.randint(64, 70)
            else:               # mixed signedness with codes > 2^53
                wx, wy = rng.randint(54, 66), rng.randint(2, 40)
            if rng.random() < 0.5:
                wx, wy = wy, wx
            sx, sy = rng.random() < 0.5, rng.random() < 0.5
            if cls == 3:
                sy = not sx
            fx, fy = rng.randint(0, wx), rng.randint(0, wy)
            X, Y = (sx, wx, fx), (sy, wy, fy)
            if max(R.fmt_add(X, Y)[1], wx + wy) >= 54 and max(R.fmt_add(X, Y)[1], wx + wy) <= 256:
                break
        lox, hix = R.code_range(sx, wx)
        loy, hiy = R.code_range(sy, wy)

        def code(lo, hi):
            c = rng.choice(['ext', 'ext', 'near', 'rand', 'rand'])
            if c == 'ext':
                return rng.choice([lo, hi])
            if c == 'near':
                return max(lo, min(hi, rng.choice([lo, hi]) + rng.randint(-3, 3)))
            return rng.randint(lo, hi)
        rank = i % 3
        if rank == 0:
            a, b = code(lox, hix), code(loy, hiy)
        else:
            n = rng.randint(2, 3)
            a, b = [code(lox, hix) for _ in range(n)], [code(loy, hiy) for _ in range(n)]
            # avoid the float64 discovery of mixed lists (DESIGN 3.13): build through object arrays
            a, b = np.array(a, dtype=object), np.array(b, dtype=object)
        x = _try(lambda: Fxp(a, sx, wx, fx, raw=True))
        y = _try(lambda: Fxp(b, sy, wy, fy, raw=True))
        if x is None or y is None:
            return
        if i % 5 == 1:
            x = G.historied(Fxp, x, rng)[0]
            y = G.historied(Fxp, y, rng)[0]
        for f in (lambda: x + y, lambda: x - y, lambda: x * y, lambda: fm.add(x, y), lambda: fm.sub(y, x), lambda: fm.mul(x, y),
                  lambda: np.add(x, y), lambda: np.subtract(x, y), lambda: np.multiply(y, x)):
            _try(f)
        # operands whose code was produced by storing a huge Python integer (saturated) - value dtype history must not matter
        if i % 3 == 0 and wx < 64 and wy < 64:
            xs_ = _try(lambda: Fxp(2 ** 80 if rng.random() < 0.7 else -2 ** 80, sx, wx, fx))
            ys_ = _try(lambda: Fxp(None, sy, wy, fy))
            if xs_ is not None and ys_ is not None:
                _try(lambda: ys_(2 ** 90))
                for f in (lambda: xs_ * ys_, lambda: xs_ + ys_, lambda: xs_ - ys_, lambda: xs_ * y, lambda: x + ys_, lambda: fm.mul(ys_, xs_)):
                    _try(f)
        if rank:
            # the same array operands used again after an in-place store (by index, through a view): the operation sees the codes they hold NOW
            for step_ in range(2):
                try:
                    if step_ == 0:
                        x[0] = Fxp(rng.choice([lox, hix, 1]), sx, wx, fx, raw=True)
                    else:
                        y[-1:][0] = Fxp(rng.choice([loy, hiy, 1]), sy, wy, fy, raw=True)
                except Exception:
                    break
                for f in (lambda: x * y, lambda: x + y, lambda: fm.sub(x, y), lambda: np.multiply(y, x)):
                    _try(f)
            ctx.floor_hit(('operands-rewritten-in-place',))
        # operands configured with another maximum for inferred words (the raw kernels do not depend on it)
        if (i // 4) % 3 == 1 and wx < 64 and wy < 64:
            xm_ = _try(lambda: Fxp(a, sx, wx, fx, raw=True, n_word_max=128))
            ym_ = _try(lambda: Fxp(b, sy, wy, fy, raw=True, n_word_max=rng.choice([128, 32])))
            if xm_ is not None and ym_ is not None:
                for f in (lambda: xm_ * ym_, lambda: xm_ + ym_, lambda: xm_ - ym_, lambda: fm.mul(xm_, y), lambda: np.multiply(xm_, ym_)):
                    _try(f)
                ctx.floor_hit(('operands-with-another-n_word_max',))
        if rank:
            # elements obtained by indexing (their value is a NumPy scalar)
            for f in (lambda: x[1] * y[1], lambda: x[0] + y[1], lambda: x[1] - y[0], lambda: x[-1] * y, lambda: fm.mul(y[0], x[0])):
                _try(f)
        return
    if case['k'] == 'corner':
        wx, wy, sx, sy = case['wx'], case['wy'], case['sx'], case['sy']
        lox, hix = R.code_range(sx, wx)
        loy, hiy = R.code_range(sy, wy)
        for fx, fy in ((0, 0), (wx // 2, wy), (wx, 0)):
            x = Fxp(np.array([[lox], [hix], [hix - 1 if hix > lox else hix]], dtype=object), sx, wx, fx, raw=True)
            y = Fxp(np.array([[loy, hiy, loy + 1 if hiy > loy else loy]], dtype=object), sy, wy, fy, raw=True)
            for f in (lambda: x * y, lambda: x + y, lambda: x - y, lambda: y - x, lambda: fm.mul(y, x)):
                _try(f)
            for f in (lambda: x[0] * y[0, 0], lambda: x[1] * y[0, 1], lambda: x[1, 0] + y[0, 1], lambda: x[0, 0] - y[0, 1]):
                _try(f)
            xs = Fxp(lox, sx, wx, fx, raw=True)
            ys = Fxp(loy, sy, wy, fy, raw=True)
            for f in (lambda: xs * ys, lambda: xs + ys, lambda: xs - ys, lambda: np.multiply(xs, ys)):
                _try(f)
        return
    # storing Python integers of any size into short words
    w = rng.randint(1, 52)
    s = rng.random() < 0.5
    nf = rng.randint(0, w + 3)
    o = ('saturate', 'wrap')[i % 2]
    r = G.ROUNDINGS[i % 5]
    sign = rng.choice([-1, 1])
    c = rng.choice(['2^63', '2^64', 'scaled63', 'huge', 'rand'])
    if c == '2^63':
        v = sign * (2 ** 63 + rng.randint(-4, 4))
    elif c == '2^64':
        v = sign * (2 ** 64 + rng.randint(-4, 4))
    elif c == 'scaled63':
        v = sign * ((2 ** rng.choice([62, 63, 64]) >> nf) + rng.randint(-2, 2))
    elif c == 'huge':
        v = sign * (2 ** rng.choice([100, 200, 500, 1000]) + rng.randint(-5, 5))
    else:
        v = sign * rng.getrandbits(rng.randint(54, 300))
    _try(lambda: Fxp(v, s, w, nf, overflow=o, rounding=r))
    x = Fxp(None, s, w, nf, overflow=o, rounding=r)
    _try(lambda: x(v))
    _try(lambda: x.set_val(-v))
    a = Fxp(np.zeros(2), s, w, nf, overflow=o, rounding=r)
    _try(lambda: a.__setitem__(1, v))
    _try(lambda: a.set_val(v, index=0))
    # ... and into an element taken out of an array / into a scalar object through the empty index and the ellipsis; whatever the magnitude
    # of the input, the object written into stays usable afterwards (conversions, shape) and a list of integers from 2^63 on is not taken
    # for negative codes
    for tgt, idx in (('element', Ellipsis), ('element', ()), ('scalar', Ellipsis), ('scalar', ())):
        try:
            e = a[0] if tgt == 'element' else Fxp(0, s, w, nf, overflow=o, rounding=r)
        except Exception:
            continue
        _try(lambda: e.__setitem__(idx, v))
        probs = []
        for name, f in (('int()', lambda: int(e)), ('float()', lambda: float(e)), ('bool()', lambda: bool(e)), ('shape', lambda: e.shape), ('get_val()', lambda: e.get_val()), ('raw()', lambda: e.raw())):
            try:
                f()
            except Exception as ex:     # noqa
                probs.append('%s raises %s: %s' % (name, type(ex).__name__, str(ex)[:80]))
        if probs:
            ctx.violation('unusable_after_store', '%s of %s written by [%s] with a python integer of %d bits: %s' % (
                tgt, R.dtype_fxp(s, w, nf), '...' if idx is Ellipsis else '()', abs(v).bit_length(), '; '.join(probs)), key='store.unusable_after')
        ctx.judged(('usable-after-store', tgt, idx is Ellipsis), True, None)
        ctx.floor_hit(('usable_after_store', tgt))
    if abs(v) >= 2 ** 63 and v > 0:
        for car in ([v], (v, v + 1), [v, 2 ** 63 + 7]):
            _try(lambda: Fxp(car, s, w, nf, overflow=o, rounding=r, raw=True))
            _try(lambda: Fxp(car, s, w, nf, overflow=o, rounding=r))
