"""C20 - objects are independent and inputs are never mutated."""
import copy
import os
import sys
from fractions import Fraction as F

import numpy as np

from .. import refmodel as R
from .. import gen as G
from .. import universal as U
from ..monitor import snap

ID = 'C20'
TECHNIQUE = 'runtime monitoring: identity / frame / container monitors (U2) on every derivation route, mutation histories with before/after snapshots of the other object, icontract class invariant on Config plus a direct rejection sweep'
TITLE = 'independence of objects; inputs not mutated; invalid config rejected'
RULE = ('U2 monitors on every outermost event: a new object (constructor incl. like=/template/Fxp(x), deepcopy, like, arithmetic incl. constants/out_like, '
        'unary, bitwise, shifts, NumPy functions and methods) shares neither config nor status record nor value memory with any operand/template '
        '(indexing is the documented view); operands an operation is not documented to write are unchanged; argument containers (list, nested list, '
        'tuple, ndarray of numbers or of bin/hex strings) are deep-equal before and after. Histories: derive B from A by every route, mutate one (value '
        'write, indexed write, flag-raising write, reset, config change, resize) and compare the other\'s snapshot; x[i][j]=v writes through to x; every '
        'invalid value of each of the 16 settings is rejected by attribute, constructor kwarg and Config(**kw) and leaves the old value (plus an icontract '
        'class invariant on Config observing the state). Key = (derivation route, mutation kind, side mutated) / (container kind) / (config setting, way).')
DECIDING_OPS = ['__init__', 'deepcopy', 'like', ('__add__', 'add'), '__getitem__', '__setitem__']
ANCHORS = ['objects.Fxp.copy', 'objects.Fxp.deepcopy', 'objects.Fxp.like', 'objects.Fxp.__getitem__', 'utils.str2num', 'objects.Config.update',
           'functions._function_over_two_vars', 'functions._function_over_one_var']
OWN_UNIVERSAL = ('U2',)
NEEDS_DEPS = True
SHARDS = {'quick': 16, 'thorough': 16}

CONFIG_ENUMS = {
    'overflow': ['saturate', 'wrap'], 'rounding': ['around', 'floor', 'ceil', 'fix', 'trunc'], 'shifting': ['expand', 'trunc', 'keep'],
    'op_method': ['raw', 'repr'], 'op_input_size': ['same', 'best'], 'op_sizing': ['optimal', 'same', 'fit', 'largest', 'smallest'],
    'const_op_sizing': ['optimal', 'same', 'fit', 'largest', 'smallest'], 'array_output_type': ['fxp', 'array'], 'array_op_method': ['raw', 'repr'],
    'dtype_notation': ['fxp', 'Q'],
}
CONFIG_FXP = ['op_out', 'op_out_like', 'array_op_out', 'array_op_out_like']
INVALID = {
    'enum': ['bogus', '', 'SATURATE', 1, None, 3.5, ['wrap']],
    'fxp': ['x', 1, 2.5, [1], object()],
    'n_word_max': [0, -1, 3.5, '64', None],
    'max_error': [0, -1.0e-3, float('nan'), np.float64('nan'), -float('inf')],
}


def make_judges(ctx):
    mon = ctx.mon
    Fxp = mon.Fxp
    state = {'contract_evals': 0, 'contract': 'unavailable'}
    ctx.c20_state = state

    # ---- icontract class invariant on Config (records, never raises: it runs inside library control flow)
    try:
        deps = os.path.join(os.path.dirname(os.path.dirname(os.path.dirname(os.path.abspath(__file__)))), '.deps')
        if deps not in sys.path:
            sys.path.append(deps)
        import icontract
        Config = mon.objects.Config

        def config_state_valid(self):
            state['contract_evals'] += 1
            d = self.__dict__
            bad = []
            for name, allowed in CONFIG_ENUMS.items():
                if '_' + name in d and not (isinstance(d['_' + name], str) and d['_' + name] in allowed):
                    bad.append((name, d['_' + name]))
            for name in CONFIG_FXP:
                if '_' + name in d and not (d['_' + name] is None or isinstance(d['_' + name], Fxp)):
                    bad.append((name, d['_' + name]))
            if '_n_word_max' in d and not (isinstance(d['_n_word_max'], int) and d['_n_word_max'] > 0):
                bad.append(('n_word_max', d['_n_word_max']))
            if '_max_error' in d:
                try:
                    ok = d['_max_error'] > 0
                except Exception:
                    ok = False
                if not ok:
                    bad.append(('max_error', d['_max_error']))
            if bad:
                ctx.violation('config_state', 'a Config object holds invalid values: %r' % (bad[:3],), key=None)
            return True

        class ConfigInvariantBroken(Exception):
            pass
        icontract.invariant(config_state_valid, error=ConfigInvariantBroken,
                            check_on=icontract.InvariantCheckEvent.CALL | icontract.InvariantCheckEvent.SETATTR)(Config)
        state['contract'] = 'installed'
    except Exception as e:       # the layer is supplementary: the direct sweep below decides the clause
        state['contract'] = 'unavailable: %s' % type(e).__name__

    def alias_judge(ev):
        probs = list(U.u2_alias_problems(ev, Fxp))
        if ev.op == '__init__' and ev.exc is None and ev.kind == 'method':
            # the constructed object is the receiver
            r = ev.post[0] if ev.post else None
            if r is not None:
                for o, q in list(zip(ev.operands, ev.post))[1:]:
                    if q is None:
                        continue
                    sh = []
                    if q.id_config == r.id_config:
                        sh.append('config')
                    if q.id_status == r.id_status:
                        sh.append('status')
                    if U._shares(q.val_ref, r.val_ref):
                        sh.append('val')
                    if sh:
                        probs.append(('result_shares_state', 'the object built by the constructor shares %s with an argument (%s)' % ('+'.join(sh), R.dtype_fxp(*q.fmt())), {'shares': sh}))
                tpl = getattr(Fxp, 'template', None)
                if isinstance(tpl, Fxp) and (tpl.config is ev.receiver.config or tpl.status is ev.receiver.status):
                    probs.append(('result_shares_state', 'the constructed object shares state with the class template', {}))
        for p in probs:
            ctx.violation(p[0], p[1], ev, extra=p[2], key='alias.%s' % ev.op)
        new_obj = ev.exc is None and ((isinstance(ev.result, Fxp) and not any(o is ev.result for o in ev.operands)) or ev.op == '__init__')
        if new_obj and len(ev.operands) > (1 if ev.op == '__init__' else 0):
            nops = len(ev.operands)
            if ev.op == '__init__' and nops < 2:
                return
            ctx.judged(('alias', ev.op, nops), True, None)
            ctx.floor_hit(('alias', ev.op))

    def frame_judge(ev):
        for p in U.u2_frame_problems(ev, Fxp):
            ctx.violation(p[0], p[1], ev, extra=p[2], key='frame.%s' % ev.op)

    def container_judge(ev):
        for p in U.u2_container_problems(ev):
            ctx.violation(p[0], p[1], ev, extra=p[2], key='input.mutated.%s' % ev.op)
        for k, orig, cp in ev.containers:
            kind = type(orig).__name__
            if isinstance(orig, np.ndarray):
                kind += ':' + orig.dtype.kind
            elif len(orig) and isinstance(orig[0], (list, tuple)):
                kind += ':nested'
            elif len(orig) and isinstance(orig[0], str):
                kind += ':str'
            ctx.judged(('container', ev.op, kind), True, {'op': ev.op, 'container': kind, 'before': repr(cp)[:80], 'after': repr(orig)[:80]} if ctx.want_sample() and 'str' in kind else None)
            ctx.floor_hit(('container', kind))
    return [alias_judge, frame_judge, container_judge]


def floors(tier):
    cells = [('alias', op) for op in ('__init__', 'deepcopy', 'like', '__add__', '__mul__', '__neg__', '__invert__', '__and__', '__lshift__', '__rshift__', '__array_function__',
                                      '__array_ufunc__', 'sum', 'add')]
    cells += [('container', k) for k in ('list', 'list:nested', 'list:str', 'tuple', 'ndarray:f', 'ndarray:i', 'ndarray:U')]
    cells += [('history', r) for r in ROUTES] + [('mutation', m) for m in MUTATIONS] + [('view',), ('container-functions',), ('config', 'attribute'), ('config', 'kwarg'), ('config', 'Config'), ('config-keyword',)]
    cells += [('history_rank', r, k) for r in ('np_transpose', 'T', 'flatten', 'ravel', 'm_transpose') for k in (0, 1, 2)]
    cells += [('view_mutation', vm) for vm in ('resize', 'resize_frac', 'config', 'flag_reset')] + [('nested-config',)]
    return cells


ROUTES = ['ctor_like', 'template', 'fxp_of', 'deepcopy', 'like', 'add', 'mul_const', 'out_like', 'neg', 'invert', 'and_mask', 'lshift', 'rshift', 'np_sum', 'm_sum',
          'np_add', 'm_max', 'np_transpose', 'clip', 'equal', 'T', 'flatten', 'ravel', 'fxp_like', 'm_transpose', 'np_sort', 'abs', 'pos', 'conj', 'm_cumsum', 'np_diagonal', 'sub_const', 'rsub', 'pow_const', 'div_const', 'mod_const', 'floordiv_const']
MUTATIONS = ['write', 'indexed', 'flagging_write', 'reset', 'config', 'resize']


def cases(tier, seed):
    n = 1200 if tier == 'quick' else 25000
    for i in range(n):
        yield {'k': 'hist', 'i': i}
    n = 300 if tier == 'quick' else 5000
    for i in range(n):
        yield {'k': 'containers', 'i': i}
    for i in range(16 if tier == 'quick' else 64):
        yield {'k': 'config', 'i': i}
    n = 100 if tier == 'quick' else 2000
    for i in range(n):
        yield {'k': 'template', 'i': i}


def _try(f):
    try:
        return f()
    except Exception:
        return None


def same(a, b):
    return a is not None and b is not None and a.key() == b.key()


def run_case(case, ctx):
    Fxp = ctx.mon.Fxp
    fm = ctx.mon.fxpmath
    mon = ctx.mon
    rng = ctx.rng_for(case['k'], case['i'])
    i = case['i']
    k = case['k']

    def snp(o):
        mon.enabled = False
        try:
            return snap(o)
        finally:
            mon.enabled = True

    if k == 'hist':
        route = ROUTES[i % len(ROUTES)]
        s, w, nf = G.conventional_format(rng, 4, 16)
        r, o = rng.choice(G.MODES)
        rank = (0, 2, 1)[(i // len(ROUTES)) % 3]
        if route in ('np_sum', 'm_sum', 'm_max', 'np_sort', 'm_cumsum', 'np_diagonal'):
            rank = 2                # (called with an axis / need a matrix)
        elif route in ('np_transpose', 'T', 'flatten', 'ravel', 'm_transpose') and rank == 0 and (i // len(ROUTES)) % 2 == 0:
            rank = 1                # degenerate shapes (scalar, vector) of the shape-changing routes are wanted as often as matrices
        arr = rank > 0
        lo, hi = R.code_range(s, w)

        def val():
            c = rng.randint(max(lo, -6), min(hi, 6))
            return float(F(c) * R.lsb(nf))
        def vals_of_rank():
            return np.array([val(), val(), val(), val()]).reshape(2, 2) if rank == 2 else (np.array([val(), val(), val()]) if rank == 1 else val())
        A = Fxp(vals_of_rank(), s, w, nf, rounding=r, overflow=o)
        C = Fxp(vals_of_rank(), s, w, nf)
        T = Fxp(None, True, 20, 6, rounding='around')
        Tsnap = snp(T)
        B = None
        nested = route in ('ctor_like', 'template', 'deepcopy', 'invert', 'T', 'flatten', 'ravel') and (i // 5) % 3 == 0
        if nested:
            # a fixed-point object kept INSIDE the configuration (an output template): it is part of the configuration state that must not be shared
            A.config.op_out_like = Fxp(None, True, 24, 8, rounding='trunc')
        if route == 'ctor_like':
            B = _try(lambda: Fxp(A.get_val(), like=A))
        elif route == 'template':
            B = _try(lambda: Fxp(A.get_val(), template=A))
        elif route == 'fxp_of':
            B = _try(lambda: Fxp(A))
        elif route == 'deepcopy':
            B = _try(lambda: A.deepcopy())
        elif route == 'like':
            B = _try(lambda: A.like(T))
        elif route == 'add':
            B = _try(lambda: A + C)
        elif route == 'mul_const':
            B = _try(lambda: A * 2)
        elif route == 'out_like':
            B = _try(lambda: fm.add(A, C, out_like=T))
        elif route == 'neg':
            B = _try(lambda: -A)
        elif route == 'invert':
            B = _try(lambda: ~A)
        elif route == 'and_mask':
            B = _try(lambda: A & 3) if not arr else _try(lambda: ~A)
        elif route == 'lshift':
            A.config.shifting = rng.choice(['expand', 'trunc', 'keep'])
            B = _try(lambda: A << 1)
        elif route == 'rshift':
            A.config.shifting = rng.choice(['expand', 'trunc', 'keep'])
            B = _try(lambda: A >> 1)
        elif route == 'np_sum':
            B = _try(lambda: np.sum(A, axis=0))
        elif route == 'm_sum':
            B = _try(lambda: A.sum(axis=1))
        elif route == 'np_add':
            B = _try(lambda: np.add(A, C))
        elif route == 'm_max':
            B = _try(lambda: A.max(axis=0))
        elif route == 'np_transpose':
            B = _try(lambda: np.transpose(A))
        elif route == 'clip':
            B = _try(lambda: A.clip(float(A.lower) / 2, float(A.upper) / 2))
        elif route == 'equal':
            B = Fxp(np.zeros(np.shape(A.val)) if arr else None, s, w + 2, nf + 1)
            _try(lambda: B.equal(A))
        elif route == 'T':
            B = _try(lambda: A.T)
        elif route == 'flatten':
            B = _try(lambda: A.flatten())
        elif route == 'ravel':
            B = _try(lambda: A.ravel())
        elif route == 'fxp_like':
            B = _try(lambda: fm.fxp_like(A, A.get_val()))
        elif route == 'm_transpose':
            B = _try(lambda: A.transpose())
        elif route == 'np_sort':
            B = _try(lambda: np.sort(A, axis=0))
        elif route == 'abs':
            B = _try(lambda: abs(A))
        elif route == 'pos':
            B = _try(lambda: +A)
        elif route == 'conj':
            B = _try(lambda: A.conj())
        elif route == 'm_cumsum':
            B = _try(lambda: A.cumsum(axis=0))
        elif route == 'np_diagonal':
            B = _try(lambda: np.diagonal(A))
        elif route == 'sub_const':
            B = _try(lambda: A - 1)
        elif route == 'rsub':
            B = _try(lambda: 1 - A)
        elif route in ('pow_const', 'div_const', 'mod_const', 'floordiv_const'):
            # operators with a plain constant: the operand - its configuration included - is the same afterwards (the frame judge sees the operator's event),
            # and so is what a later constant operation on it gives
            cfg0 = dict((k_, repr(v_)) for k_, v_ in A.config.__dict__.items())
            later0 = _try(lambda: (A + 0.3).get_val())
            B = _try(lambda: {'pow_const': lambda: A ** 2, 'div_const': lambda: A / 2, 'mod_const': lambda: A % 3, 'floordiv_const': lambda: A // 2}[route]())
            cfg1 = dict((k_, repr(v_)) for k_, v_ in A.config.__dict__.items())
            later1 = _try(lambda: (A + 0.3).get_val())
            if cfg1 != cfg0 or not np.array_equal(np.asarray(later0), np.asarray(later1)):
                ctx.violation('operand_changed', 'route %s: the operand\'s configuration changed (%s) / a later A + 0.3 gives %r instead of %r' % (
                    route, sorted(k_ for k_ in cfg0 if cfg0[k_] != cfg1.get(k_)), later1, later0), key='frame.%s' % route)
            if B is None:
                B = _try(lambda: A * 2)        # (a power is not available for every value on this NumPy: the frame check above is what this route is for)
        if B is None or not isinstance(B, Fxp):
            ctx.violation('derivation_failed', 'route %s produced no object' % route)
            return
        ctx.floor_hit(('history', route))
        if nested:
            ta, tb = A.config.op_out_like, B.config.op_out_like
            if ta is not None and tb is not None:
                shared = tb is ta or tb.config is ta.config or tb.status is ta.status
                if not shared:
                    tb.config.rounding = 'ceil'
                    shared = ta.config.rounding == 'ceil'
                if shared:
                    ctx.violation('not_independent', 'route %s: the fixed-point object kept in the derived object\'s configuration (op_out_like) is shared with the source\'s' % route,
                                  key='history.%s.nested_config' % route)
            ctx.judged(('nested-config', route), True, None)
            ctx.floor_hit(('nested-config',))
            A.config.op_out_like = None
            B.config.op_out_like = None
        if route in ('np_transpose', 'T', 'flatten', 'ravel', 'm_transpose'):
            ctx.floor_hit(('history_rank', route, rank))
        for side in ('derived', 'source'):
            mut = MUTATIONS[(i // 3 + (0 if side == 'derived' else 3)) % len(MUTATIONS)]
            X, Y = (B, A) if side == 'derived' else (A, B)      # mutate X, watch Y (and the template)
            before = snp(Y)
            big = float(X.upper) * 4 + 1.3 if not X.scaled else 1e9
            shp = np.shape(X.val)
            try:
                if mut == 'write':
                    X(np.full(shp, float(X.precision) * 3) if shp else float(X.precision) * 3)
                elif mut == 'indexed':
                    if shp:
                        X[(0,) * len(shp)] = float(X.precision) * 5
                    else:
                        X.set_val(float(X.precision) * 5)
                elif mut == 'flagging_write':
                    X(np.full(shp, big) if shp else big)
                    X(float(X.precision) / 4 + float(X.precision))
                elif mut == 'reset':
                    X(np.full(shp, big) if shp else big)
                    X.reset()
                elif mut == 'config':
                    X.config.rounding = 'ceil' if X.config.rounding != 'ceil' else 'floor'
                    X.config.overflow = 'wrap' if X.config.overflow != 'wrap' else 'saturate'
                    X.config.op_sizing = 'same'
                else:
                    X.resize(True, X.n_word + 3, X.n_frac + 1)
            except Exception as e:
                ctx.notes['mutation_exception:%s:%s' % (mut, type(e).__name__)] += 1
                continue
            after = snp(Y)
            if not same(before, after):
                what = [n for n, a, b in zip(('signed', 'n_word', 'n_frac', 'n_int', 'shape', 'codes', 'imag', 'status', 'config', 'scale', 'bias', 'upper', 'lower', 'precision'),
                                             before.key(), after.key()) if a != b]
                ctx.violation('not_independent', 'route %s: mutating the %s object by %s changed the other one (%s)' % (route, side, mut, ','.join(what)),
                              extra={'before': before.describe(), 'after': after.describe()}, key='history.%s' % route)
            if route in ('like', 'out_like') and not same(Tsnap, snp(T)):
                ctx.violation('template_changed', 'route %s / mutation %s changed the template object' % (route, mut), key='history.%s.template' % route)
            ctx.judged(('history', route, mut, side, rank), True, {'route': route, 'mutation': mut, 'mutated': side, 'watched_before': before.describe(), 'watched_after': after.describe()} if ctx.want_sample() else None)
            ctx.floor_hit(('mutation', mut))
        # indexing returns a view of the VALUES only: configuration and status record of the element object are its own, and changing its FORMAT
        # (resize re-stores the element's values in the new format) must not touch the parent's codes
        if arr:
            P = Fxp(vals_of_rank(), s, w, nf, rounding=r, overflow=o)
            sel = rng.choice([lambda p: p[0], lambda p: p[-1], lambda p: p[0:1], lambda p: p[::-1]] + ([lambda p: p[:, 1], lambda p: p[1, 0:2]] if rank == 2 else [lambda p: p[1:3]]))
            V = _try(lambda: sel(P))
            if isinstance(V, Fxp):
                before = snp(P)
                vm = ('resize', 'resize_frac', 'config', 'flag_reset')[(i // 7) % 4]
                try:
                    if vm == 'resize':
                        V.resize(True, V.n_word + 3, V.n_frac + 2)
                    elif vm == 'resize_frac':
                        V.resize(n_frac=V.n_frac + 2, n_word=V.n_word + 2)
                    elif vm == 'config':
                        V.config.rounding = 'ceil' if V.config.rounding != 'ceil' else 'floor'
                        V.config.overflow = 'wrap' if V.config.overflow != 'wrap' else 'saturate'
                    else:
                        V.status['overflow'] = True
                        V.status['inaccuracy'] = True
                        V.reset()
                except Exception as e:
                    ctx.notes['view_mutation_exception:%s:%s' % (vm, type(e).__name__)] += 1
                else:
                    after = snp(P)
                    if not same(before, after):
                        what = [n for n, a, b in zip(('signed', 'n_word', 'n_frac', 'n_int', 'shape', 'codes', 'imag', 'status', 'config', 'scale', 'bias', 'upper', 'lower', 'precision'),
                                                     before.key(), after.key()) if a != b]
                        ctx.violation('not_independent', 'an element object obtained by indexing was changed by %s and its parent changed (%s)' % (vm, ','.join(what)),
                                      extra={'before': before.describe(), 'after': after.describe()}, key='history.view.%s' % vm)
                    ctx.judged(('view', vm, rank), True, None)
                    ctx.floor_hit(('view_mutation', vm))
        return
    if k == 'template':
        # README pattern: several values cast like one template; one of them inexact
        T = Fxp(None, True, 24, 15)
        before = snp(T)
        sibs = [Fxp(v).like(T) for v in (0.5, -3.25, 1.0 / 3.0, 7.0, rng.random())]
        if not same(before, snp(T)):
            ctx.violation('template_changed', 'Fxp(v).like(T) changed the template T', key='history.like.template')
        if sibs[0].status['inaccuracy'] or sibs[3].status['inaccuracy']:
            ctx.violation('not_independent', 'an inexact sibling flagged the exact ones', key='history.like')
        sibs[1].config.rounding = 'ceil'
        if sibs[0].config.rounding == 'ceil' or T.config.rounding == 'ceil':
            ctx.violation('not_independent', 'a config change on one sibling reached another object', key='history.like')
        # a Config handed over with the config= keyword is an input like a template: the objects built from it are independent of it and of each other
        Config = ctx.mon.objects.Config
        cfg = Config(rounding=rng.choice(['floor', 'around', 'trunc']), overflow=rng.choice(['saturate', 'wrap']))
        cfg_before = (cfg.rounding, cfg.overflow, cfg.shifting, cfg.op_sizing)
        a = Fxp(0.5, True, 16, 8, config=cfg)
        b = Fxp([1.25, -2.0], True, 16, 8, config=cfg)
        c = Fxp(3.0, True, 16, 8, config=cfg, rounding='ceil')
        if a.config is cfg or b.config is cfg or a.config is b.config or c.config is cfg:
            ctx.violation('not_independent', 'Fxp(v, config=cfg) keeps the caller\'s Config object (shared with cfg / with a sibling built from it)', key='history.config_keyword')
        elif (cfg.rounding, cfg.overflow, cfg.shifting, cfg.op_sizing) != cfg_before or a.config.rounding != cfg_before[0]:
            ctx.violation('not_independent', 'Fxp(v, config=cfg, rounding=\'ceil\') changed cfg or a sibling: cfg now %r, was %r' % ((cfg.rounding, cfg.overflow), cfg_before[:2]), key='history.config_keyword')
        else:
            a.config.rounding = 'ceil' if cfg_before[0] != 'ceil' else 'floor'
            a.config.op_sizing = 'same'
            cfg.overflow = 'wrap' if cfg_before[1] == 'saturate' else 'saturate'
            if b.config.rounding != cfg_before[0] or b.config.op_sizing != cfg_before[3] or cfg.rounding != cfg_before[0] or a.config.overflow != cfg_before[1] or b.config.overflow != cfg_before[1]:
                ctx.violation('not_independent', 'a configuration change on one of cfg, Fxp(v, config=cfg), Fxp(w, config=cfg) reached another of them', key='history.config_keyword')
        ctx.judged(('config-keyword',), True, None)
        ctx.floor_hit(('config-keyword',))
        # documented view: chained indexed assignment writes through
        s, w, nf = G.conventional_format(rng, 6, 16)
        x = Fxp(np.zeros((2, 3)), s, w, nf)
        v = float(R.lsb(nf) * 3)
        x[1][2] = v
        y = x[0]
        y[1] = v
        cs = np.asarray(x.val).tolist()
        if cs[1][2] != 3 or cs[0][1] != 3:
            ctx.violation('view', 'x[i][j] = v did not write through to x: %r' % (cs,), key='view')
        # also through column, strided and reversed selections
        x2 = Fxp(np.zeros((3, 4)), s, w, nf)
        x2[:, 1][2] = v
        col = x2[:, 3]
        col[0] = v
        x2[::2][1][0] = v
        x2[1][::-1][0] = v
        c2 = np.asarray(x2.val).tolist()
        want = {(2, 1), (0, 3), (2, 0), (1, 3)}
        got = {(a, b) for a in range(3) for b in range(4) if c2[a][b] == 3}
        if got != want:
            ctx.violation('view', 'chained indexed assignment through column / strided / reversed selections wrote %s, expected %s' % (sorted(got), sorted(want)), key='view')
        ctx.judged(('view', s), True, None)
        ctx.floor_hit(('view',))
        return
    if k == 'containers':
        s, w, nf = G.conventional_format(rng, 4, 12)
        lo, hi = R.code_range(s, w)
        cs = [rng.randint(lo, hi) for _ in range(4)]
        vals = [float(F(c) * R.lsb(nf)) for c in cs]
        bins = ['0b' + R.bin_image(c, w) for c in cs]
        hexs = ['0x' + R.hex_image(c, w) for c in cs]
        conts = [list(vals), [list(vals[:2]), list(vals[2:])], tuple(vals), (tuple(vals[:2]), tuple(vals[2:])), np.array(vals), np.array(cs), np.array(vals).reshape(2, 2),
                 [int(c) for c in cs], list(bins), list(hexs), [list(bins[:2]), list(bins[2:])], tuple(bins), np.array(bins), np.array(hexs).reshape(2, 2),
                 [str(v) for v in vals]]
        for c in conts:
            raw = isinstance(c, np.ndarray) and c.dtype.kind == 'i'
            _try(lambda: Fxp(c, s, w, nf, raw=raw))
            x = Fxp(None, s, w, nf)
            _try(lambda: x.set_val(c, raw=raw))
            _try(lambda: x(c))
            if isinstance(c, (list, tuple)) and c and isinstance(c[0], str) and c[0].startswith('0b'):
                _try(lambda: x.from_bin(c))
        a = Fxp(np.zeros((2, 4)), s, w, nf)
        _try(lambda: a.__setitem__(1, conts[0]))
        _try(lambda: a.__setitem__(0, conts[4]))
        # arrays and lists handed to functions of fixed-point objects (operands, bounds, masks) are inputs too: never modified
        xv = Fxp(np.array(vals), s, w, nf)
        lo_b, hi_b = np.full(4, float(F(lo // 2) * R.lsb(nf))), np.full(4, float(F(hi // 2) * R.lsb(nf)))
        for f_ in (lambda: np.clip(xv, lo_b, hi_b), lambda: xv.clip(lo_b, hi_b), lambda: np.clip(xv, list(lo_b), list(hi_b)), lambda: xv + np.array(vals), lambda: np.array(vals) * xv,
                   lambda: np.multiply(xv, list(vals)), lambda: np.dot(xv, np.array(vals)), lambda: xv - list(vals), lambda: xv & np.array(cs), lambda: np.array(vals) < xv,
                   lambda: ctx.mon.fxpmath.add(xv, np.array(vals)), lambda: xv.equal(Fxp(np.array(vals), s, w, nf)), lambda: xv / np.array([v if v else 1.0 for v in vals])):
            _try(f_)
        ctx.floor_hit(('container-functions',))
        return
    if k == 'config':
        Config = ctx.mon.objects.Config
        names = list(CONFIG_ENUMS) + CONFIG_FXP + ['n_word_max', 'max_error']
        name = names[i % len(names)]
        bads = INVALID['enum'] if name in CONFIG_ENUMS else INVALID['fxp'] if name in CONFIG_FXP else INVALID[name]
        for bad in bads:
            # by attribute
            x = Fxp(1.5, True, 16, 8)
            old = getattr(x.config, name)
            try:
                setattr(x.config, name, bad)
                raised = False
            except Exception:
                raised = True
            now = getattr(x.config, name)
            if not raised or now is not old and now != old:
                ctx.violation('config_accepted', 'config.%s = %r was %s; stored value now %r (was %r)' % (name, bad, 'rejected' if raised else 'accepted', now, old), key='config.%s' % name)
            ctx.judged(('config', name, 'attribute', repr(type(bad).__name__)), True, None)
            ctx.floor_hit(('config', 'attribute'))
            # by constructor keyword
            try:
                y = Fxp(1.5, True, 16, 8, **{name: bad})
                if bad is None and name in ('max_error', 'n_word_max'):
                    pass
                ctx.violation('config_accepted', 'Fxp(..., %s=%r) was accepted; stored %r' % (name, bad, getattr(y.config, name)), key='config.%s' % name)
            except Exception:
                pass
            ctx.judged(('config', name, 'kwarg', repr(type(bad).__name__)), True, None)
            ctx.floor_hit(('config', 'kwarg'))
            # by Config(**kw)
            try:
                c = Config(**{name: bad})
                ctx.violation('config_accepted', 'Config(%s=%r) was accepted; stored %r' % (name, bad, getattr(c, name)), key='config.%s' % name)
            except Exception:
                pass
            ctx.judged(('config', name, 'Config', repr(type(bad).__name__)), True, None)
            ctx.floor_hit(('config', 'Config'))
        # valid values are stored
        if name in CONFIG_ENUMS:
            for good in CONFIG_ENUMS[name]:
                x = Fxp(1.5, True, 16, 8)
                setattr(x.config, name, good)
                if getattr(x.config, name) != good:
                    ctx.violation('config_lost', 'config.%s = %r not stored' % (name, good))
        st = getattr(ctx, 'c20_state', {})
        ctx.notes['icontract:%s' % st.get('contract')] += 1
        ctx.notes['icontract_invariant_evaluations'] = st.get('contract_evals', 0)
