"""Results of the one-variable functions (sum, cumsum, prod, max, min, sort, trace, ...) and of dot stored into an imposed target (out= / out_like=)
of the core domain: the exact result, when the target's grid holds it (no rounding involved), is stored like any other value - the bound on its own
side under saturate, the residue under wrap - and the overflow / underflow flags are raised for exactly the sides that occurred.

The decoder is shared: C02 judges the saturation side, C04 the flags (C03 has its own judge for the residues in wrap registers)."""
from fractions import Fraction as F

import numpy as np

from . import refmodel as R
from . import arith as A
from . import gen as G

RED = {'sum': np.sum, 'cumsum': np.cumsum, 'max': np.max, 'min': np.min, 'fxp_max': np.max, 'fxp_min': np.min, 'sort': np.sort, 'transpose': np.transpose,
       'diagonal': np.diagonal, 'trace': np.trace, 'prod': np.prod, 'dot': np.dot}


def decode(ev, Fxp):
    """-> None (not such an event) | ('skip', reason) | dict(t=target Snap, ops=[operand Snaps], like=bool, xs=[exact scaled results], res=result Snap)"""
    if ev.op not in RED or ev.kind not in ('function', 'method'):
        return None
    kw = dict(ev.kwargs)
    tgt_obj = kw.pop('out', None)
    like = False
    if tgt_obj is None:
        tgt_obj = kw.pop('out_like', None)
        like = True
    if isinstance(tgt_obj, (tuple, list)):
        tgt_obj = tgt_obj[0] if tgt_obj else None
    method = kw.pop('method', None)
    if not isinstance(tgt_obj, Fxp) or set(kw) - {'axis', 'offset'}:
        return None
    snaps = {id(o): p for o, p in zip(ev.operands, ev.pre)}
    t = snaps.get(id(tgt_obj))
    fargs = ((ev.receiver,) + tuple(ev.args)) if ev.kind == 'method' else tuple(ev.args)
    ops = [snaps.get(id(a)) for a in fargs if isinstance(a, Fxp)]
    if t is None or not A.usable(t) or not ops or any(o is None or not A.usable(o) for o in ops) or len(ops) != len(fargs):
        return None
    if method is None:
        method = (ops[0].cfg or {}).get('array_op_method', 'raw')
    if method != 'raw':
        return None     # (the value based method goes through doubles: C08 / C15 compare it with the integer method where doubles are exact)
    if not (1 <= t.n_word <= 52 and 0 <= t.n_frac <= t.n_word + 8):
        return ('skip', 'reduction:target outside the core domain')
    if any(not (1 <= o.n_word <= 64) for o in ops):
        return ('skip', 'reduction:operand word beyond 64 bits')
    if not t.signed and any(o.signed for o in ops):
        return ('skip', 'reduction:signed into unsigned target is rejected')
    try:
        exact = RED[ev.op](*[A.fr_array(o) for o in ops], **kw)
    except Exception:
        return ('skip', 'reduction:the exact evaluation itself raised (argument error)')
    exf, shape = A.flat(exact)
    xs = [e * F(2) ** t.n_frac for e in exf]
    if not exf or any(x.denominator != 1 for x in xs):
        return ('skip', 'reduction:rounding involved')
    return dict(t=t, ops=ops, like=like, xs=[x.numerator for x in xs], res=ev.result_snap, way='out_like' if like else 'out')


def make_judge(ctx, Fxp, what):
    """what = 'side' (saturating targets: the bound on the result's own side) | 'flags' (both modes: overflow / underflow flags for the sides that occurred)"""
    def reduce_target_judge(ev):
        d = decode(ev, Fxp)
        if d is None:
            return
        if d[0] == 'skip' if isinstance(d, tuple) else False:
            ctx.skip(d[1])
            return
        t, xs, res = d['t'], d['xs'], d['res']
        lo, hi = R.code_range(t.signed, t.n_word)
        above, below = any(x > hi for x in xs), any(x < lo for x in xs)
        if what == 'side' and (t.overflow != 'saturate' or not (above or below)):
            return
        desc = '%s(%s) into %s/%s via %s' % (ev.op, ', '.join(R.dtype_fxp(*o.fmt()) for o in d['ops']), R.dtype_fxp(*t.fmt()), t.overflow, d['way'])
        if ev.exc is not None:
            if above or below:
                ctx.violation('reduction_raises', '%s raised %s: %s' % (desc, type(ev.exc).__name__, str(ev.exc)[:140]), ev, key='reduction.raises')
            return
        if res is None or res.fmt() != t.fmt() or len(res.codes) != len(xs):
            return      # (format / shape of the result: C15's and C08's subject)
        big = max(abs(x) for x in xs).bit_length() > 62
        if what == 'side':
            exp = [min(max(x, lo), hi) for x in xs]
            wrong = [j for j, (a_, b_) in enumerate(zip(res.codes, exp)) if a_ != b_]
            if wrong:
                j = wrong[0]
                ctx.violation('saturate_side', '%s: exact raw result %d is %s the range, stored code %r instead of the bound %d' % (
                    desc, xs[j], 'above' if xs[j] > hi else ('below' if xs[j] < lo else 'inside'), res.codes[j], exp[j]), ev, key='saturate.reduction')
            ctx.judged(('reduction-side', ev.op, d['way'], 's' if t.signed else 'u', above, below, big), True, None, elements=len(xs))
            ctx.floor_hit(('reduction-into-saturating-target', 'beyond-int64' if big else 'moderate'))
        else:
            pre_over = bool(t.status.get('overflow')) if not d['like'] else False
            pre_under = bool(t.status.get('underflow')) if not d['like'] else False
            got = (bool(res.status.get('overflow')), bool(res.status.get('underflow')))
            want = (above or pre_over, below or pre_under)
            if got != want:
                ctx.violation('reduction_flags', '%s: exact raw results %s the range: overflow/underflow flags %r, expected %r' % (
                    desc, 'above' if above and not below else ('below' if below and not above else ('on both sides of' if above else 'inside')), got, want), ev, key='flags.reduction')
            # the inaccuracy flag of the same write: raised iff a stored code differs from the exact result (which lies on the target's grid here), or an
            # operand carried it, or the supplied out object had it raised already (sticky)
            inexact_now = any(c != x for c, x in zip(res.codes, xs))
            want_in = inexact_now or any(bool(o.status.get('inaccuracy')) for o in d['ops']) or (bool(t.status.get('inaccuracy')) and not d['like'])
            if all(o.n_word <= 52 for o in d['ops']) and bool(res.status.get('inaccuracy')) != want_in:
                ctx.violation('reduction_inaccuracy', '%s: inaccuracy flag %r, expected %r (stored codes %s the exact results; operands carried it: %r; out had it: %r)' % (
                    desc, bool(res.status.get('inaccuracy')), want_in, 'differ from' if inexact_now else 'equal', [bool(o.status.get('inaccuracy')) for o in d['ops']],
                    bool(t.status.get('inaccuracy')) and not d['like']), ev, key='flags.reduction.inaccuracy')
            ctx.judged(('reduction-flags', ev.op, d['way'], t.overflow, above, below, big, inexact_now, want_in), above or below, None, elements=len(xs))
            if want_in and not inexact_now:
                ctx.floor_hit(('reduction-inaccuracy-kept',))
            if above or below:
                ctx.floor_hit(('reduction-flags', 'beyond-int64' if big else 'moderate'))
    return reduce_target_judge


def workload(Fxp, fm, rng, _try):
    """reductions and dot products whose exact results leave the target's range - moderately, and by so much that they leave int64 (unsigned results
    in [2^63, 2^64) look like negative int64 numbers) - into out= / out_like= targets that have the operand's fraction length or a longer one"""
    nf = rng.choice([0, 0, 2, 5])
    for o in ('saturate', 'wrap'):
        st = rng.random() < 0.5
        wt = rng.choice([8, 16, 24, 40, 52])

        def tgt(signed=st, up=0):
            return Fxp(None, signed, wt, nf + up, overflow=o)
        # products of two / three maximal unsigned codes: (2^32 - 1)^2 = 2^64 - 2^33 + 1
        a = rng.choice([2 ** 32 - 1, 2 ** 32 - rng.randint(1, 9), 3037000500 + rng.randint(0, 9 ** 9)])
        x = Fxp([a, a - rng.randint(0, 3)], False, 32, 0, raw=True)
        for f in (lambda: fm.prod(x, out_like=Fxp(None, st, wt, 0, overflow=o)), lambda: np.prod(x, out=Fxp(None, False, wt, 0, overflow=o)), lambda: x.prod(out_like=Fxp(None, True, wt, 0, overflow=o)),
                  lambda: fm.dot(x, x, out_like=Fxp(None, st, wt, 0, overflow=o)), lambda: x.dot(x, out=Fxp(None, False, wt, 0, overflow=o))):
            _try(f)
        # sums of many large unsigned codes: 4096 * (2^52 - 1) and 2^k * codes next to 2^63 / count
        n_el = rng.choice([2048, 4096])
        wu = rng.choice([51, 52])
        y = Fxp(np.full(n_el, 2 ** wu - 1 - rng.randint(0, 7)), False, wu, nf, raw=True)
        for f in (lambda: fm.sum(y, out_like=Fxp(None, False, wu, nf, overflow=o)), lambda: y.sum(out_like=tgt()), lambda: np.sum(y, out=tgt(False)), lambda: fm.cumsum(y[-3:], out_like=tgt()),
                  lambda: fm.sum(y.reshape(2, -1), axis=1, out_like=tgt())):
            _try(f)
        # trace / max / min / sum of 63 and 64 bits unsigned codes
        m = Fxp(np.array([[2 ** 63 - 1 - rng.randint(0, 5), 1], [2, 2 ** 63 - 1 - rng.randint(0, 5)]], dtype=object), False, 63, nf, raw=True)
        u64 = Fxp(np.array([2 ** 64 - 1 - rng.randint(0, 5), 2 ** 63 + rng.randint(0, 5), 7], dtype=object), False, 64, nf, raw=True)
        for f in (lambda: fm.trace(m, out_like=tgt()), lambda: m.trace(out=tgt(False)), lambda: fm.fxp_max(u64, out_like=tgt()), lambda: u64.max(out=tgt(False)), lambda: fm.sum(m, out_like=tgt()),
                  lambda: fm.fxp_min(u64[:2], out_like=tgt(False))):
            _try(f)
        # in-range exact results into an out object whose inaccuracy flag is already raised (sticky), and from an operand that carries it
        flagged = Fxp(None, True, 24, nf, overflow=o)
        flagged(0.3)
        small = Fxp([3, -2, 5, 1], True, 8, nf, raw=True)
        for f in (lambda: fm.sum(small, out=flagged), lambda: small.max(out=flagged), lambda: np.cumsum(small, out=Fxp(np.zeros(4) + 0.3, True, 24, nf, overflow=o)), lambda: fm.prod(small, out=flagged),
                  lambda: fm.fxp_min(small, out=flagged), lambda: fm.dot(small, small, out=flagged)):
            _try(f)
        carrier = Fxp([0.3, 1, 2, -3], True, 12, 3)
        for f in (lambda: fm.sum(carrier, out_like=Fxp(None, True, 24, 3, overflow=o)), lambda: carrier.max(out=Fxp(None, True, 24, 3, overflow=o)), lambda: fm.dot(carrier, carrier, out_like=Fxp(None, True, 30, 6, overflow=o))):
            _try(f)
        # signed: results below the range, moderately and far
        ws = rng.choice([33, 40, 52, 60])
        zs = Fxp([-(2 ** (ws - 1)), -(2 ** (ws - 1)) + rng.randint(0, 3), 2 ** (ws - 1) - 1], True, ws, nf, raw=True)
        for f in (lambda: fm.sum(zs[:2], out_like=tgt(True)), lambda: fm.prod(zs, out_like=tgt(True)), lambda: fm.prod(zs[:2], out=tgt(True)), lambda: fm.dot(zs, zs[::-1], out_like=tgt(True)),
                  lambda: np.sum(Fxp([100, 27, 1], st, 8, nf, raw=True), out=Fxp(None, st, 7, nf, overflow=o)), lambda: fm.prod(Fxp([100, 27, 3], st, 8, 0, raw=True), out_like=Fxp(None, st, 12, 0, overflow=o)),
                  lambda: fm.sum(Fxp([-100, -27, -3], True, 8, nf, raw=True), out_like=Fxp(None, True, 7, nf + 1, overflow=o))):
            _try(f)
