"""Exact reference semantics for the fxpmath properties C01-C20.

Pure Python integers and Fractions.  Shares no code with fxpmath and does not
import NumPy.  Everything here is the *oracle* side of the monitors.
"""
from fractions import Fraction as F
import math

ROUNDINGS = ('trunc', 'fix', 'floor', 'ceil', 'around')
OVERFLOWS = ('saturate', 'wrap')


# --------------------------------------------------------------------------- formats
def code_range(signed, n_word):
    if n_word <= 0:
        return (0, 0)
    if signed:
        return (-(1 << (n_word - 1)), (1 << (n_word - 1)) - 1)
    return (0, (1 << n_word) - 1)


def n_int_of(signed, n_word, n_frac):
    return n_word - n_frac - (1 if signed else 0)


def lsb(n_frac):
    return F(2) ** (-n_frac)


def scale2(x, n):
    """x * 2**n exactly, x Fraction or int."""
    return F(x) * (F(2) ** n)


# --------------------------------------------------------------------------- rounding
def floor_f(x):
    x = F(x)
    return x.numerator // x.denominator


def ceil_f(x):
    x = F(x)
    return -((-x.numerator) // x.denominator)


def round_exact(x, mode):
    """Fraction -> int under the rounding rule `mode`."""
    x = F(x)
    fl = x.numerator // x.denominator
    if x.denominator == 1:
        return fl
    if mode == 'floor':
        return fl
    if mode == 'ceil':
        return fl + 1
    if mode in ('trunc', 'fix'):
        return fl if x >= 0 else fl + 1
    if mode == 'around':
        r = x - fl
        if r < F(1, 2):
            return fl
        if r > F(1, 2):
            return fl + 1
        return fl if fl % 2 == 0 else fl + 1
    raise ValueError('unknown rounding %r' % (mode,))


# --------------------------------------------------------------------------- overflow
def saturate(k, signed, n_word):
    lo, hi = code_range(signed, n_word)
    return max(lo, min(hi, k))


def wrap(k, signed, n_word):
    m = 1 << n_word
    k %= m
    if signed and k >= (m >> 1):
        k -= m
    return k


def overflow_exact(k, signed, n_word, mode):
    if mode == 'saturate':
        return saturate(k, signed, n_word)
    if mode == 'wrap':
        return wrap(k, signed, n_word)
    raise ValueError('unknown overflow %r' % (mode,))


def quantize(v, signed, n_word, n_frac, rounding, overflow):
    """-> (code, overflowed, underflowed, rounded_unbounded)"""
    k = round_exact(scale2(v, n_frac), rounding)
    lo, hi = code_range(signed, n_word)
    return overflow_exact(k, signed, n_word, overflow), k > hi, k < lo, k


def quantize_code(v, signed, n_word, n_frac, rounding, overflow):
    return quantize(v, signed, n_word, n_frac, rounding, overflow)[0]


# --------------------------------------------------------------------------- bit patterns
def pattern(k, n_word):
    return k % (1 << n_word)


def from_pattern(p, signed, n_word):
    p %= (1 << n_word)
    if signed and p >= (1 << (n_word - 1)):
        p -= (1 << n_word)
    return p


def bin_image(k, n_word):
    return format(pattern(k, n_word), '0%db' % n_word)


def bin_image_dot(k, n_word, n_frac):
    s = bin_image(k, n_word)
    if 0 < n_frac < n_word:
        return s[:-n_frac] + '.' + s[-n_frac:]
    if n_frac == 0:
        return s + '.'
    if n_frac == n_word:
        return '.' + s
    raise ValueError('n_frac outside 0..n_word')


def hex_image(k, n_word):
    return format(pattern(k, n_word), '0%dX' % ((n_word + 3) // 4))


_DIGITS = '0123456789ABCDEFGHIJKLMNOPQRSTUVWXYZ'


def base_numeral(k, base):
    """sign-magnitude numeral of the integer k."""
    if k == 0:
        return '0'
    neg = k < 0
    k = abs(k)
    out = []
    while k:
        k, d = divmod(k, base)
        out.append(_DIGITS[d])
    return ('-' if neg else '') + ''.join(reversed(out))


# --------------------------------------------------------------------------- dtype strings
def dtype_fxp(signed, n_word, n_frac, is_complex=False):
    return 'fxp-%s%d/%d%s' % ('s' if signed else 'u', n_word, n_frac, '-complex' if is_complex else '')


def dtype_q(signed, n_word, n_frac):
    return '%s%d.%d' % ('Q' if signed else 'UQ', n_word - n_frac, n_frac)


def parse_dtype(text):
    """independent parser of the two documented notations -> (signed, n_word, n_frac, is_complex).
    fxp-<s|u><n_word>/<n_frac>[-complex]   and   <Q|UQ|QU|S|U><m>[.<n>]  (n_word = m + n), any letter case."""
    t = text.strip().lower()
    if t.startswith('fxp-'):
        body = t[4:]
        is_complex = body.endswith('-complex')
        if is_complex:
            body = body[:-len('-complex')]
        if not body or body[0] not in 'su':
            raise ValueError(text)
        signed = body[0] == 's'
        w, f = body[1:].split('/')
        return signed, int(w), int(f), is_complex
    for pre, signed in (('uq', False), ('qu', False), ('q', True), ('s', True), ('u', False)):
        if t.startswith(pre):
            body = t[len(pre):]
            if '.' in body:
                m, n = body.split('.', 1)
                m, n = int(m), int(n)
            else:
                m, n = int(body), 0
            return signed, m + n, n, False
    raise ValueError(text)


# --------------------------------------------------------------------------- inference (C06)
def frac_bits_needed(v):
    """fewest fraction bits making the dyadic rational v an integer code."""
    v = F(v)
    d = v.denominator
    if d & (d - 1):
        raise ValueError('not dyadic')
    return d.bit_length() - 1


def int_bits_needed(codes_min, codes_max, signed):
    """fewest word bits (including the sign bit when signed) whose range holds [codes_min, codes_max]."""
    n = 1 if signed else 0
    while True:
        if signed:
            lo, hi = -(1 << (n - 1)), (1 << (n - 1)) - 1
        else:
            lo, hi = 0, (1 << n) - 1
        if lo <= codes_min and codes_max <= hi:
            return n
        n += 1


def min_word_for(values, signed, n_frac):
    """fewest word bits >= n_frac + sign holding all values*2^n_frac (which must be integers)."""
    codes = []
    for v in values:
        c = scale2(v, n_frac)
        if c.denominator != 1:
            raise ValueError('value not exact at this n_frac')
        codes.append(int(c))
    s = 1 if signed else 0
    n = max(int_bits_needed(min(codes), max(codes), signed), n_frac + s, s)
    return n


def minimal_format(values, signed):
    """(n_word, n_frac) both inferred: fewest fraction bits making every value exact, then fewest word bits
    that hold all of them with a non-negative integer length."""
    n_frac = max(frac_bits_needed(v) for v in values)
    return min_word_for(values, signed, n_frac), n_frac


# --------------------------------------------------------------------------- growth rules
def fmt_add(x, y):
    """x, y = (signed, n_word, n_frac) -> optimal format for x+y / x-y."""
    signed = x[0] or y[0]
    n_int = max(n_int_of(*x), n_int_of(*y)) + 1
    n_frac = max(x[2], y[2])
    return (signed, int(signed) + n_int + n_frac, n_frac)


def fmt_mul(x, y):
    signed = x[0] or y[0]
    return (signed, x[1] + y[1], x[2] + y[2])


def fmt_truediv(x, y):
    signed = x[0] or y[0]
    n_int = n_int_of(*x) + y[2] + int(signed)
    n_frac = x[2] + n_int_of(*y)
    return (signed, int(signed) + n_int + n_frac, n_frac)


def fmt_floordiv(x, y):
    signed = x[0] or y[0]
    n_int = n_int_of(*x) + y[2] + int(signed)
    return (signed, int(signed) + n_int, 0)


def fmt_mod(x, y):
    signed = x[0] or y[0]
    n_int = max(n_int_of(*x), n_int_of(*y)) if signed else min(n_int_of(*x), n_int_of(*y))
    n_frac = max(x[2], y[2])
    return (signed, int(signed) + n_int + n_frac, n_frac)


def ceil_log2(n):
    if n <= 1:
        return 0
    return (n - 1).bit_length()


def fmt_sum(x, count):
    return (x[0], x[1] + ceil_log2(count), x[2])


def fmt_prod(x, count):
    return (x[0], x[1] * count, x[2] * count)


def fmt_dot(x, y, count):
    signed = x[0] or y[0]
    return (signed, x[1] + y[1] + ceil_log2(count), x[2] + y[2])


def fmt_policy(policy, x, y):
    """imposed format for sizing policies same / largest / smallest (x = first operand)."""
    signed = x[0] or y[0]
    if policy == 'same':
        n_int, n_frac = n_int_of(*x), x[2]
    elif policy == 'largest':
        n_int, n_frac = max(n_int_of(*x), n_int_of(*y)), max(x[2], y[2])
    elif policy == 'smallest':
        n_int, n_frac = min(n_int_of(*x), n_int_of(*y)), min(x[2], y[2])
    else:
        raise ValueError(policy)
    return (signed, int(signed) + n_int + n_frac, n_frac)


# --------------------------------------------------------------------------- self test
def selftest():
    """hand-computed vectors; raises AssertionError on any disagreement."""
    R = round_exact
    h = F(1, 2)
    vec = [
        (F(5, 2), dict(trunc=2, fix=2, floor=2, ceil=3, around=2)),
        (F(7, 2), dict(trunc=3, fix=3, floor=3, ceil=4, around=4)),
        (F(-5, 2), dict(trunc=-2, fix=-2, floor=-3, ceil=-2, around=-2)),
        (F(-7, 2), dict(trunc=-3, fix=-3, floor=-4, ceil=-3, around=-4)),
        (F(9, 4), dict(trunc=2, fix=2, floor=2, ceil=3, around=2)),
        (F(-9, 4), dict(trunc=-2, fix=-2, floor=-3, ceil=-2, around=-2)),
        (F(11, 4), dict(trunc=2, fix=2, floor=2, ceil=3, around=3)),
        (F(-1, 2), dict(trunc=0, fix=0, floor=-1, ceil=0, around=0)),
        (F(1, 2), dict(trunc=0, fix=0, floor=0, ceil=1, around=0)),
        (F(3, 2), dict(trunc=1, fix=1, floor=1, ceil=2, around=2)),
        (F(4), dict(trunc=4, fix=4, floor=4, ceil=4, around=4)),
        (F(-4), dict(trunc=-4, fix=-4, floor=-4, ceil=-4, around=-4)),
    ]
    for x, exp in vec:
        for m, e in exp.items():
            assert R(x, m) == e, (x, m, R(x, m), e)
    assert code_range(True, 8) == (-128, 127) and code_range(False, 8) == (0, 255)
    assert code_range(True, 1) == (-1, 0) and code_range(False, 1) == (0, 1)
    assert wrap(128, True, 8) == -128 and wrap(-129, True, 8) == 127 and wrap(256, False, 8) == 0
    assert wrap(-1, False, 8) == 255 and wrap(383, True, 8) == 127 and wrap(3, True, 2) == -1
    assert saturate(1000, True, 8) == 127 and saturate(-1000, True, 8) == -128 and saturate(-5, False, 8) == 0
    assert quantize(F(1001, 1000), True, 8, 2, 'around', 'saturate')[0] == 4
    assert quantize(F(-3.3), True, 8, 2, 'trunc', 'saturate')[0] == -13
    assert quantize(F(-3.3), True, 8, 2, 'floor', 'saturate')[0] == -14
    assert quantize(100, True, 8, 2, 'trunc', 'saturate') == (127, True, False, 400)
    assert quantize(100, True, 8, 2, 'trunc', 'wrap')[0] == wrap(400, True, 8) == -112
    assert quantize(5, True, 8, -2, 'trunc', 'saturate')[0] == 1
    assert quantize(6, True, 8, -2, 'around', 'saturate')[0] == 2      # 1.5 -> tie to even 2
    assert quantize(10, True, 8, -2, 'around', 'saturate')[0] == 2     # 2.5 -> tie to even 2
    assert bin_image(-1, 4) == '1111' and bin_image(5, 4) == '0101' and bin_image(-8, 4) == '1000'
    assert bin_image_dot(5, 4, 2) == '01.01' and bin_image_dot(5, 4, 0) == '0101.' and bin_image_dot(5, 4, 4) == '.0101'
    assert hex_image(-1, 9) == '1FF' and hex_image(10, 8) == '0A' and hex_image(-128, 8) == '80'
    assert base_numeral(-255, 16) == '-FF' and base_numeral(0, 2) == '0' and base_numeral(35, 36) == 'Z'
    assert from_pattern(0b1111, True, 4) == -1 and from_pattern(0b1111, False, 4) == 15
    assert dtype_fxp(True, 16, 15) == 'fxp-s16/15' and dtype_fxp(False, 8, -2, True) == 'fxp-u8/-2-complex'
    assert dtype_q(True, 16, 15) == 'Q1.15' and dtype_q(False, 8, 2) == 'UQ6.2'
    assert parse_dtype('fxp-s16/15') == (True, 16, 15, False) and parse_dtype('FXP-u8/-2-Complex') == (False, 8, -2, True)
    assert parse_dtype('Q1.15') == (True, 16, 15, False) and parse_dtype('uq6.2') == (False, 8, 2, False) and parse_dtype('S8') == (True, 8, 0, False)
    assert minimal_format([F(5, 4)], True) == (4, 2)          # 1.25 -> code 5 at 2 frac bits -> s4/2
    assert minimal_format([F(-1)], True) == (1, 0) or minimal_format([F(-1)], True) == (1, 0)
    assert minimal_format([F(1)], True) == (2, 0)
    assert minimal_format([F(1, 4)], True) == (3, 2)          # frac 2, word >= n_frac+1
    assert minimal_format([F(0)], False) == (0, 0)
    assert minimal_format([F(255)], False) == (8, 0) and minimal_format([F(256)], False) == (9, 0)
    assert minimal_format([F(-128)], True) == (8, 0) and minimal_format([F(-129)], True) == (9, 0)
    assert fmt_add((True, 8, 2), (False, 4, 3)) == (True, 1 + 6 + 3, 3)
    assert fmt_mul((True, 8, 2), (False, 4, 3)) == (True, 12, 5)
    assert ceil_log2(1) == 0 and ceil_log2(2) == 1 and ceil_log2(3) == 2 and ceil_log2(8) == 3 and ceil_log2(9) == 4
    assert fmt_policy('largest', (True, 8, 2), (True, 6, 4)) == (True, 1 + 5 + 4, 4)
    assert fmt_policy('smallest', (True, 8, 2), (True, 6, 4)) == (True, 1 + 1 + 2, 2)
    return True


if __name__ == '__main__':
    selftest()
    print('refmodel selftest ok')
