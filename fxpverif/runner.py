"""Shard runner, verdicts, evidence, replay and known-finding handling.

usage (through /verif/check):
    check <Cxx> --tier quick|thorough          run the property's monitors on /repo's working tree
    check <Cxx> --replay <file>                re-execute one recorded witness case under the monitors
    (internal)  --shard i/n --out file         one shard of the above, in its own process

exit 0: held on everything observed (KNOWN-FINDING lines allowed)
exit 1: at least one unlisted violation; prints  VIOLATION property=<id> replay=<path>
exit 2: inconclusive (deciding monitor not reached, coverage floor missed, shard crashed / timed out)
"""
import argparse
import collections
import concurrent.futures
import importlib
import json
import os
import random
import subprocess
import sys
import time
import traceback

HERE = os.path.dirname(os.path.abspath(__file__))
VERIF = os.path.dirname(HERE)
PY = sys.executable
MAX_SAMPLES = 6
MAX_VIOL_PER_SHARD = 40


def repo_path():
    return os.path.abspath(os.environ.get('FXPVERIF_REPO', '/repo'))


def bind_tree():
    """make `import fxpmath` resolve to the selected tree and assert that it did."""
    rp = repo_path()
    if rp not in sys.path[:1]:
        sys.path.insert(0, rp)
    for m in [m for m in sys.modules if m == 'fxpmath' or m.startswith('fxpmath.')]:
        del sys.modules[m]
    import fxpmath
    f = os.path.abspath(fxpmath.__file__)
    if not f.startswith(rp + os.sep):
        raise RuntimeError('fxpmath imported from %s, expected under %s' % (f, rp))
    return fxpmath


class Violation(object):
    def __init__(self, kind, message, case, event=None, extra=None, key=None):
        self.kind = kind
        self.message = message
        self.case = case
        self.event = event
        self.extra = extra
        self.key = key

    def to_json(self):
        return {'kind': self.kind, 'message': self.message, 'case': self.case, 'event': self.event,
                'extra': self.extra, 'key': self.key}


class Ctx(object):
    """what a property module sees: the monitor, counters, and the verdict sinks."""

    def __init__(self, prop, tier, seed, shard=0, nshards=1):
        self.prop = prop
        self.tier = tier
        self.seed = seed
        self.shard = shard
        self.nshards = nshards
        self.mon = None
        self.evaluations = 0
        self.elements = 0
        self.keys = set()
        self.allkeys = set()
        self.floor = collections.Counter()
        self.samples = []
        self.violations = []
        self.skipped = collections.Counter()
        self.cross = collections.Counter()
        self.cross_examples = {}
        self.notes = collections.Counter()
        self.case = None
        self._viol_kinds = collections.Counter()
        self._viol_stored = collections.Counter()

    # -- oracle sinks
    def judged(self, key, nontrivial=True, sample=None, elements=1):
        self.evaluations += 1
        self.elements += elements
        k = repr(key)
        self.allkeys.add(k)
        if nontrivial:
            self.keys.add(k)
        if sample is not None and len(self.samples) < MAX_SAMPLES:
            self.samples.append(sample)

    def want_sample(self):
        return len(self.samples) < MAX_SAMPLES

    def floor_hit(self, cell):
        self.floor[repr(cell)] += 1

    def violation(self, kind, message, event=None, extra=None, key=None):
        self._viol_kinds[kind if key is None else '%s[%s]' % (kind, key)] += 1
        # stored witnesses are capped per (kind, classifier key): witnesses of a listed finding must never crowd out an unlisted violation of the same kind
        self._viol_stored[(kind, key)] += 1
        if self._viol_stored[(kind, key)] > 8 or sum(1 for v in self.violations if v.key == key) >= MAX_VIOL_PER_SHARD:
            self.notes['violations_not_stored'] += 1
            return
        evd = None
        if event is not None:
            try:
                evd = event.describe()
            except Exception:
                evd = {'op': getattr(event, 'op', '?')}
        self.violations.append(Violation(kind, message, self.case, evd, extra, key))

    def skip(self, reason):
        self.skipped[reason] += 1

    def cross_observation(self, monitor_name, detail, example=None):
        k = '%s:%s' % (monitor_name, detail)
        self.cross[k] += 1
        if example is not None and k not in self.cross_examples:
            self.cross_examples[k] = example

    def rng_for(self, *parts):
        return random.Random(repr((self.seed, self.prop) + parts))


def load_prop(pid):
    return importlib.import_module('fxpverif.props.%s' % pid.lower())


ALL_PROPS = ['C%02d' % i for i in range(1, 21)]
FOREIGN_QUICK_STRIDE = 16


class ForeignCtx(object):
    """what the workload of ANOTHER property sees when it is borrowed as one more source of events for this property's judges:
    the real monitor and seeded randomness, but verdict sinks that do nothing - only this property's judges (which hold the real
    context) decide; relational checks which the foreign workload performs itself belong to the foreign property and are dropped."""

    def __init__(self, real, foreign_pid):
        self.__dict__['_real'] = real
        self.__dict__['_pid'] = foreign_pid
        self.prop = foreign_pid
        self.tier = 'quick'
        self.seed = real.seed
        self.shard = real.shard
        self.nshards = real.nshards
        self.mon = real.mon
        self.case = None
        self.notes = collections.Counter()
        self.skipped = collections.Counter()
        self.floor = collections.Counter()
        self.samples = []
        self.violations = []
        self.keys = set()
        self.allkeys = set()
        self.evaluations = 0
        self.elements = 0

    def judged(self, *a, **k):
        pass

    def floor_hit(self, *a, **k):
        pass

    def violation(self, *a, **k):
        self._real.notes['foreign_workload_own_relational_verdicts_dropped'] += 1

    def skip(self, *a, **k):
        pass

    def cross_observation(self, *a, **k):
        pass

    def want_sample(self):
        return False

    def rng_for(self, *parts):
        return random.Random(repr((self._real.seed, self._real.prop, 'foreign', self._pid) + parts))


def run_foreign(case, ctx, cache={}):
    """run one case of another property's (quick) workload under this property's judges"""
    fpid = case['prop']
    if fpid not in cache:
        cache[fpid] = (load_prop(fpid), ForeignCtx(ctx, fpid))
    fprop, fctx = cache[fpid]
    fctx.case = case['case']
    before = ctx.evaluations
    try:
        fprop.run_case(case['case'], fctx)
    except Exception as e:
        ctx.notes['foreign_case_exception:%s:%s' % (fpid, type(e).__name__)] += 1
    ctx.notes['foreign_events_judged:%s' % fpid] += ctx.evaluations - before
    ctx.notes['foreign_cases'] += 1


def run_repo_tests(case, ctx):
    """run one of the repository's test files in-process, under the installed monitor and judges"""
    import contextlib
    import io
    import pytest
    path = os.path.join(repo_path(), 'tests', case['file'])
    before = ctx.evaluations
    buf = io.StringIO()
    with contextlib.redirect_stdout(buf), contextlib.redirect_stderr(buf):
        rc = pytest.main([path, '-q', '-p', 'no:cacheprovider', '-x' if False else '-q', '--no-header', '-W', 'ignore', '--rootdir', repo_path()])
    ctx.notes['repo_tests:%s:pytest_rc=%s' % (case['file'], int(rc))] += 1
    ctx.notes['repo_tests_events_judged'] += ctx.evaluations - before


# ---------------------------------------------------------------------------------- one shard
def run_shard(pid, tier, seed, shard, nshards, out, only_case=None):
    t0 = time.time()
    res = {'ok': False}
    try:
        from . import refmodel
        refmodel.selftest()
        fxpmath = bind_tree()
        from . import monitor as M
        prop = load_prop(pid)
        ctx = Ctx(pid, tier, seed, shard, nshards)
        mon = M.Monitor()
        ctx.mon = mon
        taps = M.AnchorTaps(getattr(prop, 'ANCHORS', []))
        mon.install(fxpmath)
        for j in prop.make_judges(ctx):
            mon.subscribe(j)
        # universal monitors as cross observations (deciding only in their own property's module)
        from . import universal
        for j in universal.cross_judges(ctx, exclude=getattr(prop, 'OWN_UNIVERSAL', ())):
            mon.subscribe(j)
        taps.start()
        n_cases = 0
        if only_case is not None:
            cases = [only_case]
        else:
            def all_cases():
                for c in prop.cases(tier, seed):
                    yield c
                # thorough tier: the repository's own tests are one more workload for the same (event-driven) oracles
                if tier == 'thorough' and getattr(prop, 'REPO_TESTS', True):
                    tdir = os.path.join(repo_path(), 'tests')
                    if os.path.isdir(tdir):
                        for fn in sorted(os.listdir(tdir)):
                            if fn.startswith('test_') and fn.endswith('.py') and fn != 'test_performace.py':
                                yield {'k': '__repotests__', 'file': fn}
                # the quick workloads of all OTHER properties are further sources of events for this property's judges: all of their cases in the
                # thorough tier, one case in FOREIGN_QUICK_STRIDE (a different residue for every seed) in the quick tier
                if getattr(prop, 'FOREIGN_WORKLOADS', True) and os.environ.get('FXPVERIF_NO_FOREIGN') != '1':
                    stride = 1 if tier == 'thorough' else FOREIGN_QUICK_STRIDE
                    for fn_, fpid in enumerate(ALL_PROPS):
                        if fpid == pid:
                            continue
                        try:
                            fprop = load_prop(fpid)
                        except Exception:
                            continue
                        for ci, c in enumerate(fprop.cases('quick', seed)):
                            if (ci + seed + fn_) % stride == 0:
                                yield {'k': '__foreign__', 'prop': fpid, 'case': c}
            cases = (c for i, c in enumerate(all_cases()) if i % nshards == shard)
        budget = getattr(prop, 'SHARD_BUDGET_S', {}).get(tier)
        truncated = 0
        for case in cases:
            if budget is not None and time.time() - t0 > budget:
                truncated += 1
                continue
            ctx.case = case
            mon.current_case = case
            n_cases += 1
            try:
                if isinstance(case, dict) and case.get('k') == '__repotests__':
                    run_repo_tests(case, ctx)
                elif isinstance(case, dict) and case.get('k') == '__foreign__':
                    run_foreign(case, ctx)
                else:
                    prop.run_case(case, ctx)
            except Exception as e:
                # the workload treats exceptions it expects itself; anything escaping is either a
                # violation recorded by a judge already or a harness problem -> report as note
                ctx.notes['case_exception:%s' % type(e).__name__] += 1
                if ctx.notes['case_exception:%s' % type(e).__name__] <= 3:
                    ctx.notes['case_exception_example:%s' % traceback.format_exc(limit=4)[-600:]] += 1
                if getattr(prop, 'CASE_EXCEPTION_IS_VIOLATION', False):
                    ctx.violation('exception', '%s: %s' % (type(e).__name__, str(e)[:300]),
                                  extra={'traceback': traceback.format_exc(limit=8)[-1500:]})
        taps.stop()
        mon.uninstall()
        res = {
            'ok': True, 'shard': shard, 'cases': n_cases, 'truncated_cases': truncated,
            'evaluations': ctx.evaluations, 'elements': ctx.elements,
            'keys': sorted(ctx.keys), 'n_allkeys': len(ctx.allkeys), 'floor': dict(ctx.floor),
            'samples': ctx.samples, 'violations': [v.to_json() for v in ctx.violations],
            'skipped': dict(ctx.skipped), 'cross': dict(ctx.cross), 'cross_examples': ctx.cross_examples,
            'viol_kinds': dict(ctx._viol_kinds), 'notes': dict(ctx.notes), 'wrapper_events': dict(mon.counters), 'anchor_reach': taps.report(),
            'judge_errors': mon.judge_errors[:5], 'n_judge_errors': len(mon.judge_errors),
            'wall_s': time.time() - t0,
        }
    except Exception:
        res = {'ok': False, 'error': traceback.format_exc()[-3000:], 'shard': shard}
    if out:
        with open(out, 'w') as f:
            json.dump(res, f)
    return res


# ---------------------------------------------------------------------------------- known findings
def load_known_findings():
    path = os.path.join(VERIF, 'KNOWN_FINDINGS.txt')
    out = {}
    if not os.path.exists(path):
        return out
    for line in open(path):
        line = line.strip()
        if not line.startswith('finding:'):
            continue
        body = line[len('finding:'):].strip()
        parts = body.split(None, 2)
        d = {}
        for p in parts[:2]:
            if '=' in p:
                k, v = p.split('=', 1)
                d[k] = v
        if 'property' in d and 'key' in d:
            out[(d['property'], d['key'])] = parts[2] if len(parts) > 2 else d['key']
    return out


# ---------------------------------------------------------------------------------- main
def main(argv=None):
    ap = argparse.ArgumentParser()
    ap.add_argument('prop')
    ap.add_argument('--tier', default=None)
    ap.add_argument('--seed', type=int, default=None)
    ap.add_argument('--replay', default=None)
    ap.add_argument('--shard', default=None)
    ap.add_argument('--out', default=None)
    ap.add_argument('--jobs', type=int, default=None)
    ap.add_argument('--no-evidence', action='store_true')
    a = ap.parse_args(argv)
    pid = a.prop.upper()
    tier = a.tier or os.environ.get('VERIF_TIER') or 'quick'
    if tier not in ('quick', 'thorough'):
        tier = 'quick'
    seed = a.seed if a.seed is not None else int(os.environ.get('VERIF_SEED', '0') or 0)

    if a.shard:
        i, n = a.shard.split('/')
        r = run_shard(pid, tier, seed, int(i), int(n), a.out)
        return 0 if r.get('ok') else 3

    if a.replay:
        return replay(pid, a.replay)

    return run_check(pid, tier, seed, a.jobs, write_evidence=not a.no_evidence)


def _env():
    env = dict(os.environ)
    env['PYTHONDONTWRITEBYTECODE'] = '1'
    env['PYTHONHASHSEED'] = '0'
    env['PYTHONPATH'] = VERIF + (os.pathsep + env['PYTHONPATH'] if env.get('PYTHONPATH') else '')
    env.setdefault('OMP_NUM_THREADS', '1')
    env.setdefault('OPENBLAS_NUM_THREADS', '1')
    env.setdefault('MKL_NUM_THREADS', '1')
    return env


def run_check(pid, tier, seed, jobs=None, write_evidence=True):
    t0 = time.time()
    prop = load_prop(pid)
    if getattr(prop, 'NEEDS_DEPS', False) and not os.path.isdir(os.path.join(VERIF, '.deps', 'icontract')):
        # self-heal: the supplementary contract layer is installed from the offline wheelhouse (never fatal)
        try:
            subprocess.run([PY, os.path.join(VERIF, 'tools', 'setup_deps.py')], cwd=VERIF, timeout=300, stdout=subprocess.DEVNULL, stderr=subprocess.DEVNULL)
        except Exception:
            pass
    nshards = jobs or getattr(prop, 'SHARDS', {}).get(tier, 16)
    nshards = max(1, min(nshards, 16))
    work = os.path.join(VERIF, '.work', '%s_%s_%d_%d' % (pid, tier, seed, os.getpid()))
    os.makedirs(work, exist_ok=True)
    timeout = getattr(prop, 'SHARD_TIMEOUT_S', {}).get(tier, 900 if tier == 'quick' else 7200)

    def one(i):
        out = os.path.join(work, 'shard%d.json' % i)
        cmd = [PY, '-X', 'faulthandler', '-m', 'fxpverif.runner', pid, '--tier', tier, '--seed', str(seed),
               '--shard', '%d/%d' % (i, nshards), '--out', out]
        try:
            p = subprocess.run(cmd, cwd=VERIF, env=_env(), timeout=timeout, stdout=subprocess.PIPE,
                               stderr=subprocess.STDOUT)
        except subprocess.TimeoutExpired:
            return {'ok': False, 'error': 'shard watchdog timeout after %ss' % timeout, 'shard': i}
        if os.path.exists(out):
            try:
                r = json.load(open(out))
            except Exception as e:
                r = {'ok': False, 'error': 'unreadable shard output: %s' % e, 'shard': i}
        else:
            r = {'ok': False, 'error': 'no shard output; rc=%s; tail=%s' % (p.returncode, p.stdout[-1500:].decode('utf8', 'replace')), 'shard': i}
        return r

    with concurrent.futures.ThreadPoolExecutor(max_workers=nshards) as ex:
        results = list(ex.map(one, range(nshards)))

    # ---- aggregate
    bad = [r for r in results if not r.get('ok')]
    good = [r for r in results if r.get('ok')]
    keys = set()
    floor = collections.Counter()
    samples = []
    violations = []
    skipped = collections.Counter()
    cross = collections.Counter()
    cross_examples = {}
    notes = collections.Counter()
    viol_kinds = collections.Counter()
    wrapper = collections.Counter()
    anchors = collections.Counter()
    anchors_missing = set()
    evaluations = elements = cases = truncated = n_judge_errors = 0
    judge_errors = []
    for r in good:
        keys.update(r['keys'])
        floor.update(r['floor'])
        for s in r['samples']:
            if len(samples) < 8:
                samples.append(s)
        violations.extend(r['violations'])
        skipped.update(r['skipped'])
        cross.update(r['cross'])
        for k, v in r['cross_examples'].items():
            cross_examples.setdefault(k, v)
        notes.update(r['notes'])
        viol_kinds.update(r.get('viol_kinds', {}))
        wrapper.update(r['wrapper_events'])
        for k, v in r['anchor_reach'].items():
            if k == '_not_found':
                anchors_missing.update(v)
            else:
                anchors[k] += v
        evaluations += r['evaluations']
        elements += r['elements']
        cases += r['cases']
        truncated += r.get('truncated_cases', 0)
        n_judge_errors += r['n_judge_errors']
        judge_errors.extend(r['judge_errors'])

    known = load_known_findings()
    known_hit = collections.Counter()
    new_viol = []
    for v in violations:
        k = v.get('key')
        if k is not None and (pid, k) in known:
            known_hit[k] += 1
        else:
            new_viol.append(v)

    inconclusive = []
    if bad:
        inconclusive.append('%d shard(s) failed: %s' % (len(bad), (bad[0].get('error') or '')[-400:].replace('\n', ' | ')))
    if n_judge_errors:
        inconclusive.append('%d oracle crash(es): %s' % (n_judge_errors, str(judge_errors[0])[-500:].replace('\n', ' | ')))
    for opn in getattr(prop, 'DECIDING_OPS', []):
        alts = opn if isinstance(opn, (tuple, list)) else (opn,)
        if not any(wrapper.get(o, 0) for o in alts):
            inconclusive.append('deciding wrapper %s saw no event' % '/'.join(alts))
    n_case_exc = sum(v for k, v in notes.items() if k.startswith('case_exception:'))
    if cases and n_case_exc > max(5, cases // 100):
        ex = next((k for k in notes if k.startswith('case_exception_example:')), '')
        inconclusive.append('%d of %d workload cases ended with an exception that no oracle accounted for (%s)' % (n_case_exc, cases, ex[-300:].replace('\n', ' | ')))
    if evaluations == 0:
        inconclusive.append('oracle judged no event')
    missing_floor = []
    if hasattr(prop, 'floors'):
        missing_floor = [c for c in prop.floors(tier) if floor.get(repr(c), 0) == 0]
        if missing_floor:
            inconclusive.append('coverage floor missed: %d cells e.g. %r' % (len(missing_floor), missing_floor[:3]))
    if len(keys) < 2:
        inconclusive.append('fewer than 2 distinct non-trivial cases observed')

    # ---- report
    rc = 0
    lines = []
    for k, n in sorted(known_hit.items()):
        lines.append('KNOWN-FINDING: property=%s %s [key=%s, %d witness(es) this run]' % (pid, known[(pid, k)], k, n))
    replay_dir = os.path.join(VERIF, 'replays', pid)
    if new_viol:
        rc = 1
        os.makedirs(replay_dir, exist_ok=True)
        seen_kinds = collections.Counter()
        n_written = 0
        for v in new_viol:
            seen_kinds[v['kind']] += 1
            if seen_kinds[v['kind']] > 3 or n_written >= 12:
                continue
            path = os.path.join(replay_dir, '%s_s%d_%d.json' % (tier, seed, n_written))
            with open(path, 'w') as f:
                json.dump({'property': pid, 'tier': tier, 'seed': seed, 'violation': v, 'case': v['case'],
                           'repo': repo_path()}, f, indent=1, default=str)
            n_written += 1
            lines.append('VIOLATION property=%s replay=%s' % (pid, path))
            lines.append('  kind=%s %s' % (v['kind'], (v['message'] or '')[:300]))
        lines.append('  violation kinds (all shards): %s' % dict(viol_kinds))
    elif inconclusive:
        rc = 2
        for why in inconclusive:
            lines.append('INCONCLUSIVE property=%s reason=%s' % (pid, why))
    wall = time.time() - t0
    verdict = {0: 'held', 1: 'violated', 2: 'inconclusive'}[rc]
    lines.append('%s %s tier=%s seed=%d: %s; %d events judged (%d element checks) in %d cases, %d distinct non-trivial, '
                 '%d skipped, %.1fs' % (pid, getattr(prop, 'TITLE', ''), tier, seed, verdict, evaluations, elements, cases,
                                        len(keys), sum(skipped.values()), wall))
    print('\n'.join(lines))
    sys.stdout.flush()

    if write_evidence:
        ev = {
            'property_id': pid, 'tier': tier, 'seed': seed, 'level': 'exploration',
            'coverage': {
                'evaluations': int(evaluations),
                'distinct_nontrivial': int(len(keys)),
                'rule': getattr(prop, 'RULE', ''),
                'samples': samples if samples else [{'note': 'no sample recorded'}],
                'exhaustive': False,
                'exhaustive_subspace': getattr(prop, 'EXHAUSTIVE', {}).get(tier, None),
                'element_checks': int(elements),
                'cases': int(cases),
                'cases_borrowed_from_other_properties_workloads': int(notes.get('foreign_cases', 0)),
                'events_judged_in_borrowed_cases': int(sum(v for k, v in notes.items() if k.startswith('foreign_events_judged:'))),
                'cases_cut_by_budget': int(truncated),
                'shards': nshards,
                'wrapper_events': dict(wrapper),
                'anchor_reach': dict(anchors),
                'anchors_not_found': sorted(anchors_missing),
                'skipped': dict(skipped),
                'coverage_floor_cells_hit': len([k for k, v in floor.items() if v]),
                'coverage_floor_missing': [repr(c) for c in missing_floor[:20]],
                'cross_observations': {k: {'count': v, 'example': cross_examples.get(k)} for k, v in sorted(cross.items())[:40]},
                'known_findings_hit': dict(known_hit),
                'notes': {k: v for k, v in sorted(notes.items())[:30]},
                'verdict': verdict,
                'inconclusive_reasons': inconclusive,
            },
            'assumptions': getattr(prop, 'ASSUMPTIONS', []) + [
                'CPython and NumPy (as array container) are trusted; the oracle is fxpverif/refmodel.py (exact ints/Fractions)',
                'held only on the executions observed in this run; says nothing about inputs the workload did not produce'],
            'wall_s': round(wall, 2),
            'violations': len(new_viol),
        }
        os.makedirs(os.path.join(VERIF, 'evidence'), exist_ok=True)
        with open(os.path.join(VERIF, 'evidence', '%s.json' % pid), 'w') as f:
            json.dump(ev, f, indent=1, default=str)
    # clean the scratch directory
    try:
        for fn in os.listdir(work):
            os.unlink(os.path.join(work, fn))
        os.rmdir(work)
    except OSError:
        pass
    return rc


def replay(pid, path):
    d = json.load(open(path))
    case = d['case']
    r = run_shard(pid, d.get('tier', 'quick'), d.get('seed', 0), 0, 1, None, only_case=case)
    if not r.get('ok'):
        print('INCONCLUSIVE property=%s reason=replay crashed: %s' % (pid, r.get('error', '')[-500:]))
        return 2
    known = load_known_findings()
    new = [v for v in r['violations'] if not (v.get('key') and (pid, v['key']) in known)]
    for v in r['violations']:
        if v not in new:
            print('KNOWN-FINDING: property=%s %s' % (pid, known[(pid, v['key'])]))
    if new:
        for v in new[:5]:
            print('VIOLATION property=%s replay=%s' % (pid, path))
            print('  kind=%s %s' % (v['kind'], v['message'][:400]))
            if v.get('event'):
                print('  event=%s' % json.dumps(v['event'], default=str)[:1500])
        return 1
    print('replay of %s: no violation reproduced (%d events judged)' % (path, r['evaluations']))
    return 0


if __name__ == '__main__':
    sys.exit(main())
