"""Decoding of store events (constructor, call, set_val, indexed assignment) for the store oracles.

decode_store(ev) -> StoreInfo or None (not a store of a plain value); raises Unsupported(reason) when it is a store
the oracles do not cover.
"""
from fractions import Fraction as F

import numpy as np

from . import refmodel as R
from .exact import exact_values, Unsupported

STORE_OPS = ('__init__', 'set_val', '__call__', '__setitem__')
_INIT_POS = ('val', 'signed', 'n_word', 'n_frac', 'n_int', 'like', 'dtype')


class StoreInfo(object):
    __slots__ = ('route', 'carrier', 'index', 'raw', 'pre', 'post', 'values', 'shape', 'is_complex', 'init_args', 'fxp_source', 'src_scaled', 'src_status')


def _recv_snaps(ev):
    for o, p, q in zip(ev.operands, ev.pre, ev.post):
        if o is ev.receiver:
            return p, q
    return None, None


def init_arguments(ev):
    d = {}
    for n, a in zip(_INIT_POS, ev.args):
        d[n] = a
    d.update(ev.kwargs)
    return d


def decode_store(ev, allow_raw=False, allow_fxp=False, allow_scaled_src=False):
    if ev.op not in STORE_OPS or ev.kind != 'method':
        return None
    si = StoreInfo()
    si.index = None
    si.raw = False
    si.init_args = None
    si.fxp_source = False
    si.src_scaled = False
    si.src_status = None
    if ev.op == '__init__':
        d = init_arguments(ev)
        si.init_args = d
        si.carrier = d.get('val')
        si.raw = bool(d.get('raw', False))
        si.route = 'constructor'
    elif ev.op == 'set_val':
        names = ('val', 'raw', 'vdtype', 'index')
        d = dict(zip(names, ev.args))
        d.update(ev.kwargs)
        si.carrier = d.get('val')
        si.raw = bool(d.get('raw', False))
        si.index = d.get('index')
        si.route = 'set_val' if si.index is None else 'set_val_index'
    elif ev.op == '__call__':
        si.carrier = ev.args[0] if ev.args else ev.kwargs.get('val')
        if si.carrier is None:
            return None       # a read
        si.route = 'call'
    else:
        if len(ev.args) < 2:
            return None
        si.index, si.carrier = ev.args[0], ev.args[1]
        si.route = 'setitem'
    if si.carrier is None:
        return None
    if type(si.carrier).__name__ == 'Fxp':
        if not allow_fxp:
            return None           # a conversion: C10
        src = None
        for o, p in zip(ev.operands, ev.pre):
            if o is si.carrier:
                src = p
        src_scaled = src is not None and (src.scaled or src.scale != 1 or src.bias != 0)
        if src is None or src.is_complex or src.imag is not None or (src_scaled and not allow_scaled_src):
            raise Unsupported('Fxp source complex, scaled or not initialised')
        if si.raw:
            raise Unsupported('raw store')
        si.pre, si.post = _recv_snaps(ev)
        lsb = F(2) ** (-src.n_frac)
        si.values, si.shape, si.is_complex = [k * lsb for k in src.codes], tuple(src.shape), False
        if src_scaled:
            try:
                a_, b_ = F(src.scale), F(src.bias)
            except (TypeError, ValueError):
                raise Unsupported('Fxp source with a non-numeric scale/bias')
            si.values = [a_ * v + b_ for v in si.values]      # the value of a scaled source is scale*code*LSB + bias
        si.fxp_source = True
        si.src_scaled = src_scaled
        si.src_status = dict(src.status)
        return si
    if si.raw and not allow_raw:
        raise Unsupported('raw store')
    si.pre, si.post = _recv_snaps(ev)
    if si.raw and si.init_args is not None and isinstance(si.init_args.get('n_frac'), int) and si.init_args.get('n_word') is None and si.init_args.get('dtype') is None \
            and si.init_args.get('like') is None and si.post is not None and si.post.n_frac != si.init_args['n_frac']:
        # (size inference limited the word and shortened the fraction length: the raw value was given for the fraction length asked and is
        #  rescaled to the one chosen - C06's subject, not a plain raw store)
        raise Unsupported('raw value given for another fraction length than the one inferred')
    si.values, si.shape, si.is_complex = exact_values(si.carrier)
    return si


def quantize_all(values, post, is_complex, rounding=None, overflow=None, raw=False):
    """-> (codes, imag_codes or None, any_over, any_under, any_inexact, roundeds)"""
    r = rounding or post.rounding
    o = overflow or post.overflow
    nf = 0 if raw else post.n_frac
    codes, imag = [], ([] if is_complex else None)
    over = under = inexact = False
    lsb = F(1) if raw else R.lsb(post.n_frac)
    rounded = []
    for v in values:
        comps = v if is_complex else (v,)
        res = []
        for c in comps:
            k, ov, un, ru = R.quantize(c, post.signed, post.n_word, nf, r, o)
            over |= ov
            under |= un
            inexact |= (k * lsb != c)
            res.append(k)
            rounded.append(ru)
        codes.append(res[0])
        if is_complex:
            imag.append(res[1])
    return codes, imag, over, under, inexact, rounded


def apply_index(pre_codes, pre_shape, index, new_codes, new_shape):
    """codes after `a[index] = new` (NumPy object arrays are used for index bookkeeping only)."""
    a = np.empty(len(pre_codes), dtype=object)
    a[:] = pre_codes
    a = a.reshape(pre_shape)
    b = np.empty(len(new_codes), dtype=object)
    b[:] = new_codes
    b = b.reshape(new_shape)
    if b.shape == ():
        b = b.item() if b.size == 1 else b
    a[index] = b
    return a.ravel().tolist()


def expected_post_codes(si, rounding=None, overflow=None):
    """expected flat (codes, imag, shape, over, under, inexact) of the receiver after the store event."""
    post = si.post
    codes, imag, over, under, inexact, rounded = quantize_all(si.values, post, si.is_complex, rounding, overflow, si.raw)
    if si.index is None:
        return codes, imag, si.shape, over, under, inexact, rounded
    pre = si.pre
    if pre is None:
        raise Unsupported('indexed store into an uninitialised object')
    try:
        full = apply_index(pre.codes, pre.shape, si.index, codes, si.shape)
        fimag = None
        if pre.imag is not None or imag is not None:
            pim = pre.imag if pre.imag is not None else [0] * len(pre.codes)
            nim = imag if imag is not None else [0] * len(codes)
            fimag = apply_index(pim, pre.shape, si.index, nim, si.shape)
    except (IndexError, ValueError) as e:
        raise Unsupported('index not applicable in the model: %s' % type(e).__name__)
    return full, fimag, pre.shape, over, under, inexact, rounded


def in_core_domain(si, post, allow_big_float_saturate=True):
    """C01 quantifier: 1<=n_word<=52, -8<=n_frac<=n_word+8, |v|<2^53 and |v*2^n_frac|<2^62
    (floats of any finite magnitude under saturate with n_frac>=0).  -> None or reason for being outside."""
    if not (1 <= post.n_word <= 52):
        return 'n_word outside 1..52'
    if not (-8 <= post.n_frac <= post.n_word + 8):
        return 'n_frac outside -8..n_word+8'
    if post.scaled or post.scale != 1 or post.bias != 0:
        return 'scaled object'
    two = F(2)
    lim_v = two ** 53
    lim_x = two ** 62
    sc = two ** post.n_frac
    big = False
    for v in si.values:
        for c in (v if si.is_complex else (v,)):
            if abs(c) >= lim_v or abs(c * sc) >= lim_x:
                big = True
                break
        if big:
            break
    if big:
        if allow_big_float_saturate and post.overflow == 'saturate' and post.n_frac >= 0 and _is_float_carrier(si.carrier):
            return None
        return 'input magnitude outside the core domain'
    return None


def _is_float_carrier(c):
    if isinstance(c, float) or isinstance(c, np.floating):
        return True
    if isinstance(c, np.ndarray):
        return c.dtype.kind == 'f'
    if isinstance(c, (list, tuple)):
        return all(_is_float_carrier(x) for x in c) and len(c) > 0
    return False


def underflows_to_zero(v, n_frac):
    """the exact scaled value v*2^n_frac is non-zero but at most 2^-1075: the double product is +-0 (known finding
    store.scaled_underflow_to_zero: the library scales in double arithmetic, so floor/ceil/underflow of such inputs see 0)"""
    return n_frac < 0 and v != 0 and abs(v) * (F(2) ** n_frac) <= F(1, 2 ** 1075)


def as_library_sees(si, n_frac):
    """copy of the exact input values in which values whose scaled double product underflows are replaced by 0; None if there is none"""
    if si.is_complex:
        alt = [tuple(F(0) if underflows_to_zero(c, n_frac) else c for c in v) for v in si.values]
    else:
        alt = [F(0) if underflows_to_zero(v, n_frac) else v for v in si.values]
    return alt if alt != si.values else None


UNDERFLOW_KEY = 'store.scaled_underflow_to_zero'
