"""Universal monitors evaluated on every outermost event.

U1 well-formed object (C02) - U2 frame / no-alias / input containers untouched (C20) -
U3 sticky flags (C04) - U4 integer code type (C02/C18/C19).

They *decide* only inside the check of the property they belong to; everywhere else
they are reported as cross observations and never change that check's verdict.
"""
from fractions import Fraction as F

import numpy as np

from . import refmodel as R
from .monitor import RECEIVER_WRITERS, SHARING_ALLOWED, _FLAGS

ARITH_OPS = frozenset(['__add__', '__radd__', '__iadd__', '__sub__', '__rsub__', '__isub__', '__mul__', '__rmul__',
                       '__imul__', '__truediv__', '__rtruediv__', '__itruediv__', '__floordiv__', '__rfloordiv__',
                       '__ifloordiv__', '__mod__', '__rmod__', '__imod__', '__pow__', '__rpow__', '__ipow__',
                       'add', 'sub', 'mul', 'truediv', 'floordiv', 'mod', 'pow', 'sum', 'cumsum', 'cumprod', 'prod',
                       'fxp_max', 'fxp_min', 'max', 'min', 'sort', 'conjugate', 'conj', 'transpose', 'clip', 'diagonal',
                       'trace', 'dot', 'fxp_sum', 'mean', 'std', 'var', '__array_ufunc__', '__array_function__',
                       '__array_wrap__', 'reshape'])


def _float_of(fr):
    try:
        return float(fr)
    except OverflowError:
        return None


def u1_problems(s):
    """list of (tag, detail) for a Snap that is not well-formed."""
    out = []
    if s is None:
        return out
    if not isinstance(s.n_word, int) or not isinstance(s.n_frac, int) or isinstance(s.n_word, bool):
        return [('format_type', 'n_word/n_frac are not ints: %r %r' % (s.n_word, s.n_frac))]
    if s.n_word < 0:
        return [('format', 'negative word length %r' % (s.n_word,))]
    lo, hi = R.code_range(s.signed, s.n_word)
    if not s.ints_ok:
        out.append(('code_type', 'stored code of type %s' % s.bad_type))
    for comp in (s.codes, s.imag):
        if comp is None:
            continue
        for k in comp:
            if not isinstance(k, int):
                out.append(('code_nonint', 'non-integer code %r' % (k,)))
                break
            if k < lo or k > hi:
                out.append(('range', 'code %d outside [%d, %d] of %s' % (k, lo, hi, R.dtype_fxp(*s.fmt()))))
                break
    if s.is_complex:
        # complex objects are outside every property that speaks about limits and dtype spelling except C12 (which has
        # its own oracle); the library keeps their limits / dtype suffix in step with the value dtype only loosely.
        if s.n_int != R.n_int_of(s.signed, s.n_word, s.n_frac):
            out.append(('n_int', 'n_int=%r but n_word-n_frac-sign=%r' % (s.n_int, R.n_int_of(s.signed, s.n_word, s.n_frac))))
        return [p for p in out if p[0] in ('range', 'n_int')]
    if s.n_int != R.n_int_of(s.signed, s.n_word, s.n_frac):
        out.append(('n_int', 'n_int=%r but n_word-n_frac-sign=%r' % (s.n_int, R.n_int_of(s.signed, s.n_word, s.n_frac))))
    # limits
    if -1000 < s.n_frac < 1000 and s.n_word < 1000:
        lsb = R.lsb(s.n_frac)
        exp = {'upper': hi * lsb, 'lower': lo * lsb, 'precision': lsb}
        for name, e in exp.items():
            obs = getattr(s, name)
            ok = False
            try:
                if s.is_complex and isinstance(obs, complex):
                    comps = (obs.real, obs.imag)
                else:
                    comps = (obs,)
                if s.scale != 1 or s.bias != 0:
                    sc, bi = (s.scale.item() if isinstance(s.scale, (np.generic, np.ndarray)) and np.ndim(s.scale) == 0 else s.scale), (s.bias.item() if isinstance(s.bias, (np.generic, np.ndarray)) and np.ndim(s.bias) == 0 else s.bias)   # (NumPy parameters: python numbers, the limits are not expected in the parameter's narrow type)
                    cand = set()
                    try:
                        ex = F(sc) * e + (F(bi) if name != 'precision' else 0)
                        cand.add(_float_of(ex))
                    except (TypeError, ValueError):
                        pass
                    fe = _float_of(e)
                    if fe is not None:
                        cand.add(sc * fe + bi if name != 'precision' else sc * fe)
                    ok = all(float(c) in cand for c in comps)
                else:
                    fe = _float_of(e)
                    ok = all(isinstance(c, (int, float, np.floating, np.integer)) and float(c) == fe for c in comps)
                    if s.is_complex and isinstance(obs, complex):
                        ok = ok and len(comps) == 2
            except Exception as ex:      # unreadable attribute
                ok = False
            if not ok:
                out.append((name, '%s=%r but format %s has %s' % (name, obs, R.dtype_fxp(*s.fmt()), e)))
    # dtype string
    e1 = R.dtype_fxp(s.signed, s.n_word, s.n_frac, s.is_complex)
    e2 = R.dtype_q(s.signed, s.n_word, s.n_frac)
    if s.dtype not in (e1, e2):
        out.append(('dtype', 'dtype string %r for format %s' % (s.dtype, e1)))
    return out


def _write_targets(ev, Fxp):
    """objects this operation is documented to write."""
    t = []
    if ev.receiver is not None and ev.op in RECEIVER_WRITERS:
        t.append(ev.receiver)
    o = ev.kwargs.get('out') if ev.kwargs else None
    if isinstance(o, (tuple, list)) and o:
        o = o[0]
    if isinstance(o, Fxp):
        t.append(o)
    if ev.op == '__array_function__' and len(ev.args) >= 4 and isinstance(ev.args[3], dict):
        o = ev.args[3].get('out')
        if isinstance(o, (tuple, list)) and o:
            o = o[0]
        if isinstance(o, Fxp):
            t.append(o)
    if ev.op in ARITH_OPS:
        for x in ev.operands:
            cfg = getattr(x, 'config', None)
            if cfg is not None:
                for nm in ('_op_out', '_array_op_out'):
                    y = cfg.__dict__.get(nm)
                    if isinstance(y, Fxp):
                        t.append(y)
    if ev.exc is None and isinstance(ev.result, Fxp):
        for x in ev.operands:
            if x is ev.result:
                t.append(x)
    return t


def _shares(a, b):
    try:
        return (isinstance(a, np.ndarray) and isinstance(b, np.ndarray) and a.size > 0 and b.size > 0
                and np.shares_memory(a, b))
    except Exception:
        return False


def u2_frame_problems(ev, Fxp):
    out = []
    targets = _write_targets(ev, Fxp)
    tids = set(id(t) for t in targets)
    for o, p, q in zip(ev.operands, ev.pre, ev.post):
        if p is None or q is None or id(o) in tids:
            continue
        if any(_shares(p.val_ref, getattr(t, 'val', None)) or _shares(q.val_ref, getattr(t, 'val', None)) for t in targets):
            continue        # a view of a write target
        if p.key() != q.key():
            what = [n for n, a, b in zip(('signed', 'n_word', 'n_frac', 'n_int', 'shape', 'codes', 'imag', 'status', 'config',
                                          'scale', 'bias', 'upper', 'lower', 'precision'), p.key(), q.key()) if a != b]
            out.append(('operand_changed', 'operand %s changed by %s: %s' % (R.dtype_fxp(*p.fmt()), ev.op, ','.join(what)),
                        {'before': p.describe(), 'after': q.describe()}))
    return out


def u2_alias_problems(ev, Fxp):
    out = []
    if ev.exc is not None or not isinstance(ev.result, Fxp) or ev.op in SHARING_ALLOWED:
        return out
    if any(o is ev.result for o in ev.operands):
        return out
    r = ev.result_snap
    if r is None:
        return out
    for o, q in zip(ev.operands, ev.post):
        if q is None:
            continue
        sh = []
        if q.id_config == r.id_config:
            sh.append('config')
        if q.id_status == r.id_status:
            sh.append('status')
        if _shares(q.val_ref, r.val_ref):
            sh.append('val')
        if o.callbacks is not None and o.callbacks is ev.result.callbacks and ev.op not in ('__getitem__',):
            pass    # the callbacks list is not part of C20's enumerated state (config, status, value buffer)
        if sh:
            out.append(('result_shares_state', 'result of %s shares %s with an operand (%s)' % (
                ev.op, '+'.join(sh), R.dtype_fxp(*q.fmt())), {'shares': sh}))
    return out


def _deep_equal(a, b):
    if isinstance(a, np.ndarray) or isinstance(b, np.ndarray):
        if not (isinstance(a, np.ndarray) and isinstance(b, np.ndarray)):
            return False
        if a.dtype != b.dtype or a.shape != b.shape:
            return False
        if a.dtype == object or a.dtype.kind in 'US':
            return a.tolist() == b.tolist()
        return bool(np.array_equal(a, b, equal_nan=(a.dtype.kind in 'fc')))
    if type(a) is not type(b):
        return False
    if isinstance(a, (list, tuple)):
        return len(a) == len(b) and all(_deep_equal(x, y) for x, y in zip(a, b))
    if isinstance(a, float) and a != a:
        return b != b
    try:
        return bool(a == b) and type(a) is type(b)
    except Exception:
        return a is b


def u2_container_problems(ev):
    out = []
    for k, orig, cp in ev.containers:
        if not _deep_equal(orig, cp):
            out.append(('input_container_mutated', 'argument %r of %s was modified: before %.120r after %.120r' % (k, ev.op, cp, orig),
                        {'before': repr(cp)[:300], 'after': repr(orig)[:300]}))
    return out


def u3_problems(ev):
    out = []
    if ev.op == 'reset':
        return out
    for o, p, q in zip(ev.operands, ev.pre, ev.post):
        if p is None or q is None:
            continue
        for f in _FLAGS:
            if p.status.get(f) and not q.status.get(f):
                out.append(('flag_cleared', 'flag %s of %s was cleared by %s' % (f, R.dtype_fxp(*p.fmt()), ev.op)))
    return out


def getitem_problems(ev):
    """indexing a well-formed object with an index NumPy accepts for its shape must produce the element object (C02: objects produced by every
    public route; the other properties' workloads take operands this way)"""
    if ev.op != '__getitem__' or ev.kind != 'method' or ev.exc is None or not ev.pre or ev.pre[0] is None or len(ev.args) != 1:
        return []
    p = ev.pre[0]
    if u1_problems(p) or not p.codes:
        return []
    try:
        np.empty(tuple(p.shape))[ev.args[0]]
    except Exception:
        return []           # (an index error of the caller)
    return [('getitem_raises', 'indexing %s of shape %r with %.60r raised %s: %s' % (R.dtype_fxp(*p.fmt()), tuple(p.shape), ev.args[0], type(ev.exc).__name__, str(ev.exc)[:120]))]


def subjects(ev, Fxp):
    """(role, snap) of the objects produced / written by this event."""
    res = []
    if ev.exc is not None:
        return res
    if ev.receiver is not None:
        for o, q in zip(ev.operands, ev.post):
            if o is ev.receiver and q is not None:
                res.append(('receiver', q))
    if ev.result_snap is not None and not (ev.receiver is not None and ev.result is ev.receiver):
        res.append(('result', ev.result_snap))
    return res


def cross_judges(ctx, exclude=()):
    Fxp = ctx.mon.Fxp

    def cross(ev):
        if 'U1' not in exclude or 'U4' not in exclude:
            for role, s in subjects(ev, Fxp):
                for p in u1_problems(s):
                    tag = p[0]
                    if tag in ('code_type', 'code_nonint'):
                        if 'U4' not in exclude:
                            ctx.cross_observation('U4', '%s@%s' % (tag, ev.op), p[1])
                    elif 'U1' not in exclude:
                        ctx.cross_observation('U1', '%s@%s' % (tag, ev.op), p[1])
        if 'U1' not in exclude:
            for p in getitem_problems(ev):
                ctx.cross_observation('U1', '%s@%s' % (p[0], ev.op), p[1])
        if 'U2' not in exclude:
            for p in u2_frame_problems(ev, Fxp) + u2_alias_problems(ev, Fxp) + u2_container_problems(ev):
                ctx.cross_observation('U2', '%s@%s' % (p[0], ev.op), p[1])
        if 'U3' not in exclude:
            for p in u3_problems(ev):
                ctx.cross_observation('U3', '%s@%s' % (p[0], ev.op), p[1])
    cross.__name__ = 'universal_cross'
    return [cross]
