"""complex64 input + saturate: the upper limit is applied in float32, so the stored code is val_max+1 (outside the word)."""
import sys, warnings
import numpy as np
from fxpmath import Fxp
warnings.simplefilter('ignore')
bad = 0
def codes(x):
    return [(int(c.real), int(c.imag)) for c in np.asarray(x.val).ravel()]
a = np.array([0.75 + 0j, 1e8 - 1e8j], dtype=np.complex64)     # both values exact in float32, |v| < 2^53
# exact: 0.75*2^8 = 192 ; 1e8*2^8 = 2.56e10 > 2^31-1 -> saturate to 2147483647 ; -1e8*2^8 -> -2147483648
exp = [(192, 0), (2147483647, -2147483648)]
routes = {
  'ctor array':      lambda: Fxp(a, True, 32, 8),
  'ctor list of complex64 scalars': lambda: Fxp([np.complex64(v) for v in a], True, 32, 8),
  'call':            lambda: Fxp(None, True, 32, 8)(a),
  'set_val':         lambda: Fxp(None, True, 32, 8).set_val(a),
  'slice assignment': lambda: (lambda t: (t.__setitem__(slice(None), a), t)[1])(Fxp(np.zeros(2, dtype=complex), True, 32, 8)),
}
for name, f in routes.items():
    got = codes(f())
    if got != exp:
        bad += 1
        print('VIOLATION [%s] complex64: codes %r, expected %r (max code of s32 is %d)' % (name, got, exp, 2**31 - 1))
ref = codes(Fxp(a.astype(np.complex128), True, 32, 8))
print('same values as complex128 ->', ref)
# unsigned
got = codes(Fxp(np.array([0.75, 1e8], dtype=np.complex64), False, 32, 8)); e = [(192, 0), (2**32 - 1, 0)]
if got != e:
    bad += 1; print('VIOLATION [unsigned u32/8] codes %r expected %r' % (got, e))
# same root cause, other symptom: a float32-subnormal component with a negative n_frac underflows in float32
t = float(np.float32(1e-45))          # 2^-149, an ordinary (normal) double
b = np.array([complex(t, -t)], dtype=np.complex64)
got = codes(Fxp(b, True, 8, -3, rounding='ceil')); e = [(1, 0)]      # ceil(2^-152) = 1, ceil(-2^-152) = 0
if got != e:
    bad += 1; print('VIOLATION [complex64 tiny, s8/-3 ceil] codes %r expected %r (complex128 carrier gives %r)' % (got, e, codes(Fxp(b.astype(complex), True, 8, -3, rounding='ceil'))))
sys.exit(1 if bad else 0)
