"""subnormal float with a negative n_frac: v * 2^n_frac underflows to 0.0 before rounding."""
import sys, warnings
import numpy as np
from fractions import Fraction
from fxpmath import Fxp
warnings.simplefilter('ignore')
bad = 0
tiny = 5e-324                      # = 2^-1074 exactly, a finite real value with |v| < 2^53
assert Fraction(tiny) == Fraction(1, 2**1074)
cases = [
  # (value, signed, n_word, n_frac, rounding, overflow, expected code): exact q = v*2^n_frac is in (0,1) resp. (-1,0)
  ( tiny, True, 8, -1, 'ceil',  'saturate',  1),   # ceil(2^-1075)  = 1
  ( tiny, True, 8, -8, 'ceil',  'wrap',      1),
  (-tiny, True, 8, -1, 'floor', 'saturate', -1),   # floor(-2^-1075) = -1
  (-tiny, False, 8, -3, 'floor', 'wrap',    255),  # floor -> -1 -> wrap -> 255
  (3*tiny, True, 16, -8, 'ceil', 'saturate', 1),
  (2.0**-1067, True, 16, -8, 'ceil', 'saturate', 1),
]
for v, s, w, f, r, o, exp in cases:
    for name, mk in {
        'ctor float': lambda: Fxp(v, s, w, f, rounding=r, overflow=o),
        'ctor np.float64 array': lambda: Fxp(np.array([v]), s, w, f, rounding=r, overflow=o),
        'call list': lambda: Fxp(None, s, w, f, rounding=r, overflow=o)([v]),
        'index': lambda: (lambda t: (t.__setitem__(0, v), t)[1])(Fxp([0.0], s, w, f, rounding=r, overflow=o)),
    }.items():
        got = int(np.asarray(mk().val).ravel()[0])
        if got != exp:
            bad += 1
            print('VIOLATION [%s] v=%r fmt=(%s,%d,%d) %s/%s: code %d, expected %d' % (name, v, s, w, f, r, o, got, exp))
# control: the same value with n_frac = 0 is handled correctly
assert int(Fxp(tiny, True, 8, 0, rounding='ceil').val) == 1
sys.exit(1 if bad else 0)
