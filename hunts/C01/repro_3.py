"""np.longdouble *scalar* is squeezed through float() (objects.py:698-699); the same value in a 0-d/1-d longdouble array or a list is not."""
import sys, warnings
import numpy as np
from fractions import Fraction
from fxpmath import Fxp
from math import ceil
warnings.simplefilter('ignore')
if np.finfo(np.longdouble).nmant < 63:
    print('longdouble is not wider than double here: not applicable'); sys.exit(0)
L = np.longdouble
v = L(1) + L(2)**-60            # exactly 1 + 2^-60 (fits the 64-bit mantissa), |v| < 2^53
vq = Fraction(1) + Fraction(1, 2**60)
assert v > 1 and v - 1 == L(2)**-60
exp = ceil(vq * 2**0)           # = 2
bad = 0
res = {
  'scalar ctor':   Fxp(v, True, 8, 0, rounding='ceil'),
  'scalar call':   Fxp(None, True, 8, 0, rounding='ceil')(v),
  'scalar index':  (lambda t: (t.__setitem__(0, v), t)[1])(Fxp([0.0], True, 8, 0, rounding='ceil')),
  '0-d array':     Fxp(np.array(v), True, 8, 0, rounding='ceil'),
  '1-d array':     Fxp(np.array([v]), True, 8, 0, rounding='ceil'),
  'list':          Fxp([v], True, 8, 0, rounding='ceil'),
}
for k, x in res.items():
    got = int(np.asarray(x.val).ravel()[0])
    flag = '' if got == exp else '   <-- VIOLATION'
    if got != exp: bad += 1
    print('%-13s code %d (expected %d)%s' % (k, got, exp, flag))
# floor of a value just below an integer
w = L(3) - L(2)**-60
got = int(Fxp(w, True, 8, 0, rounding='floor').val); arr = int(Fxp(np.array([w]), True, 8, 0, rounding='floor').val[0])
if got != 2: bad += 1; print('VIOLATION scalar 3-2^-60 floor -> %d, expected 2 (array carrier gives %d)' % (got, arr))
sys.exit(1 if bad else 0)
