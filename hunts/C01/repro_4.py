"""longdouble array/list that contains one element >= 2^64 (saturate): the Python-number path does not round np.longdouble elements, int() truncates them."""
import sys, warnings
import numpy as np
from fxpmath import Fxp
warnings.simplefilter('ignore')
L = np.longdouble
vals = [1e30, -0.75, 0.25, 2.5, -1.5]       # all exactly representable doubles
bad = 0
exp = {'floor': [127, -1, 0, 2, -2], 'ceil': [127, 0, 1, 3, -1], 'around': [127, -1, 0, 2, -2], 'trunc': [127, 0, 0, 2, -1]}
for r, e in exp.items():
    for name, c in {'longdouble array': np.array(vals, dtype=L), 'list of longdouble scalars': [L(v) for v in vals]}.items():
        got = [int(k) for k in Fxp(c, True, 8, 0, rounding=r, overflow='saturate').val]
        ref = [int(k) for k in Fxp(np.array(vals), True, 8, 0, rounding=r, overflow='saturate').val]
        assert ref == e, (ref, e)
        if got != e:
            bad += 1; print('VIOLATION [%s, %s] codes %r, expected %r (float64 carrier gives %r)' % (name, r, got, e, ref))
# with fraction bits: s16/4, ceil: 0.26*16 = 4.16 -> 5
got = [int(k) for k in Fxp(np.array([1e30, 0.26], dtype=L), True, 16, 4, rounding='ceil').val]
if got != [32767, 5]:
    bad += 1; print('VIOLATION s16/4 ceil codes %r expected [32767, 5]' % got)
sys.exit(1 if bad else 0)
