"""indexed assignment of a complex value into an Fxp that currently holds real codes: the imaginary component is not stored."""
import sys, warnings
import numpy as np
from fxpmath import Fxp
warnings.simplefilter('ignore')
x = Fxp([1.0, 2.0], True, 16, 4)
x[0] = 1.5 + 2.25j                 # exact: real 1.5*16 = 24, imag 2.25*16 = 36
c = complex(np.asarray(x.val)[0])
got = (int(c.real), int(c.imag)); exp = (24, 36)
rb = complex(np.asarray(x.get_val())[0])
ref = Fxp([1.0, 2.0], True, 16, 4)([1.5 + 2.25j, 2.0])     # same value stored by call
print('index route: code', got, 'read back', rb, '| call route: code', complex(ref.val[0]), 'read back', complex(ref.get_val()[0]))
if got != exp or rb != 1.5 + 2.25j:
    print('VIOLATION: expected code %r and read back (1.5+2.25j)' % (exp,)); sys.exit(1)
sys.exit(0)
