"""indexed assignment of a real value into a complex Fxp array: codes are right, but the default read-back drops every imaginary part."""
import sys, warnings
import numpy as np
from fxpmath import Fxp
warnings.simplefilter('ignore')
x = Fxp(np.zeros(2, dtype=complex), True, 16, 4)
x[0] = 0.5 + 0.25j                 # stored by indexed assignment: codes (8, 4)
x[1] = 1.5                         # stored by indexed assignment: codes (24, 0)
codes = [(int(c.real), int(c.imag)) for c in x.val]
rb = [complex(v) for v in np.asarray(x.get_val())]
exp_rb = [0.5 + 0.25j, 1.5 + 0j]
print('codes', codes, 'read back', rb, 'vdtype', x.vdtype)
if codes != [(8, 4), (24, 0)] or rb != exp_rb:
    print('VIOLATION: value read back %r, expected %r = code*2^-4' % (rb, exp_rb)); sys.exit(1)
sys.exit(0)
