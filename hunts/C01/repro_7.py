"""object-dtype array whose first element is an int and later elements are floats: the floats are truncated to int before scaling."""
import sys, warnings
import numpy as np
from fxpmath import Fxp
warnings.simplefilter('ignore')
a = np.array([1, 0.75, -0.75], dtype=object)
got = [int(k) for k in Fxp(a, True, 8, 2).val]             # trunc: 4, 3, -3
ref = [int(k) for k in Fxp([1, 0.75, -0.75], True, 8, 2).val]
print('object array ->', got, '| list ->', ref)
if got != [4, 3, -3]:
    print('VIOLATION: expected [4, 3, -3]'); sys.exit(1)
sys.exit(0)
