"""C02 counterexample 1: a list/tuple of Python integers that all lie in [2**63, 2**64) is not saturated.
np.array([2**63]) is a uint64 array; set_val's integer-overflow guard only looks at kinds 'i' and 'O',
so the codes are computed as val * 2**n_frac in uint64 and wrap modulo 2**64."""
import sys, warnings
from fractions import Fraction
warnings.simplefilter('ignore')
from fxpmath import Fxp

def expected(v, signed, n_word, n_frac):
    lo, hi = (-(1 << (n_word-1)), (1 << (n_word-1)) - 1) if signed else (0, (1 << n_word) - 1)
    c = int(Fraction(v) * 2**n_frac)          # trunc (default rounding); all inputs are positive
    return max(lo, min(hi, c))

bad = []
cases = [
    ('Fxp([2**63], True, 32, 1)',        lambda: Fxp([2**63], True, 32, 1),        [2**63], True, 32, 1),
    ('Fxp((2**63+5,), True, 32, 4)',     lambda: Fxp((2**63+5,), True, 32, 4),     [2**63+5], True, 32, 4),
    ('Fxp([2**63+3], False, 56, 28)',    lambda: Fxp([2**63+3], False, 56, 28),    [2**63+3], False, 56, 28),
    ('set_val([2**63, 2**64-1]) s16/8',  lambda: Fxp([0, 0], True, 16, 8).set_val([2**63, 2**64-1]), [2**63, 2**64-1], True, 16, 8),
    ('x[0:1] = [2**63]  s24/23',         None, [2**63, 0], True, 24, 23),
    ('Fxp(2**63+1, True, 60, 1, bias=1)', lambda: Fxp(2**63+1, True, 60, 1, bias=1), [2**63], True, 60, 1),  # (v - bias) lands in the uint64 octave
]
for name, f, vals, s, nw, nf in cases:
    if f is None:
        x = Fxp([0, 0], s, nw, nf); x[0:1] = [2**63]
    else:
        x = f()
    assert x.config.overflow == 'saturate'
    got = [int(c) for c in x.val.ravel().tolist()] if x.val.ndim else [int(x.val)]
    exp = [expected(v, s, nw, nf) for v in vals]
    if got != exp:
        bad.append(f'{name}: stored codes {got}, expected saturated codes {exp}  (status={x.status})')
if bad:
    print('C02 VIOLATION (saturation of Python integers in [2**63, 2**64) given in a list/tuple):')
    print('\n'.join('  ' + b for b in bad))
    sys.exit(1)
print('ok')
