"""C02 counterexample 2: on an object with an integer bias, a Python integer within |bias| of the int64 limits
is stored as the OPPOSITE bound: `val - self.bias` is evaluated in int64 and wraps around before any guard."""
import sys, warnings
from fractions import Fraction
warnings.simplefilter('ignore')
from fxpmath import Fxp

def expected(v, signed, n_word, n_frac, scale, bias):
    lo, hi = (-(1 << (n_word-1)), (1 << (n_word-1)) - 1) if signed else (0, (1 << n_word) - 1)
    u = (Fraction(v) - Fraction(bias)) / Fraction(scale) * 2**n_frac
    return hi if u > hi else lo if u < lo else int(u)

bad = []
def chk(name, x, vals, s, nw, nf, scale, bias):
    got = [int(c) for c in x.val.ravel().tolist()] if x.val.ndim else [int(x.val)]
    exp = [expected(v, s, nw, nf, scale, bias) for v in vals]
    if got != exp:
        bad.append(f'{name}: stored codes {got}, expected {exp}  (status={x.status})')

chk('Fxp(2**63-1, True, 8, 0, bias=-2)', Fxp(2**63-1, True, 8, 0, bias=-2), [2**63-1], True, 8, 0, 1, -2)
chk('Fxp(-2**63, True, 8, 0, bias=1)',   Fxp(-2**63, True, 8, 0, bias=1),   [-2**63], True, 8, 0, 1, 1)
chk('Fxp([1, 2**63-1], True, 16, 4, bias=-1)', Fxp([1, 2**63-1], True, 16, 4, bias=-1), [1, 2**63-1], True, 16, 4, 1, -1)
chk('Fxp(-2**63+5, False, 16, 4, scale=2, bias=100)', Fxp(-2**63+5, False, 16, 4, scale=2, bias=100), [-2**63+5], False, 16, 4, 2, 100)
x = Fxp(0, True, 16, 4, bias=-1); x.set_val(2**63-1)
chk('set_val(2**63-1) on s16/4 bias=-1', x, [2**63-1], True, 16, 4, 1, -1)
x = Fxp([0, 0], True, 16, 4, bias=-1); x[1] = 2**63-1
chk('x[1] = 2**63-1 on s16/4 bias=-1', x, [0, 2**63-1], True, 16, 4, 1, -1)
if bad:
    print('C02 VIOLATION (saturation at the opposite bound: int64 wrap-around in the bias subtraction):')
    print('\n'.join('  ' + b for b in bad))
    sys.exit(1)
print('ok')
