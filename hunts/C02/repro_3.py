"""C02 counterexample 3 (NumPy unsigned integer inputs): the integer-overflow guard of set_val skips dtype kind 'u',
so uint8..uint64 scalars/arrays are multiplied by 2**n_frac in int64 (and uint64 values >= 2**63 are first cast to int64):
the product wraps and the value is stored as a wrong code or as the opposite bound."""
import sys, warnings
from fractions import Fraction
import numpy as np
warnings.simplefilter('ignore')
from fxpmath import Fxp

def expected(v, signed, n_word, n_frac):
    lo, hi = (-(1 << (n_word-1)), (1 << (n_word-1)) - 1) if signed else (0, (1 << n_word) - 1)
    return max(lo, min(hi, int(Fraction(int(v)) * 2**n_frac)))

bad = []
for name, inp, s, nw, nf in [
    ('np.uint64(2**63) -> s32/0',            np.uint64(2**63), True, 32, 0),
    ('np.uint64(2**63) -> s8/1',             np.uint64(2**63), True, 8, 1),
    ('np.array([2**64-1], uint64) -> s32/0', np.array([2**64-1], dtype=np.uint64), True, 32, 0),
    ('np.array([2**31], uint32) -> s40/35',  np.array([2**31], dtype=np.uint32), True, 40, 35),
    ('np.uint32(2**32-1) -> s48/47',         np.uint32(2**32-1), True, 48, 47),
    ('np.uint16(65535) -> s53/52',           np.uint16(65535), True, 53, 52),
    ('np.uint8(255) -> s60/56',              np.uint8(255), True, 60, 56),
]:
    x = Fxp(inp, s, nw, nf)
    got = [int(c) for c in np.ravel(x.val).tolist()]
    exp = [expected(v, s, nw, nf) for v in np.ravel(inp).tolist()]
    if got != exp:
        bad.append(f'{name}: stored {got}, expected {exp}')
if bad:
    print('C02 VIOLATION (saturation of NumPy unsigned integer inputs):')
    print('\n'.join('  ' + b for b in bad))
    sys.exit(1)
print('ok')
