"""C02 counterexample 4: a code ABOVE the format's maximum (max+1) is stored in words of 54..63 bits
(signed 55..63) when a float array holding a NaN is written under saturate. The NaN needs no non-finite user input:
0/0 in a 'repr' division, x % 0, np.sqrt of a negative element with out=..."""
import sys, warnings
import numpy as np
warnings.simplefilter('ignore')
from fxpmath import Fxp
import fxpmath as fx

def in_range(x):
    lo, hi = (-(1 << (x.n_word-1)), (1 << (x.n_word-1)) - 1) if x.signed else (0, (1 << x.n_word) - 1)
    return [int(c) for c in np.ravel(x.val).tolist() if not lo <= int(c) <= hi], (lo, hi)

bad = []
x = Fxp([3.0, 0.0], True, 63, 0)
z = fx.truediv(x, x, sizing='same', method='repr')                     # [1.0, 0/0]
o, rng_ = in_range(z);  bad += [f'truediv(x, x, sizing=same, method=repr) -> {z.dtype} codes {z.val.tolist()} outside {rng_}: {o}'] if o else []
x = Fxp([3.0, 0.0], True, 60, 4, op_method='repr', op_sizing='same')
z = x % x
o, rng_ = in_range(z);  bad += [f'x % x (op_method=repr, op_sizing=same) -> {z.dtype} codes {z.val.tolist()} outside {rng_}: {o}'] if o else []
out = Fxp(None, False, 54, 4)
z = np.sqrt(Fxp([4.0, -1.0], True, 16, 4), out=out)
o, rng_ = in_range(z);  bad += [f'np.sqrt([4, -1], out=u54/4) -> {z.dtype} codes {z.val.tolist()} outside {rng_}: {o}'] if o else []
z = Fxp([1.0, float('nan')], True, 55, 0)
o, rng_ = in_range(z);  bad += [f'Fxp([1.0, nan], True, 55, 0) -> codes {z.val.tolist()} outside {rng_}: {o}'] if o else []
if bad:
    print('C02 VIOLATION (code outside the range of its own format):')
    print('\n'.join('  ' + b for b in bad))
    sys.exit(1)
print('ok')
