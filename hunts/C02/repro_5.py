"""C02 counterexample 5: complex results of words wider than 53 bits hold codes in complex128, which cannot represent
the extreme codes: the maximum code 2**(n-1)-1 (2**n-1 unsigned) becomes max+1, outside the format.
Reachable from a REAL object of a core format through conj()/np.conjugate, or with a complex constructor value."""
import sys, warnings
import numpy as np
warnings.simplefilter('ignore')
from fxpmath import Fxp

def outside(x):
    lo, hi = (-(1 << (x.n_word-1)), (1 << (x.n_word-1)) - 1) if x.signed else (0, (1 << x.n_word) - 1)
    out = []
    for c in np.ravel(x.val).tolist():
        for q in ([c.real, c.imag] if isinstance(c, complex) else [c]):
            if not lo <= int(q) <= hi: out.append(int(q))
    return out, (lo, hi)

bad = []
x = Fxp(2.0**60, False, 54, 0)               # real, saturated at the maximum code 2**54-1
assert int(x.val) == 2**54 - 1
for name, z in [('Fxp(2.0**60, False, 54, 0).conj()', x.conj()),
                ('np.conjugate(Fxp(2.0**60, False, 54, 0))', np.conjugate(x)),
                ('Fxp([1, 2**62], True, 56, 0).conj()', Fxp([1, 2**62], True, 56, 0).conj()),
                ('Fxp(1e30+0j, True, 60, 0)', Fxp(1e30+0j, True, 60, 0)),
                ('Fxp(1e30+0j, True, 64, 0)', Fxp(1e30+0j, True, 64, 0))]:
    o, r = outside(z)
    if o: bad.append(f'{name} -> {z.dtype} val={z.val!r}: codes {o} outside {r}')
if bad:
    print('C02 VIOLATION (complex codes outside the range of the format):')
    print('\n'.join('  ' + b for b in bad))
    sys.exit(1)
print('ok')
