# C03 counterexample 1: n_word >= 64, negative n_frac, Python-integer input beyond 2**53:
# the integer is multiplied by the FLOAT factor 1/2**(-n_frac) before rounding/wrapping.
from _common import *
from fxpmath import Fxp
c = Checker()
v = 2**61 + 2**8                       # v * 2**-8 = 2**53 + 1 exactly (an integer: no rounding involved)
c.check("Fxp(2**61+2**8, True, 64, -8, overflow='wrap')",
        lambda: Fxp(v, True, 64, -8, overflow='wrap'), [wrap(v >> 8, True, 64)])
# shift invariance: adding 2**(n_word-n_frac) = 2**72 must not change the stored code
c.check("Fxp([2**8, 2**8 + 2**72], False, 64, -8, overflow='wrap')",
        lambda: Fxp([2**8, 2**8 + 2**72], False, 64, -8, overflow='wrap'), [1, 1])
c.check("Fxp(2**200 + 5*2**3, True, 128, -3, overflow='wrap')",
        lambda: Fxp(2**200 + 5*2**3, True, 128, -3, overflow='wrap'), [wrap((2**200 + 40) >> 3, True, 128)])
# "Python-integer inputs of any size": beyond the float range the constructor raises
c.check("Fxp(2**1100, True, 64, -8, overflow='wrap')",
        lambda: Fxp(2**1100, True, 64, -8, overflow='wrap'), [0])
c.finish()
