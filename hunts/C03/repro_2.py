# C03 counterexample 2: product stored with wrap into a register that keeps FEWER fraction bits than
# x.n_frac + y.n_frac (the ordinary fixed-point multiply, e.g. Q28.4 * Q28.4 -> Q28.4):
# functions.mul/_mul_raw multiplies the exact raw product by the float 2**(negative) -> low bits lost.
from _common import *
import fxpmath
from fxpmath import Fxp
c = Checker()
a, b = 0x7FFFFFF1, 0x7FFFFFF3
def mk(code, s, n, nf, **kw):
    x = Fxp(None, s, n, nf, **kw); x.set_val(code, raw=True); return x
exp = [wrap((a * b) >> 4, True, 32)]            # exact product, 4 fraction bits dropped (trunc), low 32 bits
c.check("s32/4 * s32/4 with op_sizing='same', overflow='wrap'",
        lambda: mk(a, True, 32, 4, overflow='wrap', op_sizing='same') * mk(b, True, 32, 4), exp)
c.check("fxpmath.mul(x, y, out=Fxp(None, True, 32, 4, overflow='wrap'))",
        lambda: fxpmath.mul(mk(a, True, 32, 4), mk(b, True, 32, 4), out=Fxp(None, True, 32, 4, overflow='wrap')), exp)
c.check("fxpmath.mul(x, y, out_like=Fxp(None, True, 32, 4, overflow='wrap'))",
        lambda: fxpmath.mul(mk(a, True, 32, 4), mk(b, True, 32, 4), out_like=Fxp(None, True, 32, 4, overflow='wrap')), exp)
# array operands (int64 raw product 62 bits, no python ints involved at all)
A = [0x3FFFFFF1, 0x12345679]; B = [0x3FFFFFF3, 0x7654321B]
def arr(v, s, n, nf, **kw):
    x = Fxp(None, s, n, nf, **kw); x.set_val(np.array(v), raw=True); return x
c.check("u31/1 * u32/1 arrays -> out u40/1 wrap",
        lambda: fxpmath.mul(arr(A, False, 31, 1), arr(B, False, 32, 1), out=Fxp(np.zeros(2), False, 40, 1, overflow='wrap')),
        [wrap((p * q) >> 1, False, 40) for p, q in zip(A, B)])
# scalar whose scaled-down product is >= 2**63: the register ends up holding 0
p, q = 1798522434910, 6344407589
c.check("s42/2 * u33/3 scalar, op_sizing='same', rounding='floor', wrap",
        lambda: mk(p, True, 42, 2, overflow='wrap', rounding='floor', op_sizing='same') * mk(q, False, 33, 3),
        [wrap((p * q) >> 3, True, 42)])
c.finish()
