# C03 counterexample 3: sum/difference stored with wrap into a register with FEWER fraction bits than the finer operand:
# functions.add/_add_raw (and sub/_sub_raw) scale that operand by the float 2**(negative) and add in float64,
# the float sum is rounded to 53 bits BEFORE the register's rounding mode is applied.
from _common import *
import fxpmath, math
from fractions import Fraction
from fxpmath import Fxp
c = Checker()
x = Fxp(2**52 - 1, False, 52, 0, overflow='wrap', op_sizing='same')      # top code of u52/0
y = Fxp(0.75, False, 52, 20)
# exact sum 2**52 - 0.25, trunc -> 2**52 - 1 (in range, nothing to wrap); observed: rounded up to 2**52 and wrapped to 0
c.check("Fxp(2**52-1, u52/0, wrap, op_sizing='same') + Fxp(0.75, u52/20)", lambda: x + y, [2**52 - 1])
c.check("fxpmath.add(x, y, out=Fxp(None, False, 52, 0, overflow='wrap'))",
        lambda: fxpmath.add(x, y, out=Fxp(None, False, 52, 0, overflow='wrap')), [2**52 - 1])
# signed, trunc, off by one LSB
xc, yc = 355450727264, 562949953421311
def mk(code, s, n, nf, **kw):
    t = Fxp(None, s, n, nf, **kw); t.set_val(code, raw=True); return t
ex = Fraction(xc, 2**30) + Fraction(yc, 2**49)
c.check("s43/30 + u49/49 -> s43/30 wrap trunc",
        lambda: mk(xc, True, 43, 30, overflow='wrap', op_sizing='same') + mk(yc, False, 49, 49),
        [wrap(math.trunc(ex * 2**30), True, 43)])
xc, yc = 2251799813685246, -14745941
ex = Fraction(xc, 2**4) - Fraction(yc, 2**9)
fl = math.floor(ex * 16); d = ex * 16 - fl
around = fl + 1 if d > Fraction(1, 2) else fl if d < Fraction(1, 2) else fl + (fl % 2)
c.check("s52/4 - s25/9 -> s52/4 wrap around",
        lambda: mk(xc, True, 52, 4, overflow='wrap', rounding='around', op_sizing='same') - mk(yc, True, 25, 9),
        [wrap(around, True, 52)])
c.finish()
