# C03 counterexample 4: a value held in more than 53 bits (python-int codes: a >= 64 bit wrap word, or the exact
# product of two <= 52 bit operands) moved into a wrap register with FEWER fraction bits:
# utils.scale_raw multiplies the python ints by the float 2**(negative) (resize / equal / set_val(Fxp) / like).
from _common import *
from fxpmath import Fxp
c = Checker()
def mk(code, s, n, nf, **kw):
    t = Fxp(None, s, n, nf, **kw); t.set_val(code, raw=True); return t
raw = 2**70 + 48                                  # value 2**66 + 3 in s128/4
def resized():
    x = mk(raw, True, 128, 4, overflow='wrap'); x.resize(n_word=64, n_frac=0); return x
c.check("s128/4 (code 2**70+48, wrap).resize(n_word=64, n_frac=0)", resized, [wrap(raw >> 4, True, 64)])
raws = [2**90 + 7 * 2**10 + 5, -(2**90) - 9 * 2**10]
def resized2():
    x = Fxp(None, True, 128, 10, overflow='wrap'); x.set_val(np.array(raws, dtype=object), raw=True)
    x.resize(n_word=100, n_frac=0); return x
c.check("s128/10 array .resize(n_word=100, n_frac=0) (trunc)", resized2,
        [wrap(abs(r) >> 10 if r >= 0 else -(abs(r) >> 10), True, 100) for r in raws])
c.check("Fxp(src_s128/4, like=Fxp(None, True, 64, 0, overflow='wrap'))",
        lambda: Fxp(mk(raw, True, 128, 4), like=Fxp(None, True, 64, 0, overflow='wrap')), [wrap(raw >> 4, True, 64)])
# exact product of two core-domain operands (s52/20 * s52/20 -> s104/40) stored into s32/8 wrap
p, q = 2**51 - 1, 2**51 - 3
P = lambda: mk(p, True, 52, 20) * mk(q, True, 52, 20)
exp = [wrap((p * q) >> 32, True, 32)]
c.check("Fxp(None, True, 32, 8, overflow='wrap').equal(x*y)   [x, y: s52/20]",
        lambda: Fxp(None, True, 32, 8, overflow='wrap').equal(P()), exp)
c.check("Fxp(None, True, 32, 8, overflow='wrap').set_val(x*y)", lambda: Fxp(None, True, 32, 8, overflow='wrap').set_val(P()), exp)
pa = [2**51 - 1, 123456789012345]; qa = [2**51 - 3, 2**50 + 12345]
def arr(v, s, n, nf):
    t = Fxp(None, s, n, nf); t.set_val(np.array(v), raw=True); return t
c.check("reg_s32/8_wrap.equal(x*y) arrays",
        lambda: Fxp(np.zeros(2), True, 32, 8, overflow='wrap').equal(arr(pa, True, 52, 20) * arr(qa, True, 52, 20)),
        [wrap((a * b) >> 32, True, 32) for a, b in zip(pa, qa)])
c.finish()
