# C03 counterexample 5: difference of two UNSIGNED operands stored into a wrap register wider than 64 bits:
# _sub_raw subtracts in uint64 (NumPy wraps modulo 2**64), the register gets 2**64 - k instead of -k.
from _common import *
import fxpmath
from fxpmath import Fxp
c = Checker()
x = Fxp(3, False, 8, 0); y = Fxp(5, False, 8, 0)
c.check("sub(u8 3, u8 5, out=s72/0 wrap)", lambda: fxpmath.sub(x, y, out=Fxp(None, True, 72, 0, overflow='wrap')), [-2])
c.check("sub(u8 3, u8 5, out=u72/0 wrap)", lambda: fxpmath.sub(x, y, out=Fxp(None, False, 72, 0, overflow='wrap')), [2**72 - 2])
c.check("np.subtract(x, y, out=s128/4 wrap)", lambda: np.subtract(x, y, out=Fxp(None, True, 128, 4, overflow='wrap')), [-32])
c.check("sub(x, y, out_like=s65/0 wrap)", lambda: fxpmath.sub(x, y, out_like=Fxp(None, True, 65, 0, overflow='wrap')), [-2])
xa = Fxp([1, 200, 7], False, 8, 0); ya = Fxp([2, 100, 9], False, 8, 0)
c.check("array: sub(xa, ya, out=s80/0 wrap)", lambda: fxpmath.sub(xa, ya, out=Fxp(np.zeros(3), True, 80, 0, overflow='wrap')), [-1, 100, -2])
# control: a 64-bit register is right
c.check("control: sub(u8 3, u8 5, out=s64/0 wrap)", lambda: fxpmath.sub(x, y, out=Fxp(None, True, 64, 0, overflow='wrap')), [-2])
c.finish()
