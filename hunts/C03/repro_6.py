# C03 counterexample 6: accumulating results (dot / sum / prod / cumprod) stored into a wrap register wider than 64 bits:
# the raw kernels run in int64 (silent wraparound modulo 2**64) and only switch to python ints on n_frac >= 64.
from _common import *
from fxpmath import Fxp
c = Checker()
def arr(v, s, n, nf):
    t = Fxp(None, s, n, nf); t.set_val(np.array(v), raw=True); return t
a = arr([-2**31] * 4, True, 32, 0); b = arr([-2**31] * 4, True, 32, 0)
c.check("dot(s32[4], s32[4], out=s80/0 wrap)", lambda: a.dot(b, out=Fxp(None, True, 80, 0, overflow='wrap')), [4 * 2**62])
x = arr([2**20 + 1] * 4, True, 24, 0)
c.check("prod(s24[4], out=s100/0 wrap)", lambda: x.prod(out=Fxp(None, True, 100, 0, overflow='wrap')), [(2**20 + 1)**4])
s = arr([2**51 - 1] * 8192, True, 52, 0)
c.check("sum(s52[8192], out=s80/0 wrap)", lambda: s.sum(out=Fxp(None, True, 80, 0, overflow='wrap')), [8192 * (2**51 - 1)])
v = [300, -301, 302, 303, -304, 305, 306, 307, 308]
e = []; p = 1
for k in v: p *= k; e.append(p)
c.check("cumprod(s16[9], out=s100/0 wrap)", lambda: arr(v, True, 16, 0).cumprod(out=Fxp(np.zeros(9), True, 100, 0, overflow='wrap')), e)
# control: same data into a 64 / 32 bit register is right (int64 wraparound is congruent modulo 2**64)
c.check("control: dot(..., out=s64/0 wrap)", lambda: a.dot(b, out=Fxp(None, True, 64, 0, overflow='wrap')), [wrap(4 * 2**62, True, 64)])
c.finish()
