# C03 counterexample 7: dot product of a SIGNED and an UNSIGNED operand stored into a wrap register:
# _dot_raw calls np.dot(int64, uint64) which NumPy evaluates in float64 -> the low bits of the accumulator are lost
# (core domain: 32-bit operands, 32-bit register).
from _common import *
import fxpmath
from fxpmath import Fxp
c = Checker()
av = [2**31 - 1, -2**31 + 3, 123456789]; bv = [2**32 - 1, 2**32 - 5, 987654321]
a = Fxp(None, True, 32, 0); a.set_val(np.array(av), raw=True)
b = Fxp(None, False, 32, 0); b.set_val(np.array(bv), raw=True)
e = sum(p * q for p, q in zip(av, bv))
c.check("a_s32.dot(b_u32, out=s32/0 wrap)", lambda: a.dot(b, out=Fxp(None, True, 32, 0, overflow='wrap')), [wrap(e, True, 32)])
c.check("np.dot(a_s32, b_u32, out=s48/0 wrap)", lambda: np.dot(a, b, out=Fxp(None, True, 48, 0, overflow='wrap')), [wrap(e, True, 48)])
c.check("fxpmath.dot(a, b, out_like=s32/2 wrap)", lambda: fxpmath.dot(a, b, out_like=Fxp(None, True, 32, 2, overflow='wrap')), [wrap(4 * e, True, 32)])
# control: both signed -> exact
b2 = Fxp(None, True, 32, 0); b2.set_val(np.array([2**31 - 1, 2**31 - 5, 987654321]), raw=True)
e2 = sum(p * q for p, q in zip(av, [2**31 - 1, 2**31 - 5, 987654321]))
c.check("control: a_s32.dot(b_s32, out=s32/0 wrap)", lambda: a.dot(b2, out=Fxp(None, True, 32, 0, overflow='wrap')), [wrap(e2, True, 32)])
c.finish()
