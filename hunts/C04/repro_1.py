"""C04 / arithmetic clause: unary minus, unary plus, abs() and the shift operators return results
that do NOT carry the inaccuracy flag of their (inaccurate) operand."""
import sys
from fractions import Fraction as F
from fxpmath import Fxp

bad = []
x = Fxp(0.3, True, 16, 8)            # 0.3*256 = 76.8 -> code 76 -> 0.296875 != 0.3  => inaccuracy
assert F(int(x.val), 256) != F(0.3) and x.status['inaccuracy'] is True
ops = {
    '-x': lambda v: -v,
    '+x': lambda v: +v,
    'abs(x)': lambda v: abs(v),
    'x << 1': lambda v: v << 1,
    'x >> 1': lambda v: v >> 1,
}
for name, op in ops.items():
    z = op(Fxp(0.3, True, 16, 8))
    if not z.status['inaccuracy']:
        bad.append('%s: operand inaccuracy=True, result %s inaccuracy=%s (expected True)' % (name, z.dtype, z.status['inaccuracy']))
# array operand as well
xa = Fxp([0.3, 1.3], True, 16, 8)
z = -xa
if not z.status['inaccuracy']:
    bad.append('-x (array): operand inaccuracy=True, result inaccuracy=False')
# the binary route does propagate (control)
assert (Fxp(0.3, True, 16, 8) * Fxp(-1, True, 16, 8)).status['inaccuracy'] is True
if bad:
    print('VIOLATION (results of arithmetic must carry the inaccuracy flag of an operand):')
    print('\n'.join(bad)); sys.exit(1)
print('ok'); sys.exit(0)
