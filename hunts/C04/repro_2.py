"""C04 / arithmetic clause: arithmetic that is not routed through functions._function_over_*_vars
(NumPy ufuncs/functions without an fxpmath implementation, ufunc methods, Fxp.mean/std/var, fxp_sum)
returns Fxp results without the inaccuracy flag of an inaccurate operand."""
import sys
import numpy as np
import fxpmath
from fxpmath import Fxp

def X(): return Fxp([0.3, 1.3, 2.3], True, 16, 8)      # all three off-grid -> inaccuracy raised
def Y(): return Fxp([1.5, 2.5, 0.5], True, 16, 8)      # exact
assert X().status['inaccuracy'] and not Y().status['inaccuracy']
routes = {
    'fxp_sum(x)':            lambda: fxpmath.fxp_sum(X()),
    'x.mean()':              lambda: X().mean(),
    'np.mean(x)':            lambda: np.mean(X()),
    'np.negative(x)':        lambda: np.negative(X()),
    'np.absolute(x)':        lambda: np.absolute(X()),
    'np.square(x)':          lambda: np.square(X()),
    'np.matmul(x, y)':       lambda: np.matmul(X(), Y()),
    'np.inner(x, y)':        lambda: np.inner(X(), Y()),
    'np.diff(x)':            lambda: np.diff(X()),
    'np.add.reduce(x)':      lambda: np.add.reduce(X()),
    'np.add.accumulate(x)':  lambda: np.add.accumulate(X()),
    'np.add.outer(x, y)':    lambda: np.add.outer(X(), Y()),
}
bad = []
for name, f in routes.items():
    z = f()
    if isinstance(z, Fxp) and not z.status['inaccuracy']:
        bad.append('%-22s -> %s inaccuracy=False (operand x had inaccuracy=True)' % (name, z.dtype))
# controls: the dispatched routes do propagate
assert np.sum(X()).status['inaccuracy'] and np.add(X(), Y()).status['inaccuracy'] and np.dot(X(), Y()).status['inaccuracy']
if bad:
    print('VIOLATION (results of arithmetic must carry the inaccuracy flag of an operand):')
    print('\n'.join(bad)); sys.exit(1)
print('ok'); sys.exit(0)
