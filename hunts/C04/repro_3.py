"""C04 / 'a write raises the flag iff ...': objects made by Fxp.copy() (also flatten()/ravel(), .T and
fxp_like(), which use copy()) SHARE the status dict with their source, so a write on one object raises
overflow/underflow/inaccuracy on the other object, which was never written."""
import sys
import numpy as np
import fxpmath
from fxpmath import Fxp

bad = []
def clean(x): return not (x.status['overflow'] or x.status['underflow'] or x.status['inaccuracy'])

x = Fxp(1.0, True, 8, 2); assert clean(x)
y = x.copy()
y(1000.3)                       # 1000.3*4 = 4001.2 -> 4001 > 127 : overflow + inaccuracy, on y only
if not clean(x): bad.append('copy():     x never written, x.status=%s' % x.status)

x = Fxp([1.0, 2.0], True, 8, 2); assert clean(x)
y = fxpmath.fxp_like(x, -1000.3)  # new object "like x" written with an underflowing value
if not clean(x): bad.append('fxp_like(): x never written, x.status=%s' % x.status)

x = Fxp([[1.0, 2.0]], True, 8, 2); assert clean(x)
y = x.flatten(); y[0] = 1000.3    # flatten() copies the data: x() is unchanged, but its flags are raised
if not clean(x): bad.append('flatten():  x()=%s unchanged, x.status=%s' % (x().tolist(), x.status))

x = Fxp([[1.0, 2.0]], True, 8, 2); t = x.T; assert clean(t)
x(np.array([[1000.3, 2.0]]))      # write on x only (this rebinds x.val: t keeps its own data)
if not clean(t): bad.append('.T:         t=%s never written, t.status=%s' % (t().tolist(), t.status))

if bad:
    print('VIOLATION (flag raised on an object without any write on it):'); print('\n'.join(bad)); sys.exit(1)
print('ok'); sys.exit(0)
