"""C04 / overflow clause: unsigned NumPy integer inputs (uint8..uint64 scalars, arrays, lists of them) are
scaled in int64 without the overflow guard that signed/python integers get: the scaled value wraps modulo
2**64, so the overflow flag is not raised (or the UNDERFLOW flag is raised instead)."""
import sys
from fractions import Fraction as F
import numpy as np
from fxpmath import Fxp

def oracle(v, signed, w, f):
    r = F(int(v)) * F(2)**f            # integer input: already on the grid, no rounding
    mx = 2**(w-1)-1 if signed else 2**w-1
    mn = -2**(w-1) if signed else 0
    return r > mx, r < mn
bad = []
cases = [
    (np.uint64(2**34), True, 40, 30),                       # 2^34 * 2^30 = 2^64  > 2^39-1
    (np.uint16(4096), False, 52, 52),                       # 2^12 * 2^52 = 2^64  > 2^52-1
    (np.array([2**31, 3], dtype=np.uint32), True, 40, 32),  # 2^31 * 2^32 = 2^63  > 2^39-1
    (np.uint64(2**63), False, 8, 0),                        # 2^63 > 255
    ([np.uint64(2**34), np.uint64(1)], True, 40, 30),
]
for v, s, w, f in cases:
    for ovf in ('saturate', 'wrap'):
        x = Fxp(None, s, w, f, overflow=ovf)
        x(v)
        vals = np.asarray(v).ravel()
        eo = any(oracle(t, s, w, f)[0] for t in vals); eu = any(oracle(t, s, w, f)[1] for t in vals)
        got = (x.status['overflow'], x.status['underflow'])
        if got != (eo, eu):
            bad.append('%r -> %s %s: stored %s, (overflow, underflow)=%s expected %s' % (v, x.dtype, ovf, x(), got, (eo, eu)))
# control: same value as signed int64 / python int is flagged correctly
x = Fxp(None, True, 40, 30); x(np.int64(2**34)); assert x.status['overflow']
x = Fxp(None, True, 40, 30); x(2**34); assert x.status['overflow']
if bad:
    print('VIOLATION (overflow flag iff some rounded element exceeded the maximum):'); print('\n'.join(bad)); sys.exit(1)
print('ok'); sys.exit(0)
