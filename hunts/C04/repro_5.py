"""C04 / callback clause: a complex write runs _overflow_action once for the real and once for the imaginary
parts, so on_status_overflow / on_status_underflow are invoked twice in ONE write when both parts leave the range."""
import sys
from fxpmath import Fxp

class CB:
    def __init__(s): s.log = []
    def on_value_change(s, o): s.log.append('value_change')
    def on_status_overflow(s, o): s.log.append('overflow')
    def on_status_underflow(s, o): s.log.append('underflow')
    def on_status_inaccuracy(s, o): s.log.append('inaccuracy')
bad = []
cb = CB(); x = Fxp(0j, True, 8, 2, callbacks=[cb]); cb.log.clear()
x(100 + 100j)          # both parts: 100*4 = 400 > 127  -> one overflow condition, stored 31.75+31.75j != input
if sorted(cb.log) != ['inaccuracy', 'overflow', 'value_change']:
    bad.append('x(100+100j): callbacks %s, expected one each of overflow, inaccuracy, value_change' % cb.log)
cb = CB(); x = Fxp([0j, 0j], True, 8, 2, callbacks=[cb]); cb.log.clear()
x([-100 - 100j, 1 + 1j])   # both parts of element 0 underflow
if sorted(cb.log) != ['inaccuracy', 'underflow', 'value_change']:
    bad.append('x([-100-100j, 1+1j]): callbacks %s, expected one each of underflow, inaccuracy, value_change' % cb.log)
if bad:
    print('VIOLATION (callbacks are invoked once per write for each condition):'); print('\n'.join(bad)); sys.exit(1)
print('ok'); sys.exit(0)
