"""C04 / inaccuracy clause: a decimal.Decimal input is truncated to an integer code inside _format_inupt_val
(int(val * 2**n_frac)) and then written as a raw value, so the comparison stored-vs-input never sees the
rounding error: inaccuracy flag and callback are missing."""
import sys
from decimal import Decimal
from fractions import Fraction as F
from fxpmath import Fxp

class CB:
    def __init__(s): s.log = []
    def on_status_inaccuracy(s, o): s.log.append('inaccuracy')
bad = []
for d in ['0.3', '-0.3', '0.26', '1.999']:
    cb = CB()
    x = Fxp(None, True, 8, 2, callbacks=[cb]); x.reset(); cb.log.clear()
    x(Decimal(d))
    stored = F(int(x.val), 4); inp = F(d)
    exp = stored != inp
    if x.status['inaccuracy'] != exp or (('inaccuracy' in cb.log) != exp):
        bad.append('Decimal(%s) -> s8/2: stored %s (= %s) != input %s, inaccuracy flag=%s callbacks=%s, expected flag=%s'
                   % (d, x(), stored, inp, x.status['inaccuracy'], cb.log, exp))
x = Fxp(None, True, 8, 2); x(0.3); assert x.status['inaccuracy']      # control: float input
if bad:
    print('VIOLATION (inaccuracy flag iff some stored element differs from its input):'); print('\n'.join(bad)); sys.exit(1)
print('ok'); sys.exit(0)
