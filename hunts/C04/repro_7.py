"""C04 / overflow + inaccuracy clauses with negative n_frac: integer inputs beyond 2**53 are scaled through
float64 (int64 * (1/2**k)), and the stored-vs-input comparison is also done in float64. Result: an overflow
flag/callback for a value that rounds to the maximum code, and a missing inaccuracy flag for a changed value."""
import sys
from fractions import Fraction as F
from fxpmath import Fxp

def rnd_trunc(q):
    n = q.numerator // q.denominator
    return n if (q >= 0 or q == n) else n + 1
bad = []
# (a) spurious overflow: u8/-50, default rounding 'trunc', saturate
x = Fxp(None, False, 8, -50)
v = 2**58 - 1
r = rnd_trunc(F(v, 2**50))                 # (2^58-1)/2^50 = 255.99999.. -> 255 == max code, NOT above it
x(v)
if x.status['overflow'] != (r > 255):
    bad.append('u8/-50 <- 2**58-1: rounded code %d (max 255), overflow flag=%s expected %s' % (r, x.status['overflow'], r > 255))
x = Fxp(None, False, 52, -2)
v = 2**54 - 1
r = rnd_trunc(F(v, 4))                     # 2^52 - 0.25 -> 2^52-1 == max code
x(v)
if x.status['overflow'] != (r > 2**52 - 1):
    bad.append('u52/-2 <- 2**54-1: rounded code 2**52-1 (= max), overflow flag=%s expected False' % x.status['overflow'])
# (b) missing inaccuracy: s52/-10
x = Fxp(None, True, 52, -10)
v = 2**60 + 1
x(v)
stored = int(x.val) * 2**10
if x.status['inaccuracy'] != (stored != v):
    bad.append('s52/-10 <- 2**60+1: stored %d != input %d, inaccuracy flag=%s expected %s' % (stored, v, x.status['inaccuracy'], stored != v))
if bad:
    print('VIOLATION:'); print('\n'.join(bad)); sys.exit(1)
print('ok'); sys.exit(0)
