"""C04 / 'flag iff it happened': x.like(y) and the bit-level operators (~, &, |, ^, >> / << with
shifting != 'expand') build their result from a deepcopy of an existing object and therefore report the
overflow/underflow/inaccuracy flags of that object although nothing of the kind happened when the result was written."""
import sys
from fxpmath import Fxp
bad = []
a = Fxp(1.5, True, 16, 8)                 # exact, all flags clear
y = Fxp(1000.3, True, 8, 2)               # template with overflow + inaccuracy raised
assert y.status['overflow'] and y.status['inaccuracy'] and not any(list(a.status.values())[:3])
z = a.like(y)                             # 1.5 -> s8/2 : code 6, exact and in range
if z.status['overflow'] or z.status['inaccuracy']:
    bad.append('a.like(y): value %s in %s is exact and in range, status=%s' % (z(), z.dtype, z.status))
b = Fxp(300.0, True, 8, 2)                # overflow only (300 is on the grid), stored 31.75 -> code 127
z = b & 3                                 # 127 & 3 = 3 -> 0.75, nothing overflows in this write
if z.status['overflow']:
    bad.append('b & 3: result %s written in range, overflow flag=%s' % (z(), z.status['overflow']))
z = ~b
if z.status['overflow']:
    bad.append('~b: result %s written in range, overflow flag=%s' % (z(), z.status['overflow']))
if bad:
    print('VIOLATION (flags reported although nothing of the kind happened in the object\'s own writes):'); print('\n'.join(bad)); sys.exit(1)
print('ok'); sys.exit(0)
