"""C04 / inaccuracy clause: an object-dtype ndarray whose first element is a python int but which also holds
floats is cast with astype(int) BEFORE rounding and before the stored-vs-input comparison, so the fractional
parts are dropped silently: no inaccuracy flag/callback although stored != input."""
import sys
from fractions import Fraction as F
import numpy as np
from fxpmath import Fxp
bad = []
v = np.array([1, 2.6], dtype=object)
x = Fxp(None, True, 8, 2)
x(v)
stored = [F(int(c), 4) for c in x.val]; inp = [F(1), F(2.6)]
exp = stored != inp
if x.status['inaccuracy'] != exp:
    bad.append('np.array([1, 2.6], dtype=object) -> s8/2: stored %s, input [1, 2.6], inaccuracy=%s expected %s' % (x().tolist(), x.status['inaccuracy'], exp))
x = Fxp(None, True, 8, 2); x(np.array([1.0, 2.6], dtype=object)); assert x.status['inaccuracy']   # control: float first
if bad:
    print('VIOLATION (inaccuracy flag iff some stored element differs from its input):'); print('\n'.join(bad)); sys.exit(1)
print('ok'); sys.exit(0)
