"""C05 counterexample 1: an object array whose FIRST element is a Python int is cast to int as a whole
before scaling, so every float element is truncated to an integer VALUE (not to a code) in every mode."""
import sys, os, warnings
sys.path.insert(0, os.path.dirname(os.path.abspath(__file__)))
import numpy as np
from fractions import Fraction
from _oracle import exp_code, MODES
from fxpmath import Fxp
warnings.filterwarnings('ignore')

vals = [0, 2.75, -0.3, 0.45, 1.5]          # all well inside s8/2 (range -32 .. 31.75, LSB 0.25)
bad = 0
for mode in MODES:
    for ovf in ('saturate', 'wrap'):
        x = Fxp(np.array(vals, dtype=object), signed=True, n_word=8, n_frac=2, rounding=mode, overflow=ovf)
        got = [int(c) for c in x.val]
        exp = [exp_code(Fraction(v), 2, mode) for v in vals]
        err = [abs(Fraction(g, 4) - Fraction(v)) for g, v in zip(got, vals)]
        if got != exp:
            bad += 1
            print('%-6s %-8s codes got %s expected %s  max|q-v|=%s LSB  flags=%s' % (
                mode, ovf, got, exp, max(err) / Fraction(1, 4), {k: v for k, v in x.status.items() if v}))
# same data, float first: correct
y = Fxp(np.array([0.0] + vals[1:], dtype=object), True, 8, 2, rounding='ceil')
print('control (first element 0.0 instead of 0, ceil):', [int(c) for c in y.val])
if bad:
    print('VIOLATION: 2.75 and 1.5 are representable but stored as 2.0 and 1.0 without any flag; |q-v| reaches 3 LSB')
    sys.exit(1)
sys.exit(0)
