"""C05 counterexample 2: n_frac < 0 and a subnormal float input: v * 2**n_frac underflows to (-)0.0 in float64
before the rounding mode is applied, so floor of a tiny negative v gives 0 (> v) and ceil of a tiny positive v gives 0 (< v)."""
import sys, os, warnings
sys.path.insert(0, os.path.dirname(os.path.abspath(__file__)))
from fractions import Fraction
from _oracle import exp_code
from fxpmath import Fxp
warnings.filterwarnings('ignore')
bad = 0
tiny = 5e-324                                   # 2**-1074, smallest positive double
for n_frac, mult in ((-1, 1), (-4, 8), (-8, 128), (-8, 1)):
    for signed, v, mode in ((True, -tiny * mult, 'floor'), (True, tiny * mult, 'ceil'), (False, tiny * mult, 'ceil')):
        for ovf in ('saturate', 'wrap'):
            x = Fxp(v, signed, 8, n_frac, rounding=mode, overflow=ovf)
            got = int(x.val); exp = exp_code(Fraction(v), n_frac, mode)
            q = Fraction(got) / Fraction(2) ** n_frac
            if got != exp:
                bad += 1
                print('%s8/%d %s %s v=%r: code got %d expected %d  (q=%s is %s v)' % (
                    's' if signed else 'u', n_frac, mode, ovf, v, got, exp, q, '>' if q > Fraction(v) else '<'))
if bad:
    print('VIOLATION: floor returned q > v / ceil returned q < v')
    sys.exit(1)
sys.exit(0)
