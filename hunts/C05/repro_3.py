"""C05 counterexample 3: a np.longdouble SCALAR is first rounded to float64 (round-to-nearest) and only then quantized
(double rounding). The same value in a longdouble array / 0-d array / list is quantized exactly."""
import sys, os, warnings
sys.path.insert(0, os.path.dirname(os.path.abspath(__file__)))
import numpy as np
from fractions import Fraction
from _oracle import exp_code, MODES
from fxpmath import Fxp
warnings.filterwarnings('ignore')
if np.finfo(np.longdouble).nmant <= 52:
    print('longdouble is float64 on this platform: not applicable'); sys.exit(0)
L = np.longdouble
cases = [   # (longdouble value, exact Fraction, mode)
    (L(0.25) - L(2) ** -60, Fraction(1, 4) - Fraction(1, 2 ** 60), 'floor'),
    (L(0.25) - L(2) ** -60, Fraction(1, 4) - Fraction(1, 2 ** 60), 'trunc'),
    (L(0.25) - L(2) ** -60, Fraction(1, 4) - Fraction(1, 2 ** 60), 'fix'),
    (L(0.25) + L(2) ** -60, Fraction(1, 4) + Fraction(1, 2 ** 60), 'ceil'),
    (L(0.125) + L(2) ** -60, Fraction(1, 8) + Fraction(1, 2 ** 60), 'around'),   # just above the tie 0.5 LSB: must go up to code 1 (|q-v| <= LSB/2)
]
bad = 0
for v, vf, mode in cases:
    exp = exp_code(vf, 2, mode)
    s = int(Fxp(v, True, 8, 2, rounding=mode).val)
    a = int(Fxp(np.array([v]), True, 8, 2, rounding=mode).val[0])
    if s != exp:
        bad += 1
        print('s8/2 %-6s v=%s: scalar route code %d, expected %d (array route gives %d)' % (mode, vf, s, exp, a))
if bad:
    print('VIOLATION: direction / tie clauses broken for np.longdouble scalars')
    sys.exit(1)
sys.exit(0)
