"""C05 counterexample 4: decimal.Decimal inputs ignore the rounding mode (always int() = truncation toward zero),
and the scaling is done in the Decimal context precision (28 digits), which can even round AWAY from zero under trunc."""
import sys, os, warnings
sys.path.insert(0, os.path.dirname(os.path.abspath(__file__)))
from decimal import Decimal
from fractions import Fraction
from _oracle import exp_code
from fxpmath import Fxp
warnings.filterwarnings('ignore')
bad = 0
cases = [('-0.3', 2, 'floor'), ('0.3', 2, 'ceil'), ('0.45', 2, 'around'), ('-0.45', 2, 'around'),
         ('0.' + '9' * 32, 0, 'trunc'), ('0.24' + '9' * 32, 2, 'trunc'), ('0.24' + '9' * 32, 2, 'floor')]
for s, n_frac, mode in cases:
    v = Decimal(s); vf = Fraction(v)
    x = Fxp(v, True, 8, n_frac, rounding=mode)
    got = int(x.val); exp = exp_code(vf, n_frac, mode)
    if got != exp:
        bad += 1
        print('s8/%d %-6s Decimal(%s...): code got %d expected %d, flags %s' % (n_frac, mode, s[:12], got, exp, {k: f for k, f in x.status.items() if f}))
if bad:
    print('VIOLATION: floor/ceil/around/trunc contracts broken for Decimal inputs')
    sys.exit(1)
sys.exit(0)
