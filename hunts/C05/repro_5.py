"""C05 counterexample 5 (scope caveat: the SOURCE object is wider than the core domain, the destination is inside it):
an Fxp-valued input whose code has more than 53 significant bits is re-scaled through float64 (utils.scale_raw),
so its low bits are rounded to nearest BEFORE the destination's rounding mode is applied."""
import sys, os, warnings
sys.path.insert(0, os.path.dirname(os.path.abspath(__file__)))
from fractions import Fraction
from _oracle import exp_code, MODES
from fxpmath import Fxp
warnings.filterwarnings('ignore')
bad = 0
for mode, code in (('ceil', 2 ** 59 + 1),        # value 0.5 + 2**-60 in s62/60; destination s8/1 (LSB 0.5): ceil = 1.0 (code 2)
                   ('around', 2 ** 58 + 1)):    # value 0.25 + 2**-60: just above the tie -> nearest is 0.5 (code 1)
    vf = Fraction(code, 2 ** 60)
    exp = exp_code(vf, 1, mode)
    routes = {}
    src = Fxp(None, True, 62, 60); src.set_val(code, raw=True)
    assert int(src.val) == code
    routes['Fxp(src,...)'] = Fxp(src, True, 8, 1, rounding=mode)
    routes['set_val(src)'] = Fxp(None, True, 8, 1, rounding=mode).set_val(src)
    routes['equal(src)'] = Fxp(None, True, 8, 1, rounding=mode).equal(src)
    routes['src.like(dst)'] = src.like(Fxp(None, True, 8, 1, rounding=mode))
    r = Fxp(None, True, 62, 60, rounding=mode); r.set_val(code, raw=True); r.resize(True, 8, 1)
    routes['src.resize()'] = r
    for name, x in routes.items():
        got = int(x.val)
        if got != exp:
            bad += 1
            print('s62/60 -> s8/1 %-6s %-14s v=%s: code got %d expected %d flags %s' % (mode, name, '2**-60+' + str(float(vf)), got, exp, {k: f for k, f in x.status.items() if f}))
# second witness, destination s52/19, floor/trunc
code = 2 ** 62 - 1; vf = Fraction(code, 2 ** 38)     # 2**24 - 2**-38
src = Fxp(None, True, 63, 38); src.set_val(code, raw=True)
for mode in ('floor', 'trunc', 'fix'):
    exp = exp_code(vf, 19, mode)
    got = int(Fxp(src, True, 52, 19, rounding=mode).val)
    if got != exp:
        bad += 1
        print('s63/38 -> s52/19 %-6s v=2**24-2**-38: code got %d expected %d (q > v)' % (mode, got, exp))
if bad:
    print('VIOLATION: ceil returned q < v / floor,trunc returned q > v for an Fxp-valued input')
    sys.exit(1)
sys.exit(0)
