import numpy as np, warnings
from decimal import Decimal
from fxpmath import Fxp
warnings.simplefilter('ignore')
def show(label, f):
    try:
        x = f()
        print(label, '->', x.dtype, 'n_int', x.n_int, 'val', x(), 'raw', x.val, {k:v for k,v in x.status.items() if v})
    except Exception as e:
        print(label, 'EXC', type(e).__name__, e)
show("B1 Fxp(3.9375, n_word=4, rounding='around')", lambda: Fxp(3.9375, n_word=4, rounding='around'))
show("B1 Fxp(3.5, n_frac=0, rounding='around')", lambda: Fxp(3.5, n_frac=0, rounding='around'))
show("B1 Fxp(-4.5, n_frac=0, rounding='floor')", lambda: Fxp(-4.5, n_frac=0, rounding='floor'))
show("B2 Fxp(12, n_frac=-2)", lambda: Fxp(12, n_frac=-2))
show("B2 Fxp(12, n_word=3) (library itself infers n_frac=-2)", lambda: Fxp(12, n_word=3))
show("B3 Fxp(0.5, n_int=5) (n_int alone ignored)", lambda: Fxp(0.5, n_int=5))
show("B3 Fxp(3.0, n_int=0)", lambda: Fxp(3.0, n_int=0))
show("B4 Fxp(Decimal('2.5'))", lambda: Fxp(Decimal('2.5')))
show("B5 Fxp(np.array([]))", lambda: Fxp(np.array([])))
show("B5 Fxp([])", lambda: Fxp([]))
show("B6 Fxp(True)", lambda: Fxp(True))
show("B7 Fxp(-3*2.0**-57)  (f=57 > 20)", lambda: Fxp(-3*2.0**-57))
show("B7 Fxp([-0.012669426736004588, 0.046875]) (f=56)", lambda: Fxp([-0.012669426736004588, 0.046875]))
show("B8 Fxp(float.fromhex('0x1.fffffffffffffp-30'))", lambda: Fxp(float.fromhex('0x1.fffffffffffffp-30')))
show("B9 Fxp(100.0625, n_frac=4, n_word_max=8)", lambda: Fxp(100.0625, n_frac=4, n_word_max=8))
show("B9 Fxp(1000.0, n_word_max=8)", lambda: Fxp(1000.0, n_word_max=8))
show("B10 Fxp(2.0**-20, max_error=1e-3)", lambda: Fxp(2.0**-20, max_error=1e-3))
show("B11 Fxp('0b0001.1000')", lambda: Fxp('0b0001.1000'))
show("B12 Fxp(0, signed=False)", lambda: Fxp(0, signed=False))
