# C06 counterexample 1: narrow NumPy integer input + only n_frac given.
# set_best_sizes scales max/min by (1 << n_frac) in the input's own integer dtype
# (objects.py:575-576), which wraps (wrong, too small word + overflow flag) or raises.

import sys, warnings
from fractions import Fraction as F
import numpy as np
warnings.simplefilter("ignore")
from fxpmath import Fxp

def f_exact(vals):
    f = 0
    while any((v * 2**f).denominator != 1 for v in vals):
        f += 1
    return f

def n_int_min(vals, f, signed):
    """fewest integer bits n>=0 such that every code v*2^f fits a word of n+f(+sign) bits"""
    n = 0
    while True:
        w = n + f
        lo, hi = (-(1 << w), (1 << w) - 1) if signed else (0, (1 << w) - 1)
        if all(lo <= v * 2**f <= hi for v in vals):
            return n
        n += 1

def flags(x):
    return sorted(k for k, v in x.status.items() if v and k != "extended_prec")

def stored(x):
    return [F(int(r)) / F(2)**x.n_frac for r in np.array(x.val).ravel()]

bad = []
def check(label, build, vals, signed, exp_word, exp_frac):
    try:
        x = build()
    except Exception as e:
        bad.append("%s: raised %s: %s (expected %s%d/%d holding %s exactly)" % (
            label, type(e).__name__, e, "s" if signed else "u", exp_word, exp_frac, [str(v) for v in vals]))
        return
    got = (x.n_word, x.n_frac)
    if got != (exp_word, exp_frac) or stored(x) != list(vals) or flags(x):
        bad.append("%s: got %s n_int=%d stored=%s flags=%s; expected %s%d/%d stored=%s flags=[]" % (
            label, x.dtype, x.n_int, [str(v) for v in stored(x)], flags(x),
            "s" if signed else "u", exp_word, exp_frac, [str(v) for v in vals]))

def finish():
    for b in bad:
        print("VIOLATION", b)
    sys.exit(1 if bad else 0)

def exp_frac_only(vals, signed, n_frac):
    assert n_frac >= f_exact(vals)
    return n_frac + n_int_min(vals, n_frac, signed) + (1 if signed else 0), n_frac

cases = [
    ("np.int8(100), n_frac=4",              lambda: Fxp(np.int8(100), n_frac=4),                          [F(100)], True, 4),
    ("int8 array [100,3], n_frac=4",        lambda: Fxp(np.array([100, 3], dtype=np.int8), n_frac=4),     [F(100), F(3)], True, 4),
    ("0-d int8 array 100, n_frac=4",        lambda: Fxp(np.array(100, dtype=np.int8), n_frac=4),          [F(100)], True, 4),
    ("list of np.int8 scalars, n_frac=4",   lambda: Fxp([np.int8(100), np.int8(3)], n_frac=4),            [F(100), F(3)], True, 4),
    ("int16 array [300,-5], n_frac=7",      lambda: Fxp(np.array([300, -5], dtype=np.int16), n_frac=7),   [F(300), F(-5)], True, 7),
    ("np.int32(70000), n_frac=15",          lambda: Fxp(np.int32(70000), n_frac=15),                      [F(70000)], True, 15),
    ("uint8 array [200], unsigned, n_frac=1", lambda: Fxp(np.array([200], dtype=np.uint8), signed=False, n_frac=1), [F(200)], False, 1),
    ("np.uint8(1), n_frac=8 (raises)",      lambda: Fxp(np.uint8(1), n_frac=8),                           [F(1)], True, 8),
    ("np.int8(1), n_frac=7 (raises)",       lambda: Fxp(np.int8(1), n_frac=7),                            [F(1)], True, 7),
]
for label, build, vals, signed, nf in cases:
    w, f = exp_frac_only(vals, signed, nf)
    check(label, build, vals, signed, w, f)
finish()
