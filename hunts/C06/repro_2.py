# C06 counterexample 2: Python int / int64 input + only n_frac given, scaled code reaches 2**63.
# np.array([python_int]) is int64, so np.max(val)*(1 << n_frac) wraps at 2**63 (objects.py:575-576),
# or (1 << 63) cannot be converted to int64 at all (OverflowError).

import sys, warnings
from fractions import Fraction as F
import numpy as np
warnings.simplefilter("ignore")
from fxpmath import Fxp

def f_exact(vals):
    f = 0
    while any((v * 2**f).denominator != 1 for v in vals):
        f += 1
    return f

def n_int_min(vals, f, signed):
    """fewest integer bits n>=0 such that every code v*2^f fits a word of n+f(+sign) bits"""
    n = 0
    while True:
        w = n + f
        lo, hi = (-(1 << w), (1 << w) - 1) if signed else (0, (1 << w) - 1)
        if all(lo <= v * 2**f <= hi for v in vals):
            return n
        n += 1

def flags(x):
    return sorted(k for k, v in x.status.items() if v and k != "extended_prec")

def stored(x):
    return [F(int(r)) / F(2)**x.n_frac for r in np.array(x.val).ravel()]

bad = []
def check(label, build, vals, signed, exp_word, exp_frac):
    try:
        x = build()
    except Exception as e:
        bad.append("%s: raised %s: %s (expected %s%d/%d holding %s exactly)" % (
            label, type(e).__name__, e, "s" if signed else "u", exp_word, exp_frac, [str(v) for v in vals]))
        return
    got = (x.n_word, x.n_frac)
    if got != (exp_word, exp_frac) or stored(x) != list(vals) or flags(x):
        bad.append("%s: got %s n_int=%d stored=%s flags=%s; expected %s%d/%d stored=%s flags=[]" % (
            label, x.dtype, x.n_int, [str(v) for v in stored(x)], flags(x),
            "s" if signed else "u", exp_word, exp_frac, [str(v) for v in vals]))

def finish():
    for b in bad:
        print("VIOLATION", b)
    sys.exit(1 if bad else 0)

def exp_frac_only(vals, signed, n_frac, cap=64):
    s = 1 if signed else 0
    ni = n_int_min(vals, n_frac, signed)
    if n_frac + ni + s > cap:               # capped: fraction shortened so that the word is 64
        n_frac = cap - s - ni
        assert n_frac >= f_exact(vals)
    return n_frac + ni + s, n_frac

cases = [
    ("Fxp(2**39, signed=False, n_frac=24)", lambda: Fxp(2**39, signed=False, n_frac=24), [F(2**39)], False, 24),
    ("Fxp([3], signed=False, n_frac=62)",   lambda: Fxp([3], signed=False, n_frac=62),   [F(3)], False, 62),
    ("Fxp((16,), signed=False, n_frac=59)", lambda: Fxp((16,), signed=False, n_frac=59), [F(16)], False, 59),
    ("Fxp(np.array([5896518]), signed=False, n_frac=41)", lambda: Fxp(np.array([5896518]), signed=False, n_frac=41), [F(5896518)], False, 41),
    ("Fxp(2**39, n_frac=24) (signed, needs 65 -> capped s64/23)", lambda: Fxp(2**39, n_frac=24), [F(2**39)], True, 24),
    ("Fxp(0, n_frac=63) (raises)",          lambda: Fxp(0, n_frac=63),                   [F(0)], True, 63),
    ("Fxp(1, signed=False, n_frac=63) (raises)", lambda: Fxp(1, signed=False, n_frac=63), [F(1)], False, 63),
]
for label, build, vals, signed, nf in cases:
    w, f = exp_frac_only(vals, signed, nf)
    check(label, build, vals, signed, w, f)
# control: the same values given as floats behave correctly
check("control Fxp(2.0**39, signed=False, n_frac=24)", lambda: Fxp(2.0**39, signed=False, n_frac=24), [F(2**39)], False, 64, 24)
finish()
