# C06 counterexample 3: float16 input whose exact fraction length is >= 16 (or n_frac >= 16 given).
# np.float16 * (1 << n_frac): the Python int is cast to float16, 65536 -> inf, int(inf) raises
# (objects.py:575-576). Happens with NO size given at all.

import sys, warnings
from fractions import Fraction as F
import numpy as np
warnings.simplefilter("ignore")
from fxpmath import Fxp

def f_exact(vals):
    f = 0
    while any((v * 2**f).denominator != 1 for v in vals):
        f += 1
    return f

def n_int_min(vals, f, signed):
    """fewest integer bits n>=0 such that every code v*2^f fits a word of n+f(+sign) bits"""
    n = 0
    while True:
        w = n + f
        lo, hi = (-(1 << w), (1 << w) - 1) if signed else (0, (1 << w) - 1)
        if all(lo <= v * 2**f <= hi for v in vals):
            return n
        n += 1

def flags(x):
    return sorted(k for k, v in x.status.items() if v and k != "extended_prec")

def stored(x):
    return [F(int(r)) / F(2)**x.n_frac for r in np.array(x.val).ravel()]

bad = []
def check(label, build, vals, signed, exp_word, exp_frac):
    try:
        x = build()
    except Exception as e:
        bad.append("%s: raised %s: %s (expected %s%d/%d holding %s exactly)" % (
            label, type(e).__name__, e, "s" if signed else "u", exp_word, exp_frac, [str(v) for v in vals]))
        return
    got = (x.n_word, x.n_frac)
    if got != (exp_word, exp_frac) or stored(x) != list(vals) or flags(x):
        bad.append("%s: got %s n_int=%d stored=%s flags=%s; expected %s%d/%d stored=%s flags=[]" % (
            label, x.dtype, x.n_int, [str(v) for v in stored(x)], flags(x),
            "s" if signed else "u", exp_word, exp_frac, [str(v) for v in vals]))

def finish():
    for b in bad:
        print("VIOLATION", b)
    sys.exit(1 if bad else 0)

def exp_none(vals, signed):
    f = f_exact(vals); return f + n_int_min(vals, f, signed) + (1 if signed else 0), f
def exp_word(vals, signed, W):
    f = f_exact(vals); s = 1 if signed else 0
    return W, min(W - s - n_int_min(vals, f, signed), f)
def exp_frac(vals, signed, nf):
    return nf + n_int_min(vals, nf, signed) + (1 if signed else 0), nf

v = [F(1, 2**16)]
assert F(float(np.float16(2.0**-16))) == v[0]     # exactly representable in float16
check("Fxp(np.float16(2**-16))", lambda: Fxp(np.float16(2.0**-16)), v, True, *exp_none(v, True))
check("Fxp(np.float16(2**-16), signed=False)", lambda: Fxp(np.float16(2.0**-16), signed=False), v, False, *exp_none(v, False))
v2 = [F(1), F(1, 2**16)]
check("Fxp(np.array([1, 2**-16], float16))", lambda: Fxp(np.array([1, 2.0**-16], dtype=np.float16)), v2, True, *exp_none(v2, True))
v3 = [F(5, 2**20)]
assert F(float(np.float16(5 / 2**20))) == v3[0]
check("Fxp(np.float16(5/2**20))", lambda: Fxp(np.float16(5 / 2**20)), v3, True, *exp_none(v3, True))
check("Fxp([np.float16(2**-18)])", lambda: Fxp([np.float16(2.0**-18)]), [F(1, 2**18)], True, *exp_none([F(1, 2**18)], True))
v4 = [F(3, 2)]
check("Fxp(np.float16(1.5), n_frac=16)", lambda: Fxp(np.float16(1.5), n_frac=16), v4, True, *exp_frac(v4, True, 16))
v5 = [F(100)]
check("Fxp(np.float16(100), n_frac=10)", lambda: Fxp(np.float16(100), n_frac=10), v5, True, *exp_frac(v5, True, 10))
# control: float32 is fine
check("control float32 2**-16", lambda: Fxp(np.float32(2.0**-16)), v, True, *exp_none(v, True))
finish()
