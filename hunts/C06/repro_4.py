# C06 counterexample 4: negative float16 input with exact fraction length >= 12.
# frac_vals = np.abs(val % 1) is evaluated in float16 (objects.py:553): for a small negative value
# val % 1 = 1 - |val| is rounded to 11 significant bits, so the fraction-bit search sees a different
# number: n_frac comes out too short (value lost, flagged inexact) or the search runs to 64 and
# the float16 scaling overflows (exception).

import sys, warnings
from fractions import Fraction as F
import numpy as np
warnings.simplefilter("ignore")
from fxpmath import Fxp

def f_exact(vals):
    f = 0
    while any((v * 2**f).denominator != 1 for v in vals):
        f += 1
    return f

def n_int_min(vals, f, signed):
    """fewest integer bits n>=0 such that every code v*2^f fits a word of n+f(+sign) bits"""
    n = 0
    while True:
        w = n + f
        lo, hi = (-(1 << w), (1 << w) - 1) if signed else (0, (1 << w) - 1)
        if all(lo <= v * 2**f <= hi for v in vals):
            return n
        n += 1

def flags(x):
    return sorted(k for k, v in x.status.items() if v and k != "extended_prec")

def stored(x):
    return [F(int(r)) / F(2)**x.n_frac for r in np.array(x.val).ravel()]

bad = []
def check(label, build, vals, signed, exp_word, exp_frac):
    try:
        x = build()
    except Exception as e:
        bad.append("%s: raised %s: %s (expected %s%d/%d holding %s exactly)" % (
            label, type(e).__name__, e, "s" if signed else "u", exp_word, exp_frac, [str(v) for v in vals]))
        return
    got = (x.n_word, x.n_frac)
    if got != (exp_word, exp_frac) or stored(x) != list(vals) or flags(x):
        bad.append("%s: got %s n_int=%d stored=%s flags=%s; expected %s%d/%d stored=%s flags=[]" % (
            label, x.dtype, x.n_int, [str(v) for v in stored(x)], flags(x),
            "s" if signed else "u", exp_word, exp_frac, [str(v) for v in vals]))

def finish():
    for b in bad:
        print("VIOLATION", b)
    sys.exit(1 if bad else 0)

def exp_none(vals, signed):
    f = f_exact(vals); return f + n_int_min(vals, f, signed) + (1 if signed else 0), f
def exp_word(vals, signed, W):
    f = f_exact(vals); s = 1 if signed else 0
    return W, min(W - s - n_int_min(vals, f, signed), f)
for num, den in [(-3, 4096), (-511, 2**20), (-1, 4096), (-5, 8192)]:
    v = [F(num, den)]
    assert F(float(np.float16(num / den))) == v[0]
    check("Fxp(np.float16(%d/%d))" % (num, den), (lambda n=num, d=den: Fxp(np.float16(n / d))), v, True, *exp_none(v, True))
    check("Fxp(np.array([%d/%d], float16))" % (num, den), (lambda n=num, d=den: Fxp(np.array([n / d], dtype=np.float16))), v, True, *exp_none(v, True))
v = [F(-3, 4096)]
check("Fxp(np.float16(-3/4096), n_word=16)", lambda: Fxp(np.float16(-3 / 4096), n_word=16), v, True, *exp_word(v, True, 16))
# controls: positive value, and the same negative value as float32 / float64
check("control +3/4096 float16", lambda: Fxp(np.float16(3 / 4096)), [F(3, 4096)], True, *exp_none([F(3, 4096)], True))
check("control -3/4096 float32", lambda: Fxp(np.float32(-3 / 4096)), v, True, *exp_none(v, True))
finish()
