# C06 counterexample 5: object-dtype array whose FIRST element is a Python int and a later one a float.
# Sizes are inferred correctly, but the stored value is silently truncated to an integer and NO flag is
# raised: _format_inupt_val takes vdtype = type(val.item(0)) = int (objects.py:692-693) and set_val then
# does val.astype(int) (objects.py:874); the inaccuracy test compares against the already truncated val.

import sys, warnings
from fractions import Fraction as F
import numpy as np
warnings.simplefilter("ignore")
from fxpmath import Fxp

def f_exact(vals):
    f = 0
    while any((v * 2**f).denominator != 1 for v in vals):
        f += 1
    return f

def n_int_min(vals, f, signed):
    """fewest integer bits n>=0 such that every code v*2^f fits a word of n+f(+sign) bits"""
    n = 0
    while True:
        w = n + f
        lo, hi = (-(1 << w), (1 << w) - 1) if signed else (0, (1 << w) - 1)
        if all(lo <= v * 2**f <= hi for v in vals):
            return n
        n += 1

def flags(x):
    return sorted(k for k, v in x.status.items() if v and k != "extended_prec")

def stored(x):
    return [F(int(r)) / F(2)**x.n_frac for r in np.array(x.val).ravel()]

bad = []
def check(label, build, vals, signed, exp_word, exp_frac):
    try:
        x = build()
    except Exception as e:
        bad.append("%s: raised %s: %s (expected %s%d/%d holding %s exactly)" % (
            label, type(e).__name__, e, "s" if signed else "u", exp_word, exp_frac, [str(v) for v in vals]))
        return
    got = (x.n_word, x.n_frac)
    if got != (exp_word, exp_frac) or stored(x) != list(vals) or flags(x):
        bad.append("%s: got %s n_int=%d stored=%s flags=%s; expected %s%d/%d stored=%s flags=[]" % (
            label, x.dtype, x.n_int, [str(v) for v in stored(x)], flags(x),
            "s" if signed else "u", exp_word, exp_frac, [str(v) for v in vals]))

def finish():
    for b in bad:
        print("VIOLATION", b)
    sys.exit(1 if bad else 0)

def exp_none(vals, signed):
    f = f_exact(vals); return f + n_int_min(vals, f, signed) + (1 if signed else 0), f
v = [F(1), F(1, 2)]
check("Fxp(np.array([1, 0.5], dtype=object))", lambda: Fxp(np.array([1, 0.5], dtype=object)), v, True, *exp_none(v, True))
v = [F(-1), F(5, 2**20)]
check("Fxp(np.array([-1, 5/2**20], dtype=object))", lambda: Fxp(np.array([-1, 5 / 2**20], dtype=object)), v, True, *exp_none(v, True))
v = [F(7), F(-65537, 524288), F(-3), F(-128)]
check("object array, n_word=43", lambda: Fxp(np.array([7, -65537 / 524288, -3, -128], dtype=object), n_word=43), v, True, 43, 19)
v = [F(3), F(9, 4)]
check("object array unsigned n_frac=3", lambda: Fxp(np.array([3, 2.25], dtype=object), signed=False, n_frac=3), v, False, 5, 3)
# controls: float first, or a plain list
v = [F(1, 2), F(1)]
check("control float first", lambda: Fxp(np.array([0.5, 1], dtype=object)), v, True, *exp_none(v, True))
v = [F(1), F(1, 2)]
check("control plain list", lambda: Fxp([1, 0.5]), v, True, *exp_none(v, True))
finish()
