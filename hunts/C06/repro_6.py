# C06 counterexample 6: calling the (public) anchored method Fxp.set_best_sizes(val) directly.
# Its own default max_error is 1.0e-6 (objects.py:508), not the 2**-63 the constructor passes in,
# so the fraction-bit search stops as soon as the residual is <= 1e-6: every value with exact
# fraction length 20 (residual 2**-20 = 9.54e-7) gets at most 19 fraction bits - the inferred format
# cannot represent the supplied value.

import sys, warnings
from fractions import Fraction as F
import numpy as np
warnings.simplefilter("ignore")
from fxpmath import Fxp

def f_exact(vals):
    f = 0
    while any((v * 2**f).denominator != 1 for v in vals):
        f += 1
    return f

def n_int_min(vals, f, signed):
    """fewest integer bits n>=0 such that every code v*2^f fits a word of n+f(+sign) bits"""
    n = 0
    while True:
        w = n + f
        lo, hi = (-(1 << w), (1 << w) - 1) if signed else (0, (1 << w) - 1)
        if all(lo <= v * 2**f <= hi for v in vals):
            return n
        n += 1

def flags(x):
    return sorted(k for k, v in x.status.items() if v and k != "extended_prec")

def stored(x):
    return [F(int(r)) / F(2)**x.n_frac for r in np.array(x.val).ravel()]

bad = []
def check(label, build, vals, signed, exp_word, exp_frac):
    try:
        x = build()
    except Exception as e:
        bad.append("%s: raised %s: %s (expected %s%d/%d holding %s exactly)" % (
            label, type(e).__name__, e, "s" if signed else "u", exp_word, exp_frac, [str(v) for v in vals]))
        return
    got = (x.n_word, x.n_frac)
    if got != (exp_word, exp_frac) or stored(x) != list(vals) or flags(x):
        bad.append("%s: got %s n_int=%d stored=%s flags=%s; expected %s%d/%d stored=%s flags=[]" % (
            label, x.dtype, x.n_int, [str(v) for v in stored(x)], flags(x),
            "s" if signed else "u", exp_word, exp_frac, [str(v) for v in vals]))

def finish():
    for b in bad:
        print("VIOLATION", b)
    sys.exit(1 if bad else 0)

def exp_none(vals, signed):
    f = f_exact(vals); return f + n_int_min(vals, f, signed) + (1 if signed else 0), f
for num in (1, 3, 2**19 - 1, 2**20 + 1, -5):
    v = [F(num, 2**20)]
    x = Fxp(0.0)
    try:
        x.set_best_sizes(num / 2**20)
    except Exception as e:
        bad.append("set_best_sizes(%d/2**20) raised %r" % (num, e)); continue
    ew, ef = exp_none(v, True)
    code = v[0] * 2**x.n_frac
    if (x.n_word, x.n_frac) != (ew, ef) or code.denominator != 1:
        bad.append("x.set_best_sizes(%d/2**20): inferred %s (n_frac=%d) cannot hold the value exactly; expected s%d/%d" % (
            num, x.dtype, x.n_frac, ew, ef))
# control: the constructor route
v = [F(1, 2**20)]
check("control Fxp(2**-20)", lambda: Fxp(2.0**-20), v, True, *exp_none(v, True))
finish()
