"""Borderline B1: 0-d (scalar) unsigned operands with a negative difference go through a NumPy *scalar* uint64
subtraction that wraps; NumPy reports that as RuntimeWarning 'overflow encountered in scalar subtract'.
With warnings turned into errors (python -W error, pytest filterwarnings=error) or np.seterr(over='raise')
the exception clause of the property (0 with underflow raised) is not delivered: the operation raises.
Arrays (even 1-element ones) are unaffected. Exits 1 if the behaviour is present."""
import sys, warnings
import numpy as np
from fxpmath import Fxp
bad = []
with warnings.catch_warnings():
    warnings.simplefilter('error')
    try:
        z = Fxp(1, False, 4, 0) - Fxp(2, False, 4, 0)      # exact -1 -> expected code 0 in u5/0, underflow flag
        if int(z.val) != 0 or not z.status['underflow']: bad.append(('wrong value', z.val, z.status))
    except Exception as e:
        bad.append(('warnings-as-errors', type(e).__name__, str(e)))
    za = Fxp([1], False, 4, 0) - Fxp([2], False, 4, 0)      # array route is fine
    assert int(za.val[0]) == 0 and za.status['underflow']
old = np.seterr(over='raise')
try:
    with warnings.catch_warnings():
        warnings.simplefilter('ignore')
        z = Fxp(1, False, 4, 0) - Fxp(2, False, 4, 0)
except Exception as e:
    bad.append(('np.seterr(over=raise)', type(e).__name__, str(e)))
finally:
    np.seterr(**old)
if bad:
    print('B1 present: scalar u - u with negative difference, expected code 0 + underflow flag, got:', bad)
    sys.exit(1)
sys.exit(0)
