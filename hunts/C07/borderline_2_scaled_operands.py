"""Borderline B2: operands with linear scaling (scale/bias kwargs). Stored operand values 30 (code 3, scale=10) and 3.
x + y : first operand scaled -> 'repr' route, result is an UNscaled u5/0 sized from the raw formats -> 33 saturates to 31, overflow flag.
y + x : only the first operand's `scaled` flag is looked at (functions.py:176) -> raw codes are added, scale of x ignored -> 6.
Exits 1 if present."""
import sys, warnings
from fxpmath import Fxp
warnings.simplefilter('ignore')
x = Fxp(30, False, 4, 0, scale=10)     # code 3, value 30.0
y = Fxp(3, False, 4, 0)                # code 3, value 3
assert float(x.get_val()) == 30.0 and float(y.get_val()) == 3.0
z1 = x + y; z2 = y + x
bad = []
if float(z1.get_val()) != 33.0 or z1.status['overflow']: bad.append(('x+y', z1.dtype, float(z1.get_val()), dict(z1.status)))
if float(z2.get_val()) != 33.0: bad.append(('y+x', z2.dtype, float(z2.get_val()), dict(z2.status)))
if bad:
    print('B2 present: expected 33.0 without flags, got', bad); sys.exit(1)
sys.exit(0)
