"""Borderline B3: empty operands (obtained by boolean-mask indexing; Fxp(np.array([])) cannot even be constructed).
x[mask] + y[mask] with an all-False mask raises IndexError instead of returning an empty result. Exits 1 if present."""
import sys, warnings
import numpy as np
from fxpmath import Fxp
warnings.simplefilter('ignore')
x = Fxp([1, 2, 3], True, 5, 1); y = Fxp([1, 1, 1], False, 4, 2)
m = np.zeros(3, dtype=bool)
try:
    z = x[m] + y[m]
    ok = np.asarray(z.val).shape == (0,) and z.n_word == 7 and z.n_frac == 2
except Exception as e:
    print('B3 present: empty + empty raised', type(e).__name__, e); sys.exit(1)
sys.exit(0 if ok else 1)
