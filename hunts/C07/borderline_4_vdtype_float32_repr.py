"""Borderline B4: op_method='repr' (config, not the default) + an operand whose vdtype was explicitly overridden with a narrow
float type through the documented set_val(raw=True, vdtype=...) argument. The repr route reads the operand through get_val(),
i.e. through float32, so a 30-bit code is rounded before the addition. Exits 1 if present."""
import sys, warnings
import numpy as np
from fxpmath import Fxp
warnings.simplefilter('ignore')
c = Fxp(None, False, 30, 0, op_method='repr'); c.set_val([2**29 + 1], raw=True, vdtype=np.float32)
d = Fxp([1], False, 30, 0)
z = c + d
exp = 2**29 + 2
if int(z.val[0]) != exp:
    print('B4 present: stored codes', int(c.val[0]), '+', int(d.val[0]), 'expected', exp, 'got', int(z.val[0]), z.dtype); sys.exit(1)
sys.exit(0)
