"""C08 counterexample 1: unsigned - unsigned with a negative exact difference, stored into an out / out_like
target whose word is >= 64 bits: the uint64 raw difference wraps around (2**64 - d) and is kept."""
import sys, warnings
warnings.simplefilter('ignore')
from fractions import Fraction as F
import numpy as np
from fxpmath import Fxp
import fxpmath

bad = []

def expect(v, signed, n_word, n_frac, overflow):          # exact value v is on the grid here: no rounding involved
    k = int(F(v) * 2 ** n_frac)
    lo, hi = (-(1 << (n_word - 1)), (1 << (n_word - 1)) - 1) if signed else (0, (1 << n_word) - 1)
    ovf, unf = k > hi, k < lo
    if ovf or unf:
        if overflow == 'saturate':
            k = hi if ovf else lo
        else:
            k %= 1 << n_word
            if signed and k >= 1 << (n_word - 1):
                k -= 1 << n_word
    return k, ovf, unf

x = Fxp(1, False, 4, 0)      # u4/0, value 1
y = Fxp(2, False, 4, 0)      # u4/0, value 2      exact x - y = -1
for signed, n_word, n_frac in [(True, 64, 0), (True, 65, 3), (False, 64, 0), (True, 72, 20)]:
    for overflow in ('saturate', 'wrap'):
        for method in ('raw', 'repr'):
            for route in ('out', 'out_like', 'np.subtract(out=)', 'operator+op_out'):
                t = Fxp(None, signed, n_word, n_frac, overflow=overflow)
                if route == 'out':
                    z = fxpmath.sub(x, y, out=t, method=method)
                elif route == 'out_like':
                    z = fxpmath.sub(x, y, out_like=t, method=method)
                elif route == 'np.subtract(out=)':
                    if method == 'repr':
                        continue
                    z = np.subtract(x, y, out=t)
                else:
                    a = Fxp(1, False, 4, 0, op_method=method)
                    a.config.op_out = t
                    z = a - y
                ek, eo, eu = expect(F(1) - F(2), signed, n_word, n_frac, overflow)
                got = (int(z.val), bool(z.status['overflow']), bool(z.status['underflow']))
                if got != (ek, eo, eu):
                    bad.append('u4/0 1 - u4/0 2 -> %s%d/%d %s %s via %s: got code/ovf/unf %s, expected %s'
                               % ('s' if signed else 'u', n_word, n_frac, overflow, method, route, got, (ek, eo, eu)))

# raw != repr for fractional operands (repr works on floats and is right)
x = Fxp([0.5, 1.5], False, 4, 1); y = Fxp([1.0, 1.0], False, 4, 1)
zr = fxpmath.sub(x, y, out=Fxp(None, True, 64, 1), method='raw')
zp = fxpmath.sub(x, y, out=Fxp(None, True, 64, 1), method='repr')
if [int(v) for v in zr.val] != [-1, 1] or [int(v) for v in zr.val] != [int(v) for v in zp.val]:
    bad.append('u4/1 [0.5,1.5] - [1,1] -> s64/1: raw codes %s, repr codes %s, expected [-1, 1]' % (list(zr.val), list(zp.val)))

if bad:
    print('VIOLATION (C08, unsigned difference into a >=64-bit target):')
    for b in bad[:12]:
        print('  ', b)
    print('   ... %d discrepancies in total' % len(bad))
    sys.exit(1)
print('ok')
