"""C08 counterexample 2: 'repr' method, two UNSIGNED integer-valued operands (n_frac = 0, built from integers, so
their value dtype is int and get_val() hands out uint64), result stored in a target with many fractional bits so
that exact_result * 2**n_frac >= 2**63: the scaling in set_val overflows int64 silently.
saturate -> lower bound + underflow flag instead of upper bound + overflow flag; wrap -> wrong flag. raw is right."""
import sys, warnings
warnings.simplefilter('ignore')
from fractions import Fraction as F
from fxpmath import Fxp
import fxpmath

def expect(v, signed, n_word, n_frac, overflow):          # v on the grid: no rounding involved
    k = int(F(v) * 2 ** n_frac)
    lo, hi = (-(1 << (n_word - 1)), (1 << (n_word - 1)) - 1) if signed else (0, (1 << n_word) - 1)
    ovf, unf = k > hi, k < lo
    if ovf or unf:
        if overflow == 'saturate':
            k = hi if ovf else lo
        else:
            k %= 1 << n_word
            if signed and k >= 1 << (n_word - 1):
                k -= 1 << n_word
    return k, ovf, unf

bad = []
cases = [('mul', 4095, 4095, (False, 48, 40)), ('mul', 4095, 4095, (True, 50, 40)), ('add', 4095, 4095, (False, 60, 51)), ('mul', 255, 255, (False, 56, 48))]
for op, vx, vy, (signed, n_word, n_frac) in cases:
    w = 12 if vx > 255 else 8
    x = Fxp(vx, False, w, 0); y = Fxp(vy, False, w, 0)
    e = vx * vy if op == 'mul' else vx + vy
    for overflow in ('saturate', 'wrap'):
        res = {}
        for method in ('raw', 'repr'):
            t = Fxp(None, signed, n_word, n_frac, overflow=overflow)
            z = getattr(fxpmath, op)(x, y, out=t, method=method)
            res[method] = (int(z.val), bool(z.status['overflow']), bool(z.status['underflow']))
        exp = expect(e, signed, n_word, n_frac, overflow)
        for method in ('raw', 'repr'):
            if res[method] != exp:
                bad.append('u%d/0 %d %s u%d/0 %d -> %s%d/%d %s, method %s: got code/ovf/unf %s expected %s (raw gives %s)'
                           % (w, vx, op, w, vy, 's' if signed else 'u', n_word, n_frac, overflow, method, res[method], exp, res['raw']))
if bad:
    print('VIOLATION (C08, repr != raw != exact for unsigned integer-valued operands into a target with a large n_frac):')
    for b in bad:
        print('  ', b)
    sys.exit(1)
print('ok')
