"""C08 counterexample 3: 'repr' method into a target with overflow='wrap' whose n_frac is so large that
exact_result * 2**n_frac >= 2**63 (word < 64 bits): the wrap is done by casting a float64 beyond the int64 range
to int, the code comes out as 0 (garbage) while the 'raw' method gives the correct wrapped code."""
import sys, warnings
warnings.simplefilter('ignore')
from fractions import Fraction as F
import numpy as np
from fxpmath import Fxp
import fxpmath

def expect_wrap(v, signed, n_word, n_frac):
    k = int(F(v) * 2 ** n_frac)
    lo, hi = (-(1 << (n_word - 1)), (1 << (n_word - 1)) - 1) if signed else (0, (1 << n_word) - 1)
    ovf, unf = k > hi, k < lo
    k %= 1 << n_word
    if signed and k >= 1 << (n_word - 1):
        k -= 1 << n_word
    return k, ovf, unf

bad = []
# s11/3 * s11/1  (values 655/8 and 511):   exact 334705/8 ; target s50/49 wrap
cases = [
    ('mul', (True, 11, 3), 655, (True, 11, 1), 1022, (True, 50, 49)),
    ('add', (True, 10, 0), -1, (True, 10, 0), 511, (True, 63, 61)),
    ('mul', (False, 12, 0), 4095, (False, 12, 0), 4095, (False, 48, 40)),     # operands built from floats here
    ('sub', (False, 4, 3), 14, (False, 7, 1), 4, (False, 60, 60)),
]
for op, fx, cx, fy, cy, ft in cases:
    x = Fxp(cx / 2.0 ** fx[2], *fx); y = Fxp(cy / 2.0 ** fy[2], *fy)
    assert int(x.val) == cx and int(y.val) == cy
    a, b = F(cx, 2 ** fx[2]), F(cy, 2 ** fy[2])
    e = a * b if op == 'mul' else a + b if op == 'add' else a - b
    exp = expect_wrap(e, *ft)
    res = {}
    for method in ('raw', 'repr'):
        t = Fxp(None, *ft, overflow='wrap')
        z = getattr(fxpmath, op)(x, y, out_like=t, method=method)
        res[method] = (int(z.val), bool(z.status['overflow']), bool(z.status['underflow']))
    for method in ('raw', 'repr'):
        if res[method] != exp:
            bad.append('%s %s(%s, %s) -> %s wrap, method %s: got code/ovf/unf %s expected %s (raw gives %s)' % (op, fx, a, b, ft, method, res[method], exp, res['raw']))
if bad:
    print('VIOLATION (C08, repr != raw for wrap targets with a large n_frac):')
    for b in bad:
        print('  ', b)
    sys.exit(1)
print('ok')
