"""C08 counterexample 4: dyadic constant with many fractional bits (a single bit: 2**-43 ... 2**-50), op_input_size='best'
(the constant is converted exactly, e.g. 2**-50 -> s51/50 code 1), const_op_sizing='same' (default): the sum is formed in
float64 by both calculation methods (raw: the constant's code is scaled by the float 2**(n_frac - 50)), the tiny addend is
lost before the rounding mode of the result is applied."""
import sys, warnings, math
warnings.simplefilter('ignore')
from fractions import Fraction as F
from fxpmath import Fxp

def rnd(q, mode):
    return {'trunc': math.trunc, 'fix': math.trunc, 'floor': math.floor, 'ceil': math.ceil}[mode](q)

bad = []
for method in ('raw', 'repr'):
    for e in (43, 50):
        c = 2.0 ** -e
        for rounding, code, sign in (('trunc', -2048, +1), ('ceil', -2048, +1), ('ceil', 5, +1), ('floor', 2047, -1), ('trunc', 2047, -1), ('floor', -7, -1)):
            a = Fxp(code, True, 12, 0, rounding=rounding, op_input_size='best', op_method=method)
            k = a._convert_op_input_value(c)
            assert F(int(k.val), 2 ** k.n_frac) == F(c), 'constant not converted exactly'
            z = a + c if sign > 0 else a - c
            exact = F(code) + sign * F(c)
            exp = rnd(exact, rounding)          # s12/0, in range
            if (z.signed, z.n_word, z.n_frac) != (True, 12, 0) or int(z.val) != exp:
                bad.append('s12/0 %d %s 2**-%d, rounding=%s, method=%s: got %s code %d, expected code %d (exact %s)'
                           % (code, '+' if sign > 0 else '-', e, rounding, method, z.dtype, int(z.val), exp, 'code %+d*2**-%d' % (sign, e)))
if bad:
    print('VIOLATION (C08, constant operand with many fractional bits: result is not the exact sum quantized):')
    for b in bad[:10]:
        print('  ', b)
    print('   ... %d discrepancies' % len(bad))
    sys.exit(1)
print('ok')
