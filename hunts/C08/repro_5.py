"""C08 counterexample 5: a dyadic float16 array constant under op_input_size='best' makes Fxp op constant raise
OverflowError instead of returning the quantized result (set_best_sizes scales the maximum in float16: 64 * 2**10 = inf)."""
import sys, warnings
warnings.simplefilter('ignore')
import numpy as np
from fxpmath import Fxp
import fxpmath

c = np.array([64.0, 2.0 ** -10], dtype=np.float16)          # both exactly representable (dyadic)
bad = []
a = Fxp([1.0, 2.0], True, 12, 4, op_input_size='best')       # s12/4
for name, f in (('a + c', lambda: a + c), ('a - c', lambda: a - c), ('a * c', lambda: a * c), ('c - a (list)', lambda: c.tolist() - a),
                ('add(a, c, sizing="same")', lambda: fxpmath.add(a, c, sizing='same'))):
    try:
        z = f()
    except Exception as e:
        bad.append('%s raised %s: %s' % (name, type(e).__name__, e))
        continue
# reference: the same constant as float32 works and gives the expected codes  (1+64)*16 = 1040, trunc((2+2**-10)*16) = 32
z32 = a + c.astype(np.float32)
assert [int(v) for v in z32.val] == [1040, 32]
if bad:
    print('VIOLATION (C08, float16 array constant with op_input_size="best"):')
    for b in bad:
        print('  ', b)
    print('   expected codes [1040, 32] in s12/4 for a + c (what the float32 / float64 / list versions of the same constant give)')
    sys.exit(1)
print('ok')
