#!/usr/bin/env python
"""Borderline: x // y raises ValueError('negative shift count') when the optimal floordiv word
(signed + x.n_int + y.n_frac + signed) is negative (unsigned) or zero (signed). Only reachable with
formats outside 0 <= n_frac <= n_word (fraction length larger than the word, or negative).
Exit 1 if the exception is raised."""
import sys
from fxpmath import Fxp
bad = 0
for (xa, ya) in [((0.125, False, 3, 4), (1, False, 2, 0)),      # u3/4 // u2/0 -> optimal word -1
                 ((-1, True, 1, 0), (-4, True, 1, -2))]:        # s1/0 // s1/-2 -> optimal word 0 (signed)
    x = Fxp(*xa); y = Fxp(*ya)
    try:
        z = x // y
        print(x.dtype, '//', y.dtype, '->', z.dtype, z())
    except Exception as e:
        print(x.dtype, x(), '//', y.dtype, y(), 'raised', type(e).__name__, e, '(exact result is 0)')
        bad += 1
sys.exit(1 if bad else 0)
