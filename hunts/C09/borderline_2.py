#!/usr/bin/env python
"""Borderline: the raw route only falls back to values when the DIVIDEND is scaled (x.scaled); a divisor
with scale/bias is divided by its raw code, so raw and repr disagree.  scale/bias is not part of the
operand 'format' (signed/n_word/n_frac), hence borderline.  Exit 1 if raw != repr."""
import sys
from fxpmath import Fxp
x = Fxp(6, True, 8, 2)
y = Fxp(4, True, 8, 2, scale=2)       # code 8, represented value 4.0
res = {}
for m in ('raw', 'repr'):
    x.config.op_method = m
    res[m] = ((x / y)(), (x // y)(), (x % y)())
    print(m, 'x=6, y=4 (scale=2):  x/y, x//y, x%y =', res[m], ' expected (1.5, 1, 2)')
sys.exit(1 if res['raw'] != res['repr'] else 0)
