#!/usr/bin/env python
"""C09 counterexample 1: raw floordiv overflows int64 when it up-scales an operand to a
non-optimal destination fraction length (sizing='same'/'largest'/'fit', out=, out_like=,
config.op_sizing / op_out / op_out_like).  x // y != floor(x/y) although the exact result
is representable in the destination, and raw disagrees with repr.

Exits 1 (printing the discrepancy) when the violation is present, 0 otherwise.
"""
import sys, warnings
from fractions import Fraction as F
from math import floor
import numpy as np
from fxpmath import Fxp
import fxpmath.functions as fn

warnings.simplefilter('ignore')
bad = []

def value(z):
    return F(int(np.asarray(z.val).ravel()[0])) / (F(2) ** z.n_frac)

def run(tag, call, xv, yv):
    exp = F(floor(xv / yv))
    for m in ('raw', 'repr'):
        z = call(m)
        lo = -(1 << (z.n_word - 1)) if z.signed else 0
        hi = (1 << (z.n_word - 1)) - 1 if z.signed else (1 << z.n_word) - 1
        assert lo <= exp * 2 ** z.n_frac <= hi, 'expected value must be representable'
        got = value(z)
        print(f'{tag:34s} method={m:4s} -> {z.dtype:12s} got {got}  expected floor({xv}/{yv}) = {exp}')
        if got != exp:
            bad.append((tag, m, got, exp))

# A: both operand words <= 53, destination word 32 (sizing='same' keeps x's format s32/30)
x = Fxp(0.5, True, 32, 30)          # code 2**29, value 1/2
y = Fxp(2 ** 33, True, 35, 0)       # code 2**33, value 2**33
xv, yv = F(1, 2), F(2 ** 33)
run("A floordiv(sizing='same')", lambda m: fn.floordiv(x, y, sizing='same', method=m), xv, yv)

# B: same operands through the NumPy ufunc route with out=
o = Fxp(0, True, 32, 30)
run("B np.floor_divide(out=s32/30)", lambda m: (np.floor_divide(x, y, out=o) if m == 'raw' else fn.floordiv(x, y, out=o, method='repr')), xv, yv)

# C: operator route with config.op_sizing='same'
def op_route(m):
    x.config.op_sizing = 'same'; x.config.op_method = m
    try:
        return x // y
    finally:
        x.config.op_sizing = 'optimal'; x.config.op_method = 'raw'
run("C x // y, config.op_sizing='same'", op_route, xv, yv)

# D: small operands (s5/4 and s13/0), destination s53/52
x2 = Fxp(0.5, True, 5, 4); y2 = Fxp(2048, True, 13, 0); o2 = Fxp(0, True, 53, 52)
run("D floordiv(out=s53/52)", lambda m: fn.floordiv(x2, y2, out=o2, method=m), F(1, 2), F(2048))

if bad:
    print('\nVIOLATION: x//y != floor(x/y) for', len(bad), 'case(s):')
    for b in bad:
        print('  ', b[0], 'method', b[1], 'got', b[2], 'expected', b[3])
    sys.exit(1)
print('no violation')
sys.exit(0)
