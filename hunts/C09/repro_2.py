#!/usr/bin/env python
"""C09 counterexample 2 (literal reading of the quantifier: the RESULT word is <= 53 bits,
the dividend word is 54..63 bits): floordiv scales the dividend code with a float factor
(x.val * 2**(-x.n_frac)), so a dividend code that needs more than 53 bits is rounded before
the floor.  x // y != floor(x/y) on the default route (optimal sizing, raw method) while
x % y (integer kernel) is exact, so (x//y)*y + x%y != x.

Exits 1 (printing the discrepancy) when the violation is present, 0 otherwise.
"""
import sys, warnings
from fractions import Fraction as F
from math import floor
import numpy as np
from fxpmath import Fxp

warnings.simplefilter('ignore')
bad = []

def value(z):
    return F(int(np.asarray(z.val).ravel()[0])) / (F(2) ** z.n_frac)

cases = [
    # (dividend code, signed, n_word, n_frac), (divisor code, signed, n_word, n_frac)
    ((2 ** 54 - 1, True, 56, 54), (1, True, 2, 0)),     # x = 1 - 2**-54, y = 1  -> floor = 0
    ((2 ** 54 - 1, False, 54, 53), (2, False, 2, 0)),   # x = 2 - 2**-53, y = 2  -> floor = 0
    ((-(2 ** 54) - 1, True, 57, 54), (1, True, 2, 0)),  # x = -1 - 2**-54, y = 1 -> floor = -2
]
for (xc, xs, xw, xf), (yc, ys, yw, yf) in cases:
    xv = F(xc) / F(2) ** xf; yv = F(yc) / F(2) ** yf
    for m in ('raw', 'repr'):
        x = Fxp(xc, signed=xs, n_word=xw, n_frac=xf, raw=True, op_method=m)
        y = Fxp(yc, signed=ys, n_word=yw, n_frac=yf, raw=True, op_method=m)
        assert int(x.val) == xc and int(y.val) == yc
        q = x // y; r = x % y
        expq = F(floor(xv / yv)); expr = xv - yv * expq
        gq, gr = value(q), value(r)
        ident = gq * yv + gr
        print(f'x={x.dtype} code {xc}  y={y.dtype} code {yc}  method={m}: x//y -> {q.dtype} {gq} (expected {expq}, result word {q.n_word}); '
              f'x%y {"exact" if gr == expr else "WRONG"}; (x//y)*y+x%y == x: {ident == xv}')
        if gq != expq:
            bad.append((x.dtype, y.dtype, m, gq, expq))
if bad:
    print('\nVIOLATION: x//y != floor(x/y) with a result word <= 53 bits:')
    for b in bad:
        print('  ', b)
    sys.exit(1)
print('no violation')
sys.exit(0)
