"""C10 counterexample 1: a source whose vdtype is uint64 (built from a list of np.uint64 numbers) and that holds a
NEGATIVE code is converted wrongly on the constructor / like= / set_val / indexed-assignment routes when the
destination saturates: the negative code is cast to uint64 (2**64 - |code|) and saturates to the UPPER limit.
resize(), like() and equal() give the correct result, so the routes disagree and a representable value is lost.

exits 1 (and prints the discrepancy) when the violation is present, 0 otherwise.
"""
import sys, math
from fractions import Fraction
import numpy as np
from fxpmath import Fxp


def expected_code(code, sf, ds, dw, df, rounding, overflow):
    v = Fraction(code) * Fraction(2) ** (df - sf)
    r = {'trunc': math.trunc, 'floor': math.floor, 'ceil': math.ceil}[rounding](v)
    lo = -(1 << (dw - 1)) if ds else 0
    hi = (1 << (dw - 1)) - 1 if ds else (1 << dw) - 1
    if overflow == 'saturate':
        return max(lo, min(hi, r))
    return (r - lo) % (1 << dw) + lo


def codes(x):
    return [int(c) for c in np.asarray(x.val).ravel()]


def make_src():
    # s8/0, wrap: 200 -> code -56 (value -56), 3 -> code 3.  vdtype becomes dtype('uint64')
    return Fxp([np.uint64(200), np.uint64(3)], True, 8, 0, overflow='wrap')


errors = []
src = make_src()
src_codes = codes(src)
if src_codes != [-56, 3]:
    print('setup differs (source codes %s): cannot judge' % src_codes)
    sys.exit(0)

for (ds, dw, df) in [(True, 16, 4), (True, 8, 0), (False, 8, 0), (True, 12, 2)]:
    exp = [expected_code(c, 0, ds, dw, df, 'trunc', 'saturate') for c in src_codes]

    def dst():
        return Fxp(None, ds, dw, df, rounding='trunc', overflow='saturate')

    res = {}
    s = make_src(); res['Fxp(src, signed, n_word, n_frac)'] = Fxp(s, ds, dw, df, overflow='saturate')
    s = make_src(); res['Fxp(src, like=dst)'] = Fxp(s, like=dst())
    s = make_src(); res['dst.set_val(src)'] = dst().set_val(s)
    s = make_src(); d = Fxp([0, 0], ds, dw, df, overflow='saturate'); d[0] = s[0]; d[1] = s[1]; res['dst[i] = src[i]'] = d
    s = make_src(); res['src.like(dst)'] = s.like(dst())
    s = make_src(); res['dst.equal(src)'] = dst().equal(s)
    s = make_src(); s.overflow = 'saturate'; s.resize(ds, dw, df); res['src.resize(...)'] = s
    for name, r in res.items():
        if codes(r) != exp:
            errors.append('%-34s s8/0 codes %s (values %s) -> %s: got codes %s (values %s), expected codes %s (values %s)'
                          % (name, src_codes, [float(c) for c in src_codes], r.dtype, codes(r), np.asarray(r.get_val()).tolist(),
                             exp, [float(Fraction(c) / 2**df) for c in exp]))

# the same taint through a sequence of conversions: the object gets its negative code by a (correct) equal()
x = Fxp([np.uint64(1), np.uint64(2)], True, 8, 0)         # vdtype uint64, default modes
x.equal(Fxp([-3.0, 2.0], True, 8, 0))                     # conversion 1 (correct): codes [-3, 2]
y = Fxp(x, True, 12, 2)                                   # conversion 2 through the constructor
if codes(x) == [-3, 2] and codes(y) != [-12, 8]:
    errors.append('sequence equal() then Fxp(x, s12/2): got codes %s (values %s), expected [-12, 8] (values [-3.0, 2.0])'
                  % (codes(y), np.asarray(y.get_val()).tolist()))

if errors:
    print('C10 VIOLATED: conversion routes disagree / representable value not preserved for a source with vdtype uint64 holding a negative code')
    for e in errors:
        print('  ' + e)
    sys.exit(1)
print('ok')
sys.exit(0)
