# C11 counterexample 1: the rendering of a 2-D object (bin()/hex()) cannot be fed back as it is
# (constructor, call, set_val, from_bin all raise) although the 1-D rendering and a scalar rendering can.
import sys, io, contextlib
import numpy as np
from fxpmath import Fxp

codes = [[-3, 5, 0], [127, -128, 1]]          # signed 8 bits, 2 fractional bits
x = Fxp(None, True, 8, 2); x.set_val(codes, raw=True)
assert np.asarray(x.val).tolist() == codes

rendered = {
    'bin(prefix=True)': x.bin(prefix=True),    # [array(['0b11111101', ...]), array([...])]
    'hex()':            x.hex(),               # [array(['0xFD', ...]), array([...])]
}
# independent oracle of the rendering itself (this part is right)
exp_bin = [['0b' + format(c % 256, '08b') for c in r] for r in codes]
exp_hex = [['0x' + format(c % 256, '02X') for c in r] for r in codes]
assert [list(map(str, r)) for r in rendered['bin(prefix=True)']] == exp_bin
assert [list(map(str, r)) for r in rendered['hex()']] == exp_hex

bad = []
for name, s in rendered.items():
    routes = {
        'constructor':        lambda s=s: Fxp(s, True, 8, 2),
        'constructor raw':    lambda s=s: Fxp(s, True, 8, 2, raw=True),
        'call':               lambda s=s: Fxp(None, True, 8, 2)(s),
        'set_val raw':        lambda s=s: Fxp(None, True, 8, 2).set_val(s, raw=True),
    }
    if name.startswith('bin'):
        routes['from_bin raw'] = lambda s=s: Fxp(None, True, 8, 2).from_bin(s, raw=True)
        routes['from_bin (unprefixed bin())'] = lambda: Fxp(None, True, 8, 2).from_bin(x.bin())
    for rname, f in routes.items():
        try:
            with contextlib.redirect_stdout(io.StringIO()):
                y = f()
            got = np.asarray(y.val).tolist()
            if got != codes:
                bad.append('%s -> %s: codes %r, expected %r' % (name, rname, got, codes))
        except Exception as e:
            bad.append('%s -> %s: raises %s' % (name, rname, repr(e)[:110]))

# control: the same strings as nested lists / as one ndarray do parse (so the strings themselves are right)
ctrl = Fxp([list(map(str, r)) for r in x.hex()], True, 8, 2, raw=True)
assert np.asarray(ctrl.val).tolist() == codes

if bad:
    print('C11 violated: 2-D rendering fed back as is')
    for b in bad: print('  ', b)
    sys.exit(1)
print('ok')
sys.exit(0)
