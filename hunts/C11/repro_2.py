# C11 counterexample 2: hex() raises for every code when the object's configured binary prefix is 'b' or 'B'
# (hex() renders through self.bin(), which applies config.bin_prefix, and then int('b...', 2) fails).
import sys, io, contextlib
import numpy as np
from fxpmath import Fxp

bad = []
for prefix in ('b', 'B'):
    for val in (-19, [-19, 5], [[-19, 5], [0, 63]]):
        with contextlib.redirect_stdout(io.StringIO()):
            x = Fxp(None, True, 7, 3, bin_prefix=prefix)
            x.set_val(val, raw=True)
        f = lambda c: '0x' + format(c % (1 << 7), '02X')           # ceil(7/4) = 2 upper-case hex digits
        exp = f(val) if isinstance(val, int) else [f(c) if isinstance(c, int) else [f(k) for k in c] for c in val]
        try:
            got = x.hex()
            got = [g.tolist() if isinstance(g, np.ndarray) else g for g in got] if isinstance(got, list) else got
            if got != exp:
                bad.append('bin_prefix=%r codes=%r: hex()=%r expected %r' % (prefix, val, got, exp))
        except Exception as e:
            bad.append('bin_prefix=%r codes=%r: hex() raises %r, expected %r' % (prefix, val, e, exp))
if bad:
    print('C11 violated: hex() depends on the configured *binary* prefix')
    for b in bad: print('  ', b)
    sys.exit(1)
print('ok'); sys.exit(0)
