# C11 counterexample 3: hex() raises TypeError when config.hex_prefix is None (a value the setter accepts silently,
# and the value that means "no prefix" for bin_prefix).
import sys, io, contextlib
from fxpmath import Fxp
bad = []
for val, exp_digits in ((-19, '6D'), ([-19, 5], ['6D', '05'])):
    x = Fxp(None, True, 7, 3, hex_prefix=None); x.set_val(val, raw=True)
    try:
        got = x.hex()
        strip = lambda s: s[-2:]
        g = strip(got) if isinstance(got, str) else [strip(s) for s in got]
        if g != exp_digits: bad.append('codes=%r hex()=%r expected digits %r' % (val, got, exp_digits))
    except Exception as e:
        bad.append('codes=%r: hex() raises %r (expected the digits %r)' % (val, e, exp_digits))
if bad:
    print('C11 violated: hex() with hex_prefix=None')
    for b in bad: print('  ', b)
    sys.exit(1)
print('ok'); sys.exit(0)
