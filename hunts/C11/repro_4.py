# C11 counterexample 4: strings rendered with a selectable (and, for the config setters, "common") prefix
# do not parse back through constructor / call / set_val: only lower-case '0b', 'b', '0x', '0h' are recognised.
import sys, io, contextlib
from fxpmath import Fxp
sg, nw, nf, code = True, 7, 3, -19          # bits 1101101, hex 6D
x = Fxp(None, sg, nw, nf); x.set_val(code, raw=True)
cases = [('bin', p, x.bin(prefix=p)) for p in ('0b', 'b', 'B', '0B')] + \
        [('hex', p, x.hex(prefix=p)) for p in ('0x', '0h', 'x', 'X', '0X', 'h', 'H', '0H')]
bad = []
for kind, p, s in cases:
    body = format(code % (1 << nw), '07b') if kind == 'bin' else format(code % (1 << nw), '02X')
    assert s == p + body, (s, p + body)     # the rendering itself is right
    for rname, f in (('constructor', lambda: Fxp(s, sg, nw, nf)),
                     ('constructor raw', lambda: Fxp(s, sg, nw, nf, raw=True)),
                     ('call', lambda: Fxp(None, sg, nw, nf)(s)),
                     ('set_val raw', lambda: Fxp(None, sg, nw, nf).set_val(s, raw=True))):
        try:
            with contextlib.redirect_stdout(io.StringIO()):
                y = f()
            if int(y.val) != code:
                bad.append('%s prefix %r %r -> %s: code %d, expected %d' % (kind, p, s, rname, int(y.val), code))
        except Exception as e:
            bad.append('%s prefix %r %r -> %s: raises %s' % (kind, p, s, rname, repr(e)[:80]))
if bad:
    print('C11 violated: rendered strings with a selected prefix do not parse back')
    for b in bad: print('  ', b)
    sys.exit(1)
print('ok'); sys.exit(0)
