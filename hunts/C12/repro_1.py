# C12 counterexample: an indexed view of a complex Fxp (n_word<=52) carries a dtype string WITHOUT the
# '-complex' suffix, so the dtype string no longer determines the object's format (and Fxp(dtype=y.dtype)
# does not reproduce it).
import sys, warnings
import numpy as np
from fxpmath import Fxp
warnings.simplefilter('ignore')

def is_complex(o):   # independent reading of the "complex" component of the format tuple
    return o.vdtype == complex or np.asarray(o.val).dtype.kind == 'c' or isinstance(o(), (complex, np.complexfloating))

fails = []
r = Fxp([1.0, 2.0], True, 16, 4)
cases = {
    '(r*1j)[0]':              lambda: (r * 1j)[0],
    '(r+1j)[0]':              lambda: (r + 1j)[0],
    '(-z)[0]':                lambda: (-Fxp([1+1j, 2], True, 16, 4))[0],
    '(z+z)[1:]':              lambda: (Fxp([1+1j, 2], True, 16, 4) + Fxp([1+1j, 2], True, 16, 4))[1:],
    'Fxp(z,True,20,6)[-1]':   lambda: Fxp(Fxp([1+1j, 2], True, 16, 4), True, 20, 6)[-1],
    'neg n_frac':             lambda: (Fxp([16.0, 32.0], False, 12, -3) * 1j)[0],
    'oversized n_frac':       lambda: (Fxp([0.001, 0.002], False, 8, 12) * 1j)[0],
}
for tag, f in cases.items():
    y = f()
    expected = 'fxp-%s%d/%d%s' % ('s' if y.signed else 'u', y.n_word, y.n_frac, '-complex' if is_complex(y) else '')
    rebuilt = Fxp(None, dtype=y.dtype)
    if y.dtype != expected or is_complex(rebuilt) != is_complex(y):
        fails.append('%-22s raw=%r  y.dtype=%r  expected=%r  y.get_dtype()=%r  Fxp(dtype=y.dtype) complex=%s'
                     % (tag, y.val, y.dtype, expected, y.get_dtype(), is_complex(rebuilt)))
if fails:
    print('VIOLATION (dtype string of an indexed complex object has lost the complex suffix):')
    print('\n'.join(fails)); sys.exit(1)
print('ok'); sys.exit(0)
