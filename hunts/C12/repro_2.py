# C12 counterexample: constructing WITH A REAL VALUE and dtype=z.dtype (z complex, n_word<=52) does not
# reproduce z's format: the new object is not complex, and its dtype attribute still says '-complex'
# (x.dtype != x.get_dtype()).  Same for a real value written into an object that has been resized with a
# complex dtype string, for Fxp(val, like=z), fxp_like(z, val) and a template class.
import sys, warnings
import numpy as np
from fxpmath import Fxp
from fxpmath import functions as F
warnings.simplefilter('ignore')
def is_complex(o):
    return o.vdtype == complex or np.asarray(o.val).dtype.kind == 'c' or isinstance(o(), (complex, np.complexfloating))
def tup(o): return (bool(o.signed), o.n_word, o.n_frac, bool(is_complex(o)))
def render(t): return 'fxp-%s%d/%d%s' % ('s' if t[0] else 'u', t[1], t[2], '-complex' if t[3] else '')

fails = []
for (s, w, f) in [(True, 16, 4), (False, 12, -3)]:
    z = Fxp(0j, s, w, f)                       # complex source object
    want = (s, w, f, True)
    assert tup(z) == want and z.dtype == render(want)
    def resized():
        y = Fxp(0.5, True, 9, 3); y.resize(dtype=z.dtype); y(0.0); return y
    class T(Fxp): template = z
    routes = {
        'Fxp(0.0, dtype=z.dtype)':          lambda: Fxp(0.0, dtype=z.dtype),
        'Fxp([0.0, 0.0], dtype=z.dtype)':   lambda: Fxp([0.0, 0.0], dtype=z.dtype),
        'resize(dtype=z.dtype); y(0.0)':    resized,
        'Fxp(0.0, like=z)':                 lambda: Fxp(0.0, like=z),
        'fxp_like(z, 0.0)':                 lambda: F.fxp_like(z, 0.0),
        'template(0.0)':                    lambda: T(0.0),
    }
    for tag, fn in routes.items():
        y = fn()
        problems = []
        if tup(y) != want: problems.append('format %r != %r' % (tup(y), want))
        if y.dtype != render(tup(y)): problems.append('dtype attr %r but object is %r (get_dtype() -> %r)' % (y.dtype, tup(y), y.get_dtype()))
        if problems: fails.append('%s  z.dtype=%s: %s' % (tag, z.dtype, '; '.join(problems)))
if fails:
    print('VIOLATION (complex suffix not honoured / stale when a real value is stored):')
    print('\n'.join(fails)); sys.exit(1)
print('ok'); sys.exit(0)
