# C12 counterexample: a raw write that turns a real object complex (set_val(raw=True, vdtype=complex), or an
# item assignment of a complex value) leaves a dtype string WITHOUT '-complex' on an object whose vdtype is complex.
import sys, warnings
import numpy as np
from fxpmath import Fxp
warnings.simplefilter('ignore')
fails = []
for (s, w, f) in [(True, 16, 4), (False, 12, -3), (True, 8, 12)]:
    x = Fxp([0.0, 0.0], s, w, f)
    x.set_val(x.val, raw=True, vdtype=complex)
    want = 'fxp-%s%d/%d-complex' % ('s' if s else 'u', w, f)
    if x.vdtype == complex and x.dtype != want:
        fails.append('raw write vdtype=complex: x.vdtype=%r x()=%r  x.dtype=%r expected %r (x.get_dtype() -> %r)' % (x.vdtype, x(), x.dtype, want, x.get_dtype()))
    x = Fxp([0.0, 0.0], s, w, f)
    x[0] = 0j
    if x.vdtype == complex and x.dtype != want:
        fails.append('x[0] = 0j: x.vdtype=%r x()=%r  x.dtype=%r expected %r (x.get_dtype() -> %r)' % (x.vdtype, x(), x.dtype, want, x.get_dtype()))
if fails:
    print('VIOLATION (stale dtype string after the object became complex):')
    print('\n'.join(fails)); sys.exit(1)
print('ok'); sys.exit(0)
