# C12 counterexample: fxp_sum(x, dtype=x.dtype) (utils.get_sizes_from_dtype) cannot read the dtype string
# of an object whose configured default notation is 'Q': ValueError for every format.
import sys, warnings
from fxpmath import Fxp
from fxpmath import functions as F
warnings.simplefilter('ignore')
fails = []
for (s, w, f) in [(True, 16, 4), (False, 16, 4), (True, 16, -2), (False, 8, 12), (True, 64, 70), (False, 200, 0)]:
    if w - f < 0: continue           # Q parsing is only claimed for m = n_word - n_frac >= 0
    x = Fxp([0, 0], s, w, f, dtype_notation='Q')
    expected_str = '%s%d.%d' % ('Q' if s else 'UQ', w - f, f)
    assert x.dtype == expected_str, x.dtype
    assert Fxp(None, dtype=x.dtype).n_word == w      # the Fxp(dtype=) route reads it
    try:
        y = F.fxp_sum(x, dtype=x.dtype)
        if (bool(y.signed), y.n_word, y.n_frac) != (s, w, f):
            fails.append('%s -> %r' % (x.dtype, (y.signed, y.n_word, y.n_frac)))
    except Exception as e:
        fails.append('fxp_sum(x, dtype=%r) raised %s: %s   (expected a result with format %r)' % (x.dtype, type(e).__name__, e, (s, w, f)))
if fails:
    print('VIOLATION (Q-notation dtype strings are not understood on the fxp_sum(dtype=) route):')
    print('\n'.join(fails)); sys.exit(1)
print('ok'); sys.exit(0)
