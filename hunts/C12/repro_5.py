# C12 counterexample: fxp_sum(x, dtype=z.dtype) drops the complex suffix of z.dtype (n_word<=52):
# the result is a real object with dtype 'fxp-s16/4' although it was asked for 'fxp-s16/4-complex'.
import sys, warnings
import numpy as np
from fxpmath import Fxp
from fxpmath import functions as F
warnings.simplefilter('ignore')
def is_complex(o):
    return o.vdtype == complex or np.asarray(o.val).dtype.kind == 'c' or isinstance(o(), (complex, np.complexfloating))
fails = []
x = Fxp([1.5, 2.25], True, 16, 4)
for (s, w, f) in [(True, 16, 4), (False, 12, -3), (True, 8, 12), (False, 52, 60)]:
    z = Fxp(0j, s, w, f)
    ref = Fxp(None, dtype=z.dtype)                 # what the Fxp(dtype=) route gives: complex
    assert is_complex(ref)
    y = F.fxp_sum(Fxp([0, 0], True, 8, 0), dtype=z.dtype)
    got = (bool(y.signed), y.n_word, y.n_frac, bool(is_complex(y)))
    if got != (s, w, f, True):
        fails.append('fxp_sum(real, dtype=%r) -> format %r, dtype %r; expected %r' % (z.dtype, got, y.dtype, (s, w, f, True)))
if fails:
    print('VIOLATION (complex suffix ignored by utils.get_sizes_from_dtype / fxp_sum):')
    print('\n'.join(fails)); sys.exit(1)
print('ok'); sys.exit(0)
