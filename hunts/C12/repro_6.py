# C12 counterexample (borderline, see REPORT): parsing is case-insensitive on Fxp(dtype=)/resize(dtype=),
# but the fxp_sum(dtype=) route (utils.get_sizes_from_dtype) rejects the same string in upper/mixed case.
import sys, warnings
from fxpmath import Fxp
from fxpmath import functions as F
warnings.simplefilter('ignore')
fails = []
x = Fxp([0, 0], True, 8, 0)
for st in ['FXP-S16/4', 'Fxp-s16/4', 'fxp-S16/4', 'fxp-U12/-3', 'FXP-U8/12']:
    a = Fxp(None, dtype=st)
    want = (bool(a.signed), a.n_word, a.n_frac)
    assert want == (st[4] in 'sS', int(st[5:].split('/')[0]), int(st.split('/')[1]))
    try:
        y = F.fxp_sum(x, dtype=st)
        got = (bool(y.signed), y.n_word, y.n_frac)
        if got != want: fails.append('%r -> %r expected %r' % (st, got, want))
    except Exception as e:
        fails.append('fxp_sum(x, dtype=%r) raised %s: %s  (Fxp(dtype=%r) gives %r)' % (st, type(e).__name__, e, st, want))
if fails:
    print('VIOLATION (case-sensitive parsing on the fxp_sum route):')
    print('\n'.join(fails)); sys.exit(1)
print('ok'); sys.exit(0)
