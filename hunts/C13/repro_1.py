"""C13 counterexample 1: ~x, x&m, x|m, x^m raise OverflowError for an array-valued SIGNED 63-bit x
(n_word=63 is in the quantifier; scalars of the same format work)."""
import sys, operator
import numpy as np
from fxpmath import Fxp

n = 63
def tosigned(p):
    p %= (1 << n)
    return p - (1 << n) if p >= (1 << (n - 1)) else p

codes = [1, -2, (1 << 62) - 1, -(1 << 62)]
x = Fxp(None, True, n, 0); x.set_val(np.array(codes), raw=True)
y = Fxp(None, False, n, 0); y.set_val(0x0F, raw=True)
assert [int(v) for v in x.val] == codes
fails = []
tests = {
    '~x':     (lambda: ~x,      [tosigned(~(c % (1 << n))) for c in codes]),
    'x & 3':  (lambda: x & 3,   [tosigned((c % (1 << n)) & 3) for c in codes]),
    'x | 3':  (lambda: x | 3,   [tosigned((c % (1 << n)) | 3) for c in codes]),
    'x ^ -1': (lambda: x ^ -1,  [tosigned((c % (1 << n)) ^ ((1 << n) - 1)) for c in codes]),
    '3 & x':  (lambda: 3 & x,   [tosigned((c % (1 << n)) & 3) for c in codes]),
    'x & y':  (lambda: x & y,   [tosigned((c % (1 << n)) & 0x0F) for c in codes]),
}
for name, (fn, exp) in tests.items():
    try:
        r = fn()
        got = [int(v) for v in r.val]
        if got != exp or r.dtype != x.dtype:
            fails.append(f"{name}: got {r.dtype} {got}, expected {x.dtype} {exp}")
    except Exception as e:
        fails.append(f"{name}: raised {type(e).__name__}: {e}; expected {x.dtype} {exp}")
    # the same codes one by one (scalar x) are fine: shows that only the array route is broken
for line in fails: print(line)
if fails:
    sys.exit(1)
sys.exit(0)
