"""C13 counterexample 2: a NumPy integer mask on the LEFT side (np.int64(m) & x, | x, ^ x)
does not act on x's n_word-bit word: result has another format / another bit pattern, or TypeError."""
import sys, operator
import numpy as np
from fxpmath import Fxp

def tosigned(p, n, signed):
    p %= (1 << n)
    return p - (1 << n) if signed and p >= (1 << (n - 1)) else p

OPS = {'&': operator.and_, '|': operator.or_, '^': operator.xor}
fails = []
# (signed, n_word, n_frac, code, mask)
CASES = [(True, 6, 0, 5, 32), (True, 6, 0, 5, 3), (False, 6, 0, 5, 3), (True, 6, 2, 5, 3), (True, 1, 0, -1, 1)]
for signed, n, f, code, m in CASES:
    for sym, op in OPS.items():
        for mk in (np.int64, np.uint8, np.array):
            x = Fxp(None, signed, n, f); x.set_val(code, raw=True)
            exp = tosigned(op(m % (1 << n), code % (1 << n)), n, signed)
            ref = op(m, x)                       # python int on the left: reference route (x.__rand__ ...)
            assert int(ref.val) == exp and ref.dtype == x.dtype
            try:
                r = op(mk(m), x)
                got = (r.dtype, int(r.val))
            except Exception as e:
                got = ('EXC', type(e).__name__)
            if got != (x.dtype, exp):
                fails.append(f"{mk.__name__}({m}) {sym} Fxp(raw={code}, {x.dtype}): got {got}, expected {(x.dtype, exp)}")
for line in fails[:12]:
    print(line)
if fails:
    print(f"{len(fails)} discrepancies (NumPy integer mask on the left side)")
    sys.exit(1)
sys.exit(0)
