"""C13 counterexample 3: x & y, x | y, x ^ y with an array-valued fixed-point RIGHT operand y
(same word length) raise TypeError instead of returning the element-wise bit pattern."""
import sys, operator
import numpy as np
from fxpmath import Fxp

n = 6
def tosigned(p, signed):
    p %= (1 << n)
    return p - (1 << n) if signed and p >= (1 << (n - 1)) else p
OPS = {'&': operator.and_, '|': operator.or_, '^': operator.xor}
xc = [-32, -1, 5]; yc = [63, 32, 3]
xa = Fxp(None, True, n, 2);  xa.set_val(np.array(xc), raw=True)      # signed array
ya = Fxp(None, False, n, 0); ya.set_val(np.array(yc), raw=True)      # unsigned array, same n_word
xs = Fxp(None, True, n, 2);  xs.set_val(-7, raw=True)                # signed scalar
fails = []
for sym, op in OPS.items():
    for name, a, ac, signed in (('array x', xa, xc, True), ('scalar x', xs, [-7] * 3, True)):
        exp = [tosigned(op(p % (1 << n), q % (1 << n)), signed) for p, q in zip(ac, yc)]
        try:
            r = op(a, ya)
            got = [int(v) for v in np.ravel(r.val)]
            if got != exp or r.dtype != a.dtype:
                fails.append(f"{name} {sym} array y: got {r.dtype} {got}, expected {a.dtype} {exp}")
        except Exception as e:
            fails.append(f"{name} {sym} array y: raised {type(e).__name__}: {e}; expected {a.dtype} {exp}")
    # control: array x with a scalar y works
    ys = Fxp(None, False, n, 0); ys.set_val(3, raw=True)
    r = op(xa, ys)
    assert [int(v) for v in r.val] == [tosigned(op(p % (1 << n), 3), True) for p in xc]
for line in fails: print(line)
sys.exit(1 if fails else 0)
