"""C14 / expand mode: a shift count that is a NumPy integer (np.int64, np.int32, np.uint8, an element of
np.arange, a 0-d integer array) makes x<<n and x>>n raise TypeError as soon as the word / the fraction has to grow.
Expected: x<<n == x*2^n and x>>n == x/2^n exactly (oracle: fractions.Fraction on the raw codes)."""
import sys
from fractions import Fraction
import numpy as np
from fxpmath import Fxp

bad = []
for signed in (True, False):
    for n_word, n_frac in ((6, 0), (6, 3), (16, 8)):
        hi = (1 << (n_word - 1)) - 1 if signed else (1 << n_word) - 1
        for code in (1, 3, hi):
            x = Fxp(code, signed=signed, n_word=n_word, n_frac=n_frac, raw=True)     # shifting='expand' is the default
            assert x.config.shifting == 'expand' and int(x.val) == code
            xv = Fraction(code, 1 << n_frac)
            for count in list(np.arange(0, n_word + 4)) + [np.int32(2), np.uint8(2), np.array(2)]:
                n = int(count)
                for op, exp in (('<<', xv * 2**n), ('>>', xv / 2**n)):
                    try:
                        y = (x << count) if op == '<<' else (x >> count)
                        got = Fraction(int(y.val), 1) / Fraction(2) ** int(y.n_frac)
                    except Exception as e:
                        got = '%s: %s' % (type(e).__name__, e)
                    # same shift with a Python int, for reference
                    r = (x << n) if op == '<<' else (x >> n)
                    ref = Fraction(int(r.val), 1) / Fraction(2) ** int(r.n_frac)
                    assert ref == exp
                    if got != exp:
                        bad.append((signed, n_word, n_frac, code, op, type(count).__name__, n, got, exp))
if bad:
    print('C14 violated: expand-mode shift with a NumPy integer count fails in %d cases (the same count as a Python int is exact), e.g.' % len(bad))
    for b in bad[:6]:
        print('  signed=%s n_word=%s n_frac=%s code=%s  x %s %s(%s): got %r, expected %s' % b)
    sys.exit(1)
print('ok')
sys.exit(0)
