"""C14 / trunc and keep modes: x<<n returns an object that has lost the operand's configuration
(config.shifting is back to the default 'expand', config.overflow back to 'saturate'), whereas x>>n keeps it.
Consequences inside the property:
  * 'Shifting by zero is the identity' fails: y = x << 0 does not behave like x ((x<<0)<<n != x<<n, and the format grows);
  * 'In trunc/keep mode the format is unchanged' fails for any sequence that contains a left shift
    (y = x; y <<= 1; y >>= 3 ends with another n_word/n_frac than x, while x >>= 3; x <<= 1 does not)."""
import sys
from fxpmath import Fxp

bad = []
for mode in ('trunc', 'keep'):
    for signed in (True, False):
        for n_word, n_frac in ((6, 0), (6, 3), (8, 4), (16, 8)):
            fmt = (signed, n_word, n_frac)
            x = Fxp(5, signed=signed, n_word=n_word, n_frac=n_frac, raw=True, shifting=mode)
            f = lambda y: (bool(y.signed), int(y.n_word), int(y.n_frac))

            # 1. identity: x<<0 must be indistinguishable from x for a further shift
            ident = x << 0
            n = n_word - 2                      # 5 * 2^n overflows the word: x<<n is clamped/wrapped INTO the format
            direct, via_ident = x << n, ident << n
            lo = -(1 << (n_word - 1)) if signed else 0
            hi = (1 << (n_word - 1)) - 1 if signed else (1 << n_word) - 1
            assert f(direct) == fmt and lo <= int(direct.val) <= hi
            if f(via_ident) != fmt or int(via_ident.val) != int(direct.val):
                bad.append('%s %s: (x<<0)<<%d gives code %d in %s but x<<%d gives code %d in %s   [(x<<0).config.shifting=%r]'
                           % (mode, x.dtype, n, int(via_ident.val), via_ident.dtype, n, int(direct.val), direct.dtype, ident.config.shifting))

            # 2. format unchanged along a sequence of shifts (in-place operators on a variable in trunc/keep mode)
            y = x
            y <<= 1
            y >>= 3
            exp_code = (min(hi, 5 << 1)) >> 3          # 10 fits in every format used here
            if f(y) != fmt or int(y.val) != exp_code:
                bad.append('%s %s: y<<=1; y>>=3 ends as %s code %d (expected %s code %d)' % (mode, x.dtype, y.dtype, int(y.val), x.dtype, exp_code))
            if int(x.val) != 5 or f(x) != fmt or x.config.shifting != mode:
                bad.append('operand modified')

if bad:
    print('C14 violated: the result of a trunc/keep-mode left shift silently switches to expand mode (%d discrepancies), e.g.' % len(bad))
    for b in bad[:6]: print('  ' + b)
    sys.exit(1)
print('ok')
sys.exit(0)
