"""C14 / trunc and keep modes: the documented value attribute `.real` of x>>n still holds the UNSHIFTED value of x
(the raw word is overwritten on a deep copy without refreshing it), so (x>>n).real != floor(code/2^n)/2^n_frac.
x<<n and the expand-mode shifts (which go through set_val) do refresh it."""
import sys
from fractions import Fraction
import numpy as np
from fxpmath import Fxp

bad = []
for mode in ('trunc', 'keep', 'expand'):
    for signed in (True, False):
        for n_word, n_frac in ((6, 0), (6, 3), (16, 8)):
            codes = [12, 7, 1] + ([-7, -(1 << (n_word - 1))] if signed else [(1 << n_word) - 1])
            x = Fxp(codes, signed=signed, n_word=n_word, n_frac=n_frac, raw=True, shifting=mode)
            assert [Fraction(float(v)) for v in x.real] == [Fraction(c, 1 << n_frac) for c in codes]   # .real is the value
            for n in range(0, n_word + 4):
                y = x >> n
                if mode == 'expand':
                    exp = [Fraction(c, 1 << n_frac) / 2**n for c in codes]
                else:
                    exp = [Fraction(c >> n, 1 << n_frac) for c in codes]
                got = [Fraction(float(v)) for v in np.asarray(y.real).ravel()]
                val = [Fraction(int(c), 1) / Fraction(2) ** int(y.n_frac) for c in y.val]
                assert val == exp                       # the raw word itself is right
                if got != exp:
                    bad.append((mode, x.dtype, codes, n, [str(g) for g in got], [str(e) for e in exp]))
if bad:
    print('C14 violated through the .real attribute: %d cases, e.g.' % len(bad))
    for b in bad[:5]:
        print('  %s %s codes=%s >> %d: .real = %s, expected %s' % b)
    sys.exit(1)
print('ok')
sys.exit(0)
