"""C15 counterexample 1: np.transpose(x, axes=...) / x.transpose(axes=...) ignores `axes`.
The identity permutation (0, 1) must return the array unchanged; fxpmath returns the transposed array."""
import sys
import numpy as np
from fractions import Fraction as F
from fxpmath import Fxp

codes = [[1, 2, 3], [4, 5, 6]]                      # raw codes, format s8/2 -> values code/4
x = Fxp(np.array(codes), signed=True, n_word=8, n_frac=2, raw=True)
expected = [[F(c, 4) for c in row] for row in codes]  # transpose with axes=(0,1) is the identity
bad = 0
for name, fn in (('np.transpose(x, axes=(0,1))', lambda: np.transpose(x, axes=(0, 1))),
                 ('x.transpose(axes=(0,1))', lambda: x.transpose(axes=(0, 1))),
                 ('np.transpose(x, (-2,-1))', lambda: np.transpose(x, (-2, -1)))):
    z = fn()
    got = [[F(int(r), 2**z.n_frac) for r in row] for row in np.asarray(z.val).tolist()]
    if got != expected:
        bad = 1
        print('VIOLATION %s: got shape %s values %s, expected shape (2, 3) values %s'
              % (name, np.asarray(z.val).shape, [[str(v) for v in r] for r in got], [[str(v) for v in r] for r in expected]))
sys.exit(bad)
