"""C15 borderline 10 (non-default configuration array_op_method='raw'): np.matmul returns the raw integer products as
values (scaled by 2**(n_frac_x+n_frac_y)); np.dot under the same configuration is exact."""
import sys
import numpy as np
from fractions import Fraction as F
from fxpmath import Fxp

x = Fxp(np.array([[8, 12], [-4, 20]]), True, 8, 2, raw=True, array_op_method='raw')    # values code/4
y = Fxp(np.array([[4, 4], [8, -8]]), True, 8, 2, raw=True, array_op_method='raw')
xv = [[F(8, 4), F(12, 4)], [F(-4, 4), F(20, 4)]]; yv = [[F(1), F(1)], [F(2), F(-2)]]
exp = [[sum(xv[i][k] * yv[k][j] for k in range(2)) for j in range(2)] for i in range(2)]
bad = 0
for name, fn in (('np.dot', np.dot), ('np.matmul', np.matmul)):
    z = fn(x, y)
    sc = F(1, 2**z.n_frac) if z.n_frac >= 0 else F(2**-z.n_frac)
    got = [[F(int(r)) * sc for r in row] for row in np.asarray(z.val).tolist()]
    if got != exp:
        bad = 1; print('VIOLATION %s(x, y) = %s in %s, expected %s' % (name, [[str(v) for v in r] for r in got], z.dtype, [[str(v) for v in r] for r in exp]))
sys.exit(bad)
