"""C15 counterexample 2: clip() scales ndarray bounds IN PLACE (val_min *= 2**n_frac), so the caller's
bound arrays are corrupted and the second identical call returns wrong values."""
import sys
import numpy as np
from fractions import Fraction as F
from fxpmath import Fxp

codes = [-128, -20, 0, 20, 127]                     # s8/4 -> values code/16
x = Fxp(np.array(codes), signed=True, n_word=8, n_frac=4, raw=True)
lo = np.array([-1.0] * 5); hi = np.array([1.0] * 5)
expected = [min(max(F(c, 16), F(-1)), F(1)) for c in codes]
bad = 0
for call in (1, 2):
    z = np.clip(x, lo, hi)
    got = [F(int(r), 2**z.n_frac) for r in np.asarray(z.val).tolist()]
    if got != expected:
        bad = 1
        print('VIOLATION call #%d: np.clip(x, lo, hi) = %s, expected %s (lo is now %s, hi is now %s)'
              % (call, [str(v) for v in got], [str(v) for v in expected], lo.tolist(), hi.tolist()))
if lo.tolist() != [-1.0] * 5 or hi.tolist() != [1.0] * 5:
    print('caller bounds were mutated: lo=%s hi=%s' % (lo.tolist(), hi.tolist()))
sys.exit(bad)
