"""C15 counterexample 3: clip() with fixed-point (Fxp) bounds returns wrong values when n_frac > 0:
the bound is multiplied by 2**n_frac as an Fxp (saturating in the bound's own format) and then read back as a float."""
import sys
import numpy as np
from fractions import Fraction as F
from fxpmath import Fxp

codes = [-128, -20, 0, 20, 127]                     # s8/4 -> values code/16
x = Fxp(np.array(codes), signed=True, n_word=8, n_frac=4, raw=True)
expected = [min(max(F(c, 16), F(-1)), F(1)) for c in codes]
bad = 0
for name, fn in (('np.clip(x, Fxp(-1), Fxp(1))', lambda lo, hi: np.clip(x, lo, hi)),
                 ('x.clip(Fxp(-1), Fxp(1))', lambda lo, hi: x.clip(lo, hi))):
    lo = Fxp(-1.0, True, 8, 4); hi = Fxp(1.0, True, 8, 4)      # same format as x, exactly representable
    z = fn(lo, hi)
    got = [F(int(r), 2**z.n_frac) for r in np.asarray(z.val).tolist()]
    if got != expected:
        bad = 1
        print('VIOLATION %s = %s, expected %s' % (name, [str(v) for v in got], [str(v) for v in expected]))
sys.exit(bad)
