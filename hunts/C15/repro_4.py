"""C15 counterexample 4: clip() raises for valid bound arguments:
 (a) only one bound (a_min=None or a_max=None, the defaults of Fxp.clip),
 (b) list / tuple bounds (list *= 2**n_frac repeats the list instead of scaling it)."""
import sys
import numpy as np
from fractions import Fraction as F
from fxpmath import Fxp

codes = [-128, -20, 0, 20, 127]                     # s8/4 -> values code/16
x = Fxp(np.array(codes), signed=True, n_word=8, n_frac=4, raw=True)
v = [F(c, 16) for c in codes]
cases = [
    ('np.clip(x, -1.0, None)', lambda: np.clip(x, -1.0, None), [max(q, F(-1)) for q in v]),
    ('np.clip(x, None, 1.0)',  lambda: np.clip(x, None, 1.0),  [min(q, F(1)) for q in v]),
    ('x.clip(a_min=-1.0)',     lambda: x.clip(a_min=-1.0),     [max(q, F(-1)) for q in v]),
    ('x.clip(a_max=1.0)',      lambda: x.clip(a_max=1.0),      [min(q, F(1)) for q in v]),
    ('np.clip(x, [-1.0]*5, [1.0]*5)', lambda: np.clip(x, [-1.0]*5, [1.0]*5), [min(max(q, F(-1)), F(1)) for q in v]),
    ('x.clip((-1.0,)*5, (1.0,)*5)',   lambda: x.clip((-1.0,)*5, (1.0,)*5),   [min(max(q, F(-1)), F(1)) for q in v]),
]
bad = 0
for name, fn, expected in cases:
    try:
        z = fn()
        got = [F(int(r), 2**z.n_frac) for r in np.asarray(z.val).tolist()]
        if got != expected:
            bad = 1; print('VIOLATION %s = %s, expected %s' % (name, [str(g) for g in got], [str(e) for e in expected]))
    except Exception as e:
        bad = 1; print('VIOLATION %s raised %s: %s (expected %s)' % (name, type(e).__name__, str(e)[:90], [str(e_) for e_ in expected]))
sys.exit(bad)
