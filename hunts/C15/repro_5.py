"""C15 counterexample 5: cumprod() with optimal sizing overflows (saturates) when the operand format has a negative
integer length (n_frac > n_word - sign): the result format has n_int' = size*n_int + (size-1)*sign < n_int, so the
first partial products (which are as large as the elements themselves) do not fit."""
import sys
import numpy as np
from fractions import Fraction as F
from fxpmath import Fxp

bad = 0
def check(name, z, expected):
    global bad
    got = [F(int(r), 2**z.n_frac) for r in np.asarray(z.val).ravel().tolist()]
    if got != expected:
        bad = 1
        print('VIOLATION %s -> %s %s, expected %s' % (name, z.dtype, [str(g) for g in got], [str(e) for e in expected]))

# s8/9: n_int = -2, values code/512 in [-0.25, 0.25)
codes = [127, 127]                                   # both elements at the positive extreme
x = Fxp(np.array(codes), signed=True, n_word=8, n_frac=9, raw=True)
exp = [F(127, 512), F(127, 512) * F(127, 512)]
check('np.cumprod(s8/9 [max,max])', np.cumprod(x), exp)
check('x.cumprod()  (s8/9 [max,max])', x.cumprod(), exp)
# most negative codes
x = Fxp(np.array([-128, -128]), signed=True, n_word=8, n_frac=9, raw=True)
check('np.cumprod(s8/9 [min,min])', np.cumprod(x), [F(-128, 512), F(128 * 128, 512 * 512)])
# unsigned u2/3 (n_int = -1), along an axis of length 1: nothing is multiplied at all, still saturated
x = Fxp(np.array([[3], [3]]), signed=False, n_word=2, n_frac=3, raw=True)
check('np.cumprod(u2/3 [[3/8],[3/8]], axis=1)', np.cumprod(x, axis=1), [F(3, 8), F(3, 8)])
sys.exit(bad)
