"""C15 counterexample 6: cumprod() raises for any operand format with a negative fraction length
(2**pow_val with a negative numpy integer exponent), while prod() on the same array is exact."""
import sys
import numpy as np
from fractions import Fraction as F
from fxpmath import Fxp

x = Fxp(np.array([1, 2, 7]), signed=False, n_word=3, n_frac=-4, raw=True)     # u3/-4: values 16, 32, 112
expected = [F(16), F(16 * 32), F(16 * 32 * 112)]
bad = 0
for name, fn in (('np.cumprod(x)', lambda: np.cumprod(x)), ('x.cumprod()', lambda: x.cumprod())):
    try:
        z = fn()
        got = [F(int(r)) * (F(1, 2**z.n_frac) if z.n_frac >= 0 else F(2**-z.n_frac)) for r in np.asarray(z.val).tolist()]
        if got != expected:
            bad = 1; print('VIOLATION %s = %s, expected %s' % (name, [str(g) for g in got], [str(e) for e in expected]))
    except Exception as e:
        bad = 1; print('VIOLATION %s raised %s: %s (expected %s)' % (name, type(e).__name__, e, [str(e_) for e_ in expected]))
sys.exit(bad)
