"""C15 counterexample 7: prod() raises for a tuple axis (valid for np.prod / ndarray.prod; sum, max, min accept it)."""
import sys
import numpy as np
from fractions import Fraction as F
from fxpmath import Fxp

codes = [[-8, 7], [7, -8]]                            # s4/2 -> values code/4
x = Fxp(np.array(codes), signed=True, n_word=4, n_frac=2, raw=True)
expected = F(-8, 4) * F(7, 4) * F(7, 4) * F(-8, 4)     # = 49
bad = 0
for name, fn in (('np.prod(x, axis=(0,1))', lambda: np.prod(x, axis=(0, 1))), ('x.prod(axis=(0,1))', lambda: x.prod(axis=(0, 1))),
                 ('np.prod(x, axis=(0,))', lambda: np.prod(x, axis=(0,)))):
    try:
        z = fn()
        got = [F(int(r), 2**z.n_frac) for r in np.asarray(z.val).ravel().tolist()]
        exp = [expected] if '(0,1)' in name else [F(-8, 4) * F(7, 4)] * 2
        if got != exp:
            bad = 1; print('VIOLATION %s = %s, expected %s' % (name, got, exp))
    except Exception as e:
        bad = 1; print('VIOLATION %s raised %s: %s' % (name, type(e).__name__, e))
# the same call is fine for sum
assert F(int(np.sum(x, axis=(0, 1)).val), 4) == F(-2, 4)
sys.exit(bad)
