"""C15 counterexample 8 (oversized fraction lengths): np.matmul is not exact when n_frac(x)+n_frac(y) >= 54 (negative
results) or >= 64 (any result), although the result needs < 53 bits; np.dot on the same operands is exact."""
import sys
import numpy as np
from fractions import Fraction as F
from fxpmath import Fxp

bad = 0
def val(z):
    sc = F(1, 2**z.n_frac) if z.n_frac >= 0 else F(2**-z.n_frac)
    return F(int(np.asarray(z.val).item())) * sc
# (a) s2/18 . s12/36  -> n_frac sum 54, negative result
x = Fxp(np.array([-1, -2]), True, 2, 18, raw=True); y = Fxp(np.array([2047, 439]), True, 12, 36, raw=True)
exp = (F(-1) * 2047 + F(-2) * 439) / 2**54
# (b) u1/32 . u1/32 -> 2**-64
x2 = Fxp(np.array([1]), False, 1, 32, raw=True); exp2 = F(1, 2**64)
for name, a, b, e in (('s2/18 @ s12/36', x, y, exp), ('u1/32 @ u1/32', x2, x2, exp2)):
    d = val(np.dot(a, b)); m = val(np.matmul(a, b))
    if d != e:
        bad = 1; print('VIOLATION np.dot(%s) = %s, expected %s' % (name, d, e))
    if m != e:
        bad = 1; print('VIOLATION np.matmul(%s) = %s (%s), expected %s  [np.dot gives %s]' % (name, m, np.matmul(a, b).dtype, e, d))
sys.exit(bad)
