"""C15 borderline 9 (complex arrays): dot / prod of complex fixed-point arrays overflow by one LSB with optimal sizing
when every component is at the most negative code (the complex cross terms add up to 2 * 2**(2*(n_word-1)))."""
import sys
import numpy as np
from fractions import Fraction as F
from fxpmath import Fxp

x = Fxp(np.array([-8 - 8j, -8 - 8j]), True, 8, 4)      # s8/4-complex, both components at the most negative code
bad = 0
z = np.dot(x, x)          # 2 * (-8-8j)**2 = 2 * 128j = 256j
got = (F(int(z.val.real), 2**z.n_frac), F(int(z.val.imag), 2**z.n_frac))
if got != (F(0), F(256)):
    bad = 1; print('VIOLATION np.dot(x, x) = %s+%sj in %s, expected 0+256j' % (got[0], got[1], z.dtype))
z = np.prod(x)            # (-8-8j)**2 = 128j
got = (F(int(z.val.real), 2**z.n_frac), F(int(z.val.imag), 2**z.n_frac))
if got != (F(0), F(128)):
    bad = 1; print('VIOLATION np.prod(x) = %s+%sj in %s, expected 0+128j' % (got[0], got[1], z.dtype))
sys.exit(bad)
