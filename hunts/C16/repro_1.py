"""C16 counterexample 1: Fxp compared with a plain integer that is not a double (|k| > 2**53).
The stored value of s24/-31 code 2**22+1 is (2**22+1)*2**31 = 9007201402224640 (an exact double).
k = 9007201402224641 is a different integer, so  x == k  must be False, x != k True, x < k True, x >= k False."""
import sys, operator
from fractions import Fraction
import numpy as np
from fxpmath import Fxp

fails = []
def check(x, k, label):
    codes = [int(c) for c in np.asarray(x.val).ravel()]
    vals = [Fraction(c) * Fraction(2) ** (-x.n_frac) for c in codes]     # exact stored values
    for opn in ('lt', 'le', 'eq', 'ne', 'gt', 'ge'):
        op = getattr(operator, opn)
        got = [bool(b) for b in np.asarray(op(x, k)).ravel()]
        want = [op(v, Fraction(int(k))) for v in vals]
        if got != want:
            fails.append('%s: x(%s, codes %s, values %s) %s %r -> %s, exact arithmetic says %s' % (label, x.dtype, codes, [int(v) for v in vals], opn, k, got, want))

x = Fxp(2**22 + 1, True, 24, -31, raw=True)
check(x, 9007201402224641, 'python int, scalar')
check(x, 9007201402224639, 'python int, scalar')
check(x, np.int64(9007201402224641), 'np.int64, scalar')
check(Fxp([2**23 + 1, 5], False, 24, -30, raw=True), (2**23 + 1) * 2**30 + 1, 'python int, array u24/-30')
check(Fxp(3.0 * 2**60, True, 8, -60), 3 * 2**60 + 1, 'python int, s8/-60 built from a float')

if fails:
    print('VIOLATION (C16, comparison against a plain number):')
    for f in fails: print('  ' + f)
    sys.exit(1)
print('ok')
sys.exit(0)
