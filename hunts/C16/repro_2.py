"""C16 counterexample 2: comparison operator with a NumPy scalar on the left of a Fxp.
  np.float64(2.0) > Fxp(1.5)   must be True (2.0 > 1.5), etc.
Default config: every one of the six operators raises OverflowError.
Config(array_output_type='array', array_op_method='raw'): silently compares with the raw code (24) -> wrong truth value."""
import sys, operator
import numpy as np
from fxpmath import Fxp

fails = []
for kw in ({}, {'array_output_type': 'array', 'array_op_method': 'raw'}):
    x = Fxp(1.5, True, 8, 4, **kw)           # code 24, stored value 24/16 = 1.5
    assert int(x.val) == 24 and x.n_frac == 4
    for lhs in (np.float64(2.0), np.int64(2), np.float32(2.0)):
        for opn in ('lt', 'le', 'eq', 'ne', 'gt', 'ge'):
            op = getattr(operator, opn)
            want = op(2.0, 1.5)
            try:
                got = op(lhs, x)
                if bool(got) != want:
                    fails.append('config %s: %r %s Fxp(1.5) -> %r, exact: %s' % (kw, lhs, opn, got, want))
            except Exception as e:
                fails.append('config %s: %r %s Fxp(1.5) raised %s: %s (exact: %s)' % (kw, lhs, opn, type(e).__name__, e, want))
    # sanity: the same relation with the Fxp on the left / a python float on the left is right
    assert bool(x < np.float64(2.0)) and bool(2.0 > x)

if fails:
    print('VIOLATION (C16, comparison of a Fxp against a plain number, number on the left):')
    for f in fails[:12]: print('  ' + f)
    print('  ... %d failing (operand, operator, config) combinations in total' % len(fails))
    sys.exit(1)
print('ok')
sys.exit(0)
