"""C16 counterexample 3: float()/int() of a one-element (non 0-d) Fxp.
Fxp.__float__/__int__ accept any object with size == 1 (they only reject size > 1), but raise TypeError
for shapes (1,), (1,1), ... instead of returning code*2**-n_frac / its floor."""
import sys, math
from fractions import Fraction
import numpy as np
from fxpmath import Fxp

fails = []
for mk, label in ((lambda: Fxp([-3], True, 8, 1, raw=True), 'Fxp([-3] raw, s8/1)'),
                  (lambda: Fxp([[5]], False, 4, 2, raw=True), 'Fxp([[5]] raw, u4/2)'),
                  (lambda: Fxp([-3, 7], True, 8, 1, raw=True)[:1], 'slice [:1] of an array')):
    x = mk()
    code = int(np.asarray(x.val).ravel()[0]); v = Fraction(code) / Fraction(2) ** x.n_frac
    for f, want in ((float, float(v)), (int, math.floor(v))):
        try:
            got = f(x)
            if got != want: fails.append('%s: %s() -> %r, expected %r' % (label, f.__name__, got, want))
        except Exception as e:
            fails.append('%s (size %d, shape %s): %s() raised %s: %s; expected %r' % (label, x.size, x.shape, f.__name__, type(e).__name__, e, want))
if fails:
    print('VIOLATION (C16, float()/int()):')
    for f in fails: print('  ' + f)
    sys.exit(1)
print('ok')
sys.exit(0)
