# C17 counterexample 1: a signed narrow NumPy integer value (int8/int16/int32 array, 0-d array, scalar,
# list of such scalars): the bias is subtracted in the narrow dtype -> silent wrap-around (or OverflowError
# when the python-int bias itself does not fit the dtype) instead of quantizing the exact (v-b)/s.
import sys, warnings
import numpy as np
# --- exact-arithmetic oracle (python ints / fractions only)
from fractions import Fraction as F
import math

def _rnd(y, method):
    fl = math.floor(y)
    if method == 'floor': return fl
    if method == 'ceil': return math.ceil(y)
    if method in ('fix', 'trunc'): return math.trunc(y)
    r = y - fl                                  # 'around': ties to even (np.around)
    if r != F(1, 2): return fl + (1 if r > F(1, 2) else 0)
    return fl if fl % 2 == 0 else fl + 1

def quant(t, signed, n_word, n_frac, rounding='trunc', overflow='saturate'):
    """C01 quantization of the exact value t -> (code, overflow, underflow, inaccuracy)"""
    y = F(t) * F(2) ** n_frac
    r = _rnd(y, rounding)
    lo, hi = (-(1 << (n_word - 1)), (1 << (n_word - 1)) - 1) if signed else (0, (1 << n_word) - 1)
    if overflow == 'saturate':
        c = max(lo, min(hi, r))
    else:
        c = r % (1 << n_word)
        if signed and c >= (1 << (n_word - 1)): c -= (1 << n_word)
    return c, r > hi, r < lo, F(c) != y
# ---
from fxpmath import Fxp
warnings.simplefilter('ignore')
bad = 0
CASES = [   # (value, signed, n_word, n_frac, scale, bias)
    (np.array([-100], dtype=np.int8), True, 16, 0, 1, 50),
    (np.int8(-100),                   True, 16, 0, 1, 50),
    ([np.int8(-100)],                 True, 16, 0, 1, 50),
    (np.array([100], dtype=np.int8),  True, 16, 0, 1, 200),       # OverflowError
    (np.array([120], dtype=np.int8),  True, 16, 2, 0.5, -67),
    (np.array([32000], dtype=np.int16), True, 16, 0, 2, -1000),
    (np.array([2**31 - 1], dtype=np.int32), True, 16, 0, 1, -1),
]
for v, signed, n_word, n_frac, s, b in CASES:
    v0 = int(np.asarray(v).ravel()[0])
    t = (F(v0) - F(b)) / F(s)
    ec, eo, eu, ei = quant(t, signed, n_word, n_frac)
    try:
        x = Fxp(v, signed, n_word, n_frac, scale=s, bias=b)
        got = (int(np.asarray(x.val).ravel()[0]), x.status['overflow'], x.status['underflow'], x.status['inaccuracy'])
    except Exception as e:
        got = '%s: %s' % (type(e).__name__, e)
    if got != (ec, eo, eu, ei):
        bad += 1
        print('VIOLATION value=%r fmt=(%s,%d,%d) scale=%r bias=%r: (v-b)/s=%s expected (code,ovf,unf,inacc)=%r got %r'
              % (v, signed, n_word, n_frac, s, b, t, (ec, eo, eu, ei), got))
sys.exit(1 if bad else 0)
