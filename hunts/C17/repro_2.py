# C17 counterexample 2: an unsigned NumPy integer value (uint8..uint64 array / 0-d / scalar / list of scalars)
# smaller than a positive integer bias: v-b wraps modulo 2^k in the unsigned dtype (a huge positive number:
# upper saturation + overflow flag instead of the negative code / lower bound + underflow flag);
# with a negative python-int bias the subtraction raises OverflowError.
import sys, warnings
import numpy as np
# --- exact-arithmetic oracle (python ints / fractions only)
from fractions import Fraction as F
import math

def _rnd(y, method):
    fl = math.floor(y)
    if method == 'floor': return fl
    if method == 'ceil': return math.ceil(y)
    if method in ('fix', 'trunc'): return math.trunc(y)
    r = y - fl                                  # 'around': ties to even (np.around)
    if r != F(1, 2): return fl + (1 if r > F(1, 2) else 0)
    return fl if fl % 2 == 0 else fl + 1

def quant(t, signed, n_word, n_frac, rounding='trunc', overflow='saturate'):
    """C01 quantization of the exact value t -> (code, overflow, underflow, inaccuracy)"""
    y = F(t) * F(2) ** n_frac
    r = _rnd(y, rounding)
    lo, hi = (-(1 << (n_word - 1)), (1 << (n_word - 1)) - 1) if signed else (0, (1 << n_word) - 1)
    if overflow == 'saturate':
        c = max(lo, min(hi, r))
    else:
        c = r % (1 << n_word)
        if signed and c >= (1 << (n_word - 1)): c -= (1 << n_word)
    return c, r > hi, r < lo, F(c) != y
# ---
from fxpmath import Fxp
warnings.simplefilter('ignore')
bad = 0
CASES = [   # (value, signed, n_word, n_frac, scale, bias, overflow)
    (np.array([3], dtype=np.uint64), True, 16, 0, 1, 5, 'saturate'),
    (np.uint64(3),                   True, 16, 0, 1, 5, 'saturate'),
    ([np.uint16(3)],                 True, 16, 0, 1, 5, 'saturate'),
    (np.array([3], dtype=np.uint8),  True, 16, 0, 1, 5, 'saturate'),     # code 254, no flag at all
    (np.array([40], dtype=np.uint16), False, 11, 0, 1, 41, 'saturate'),
    (np.array([144], dtype=np.uint8), False, 1, 0, 1, 145, 'wrap'),
    (np.array([3], dtype=np.uint32), True, 16, 4, 2, 5, 'saturate'),
    (np.array([5], dtype=np.uint64), True, 16, 0, 1, -1, 'saturate'),    # OverflowError
    (np.array([120], dtype=np.uint8), True, 16, 0, 1, -67, 'saturate'),  # OverflowError
]
for v, signed, n_word, n_frac, s, b, ovf in CASES:
    v0 = int(np.asarray(v).ravel()[0])
    t = (F(v0) - F(b)) / F(s)
    exp = quant(t, signed, n_word, n_frac, 'trunc', ovf)
    try:
        x = Fxp(v, signed, n_word, n_frac, scale=s, bias=b, overflow=ovf)
        got = (int(np.asarray(x.val).ravel()[0]), x.status['overflow'], x.status['underflow'], x.status['inaccuracy'])
    except Exception as e:
        got = '%s: %s' % (type(e).__name__, e)
    if got != exp:
        bad += 1
        print('VIOLATION value=%r fmt=(%s,%d,%d) %s scale=%r bias=%r: (v-b)/s=%s expected (code,ovf,unf,inacc)=%r got %r'
              % (v, signed, n_word, n_frac, ovf, s, b, t, exp, got))
sys.exit(1 if bad else 0)
