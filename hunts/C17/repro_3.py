# C17 counterexample 3: a float32 / float16 / complex64 value: (v-b) and /s are evaluated in the narrow
# float type (python-float scale and bias are "weak" and get cast down), although v, b, s, v-b and (v-b)/s
# are all exact doubles -> wrong code, missing/extra flags, or OverflowError (float16 inf).
import sys, warnings
import numpy as np
# --- exact-arithmetic oracle (python ints / fractions only)
from fractions import Fraction as F
import math

def _rnd(y, method):
    fl = math.floor(y)
    if method == 'floor': return fl
    if method == 'ceil': return math.ceil(y)
    if method in ('fix', 'trunc'): return math.trunc(y)
    r = y - fl                                  # 'around': ties to even (np.around)
    if r != F(1, 2): return fl + (1 if r > F(1, 2) else 0)
    return fl if fl % 2 == 0 else fl + 1

def quant(t, signed, n_word, n_frac, rounding='trunc', overflow='saturate'):
    """C01 quantization of the exact value t -> (code, overflow, underflow, inaccuracy)"""
    y = F(t) * F(2) ** n_frac
    r = _rnd(y, rounding)
    lo, hi = (-(1 << (n_word - 1)), (1 << (n_word - 1)) - 1) if signed else (0, (1 << n_word) - 1)
    if overflow == 'saturate':
        c = max(lo, min(hi, r))
    else:
        c = r % (1 << n_word)
        if signed and c >= (1 << (n_word - 1)): c -= (1 << n_word)
    return c, r > hi, r < lo, F(c) != y
# ---
from fxpmath import Fxp
warnings.simplefilter('ignore')
bad = 0
CASES = [   # (value, signed, n_word, n_frac, scale, bias, rounding, overflow)
    (np.float32(16777218.0),                       True, 16, 0, 1, 16777217.0, 'trunc', 'saturate'),
    (np.array([16777218.0], dtype=np.float32),     True, 16, 0, 1, 16777217.0, 'trunc', 'saturate'),
    ([np.float32(16777218.0)],                     True, 16, 0, 1, 16777217.0, 'trunc', 'saturate'),
    (np.array([0.5], dtype=np.float16),            True, 16, 1, 1, 2048.0,     'trunc', 'saturate'),
    (np.array([6580.0], dtype=np.float16),         True,  4, 0, 1, 6581.0,     'floor', 'wrap'),
    (np.array([-6064.0], dtype=np.float16),        True,  6, 0, 2.0, -6063,    'ceil',  'wrap'),      # inaccuracy flag lost
    (np.array([2047.0], dtype=np.float16),         True, 16, 1, 2.0**-10, 0,   'trunc', 'wrap'),      # inf -> OverflowError
]
for v, signed, n_word, n_frac, s, b, rnd, ovf in CASES:
    v0 = float(np.asarray(v).ravel()[0])
    t = (F(v0) - F(b)) / F(s)
    assert F(float(t)) == t and F(float(F(v0) - F(b))) == F(v0) - F(b)    # every intermediate is an exact double
    exp = quant(t, signed, n_word, n_frac, rnd, ovf)
    try:
        x = Fxp(v, signed, n_word, n_frac, scale=s, bias=b, rounding=rnd, overflow=ovf)
        got = (int(np.asarray(x.val).ravel()[0]), x.status['overflow'], x.status['underflow'], x.status['inaccuracy'])
    except Exception as e:
        got = '%s: %s' % (type(e).__name__, e)
    if got != exp:
        bad += 1
        print('VIOLATION value=%r fmt=(%s,%d,%d) %s/%s scale=%r bias=%r: (v-b)/s=%s expected (code,ovf,unf,inacc)=%r got %r'
              % (v, signed, n_word, n_frac, rnd, ovf, s, b, float(t), exp, got))
# complex64: the real part goes through the same float32 subtraction
x = Fxp(np.array([16777218 + 2j], dtype=np.complex64), True, 16, 0, bias=16777217.0)
if complex(np.asarray(x.val).ravel()[0]) != complex(1, 2):
    bad += 1
    print('VIOLATION complex64 value 16777218+2j bias=16777217.0: expected code 1+2j, got', x.val)
sys.exit(1 if bad else 0)
