# C17 counterexample 4: a decimal.Decimal value stored in a scaled object: the Decimal branch of
# _format_inupt_val converts straight to a raw code (raw=True), which skips the scaling conversion,
# so the code is the quantization of v, not of (v-b)/s, and reading gives s*v+b instead of v.
import sys, warnings
from decimal import Decimal
# --- exact-arithmetic oracle (python ints / fractions only)
from fractions import Fraction as F
import math

def _rnd(y, method):
    fl = math.floor(y)
    if method == 'floor': return fl
    if method == 'ceil': return math.ceil(y)
    if method in ('fix', 'trunc'): return math.trunc(y)
    r = y - fl                                  # 'around': ties to even (np.around)
    if r != F(1, 2): return fl + (1 if r > F(1, 2) else 0)
    return fl if fl % 2 == 0 else fl + 1

def quant(t, signed, n_word, n_frac, rounding='trunc', overflow='saturate'):
    """C01 quantization of the exact value t -> (code, overflow, underflow, inaccuracy)"""
    y = F(t) * F(2) ** n_frac
    r = _rnd(y, rounding)
    lo, hi = (-(1 << (n_word - 1)), (1 << (n_word - 1)) - 1) if signed else (0, (1 << n_word) - 1)
    if overflow == 'saturate':
        c = max(lo, min(hi, r))
    else:
        c = r % (1 << n_word)
        if signed and c >= (1 << (n_word - 1)): c -= (1 << n_word)
    return c, r > hi, r < lo, F(c) != y
# ---
from fxpmath import Fxp
warnings.simplefilter('ignore')
bad = 0
for v, s, b in [(Decimal('3'), 2, 0), (Decimal('3'), 1, 1), (Decimal('6.5'), 0.5, 0.25)]:
    t = (F(v) - F(b)) / F(s)
    ec = quant(t, True, 16, 4)[0]
    for how in ('init', 'set_val', 'setitem'):
        if how == 'init':
            x = Fxp(v, True, 16, 4, scale=s, bias=b)
        elif how == 'set_val':
            x = Fxp(None, True, 16, 4, scale=s, bias=b); x.set_val(v)
        else:
            x = Fxp([0.0, 0.0], True, 16, 4, scale=s, bias=b); x[0] = v; x = x[0]
        got = int(x.val); rd = F(float(x()))
        if got != ec or rd != F(v):
            bad += 1
            print('VIOLATION %s Decimal %s scale=%r bias=%r: (v-b)/s=%s expected code %d read %s; got code %d read %s'
                  % (how, v, s, b, t, ec, v, got, float(rd)))
sys.exit(1 if bad else 0)
