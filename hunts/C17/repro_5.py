# C17 counterexample 5 (value given as an Fxp object): storing an Fxp of value V in a scaled object copies
# the raw code (raw=True), skipping the scaling conversion: code = V*2^n_frac instead of the quantization
# of (V-b)/s, and the object then reads s*V+b instead of V.
import sys, warnings
# --- exact-arithmetic oracle (python ints / fractions only)
from fractions import Fraction as F
import math

def _rnd(y, method):
    fl = math.floor(y)
    if method == 'floor': return fl
    if method == 'ceil': return math.ceil(y)
    if method in ('fix', 'trunc'): return math.trunc(y)
    r = y - fl                                  # 'around': ties to even (np.around)
    if r != F(1, 2): return fl + (1 if r > F(1, 2) else 0)
    return fl if fl % 2 == 0 else fl + 1

def quant(t, signed, n_word, n_frac, rounding='trunc', overflow='saturate'):
    """C01 quantization of the exact value t -> (code, overflow, underflow, inaccuracy)"""
    y = F(t) * F(2) ** n_frac
    r = _rnd(y, rounding)
    lo, hi = (-(1 << (n_word - 1)), (1 << (n_word - 1)) - 1) if signed else (0, (1 << n_word) - 1)
    if overflow == 'saturate':
        c = max(lo, min(hi, r))
    else:
        c = r % (1 << n_word)
        if signed and c >= (1 << (n_word - 1)): c -= (1 << n_word)
    return c, r > hi, r < lo, F(c) != y
# ---
from fxpmath import Fxp
warnings.simplefilter('ignore')
bad = 0
src = Fxp(3.0, True, 16, 4)         # an ordinary (unscaled) fixed-point value 3.0
s, b = 2, 1
t = (F(3) - b) / s                  # 1
ec = quant(t, True, 16, 4)[0]       # 16
for how in ('init', 'set_val', 'call', 'setitem', 'equal'):
    if how == 'init':   x = Fxp(src, True, 16, 4, scale=s, bias=b)
    else:
        x = Fxp([0.0], True, 16, 4, scale=s, bias=b) if how == 'setitem' else Fxp(None, True, 16, 4, scale=s, bias=b)
        if how == 'set_val': x.set_val(src)
        elif how == 'call':  x(src)
        elif how == 'equal': x.equal(src)
        else:                x[0] = src; x = x[0]
    got = int(x.val); rd = float(x())
    if got != ec or rd != 3.0:
        bad += 1
        print('VIOLATION %s: Fxp value 3.0 into scale=2 bias=1: expected code %d (=(3-1)/2*16) read 3.0; got code %d read %r' % (how, ec, got, rd))
sys.exit(1 if bad else 0)
