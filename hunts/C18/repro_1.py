"""C18 counterexample 1: `<<` on an ARRAY Fxp of 64+ bits raises TypeError (default config, shifting='expand').
Expected (exact integer arithmetic): every code c becomes c << k, the word growing if needed (expand mode),
exactly as it does below 64 bits."""
import sys
import numpy as np
from fxpmath import Fxp

bad = []
for n_word, signed in [(64, False), (64, True), (128, True), (256, False)]:
    codes = [1, 2, 3]
    k = 1
    expected = [c << k for c in codes]          # python ints: 2, 4, 6 (fits the word, no growth needed)
    x = Fxp(codes, signed, n_word, 0, raw=True)
    try:
        y = x << k
        got = [int(v) for v in np.asarray(y.val, dtype=object).ravel()]
        if got != expected or y.n_frac != 0:      # `<<` keeps n_frac, so the codes themselves are c << k
            bad.append((n_word, signed, 'wrong value', got, expected))
    except Exception as e:
        bad.append((n_word, signed, 'raised', repr(e)))

# control: the same call works below 64 bits
ctrl = Fxp([1, 2, 3], True, 63, 0, raw=True) << 1
assert [int(v) for v in ctrl.val] == [2, 4, 6]

if bad:
    for b in bad:
        print('VIOLATION:', b)
    sys.exit(1)
print('ok')
sys.exit(0)
