"""C18 counterexample 2: scalar `<<` in the default shifting='expand' mode under-sizes the result word when the
magnitude of the code is >= 2**53 and equal to / just above a power of two: the shifted value is saturated and the
overflow flag is raised, instead of the word being expanded so that c << k is held exactly.
Exact derivation: c = 2**62 (s64/0, in range: max code is 2**63-1); c << 1 = 2**63 needs 64 magnitude bits + sign
= 65 bits.  fxpmath computes ceil(log2(|c| + 0.5)) + signed + k = 62 + 1 + 1 = 64 (the +0.5 is lost in float64),
keeps n_word = 64 and saturates 2**63 to 2**63-1."""
import sys
from fractions import Fraction
import numpy as np
from fxpmath import Fxp

cases = [
    # (code, signed, n_word, n_frac, shift)
    (2**62, True, 64, 0, 1),
    (2**63, False, 64, 0, 1),
    (2**127, False, 128, 0, 1),
    (2**100 + 1, True, 128, 0, 30),
    (-(2**100 + 1), True, 128, 64, 27),
    (2**200, True, 256, 128, 60),
]
bad = []
for c, s, n, nf, k in cases:
    x = Fxp(c, s, n, nf, raw=True)
    assert int(x.val) == c and not x.status['overflow'] and not x.status['underflow']   # stored exactly
    y = x << k
    want = Fraction(c, 1 << nf) * 2**k                     # exact real value of the shifted operand
    got = Fraction(int(y.val), 1 << y.n_frac)
    if got != want or y.status['overflow'] or y.status['underflow']:
        bad.append(dict(code=c, fmt=x.dtype, shift=k, result_fmt=y.dtype, got_code=int(y.val),
                        expected_code=int(want * (1 << y.n_frac)), overflow=y.status['overflow'],
                        underflow=y.status['underflow']))
# control: below 53 bits the word is expanded correctly
ctrl = Fxp(2**30, True, 32, 0, raw=True) << 1
assert ctrl.n_word == 33 and int(ctrl.val) == 2**31 and not ctrl.status['overflow']

if bad:
    for b in bad:
        print('VIOLATION:', b)
    sys.exit(1)
print('ok')
sys.exit(0)
