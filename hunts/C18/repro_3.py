"""C18 counterexample 3: `<<` and `>>` raise AttributeError on an extended-precision Fxp whose stored code is a bare
python int.  This happens for (a) an indexed element x[i] of a 64+ bits array (objects.py __getitem__ stores
self.val[index], which is a python int for object arrays) and (b) the result of a scalar `>>` with
shifting='trunc'/'keep' (0-d object array >> 0-d object array gives a python int), so (x >> 1) >> 1 fails too.
Below 64 bits the same expressions work (numpy integer scalars have a .dtype)."""
import sys
import numpy as np
from fxpmath import Fxp

bad = []
def attempt(label, f, expected):
    try:
        y = f()
        got = int(y.val)
        if got != expected:
            bad.append((label, 'wrong value', got, expected))
    except Exception as e:
        bad.append((label, 'raised', repr(e)))

for n in (64, 128, 256):
    for sh in ('expand', 'trunc', 'keep'):
        x = Fxp([1, 6, 3], True, n, 0, raw=True, shifting=sh)
        attempt('n=%d %s x[1] << 1' % (n, sh), lambda: x[1] << 1, 12)
        if sh != 'expand':
            attempt('n=%d %s x[1] >> 1' % (n, sh), lambda: x[1] >> 1, 3)
            z = Fxp(12, True, n, 0, raw=True, shifting=sh)
            attempt('n=%d %s (z >> 1) >> 1' % (n, sh), lambda: (z >> 1) >> 1, 3)
            attempt('n=%d %s (z >> 1) << 1' % (n, sh), lambda: (z >> 1) << 1, 12)

# control: 32 bits works
x = Fxp([1, 6, 3], True, 32, 0, raw=True, shifting='trunc')
assert int((x[1] << 1).val) == 12 and int((x[1] >> 1).val) == 3
z = Fxp(12, True, 32, 0, raw=True, shifting='trunc')
assert int(((z >> 1) >> 1).val) == 3

if bad:
    for b in bad:
        print('VIOLATION:', b)
    sys.exit(1)
print('ok')
sys.exit(0)
