"""BORDERLINE (needs the optional `bias` kwarg, i.e. a scaled object - probably outside C19's quantifier).
Storing a Python integer v into a scaled Fxp: set_val computes v - bias in int64 (0-d array minus Python int)
and the difference silently wraps modulo 2^64 when |bias| is in [2^62, 2^63] and |v| < 2^62, so saturation
lands on the opposite bound.  Exits 1 if present."""
import sys
from fxpmath import Fxp

v, b = 2**62 - 1, -(2**62 + 5)   # exact v - b = 2**63 + 4  ->  far above the s40/0 range -> must saturate to max
fails = []
for route in ('ctor', 'call', 'set_val', 'index'):
    if route == 'ctor':
        x = Fxp(v, True, 40, 0, bias=b); got = int(x.val)
    elif route == 'call':
        x = Fxp(None, True, 40, 0, bias=b); x(v); got = int(x.val)
    elif route == 'set_val':
        x = Fxp(None, True, 40, 0, bias=b); x.set_val(v); got = int(x.val)
    else:
        x = Fxp([b, b], True, 40, 0, bias=b); x[1] = v; got = int(x.val[1])
    exp = min(max((v - b) << 0, -2**39), 2**39 - 1)
    if got != exp:
        fails.append((route, got, exp, dict(x.status)))
for f in fails:
    print('route %s: stored code %d, expected %d (v - bias = %d), status %s' % (f[0], f[1], f[2], v - b, f[3]))
sys.exit(1 if fails else 0)
