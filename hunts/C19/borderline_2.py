"""BORDERLINE (non-default config op_method='repr' / functions called with method='repr').
With the 'repr' method the operands' represented values are combined with plain NumPy arithmetic; for
integer-valued operands (n_frac=0, vdtype int) these are int64 arrays, so a product that needs more than
64 bits is silently reduced modulo 2^64 although the (optimal) result format s126/0 could hold it.  Exits 1 if present."""
import sys
import fxpmath
from fxpmath import Fxp

a, b = 2**61 + 1, 2**61 + 3
x = Fxp(a, True, 63, 0); y = Fxp(b, True, 63, 0)
z = fxpmath.mul(x, y, sizing='optimal', method='repr')
exp = a * b
got = int(z.val)
print('dtype', z.dtype, 'got', got, 'exact', exp, '(exact mod 2^64 as signed = %d)' % (((exp + 2**63) % 2**64) - 2**63))
sys.exit(1 if got != exp else 0)
