"""C20 counterexample 1: Fxp.T returns a shallow copy over a transposed VIEW.
The result shares config, status record and value buffer with its operand."""
import sys
from fractions import Fraction
import numpy as np
from fxpmath import Fxp

vals = [[Fraction(3, 2), Fraction(9, 4)], [Fraction(-3), Fraction(1, 2)]]
n_frac = 4
exp_codes = [[int(v * 2**n_frac) for v in row] for row in vals]          # [[24, 36], [-48, 8]]

x = Fxp([[float(v) for v in row] for row in vals], True, 16, n_frac)    # default config: rounding='trunc', overflow='saturate'
y = x.T
bad = []

# (a) configuration change on the result
y.config.rounding = 'ceil'
y.overflow = 'wrap'
if x.config.rounding != 'trunc' or x.config.overflow != 'saturate':
    bad.append("config shared: after y.config.rounding='ceil'; y.overflow='wrap' the operand has rounding=%r overflow=%r (expected 'trunc', 'saturate')"
               % (x.config.rounding, x.config.overflow))

# (b) flag-raising write on the result (whole-value write, so no element of x is addressed)
x2 = Fxp([[float(v) for v in row] for row in vals], True, 16, n_frac)
y2 = x2.T
y2.set_val(1e9)                  # saturates in y2 -> overflow flag of y2
if x2.status['overflow']:
    bad.append("status shared: after y.set_val(1e9) the operand's status is %r (expected overflow=False)" % (x2.status,))

# (c) value write on the result (T is not indexing, so it is not the documented view exception)
x3 = Fxp([[float(v) for v in row] for row in vals], True, 16, n_frac)
y3 = x3.T
y3[0, 1] = 7.0                   # element (0,1) of the transposed object
got = [[int(c) for c in row] for row in x3.val.tolist()]
if got != exp_codes:
    bad.append("value buffer shared: after y[0,1]=7.0 the operand's codes are %r (expected unchanged %r)" % (got, exp_codes))

# (d) the other direction: changing the operand changes the result
x4 = Fxp([[float(v) for v in row] for row in vals], True, 16, n_frac)
y4 = x4.T
x4.config.op_sizing = 'same'
x4[0, 0] = 0.0
exp_t = [[exp_codes[j][i] for j in range(2)] for i in range(2)]
got_t = [[int(c) for c in row] for row in y4.val.tolist()]
if y4.config.op_sizing != 'optimal' or got_t != exp_t:
    bad.append("operand -> result: after x.config.op_sizing='same'; x[0,0]=0 the result has op_sizing=%r codes=%r (expected 'optimal', %r)"
               % (y4.config.op_sizing, got_t, exp_t))

if bad:
    print("VIOLATION (x.T shares mutable state with x):")
    for b in bad: print("  -", b)
    sys.exit(1)
print("ok")
sys.exit(0)
