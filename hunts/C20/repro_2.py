"""C20 counterexample 2: Fxp.flatten() / Fxp.ravel() build the result from a shallow copy():
the result shares the Config object, the status dict (and the callbacks list) with the operand."""
import sys
from fxpmath import Fxp

bad = []
for name in ('flatten', 'ravel'):
    x = Fxp([[1.5, 2.25], [-3.0, 0.5]], True, 16, 4)      # rounding='trunc', overflow='saturate', clean status
    y = getattr(x, name)()
    # config change on the result
    y.config.rounding = 'around'
    y.config.update(op_sizing='smallest')
    if x.config.rounding != 'trunc' or x.config.op_sizing != 'optimal':
        bad.append("%s: config shared: operand now has rounding=%r op_sizing=%r (expected 'trunc', 'optimal')" % (name, x.config.rounding, x.config.op_sizing))
    # flag raising write on the result
    y[0] = 1e9          # saturates -> overflow flag
    y[1] = 0.01         # not representable with 4 fractional bits -> inaccuracy flag
    if x.status['overflow'] or x.status['inaccuracy']:
        bad.append("%s: status shared: operand status is %r after overflowing/inexact writes on the result (expected all False)" % (name, x.status))
    # other direction
    x2 = Fxp([[1.5, 2.25], [-3.0, 0.5]], True, 16, 4)
    y2 = getattr(x2, name)()
    x2.overflow = 'wrap'
    x2.set_val(-1e9)    # underflow on x2
    if y2.config.overflow != 'saturate' or y2.status['underflow']:
        bad.append("%s: operand -> result: result has overflow=%r status=%r (expected 'saturate', underflow False)" % (name, y2.config.overflow, y2.status))
if bad:
    print("VIOLATION (flatten()/ravel() results share config and status record with the operand):")
    for b in bad: print("  -", b)
    sys.exit(1)
print("ok")
sys.exit(0)
