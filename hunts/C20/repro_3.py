"""C20 counterexample 3: fxpmath.fxp_like(x, val) ("Returns a new Fxp object like x") uses a shallow copy():
the new object shares the Config object and the status dict with x; even building it can raise flags on x."""
import sys
import fxpmath
from fxpmath import Fxp

bad = []
x = Fxp([0.5, 0.25], True, 8, 4)
# building: the value 1000 saturates in s8/4 (upper = 127/16) -> overflow flag belongs to the NEW object only
y = fxpmath.fxp_like(x, [1000.0, 0.0])
if x.status['overflow']:
    bad.append("building y=fxp_like(x, [1000, 0]) raised the overflow flag of x: %r (expected False)" % (x.status,))
x = Fxp([0.5, 0.25], True, 8, 4)
y = fxpmath.fxp_like(x, [1.0, 2.0])
y.config.rounding = 'floor'; y.shifting = 'trunc'
if x.config.rounding != 'trunc' or x.config.shifting != 'expand':
    bad.append("config shared: x has rounding=%r shifting=%r after changing y (expected 'trunc', 'expand')" % (x.config.rounding, x.config.shifting))
y.set_val(0.01)     # inexact in 4 fractional bits
if x.status['inaccuracy']:
    bad.append("status shared: x.status=%r after an inexact write on y (expected inaccuracy False)" % (x.status,))
x.config.overflow = 'wrap'
if y.config.overflow != 'saturate':
    bad.append("operand -> result: y.config.overflow=%r after x.config.overflow='wrap' (expected 'saturate')" % (y.config.overflow,))
if bad:
    print("VIOLATION (fxp_like result shares config/status with x):")
    for b in bad: print("  -", b)
    sys.exit(1)
print("ok")
sys.exit(0)
