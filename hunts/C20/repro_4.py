"""C20 counterexample 4: clip (np.clip(x, lo, hi) / x.clip(lo, hi) / fxpmath.clip) scales its bounds IN PLACE
(functions.py _clip_raw: `val_min *= 2**x.n_frac`), so an array (or list) of bounds given by the caller is modified."""
import sys
from fractions import Fraction
import numpy as np
from fxpmath import Fxp

n_frac = 4
xs = [Fraction(3, 2), Fraction(9, 4), Fraction(-3)]
lo_f = [Fraction(-1), Fraction(-1), Fraction(-1)]
hi_f = [Fraction(2), Fraction(2), Fraction(2)]
exp_y = [float(min(max(v, l), h)) for v, l, h in zip(xs, lo_f, hi_f)]     # [1.5, 2.0, -1.0]
bad = []

x = Fxp([float(v) for v in xs], True, 16, n_frac)
lo = np.array([float(v) for v in lo_f]); hi = np.array([float(v) for v in hi_f])
y = np.clip(x, lo, hi)
if lo.tolist() != [float(v) for v in lo_f] or hi.tolist() != [float(v) for v in hi_f]:
    bad.append("np.clip(x, lo, hi): bounds arrays modified: lo=%r hi=%r (expected %r %r); result %r (expected %r)"
               % (lo.tolist(), hi.tolist(), [float(v) for v in lo_f], [float(v) for v in hi_f], y().tolist(), exp_y))

lo_i = np.array([-1, -1, -1]); hi_i = np.array([2, 2, 2])
y = x.clip(lo_i, hi_i)
if lo_i.tolist() != [-1, -1, -1] or hi_i.tolist() != [2, 2, 2]:
    bad.append("x.clip(int arrays): bounds modified: lo=%r hi=%r (expected [-1,-1,-1] [2,2,2])" % (lo_i.tolist(), hi_i.tolist()))

lo_l = [-1.0, -1.0, -1.0]
try:
    x.clip(lo_l, 2.0)
except Exception:
    pass
if lo_l != [-1.0, -1.0, -1.0]:
    bad.append("x.clip(list, 2.0): the caller's list now has %d elements (expected the 3 original ones)" % len(lo_l))

if bad:
    print("VIOLATION (clip modifies the caller's bound containers):")
    for b in bad: print("  -", b)
    sys.exit(1)
print("ok")
sys.exit(0)
