"""C20 counterexample 5 (64-bit / extended formats): np.mean(x) / x.mean() MODIFIES the stored code of its operand.
Needs: word of 64+ bits (codes kept in an object array), n_frac == 0 (or array_op_method='raw'), a scalar indexed write,
and a mean over a single element (size-1 array or size-1 view)."""
import sys
import numpy as np
from fxpmath import Fxp

bad = []
code = 2**64 - 1                       # largest code of u64/0, exactly representable
x = Fxp([0], False, 64, 0)
x[0] = code
before = [int(e) for e in x.val.tolist()]
assert before == [code], before
m = np.mean(x)                         # a read-only query
after = [e.item() if isinstance(e, np.ndarray) else e for e in x.val.tolist()]
if [type(e) for e in after] != [int] or after != [code]:
    bad.append("u64/0: after np.mean(x) the operand stores %r (%s) instead of the integer code %d"
               % (after, type(after[0]).__name__, code))

# through a view: the PARENT array is modified by a mean over a one-element slice
x = Fxp([0, 0, 0], True, 64, 0)
c = 2**63 - 1
x[1] = c
x[1:2].mean()
after = [e.item() if isinstance(e, np.ndarray) else e for e in x.val.tolist()]
if after != [0, c, 0] or not all(isinstance(e, int) for e in after):
    bad.append("s64/0: after x[1:2].mean() the parent stores %r instead of [0, %d, 0]" % (after, c))

if bad:
    print("VIOLATION (np.mean modifies its operand):")
    for b in bad: print("  -", b)
    sys.exit(1)
print("ok")
sys.exit(0)
