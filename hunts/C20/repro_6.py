"""C20 borderline 6: chained indexed assignment whose LAST index is None / np.newaxis does not write through
(set_val treats index=None as "no index" and rebinds the value of the temporary view instead of writing into it)."""
import sys
import numpy as np
from fxpmath import Fxp

bad = []
x = Fxp([[1.0, 2.0], [3.0, 4.0]], True, 16, 4)
x[0][None] = 7.0                       # numpy: m[0][None] = 7 fills row 0
model = [[1 * 16, 2 * 16], [3 * 16, 4 * 16]]
model[0] = [7 * 16, 7 * 16]
got = [[int(c) for c in row] for row in x.val.tolist()]
if got != model:
    bad.append("x[0][None] = 7.0: codes %r, expected %r (row 0 filled, like numpy)" % (got, model))
x = Fxp([1.0, 2.0, 3.0], True, 16, 4)
x[None] = 7.0
if np.shape(x.val) != (3,):
    bad.append("x[None] = 7.0: x became shape %r value %r (expected shape (3,), all 7.0)" % (np.shape(x.val), x()))
if bad:
    print("BORDERLINE VIOLATION (None/newaxis as assignment index):")
    for b in bad: print("  -", b)
    sys.exit(1)
print("ok")
sys.exit(0)
