"""C01 - indexed assignment into a scalar (0-d) complex fixed-point object raises TypeError.

The same store works through the constructor, the call and set_val, and the same indexed assignment works on a
scalar *real* object: the outcome depends on the store route (and on whether the object holds a complex value).
Root cause: objects.py:961  new_val = new_val_real + 1j * new_val_imag  -> arithmetic on 0-d arrays gives a NumPy
*scalar* (np.complex128), which set_val keeps as self.val (objects.py:966); objects.py:964 self.val[index] = new_val
then fails ("'numpy.complex128' object does not support item assignment").  The real branch keeps a 0-d ndarray.
"""
import sys, warnings
from fractions import Fraction as F
import numpy as np
from fxpmath import Fxp
warnings.simplefilter('ignore')

def oracle(v, n_frac, lo, hi):          # rounding='trunc', overflow='saturate'
    s = F(v) * F(2) ** n_frac
    c = int(s)                            # toward zero
    return max(lo, min(hi, c))

v = 1.5 + 0.75j
exp = (oracle(v.real, 4, -2**15, 2**15 - 1), oracle(v.imag, 4, -2**15, 2**15 - 1))     # (24, 12)
bad = []

# control 1: other routes on the same kind of object are right
x = Fxp(0.5 + 0.25j, True, 16, 4)
x(v)
assert (int(x.val.real), int(x.val.imag)) == exp, x.val
x.set_val(v)
assert (int(x.val.real), int(x.val.imag)) == exp, x.val
# control 2: the same indexed assignment on a scalar real object is right
r = Fxp(0.5, True, 16, 4)
r[()] = 1.5
r[...] = 1.5
assert int(r.val) == 24

for name, store in (('x[()] = v', lambda o: o.__setitem__((), v)),
                    ('x[...] = v', lambda o: o.__setitem__(Ellipsis, v)),
                    ('x.set_val(v, index=())', lambda o: o.set_val(v, index=())),
                    ('x.equal(v, index=())', lambda o: o.equal(v, index=())),
                    ('x[()] = 1.5 (real value)', lambda o: o.__setitem__((), 1.5))):
    for mk_name, mk in (('Fxp(0.5+0.25j, True, 16, 4)', lambda: Fxp(0.5 + 0.25j, True, 16, 4)),
                        ('Fxp(np.zeros((), dtype=complex), True, 16, 4)', lambda: Fxp(np.zeros((), dtype=complex), True, 16, 4))):
        o = mk()
        try:
            store(o)
            got = (int(np.real(o.val)), int(np.imag(o.val)))
            want = exp if 'real value' not in name else (24, 0)
            if got != want:
                bad.append('%s ; %s -> codes %s, expected %s' % (mk_name, name, got, want))
        except Exception as e:
            bad.append('%s ; %s -> %s: %s (expected codes %s; type(x.val) = %s)' % (mk_name, name, type(e).__name__, e, exp, type(o.val).__name__))

if bad:
    print('VIOLATION (C01, store-route independence): indexed assignment into a 0-d complex Fxp')
    for b in bad: print('  ', b)
    sys.exit(1)
print('ok')
sys.exit(0)
