# C02 range clause: a NaN produced by a public operation (0/0 in value-based arithmetic, np.log of a negative value
# written into `out`) or handed to the constructor inside an array is stored as max_code + 1 in words of 54..63 bits.
import sys, warnings
import numpy as np
from fxpmath import Fxp
import fxpmath
warnings.filterwarnings('ignore')

def rng(x):
    lo = -(1 << (x.n_word - 1)) if x.signed else 0
    hi = (1 << (x.n_word - 1)) - 1 if x.signed else (1 << x.n_word) - 1
    return lo, hi

bad = []
def chk(tag, x):
    lo, hi = rng(x)
    codes = [int(c) for c in np.asarray(x.val).ravel().tolist()]
    out = [c for c in codes if not lo <= c <= hi]
    if out:
        bad.append('%s: %s holds code %d outside [%d, %d]' % (tag, x.dtype, out[0], lo, hi))

d1 = Fxp([1.0, 0.0], True, 32, 2); d2 = Fxp([1.0, 0.0], True, 32, 24)
chk('d1 // d2 (default config, raw method, s32/2 // s32/24 -> s55/0)', d1 // d2)   # the raw kernel scales with 2**-k floats: 0.0 // 0.0 -> NaN
e = Fxp([1.0, 0.0], False, 54, 23)
chk('e // e (default config, u54/23)', e // e)
a = Fxp([3.0, 0.0], True, 28, 1, op_method='repr')          # core format s28/1, value-based operators
chk('a / a (op_method=repr)', a / a)                        # optimal size s56/27; 0/0 -> NaN
b = Fxp([3.0, 0.0], True, 28, 1, bias=1)                    # scaled operand: the value-based calculation is forced (default config)
chk('b / b (scaled operand, default config)', b / b)
c = Fxp([3.0, 0.0], True, 32, 16)
chk('fxpmath.mod(c, c, method=repr, out_like=s60/20)', fxpmath.mod(c, c, method='repr', out_like=Fxp(None, True, 60, 20)))
chk('np.log(x, out=s56/30)', np.log(Fxp([4.0, -1.0], True, 16, 4), out=Fxp(None, True, 56, 30)))
chk('Fxp([1.0, nan], u54/0)', Fxp([1.0, float('nan')], False, 54, 0))

for b_ in bad: print(b_)
sys.exit(1 if bad else 0)
