# C02 range clause: complex-valued objects keep their codes in a complex128 array, whose parts are doubles. In words of 55..64 bits
# the upper limit 2**(n_word-1)-1 (signed) / 2**n_word-1 (unsigned) is not a double: the clipped code is rounded up to max_code + 1.
# Reached from a REAL object through the public conjugate (method, function, np.conj), and by saturating a complex input.
import sys, warnings
import numpy as np
from fxpmath import Fxp
import fxpmath
warnings.filterwarnings('ignore')

bad = []
def chk(tag, x):
    lo = -(1 << (x.n_word - 1)) if x.signed else 0
    hi = (1 << (x.n_word - 1)) - 1 if x.signed else (1 << x.n_word) - 1
    parts = []
    for c in np.asarray(x.val).ravel().tolist():
        parts += [c.real, c.imag] if isinstance(c, complex) else [c]
    out = [int(c) for c in parts if not lo <= int(c) <= hi]
    if out:
        bad.append('%s: %s holds code %d outside [%d, %d] (status %s)' % (tag, x.dtype, out[0], lo, hi, {k for k, v in x.status.items() if v}))

x = Fxp(2**55 - 1, True, 56, 0)             # real object holding its maximum: well-formed
chk('x', x)
chk('x.conjugate()', x.conjugate())         # raw kernel: val_real - 1j*val_imag is complex128 -> 2**55
chk('np.conj(x)', np.conj(x))
chk('fxpmath.conjugate(x, sizing=same)', fxpmath.conjugate(x, sizing='same'))
chk('Fxp(1e30+2j, s55/0)', Fxp(1e30 + 2j, True, 55, 0))        # saturation of a complex input
chk('Fxp(1e30-1e30j, u54/0)', Fxp(1e30 - 1e30j, False, 54, 0))
y = Fxp(None, True, 60, 8); y.set_val([1 + 1j, 1e300j])
chk('set_val([1+1j, 1e300j]) s60/8', y)

for b_ in bad: print(b_)
sys.exit(1 if bad else 0)
