# C02 metadata clause: upper / lower / precision are only recomputed by resize, with the complex form (u+uj) chosen from the vdtype
# of that moment. set_val changes vdtype (and the dtype string) afterwards: an object whose dtype string says real (no '-complex')
# reports complex limits, i.e. upper != max_code * 2**-n_frac.
import sys, warnings
import numpy as np
from fxpmath import Fxp
import fxpmath
warnings.filterwarnings('ignore')

bad = []
def chk(tag, x):
    hi = (1 << (x.n_word - 1)) - 1 if x.signed else (1 << x.n_word) - 1
    lo = -(1 << (x.n_word - 1)) if x.signed else 0
    eu, el, ep = hi / 2.0**x.n_frac, lo / 2.0**x.n_frac, 1 / 2.0**x.n_frac
    if 'complex' not in x.dtype and x.vdtype != complex:
        if isinstance(x.upper, complex) or x.upper != eu or x.lower != el or x.precision != ep:
            bad.append('%s: %s (vdtype %s) reports upper=%r lower=%r precision=%r, expected %r %r %r' % (tag, x.dtype, x.vdtype, x.upper, x.lower, x.precision, eu, el, ep))

x = Fxp(None, dtype='fxp-s8/4-complex')     # empty complex format
x(1.5)                                      # a real value is set: dtype becomes 'fxp-s8/4', vdtype float
chk("Fxp(None, dtype='fxp-s8/4-complex')(1.5)", x)

y = Fxp(0.5 + 1j, True, 8, 4)
y.resize(n_word=10)                         # limits recomputed while the value is complex
y.set_val(0.5)                              # now a real object
chk('complex -> resize -> set_val(real)', y)

z = Fxp([1 + 1j, 2 - 1j], True, 12, 4)
z.resize(n_frac=5)
w = Fxp(3.25, like=z)                       # real value in an object created like z
chk('Fxp(3.25, like=<complex object>)', w)

for b_ in bad: print(b_)
sys.exit(1 if bad else 0)
