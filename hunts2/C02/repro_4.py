# C02 saturation clause ("Python integers of any size"): on an object with scale / bias (n_frac >= 0, saturate) a Python integer beyond the
# range of a double is not stored as the bound on its side: the affine conversion divides / subtracts with floats and raises OverflowError.
import sys, warnings
import numpy as np
from fxpmath import Fxp
warnings.filterwarnings('ignore')

bad = []
def attempt(tag, f, expected_code):
    try:
        x = f()
    except Exception as e:
        bad.append('%s: raised %s(%s); expected the code %d (bound on the side of the input)' % (tag, type(e).__name__, e, expected_code))
        return
    got = [int(c) for c in np.asarray(x.val).ravel().tolist()]
    if got[0] != expected_code:
        bad.append('%s: stored %r, expected %d' % (tag, got, expected_code))

# code = (v - bias) / scale * 2**n_frac, clipped to [-128, 127]
attempt('Fxp(10**400, s8/0, scale=2)', lambda: Fxp(10**400, True, 8, 0, scale=2), 127)
attempt('Fxp(-10**400, s8/0, scale=2)', lambda: Fxp(-10**400, True, 8, 0, scale=2), -128)
attempt('Fxp(10**400, s8/0, scale=-2)', lambda: Fxp(10**400, True, 8, 0, scale=-2), -128)
attempt('Fxp(10**400, s8/0, bias=0.5)', lambda: Fxp(10**400, True, 8, 0, bias=0.5), 127)
attempt('Fxp(2**1030, u8/0, scale=3)', lambda: Fxp(2**1030, False, 8, 0, scale=3), 255)
attempt('x.set_val([10**400, 3]) scale=2', lambda: Fxp(None, True, 16, 4, scale=2).set_val([10**400, 3]), 32767)
attempt('x[0] = 10**400 scale=0.5', lambda: (lambda x: (x.__setitem__(0, 10**400), x)[1])(Fxp([1, 2], True, 16, 4, scale=0.5)), 32767)
# control: the same inputs are saturated correctly without scaling, and with an integer bias
attempt('control Fxp(10**400, s8/0)', lambda: Fxp(10**400, True, 8, 0), 127)
attempt('control Fxp(10**400, s8/0, bias=1)', lambda: Fxp(10**400, True, 8, 0, bias=1), 127)

for b_ in bad: print(b_)
sys.exit(1 if bad else 0)
