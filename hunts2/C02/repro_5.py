# BORDERLINE for C02 (saturation clause, "never the opposite bound"): the exact result of a reduction / product that needs more than
# 63 bits wraps around in int64 / uint64 inside the kernel (np.prod, np.dot, np.sum(...)*2**k, x.val << n) BEFORE set_val saturates it,
# so a large positive result is stored as the LOWER bound (flags: underflow). The codes stay inside the range (range clause holds).
import sys, warnings
import numpy as np
from fxpmath import Fxp
import fxpmath
warnings.filterwarnings('ignore'); np.seterr(all='ignore')

bad = []
def chk(tag, x, exact_value):
    # exact_value: exact mathematical result (python int / Fraction); expected: bound on its side
    hi = (1 << (x.n_word - 1)) - 1 if x.signed else (1 << x.n_word) - 1
    lo = -(1 << (x.n_word - 1)) if x.signed else 0
    exp = hi if exact_value * 2**x.n_frac > hi else lo
    got = int(np.asarray(x.val).ravel()[-1])
    if got != exp:
        bad.append('%s: %s stores code %d, exact result %.4g is beyond the upper limit -> expected code %d; status %s' % (tag, x.dtype, got, float(exact_value), exp, {k for k, v in x.status.items() if v}))

pu = Fxp([200] * 9, False, 8, 0)
chk("Fxp([200]*9, u8/0).prod(sizing='same')", pu.prod(sizing='same'), 200**9)
chk("np.prod(Fxp([200]*9, u8/0), out=u8/0)", np.prod(pu, out=Fxp(None, False, 8, 0)), 200**9)
p = Fxp([2**15 - 1] * 5, True, 16, 0)
chk("Fxp([32767]*5, s16/0).prod(sizing='same')", p.prod(sizing='same'), (2**15 - 1)**5)
chk("... .prod(sizing='same', method='repr')", p.prod(sizing='same', method='repr'), (2**15 - 1)**5)
chk("... .cumprod(sizing='same') (last element)", p.cumprod(sizing='same'), (2**15 - 1)**5)
x = Fxp([-2**31, -2**31], True, 32, 0)
chk("x.dot(x, sizing='same'), x = [-2**31]*2 s32/0", x.dot(x, sizing='same'), 2**63)
s = Fxp([2**31 - 1, 2**31 - 1], True, 32, 0)
chk("fxpmath.sum(s, out_like=s32/32)", fxpmath.sum(s, out_like=Fxp(None, True, 32, 32)), 2**32 - 2)
chk("fxpmath.floordiv(1, 2**-31, out_like=s32/32)", fxpmath.floordiv(Fxp(1, True, 32, 0), Fxp(2**-31, True, 32, 32), out_like=Fxp(None, True, 32, 32)), 2**31)
chk("Fxp(1.0, s32/16, shifting='trunc') << 47", Fxp(1.0, True, 32, 16, shifting='trunc') << 47, 2**47)

for b_ in bad: print(b_)
sys.exit(1 if bad else 0)
