# BORDERLINE for C02 (needs n_word >= 64, e.g. the word Fxp(1e30) infers): assigning one element of an array object whose codes are python
# integers (object array) stores a 0-d numpy array as the element instead of an integer code.
import sys, warnings
import numpy as np
from fxpmath import Fxp
warnings.filterwarnings('ignore')
bad = []
x = Fxp([1e30, 2.0, 3.0])          # inferred format: fxp-s64/0 (codes are python integers in an object array)
x[1] = 5
kinds = [type(c).__name__ for c in x.val.tolist()]
if any(not isinstance(c, (int, np.integer)) for c in x.val.tolist()):
    bad.append('%s after x[1] = 5: element types %s, val = %r' % (x.dtype, kinds, x.val))
y = Fxp([0, 0, 0], False, 64, 3); y[0] = 5.5
if any(not isinstance(c, (int, np.integer)) for c in y.val.tolist()):
    bad.append('%s after y[0] = 5.5: val = %r' % (y.dtype, y.val))
for b_ in bad: print(b_)
sys.exit(1 if bad else 0)
