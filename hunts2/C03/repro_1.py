# C03 counterexample 1: Python-integer input into a >=64-bit wrap register with a NEGATIVE n_frac
# is scaled with a float factor (1/(1<<-n_frac)): low bits are lost above 53 bits, OverflowError above ~2^1024.
import sys
import numpy as np
from fxpmath import Fxp

def oracle(v, signed, n_word, n_frac, mode='trunc'):
    # exact: v * 2^n_frac (n_frac < 0), rounded, reduced modulo 2^n_word
    num, den = v, 1 << (-n_frac)
    q, r = divmod(num, den)                  # floor
    if mode == 'trunc' and v < 0 and r: q += 1
    if mode == 'ceil' and r: q += 1
    if mode == 'around':
        if 2*r > den or (2*r == den and q % 2): q += 1
    q %= 1 << n_word
    if signed and q >= 1 << (n_word - 1): q -= 1 << n_word
    return q

bad = 0
cases = [
    (2**60 + 4,            False, 64,  -2, 'trunc'),
    (2**60 + 4,            True,  64,  -2, 'around'),
    (-(2**70) - 2**10,     False, 64,  -1, 'floor'),
    (2**100 + 2**8,        True,  128, -4, 'trunc'),
    (3**150,               False, 256, -8, 'ceil'),
]
for v, s, n, f, mode in cases:
    exp = oracle(v, s, n, f, mode)
    for name, c in (('int', v), ('list', [v, 1]), ('objarr', np.array([v, 1], dtype=object))):
        got = int(np.asarray(Fxp(c, s, n, f, overflow='wrap', rounding=mode).val).ravel()[0])
        if got != exp:
            bad += 1
            print('MISMATCH %-6s v=%d fmt=(%s,%d,%d) %s: stored %d, expected %d' % (name, v, 's' if s else 'u', n, f, mode, got, exp))
try:
    Fxp(2**1100, True, 128, -1, overflow='wrap')
except OverflowError as e:
    bad += 1
    print('EXCEPTION for 2**1100 into s128/-1:', e, '(expected code 0)')
sys.exit(1 if bad else 0)
