# C03 counterexample 2: reductions / dot stored into a wrap register of MORE than 64 bits behave like a 64-bit register:
# the raw result is multiplied by 2**(n_frac_out - n_frac_in) in int64 (no cast to python integers unless n_frac_out >= 64).
import sys, warnings
import numpy as np
import fxpmath
from fxpmath import Fxp
warnings.simplefilter('ignore')

x = Fxp(None, True, 32, 0); x.set_val(np.array([2**31 - 1, 2**31 - 1, 5]), raw=True)    # values 2147483647, 2147483647, 5
y = Fxp(None, True, 32, 0); y.set_val(np.array([1, 1, 1]), raw=True)
def reg(init=None): return Fxp(init, True, 128, 40, overflow='wrap')      # s128/40: holds any of the results below exactly
total = 2**32 + 3
bad = 0
def check(name, got, exp):
    global bad
    got = [int(g) for g in np.asarray(got).ravel()]
    if got != exp:
        bad += 1; print('MISMATCH %-8s stored %s expected %s' % (name, got, exp))
check('sum',    fxpmath.sum(x, out=reg()).val,            [total << 40])
check('np.sum', np.sum(x, out=reg()).val,                 [total << 40])
check('x.sum',  x.sum(out_like=reg()).val,                [total << 40])
check('cumsum', fxpmath.cumsum(x, out=reg([0, 0, 0])).val, [(2**31 - 1) << 40, (2**32 - 2) << 40, total << 40])
check('dot',    fxpmath.dot(x, y, out=reg()).val,         [total << 40])
check('x.dot',  x.dot(y, out=reg()).val,                  [total << 40])
check('max',    fxpmath.fxp_max(x, out=reg()).val,        [(2**31 - 1) << 40])
# the two-operand kernels were repaired and are right:
check('add',    fxpmath.add(x, y, out=reg([0, 0, 0])).val, [2**31 << 40, 2**31 << 40, 6 << 40])
sys.exit(1 if bad else 0)
