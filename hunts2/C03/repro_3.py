# C03 counterexample 3: dot / sum / cumsum into a core-domain wrap register lose low bits when the exact raw result needs more than
# 53 bits (float64 dot for operands of mixed signedness; float factor 2**negative when the destination has fewer fraction bits).
# mul / add with the same operands and destination are exact (D23 / D37 repaired those kernels only).
import sys, warnings
import numpy as np
import fxpmath
from fxpmath import Fxp
warnings.simplefilter('ignore')
def W(k, s, n):
    k %= 1 << n
    return k - (1 << n) if s and k >= 1 << (n - 1) else k
bad = 0
def check(name, got, exp):
    global bad
    got = [int(g) for g in np.asarray(got).ravel()]
    if got != exp:
        bad += 1; print('MISMATCH %-22s stored %s expected %s' % (name, got, exp))

# (a) mixed signedness: u32/0 . s32/0 -> s32/0 wrap.   |result| = 3.0e18 < 2^62
x = Fxp(None, False, 32, 0); x.set_val(np.array([2000000001]), raw=True)
y = Fxp(None, True, 32, 0);  y.set_val(np.array([1500000001]), raw=True)
exp = W(2000000001 * 1500000001, True, 32)
check('dot mixed sign', fxpmath.dot(x, y, out=Fxp(None, True, 32, 0, overflow='wrap')).val, [exp])
check('mul (reference)', fxpmath.mul(x, y, out=Fxp(None, True, 32, 0, overflow='wrap')).val, [exp])

# (b) same signedness, destination with fewer fraction bits: s32/4 . s32/4 -> s32/4 wrap (trunc)
x = Fxp(None, True, 32, 4); x.set_val(np.array([2000000001, 3]), raw=True)
y = Fxp(None, True, 32, 4); y.set_val(np.array([1500000001, 5]), raw=True)
exp = W((2000000001 * 1500000001 + 15) >> 4, True, 32)
check('dot fewer frac bits', fxpmath.dot(x, y, out=Fxp(None, True, 32, 4, overflow='wrap')).val, [exp])
check('np.dot', np.dot(x, y, out=Fxp(None, True, 32, 4, overflow='wrap')).val, [exp])

# (c) sum / cumsum of u52/0 into u52/-1 wrap, rounding ceil
x = Fxp(None, False, 52, 0); x.set_val(np.array([2**52 - 1] * 3), raw=True)
exp = [W(-((-k * (2**52 - 1)) // 2), False, 52) for k in (1, 2, 3)]
check('sum', fxpmath.sum(x, out=Fxp(None, False, 52, -1, overflow='wrap', rounding='ceil')).val, exp[2:])
check('cumsum', fxpmath.cumsum(x, out=Fxp([0, 0, 0], False, 52, -1, overflow='wrap', rounding='ceil')).val, exp)
sys.exit(1 if bad else 0)
