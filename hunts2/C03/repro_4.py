# BORDERLINE (source is a fixed-point object of 64 bits or more, not a python integer):
# converting it into a wrap register loses low bits
#  (a) when fraction bits are dropped (utils.scale_raw multiplies python integers by the float 2**negative), also via resize();
#  (b) when the source's value type is float and its aligned raw value lies between 2^53 and 2^63 (set_val casts it to float64).
import sys, warnings
import numpy as np
from fxpmath import Fxp
warnings.simplefilter('ignore')
bad = 0
# (a) resize of a 128-bit wrap object
b = Fxp(2**100 + 3, True, 128, 4, overflow='wrap')          # raw (2^100+3)*16, exact
b.resize(n_frac=0)
if int(b.val) != 2**100 + 3:
    bad += 1; print('MISMATCH resize s128/4 -> s128/0: stored %d expected %d' % (int(b.val), 2**100 + 3))
src = Fxp(2**100 + 3, True, 128, 4)
z = Fxp(src, True, 80, 0, overflow='wrap')
exp = (2**100 + 3) % 2**80
if int(z.val) != exp:
    bad += 1; print('MISMATCH Fxp(s128/4 source) -> s80/0 wrap: stored %d expected %d' % (int(z.val), exp))
# (b) u64/24 source (value type float) into u40/25 wrap
s = Fxp(None, False, 64, 24); s.set_val(3397864134918130234, raw=True)
z = Fxp(s, False, 40, 25, overflow='wrap')
exp = (3397864134918130234 * 2) % 2**40
if int(z.val) != exp:
    bad += 1; print('MISMATCH Fxp(u64/24 source) -> u40/25 wrap: stored %d expected %d' % (int(z.val), exp))
sys.exit(1 if bad else 0)
