# BORDERLINE (the destination format is chosen by the library): op_sizing='fit' (method raw) computes the raw result with
# n_frac = max(n_frac_x, n_frac_y); when the fitted word is capped at n_word_max (64) the constructor lowers n_frac but the raw result
# is stored unchanged, so the 64-bit wrap register holds a code for another binary point.
import sys, warnings
from fxpmath import Fxp
warnings.simplefilter('ignore')
x = Fxp(None, False, 51, 18, overflow='wrap', op_sizing='fit'); x.set_val(2**51 - 1, raw=True)      # (2^51-1)/2^18
y = Fxp(None, False, 40, 44, overflow='wrap', op_sizing='fit'); y.set_val(484610801815, raw=True)   # 484610801815/2^44
r = x + y
exact_raw_44 = (2**51 - 1) * 2**26 + 484610801815            # exact sum with 44 fraction bits
exp = (exact_raw_44 >> (44 - r.n_frac)) % 2**r.n_word       # trunc into the format the library chose
print(r.dtype, 'stored', int(r.val), 'expected', exp)
sys.exit(1 if int(r.val) != exp else 0)
