"""C04 / CE1: one-variable function wrappers (max, min, sum, cumsum, sort, transpose, diagonal, trace, clip) writing into `out` /
`out_like` / config.op_out whose fraction length is larger than the operand's: the raw kernel scales the int64 codes by
2**(out.n_frac - x.n_frac) in int64, the product wraps modulo 2**64 and the write into `out` never sees the out-of-range value:
no overflow flag (or the flag of the wrong side).  All formats involved are core-domain (n_word <= 52)."""
import sys, warnings
import numpy as np
import fxpmath
from fxpmath import Fxp
warnings.simplefilter('ignore')

bad = []
def expect(tag, z, codes, o, u, i):
    got = (np.asarray(z.val).ravel().tolist(), z.status['overflow'], z.status['underflow'], z.status['inaccuracy'])
    if got != (codes, o, u, i):
        bad.append('%-34s observed codes=%s o/u/i=%s   expected codes=%s o/u/i=%s' % (tag, got[0], got[1:], codes, (o, u, i)))

mk = lambda **kw: Fxp(None, True, 52, 30, **kw)         # s52/30: codes in [-2^51, 2^51-1], values in [-2^21, 2^21)
MAX = 2**51 - 1
x = Fxp([2.0**34, 1.0], True, 40, 0)                    # s40/0, exact, clean status
assert not any(x.status.values())

# control: the plain conversion reports the overflow
expect('control o(x)', mk()(x), [MAX, 2**30], True, False, True)

# exact arithmetic: 2^34 * 2^30 = 2^64 > 2^51-1  => overflow (and the stored element differs from its input => inaccuracy)
expect('fxp_max(x, out=o)', fxpmath.fxp_max(x, out=mk()), [MAX], True, False, True)
expect('np.max(x, out=o)', np.max(x, out=mk()), [MAX], True, False, True)
expect('x.max(out=o)', x.max(out=mk()), [MAX], True, False, True)
expect('sort(x, out=o)', fxpmath.sort(x, out=mk()), [2**30, MAX], True, False, True)
expect('sort(x, out_like=o)', fxpmath.sort(x, out_like=mk()), [2**30, MAX], True, False, True)
expect('transpose(x, out=o)', fxpmath.transpose(x, out=mk()), [MAX, 2**30], True, False, True)
expect('cumsum(x, out=o)', fxpmath.cumsum(x, out=mk()), [MAX, MAX], True, False, True)
expect('sum(x, out=o)', fxpmath.sum(x, out=mk()), [MAX], True, False, True)
expect('clip(x, 0, 2^35, out=o)', fxpmath.clip(x, 0, 2.0**35, out=mk()), [MAX, 2**30], True, False, True)
X = Fxp([[2.0**34, 1.0], [1.0, 2.0**34]], True, 40, 0)
expect('diagonal(X, out=o)', fxpmath.diagonal(X, out=mk()), [MAX, MAX], True, False, True)
expect('trace(X, out=o)', fxpmath.trace(X, out=mk()), [MAX], True, False, True)
x2 = Fxp([2.0**34, 1.0], True, 40, 0); x2.config.op_out = mk()
expect('x.sum() with config.op_out', x2.sum(), [MAX], True, False, True)
# wrong side: 3*2^33 * 2^30 = 3*2^63 -> int64 wrap gives -2^63: underflow reported for a value above the maximum
x3 = Fxp([3 * 2.0**33, 1.0], True, 40, 0)
expect('fxp_max wrong side', fxpmath.fxp_max(x3, out=mk()), [MAX], True, False, True)
# small formats too: s16/0 into s52/50
expect('s16/0 -> s52/50', fxpmath.fxp_max(Fxp([2.0**14, 1.0], True, 16, 0), out=Fxp(None, True, 52, 50)), [MAX], True, False, True)

if bad:
    print('VIOLATION (C04 overflow/underflow "iff", via function wrappers with out):')
    for b in bad: print('  ', b)
    sys.exit(1)
print('ok')
