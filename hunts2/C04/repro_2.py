"""C04 / CE2: reductions and the two binary kernels that were not moved to Python integers (prod, dot, sum/cumsum of long arrays,
floordiv) accumulate / scale in int64; the wrapped value is what is written into a core-domain result (`out`, `out_like`,
sizing='same'), so the overflow of the arithmetic is not reported, is reported on the wrong side, or is reported although the exact
result fits.  Operands and results are core-domain formats (n_word <= 52)."""
import sys, warnings
import numpy as np
import fxpmath
from fxpmath import Fxp
warnings.simplefilter('ignore')
bad = []
def expect(tag, z, codes, o, u, i=None):
    got = (np.asarray(z.val).ravel().tolist(), z.status['overflow'], z.status['underflow'])
    if got != (codes, o, u):
        bad.append('%-36s observed codes=%s o/u=%s i=%s   expected codes=%s o/u=%s' % (tag, got[0], got[1:], z.status['inaccuracy'], codes, (o, u)))

# (a) prod: 65536^4 = 2^64 ; s32/0 holds at most 2^31-1  => overflow, saturates to 2^31-1
x = Fxp([65536.0] * 4, True, 32, 0)
expect("prod(x, sizing='same')", fxpmath.prod(x, sizing='same'), [2**31 - 1], True, False)
expect('prod(x, out=s32/0)', fxpmath.prod(x, out=Fxp(None, True, 32, 0)), [2**31 - 1], True, False)
expect('np.prod(x, out=s32/0)', np.prod(x, out=Fxp(None, True, 32, 0)), [2**31 - 1], True, False)
expect('x.prod(out_like=s32/0)', x.prod(out_like=Fxp(None, True, 32, 0)), [2**31 - 1], True, False)
# control: the value based method reports it
expect("control prod(method='repr')", fxpmath.prod(x, sizing='same', method='repr'), [2**31 - 1], True, False)

# (b) dot: 3 * (2^31-1)^2 = 1.38e19 > 2^63 ; result s32/0 => overflow (observed: underflow, stored minimum)
a = Fxp([2.0**31 - 1] * 3, True, 32, 0); b = Fxp([2.0**31 - 1] * 3, True, 32, 0)
expect("dot(a, b, sizing='same')", fxpmath.dot(a, b, sizing='same'), [2**31 - 1], True, False)
expect('np.dot(a, b, out=s48/0)', np.dot(a, b, out=Fxp(None, True, 48, 0)), [2**47 - 1], True, False)

# (c) sum / cumsum of a long array: 16384 * 2^50 = 2^64 ; result s52/0 => overflow (observed: 0, no flag)
v = Fxp(np.full(16384, 2.0**50), True, 52, 0)
expect("sum(v, sizing='same')", fxpmath.sum(v, sizing='same'), [2**51 - 1], True, False)
expect('v.sum(out=s52/0)', v.sum(out=Fxp(None, True, 52, 0)), [2**51 - 1], True, False)
expect("cumsum(v, sizing='same')[-1]", fxpmath.cumsum(v, sizing='same')[-1], [2**51 - 1], True, False)

# (d) floordiv: floor(2^20 / (2^34 + 2^-8)) = 0, fits everywhere => no flag at all (observed: overflow, stored maximum)
p = Fxp(2.0**20, True, 52, 30); q = Fxp(2.0**34 + 2.0**-8, True, 52, 8)
assert not any(p.status.values()) and not any(q.status.values())
expect("floordiv(p, q, sizing='same')", fxpmath.floordiv(p, q, sizing='same'), [0], False, False)
expect('floordiv(p, q, out=s52/30)', fxpmath.floordiv(p, q, out=Fxp(None, True, 52, 30)), [0], False, False)

if bad:
    print('VIOLATION (C04 overflow/underflow "iff", arithmetic results written to core-domain objects):')
    for l in bad: print('  ', l)
    sys.exit(1)
print('ok')
