"""C04 / CE3: clip() with a bound that is not representable in the format: whether the inaccuracy flag is raised depends on the
ORDER of the elements (the raw kernel's np.vectorize infers its output type from the first element; if that one is not clipped the
clipped bounds of later elements are cast to int64 - truncated - before the write, so the write cannot see that anything was lost).
"""
import sys, warnings
import numpy as np
import fxpmath
from fxpmath import Fxp
warnings.simplefilter('ignore')
bad = []
# clip([1, 2], 0, 1.3) = [1, 1.3]; 1.3 * 2^8 = 332.8 is not a code of s16/8: the stored 332/256 = 1.296875 != 1.3 => inaccuracy
for tag, f in [('fxpmath.clip', lambda x: fxpmath.clip(x, 0, 1.3)), ('np.clip', lambda x: np.clip(x, 0, 1.3)), ('x.clip', lambda x: x.clip(0, 1.3))]:
    z1 = f(Fxp([1.0, 2.0], True, 16, 8))
    z2 = f(Fxp([2.0, 1.0], True, 16, 8))
    c1, c2 = np.asarray(z1.val).tolist(), np.asarray(z2.val).tolist()
    if sorted(c1) != sorted(c2) or c1 != [256, 332]:
        bad.append('%s: unexpected codes %s %s' % (tag, c1, c2))
    if not z1.status['inaccuracy'] or not z2.status['inaccuracy']:
        bad.append('%-13s clip([1,2],0,1.3) -> codes %s inaccuracy=%s ; clip([2,1],0,1.3) -> codes %s inaccuracy=%s ; expected True for both (1.296875 != 1.3)'
                   % (tag, c1, z1.status['inaccuracy'], c2, z2.status['inaccuracy']))
if bad:
    print('VIOLATION (C04 inaccuracy "iff", result of clip):')
    for l in bad: print('  ', l)
    sys.exit(1)
print('ok')
