"""C04 / CE4: raw write of an unsigned NumPy integer >= 2^63: the code is far above the maximum of the word, but the value is
re-interpreted as a negative int64: the UNDERFLOW flag / callback is raised and the minimum is stored; the overflow flag stays down."""
import sys, warnings
import numpy as np
from fxpmath import Fxp
warnings.simplefilter('ignore')
class CB:
    def __init__(s): s.log = []
    def on_status_overflow(s, o): s.log.append('overflow')
    def on_status_underflow(s, o): s.log.append('underflow')
    def on_status_inaccuracy(s, o): s.log.append('inaccuracy')
    def on_value_change(s, o): s.log.append('value_change')
bad = []
def check(tag, carrier, signed, exp_codes):
    cb = CB()
    x = Fxp(None, signed, 16, 4, callbacks=[cb]); cb.log.clear()
    x.set_val(carrier, raw=True)
    got = (np.asarray(x.val).ravel().tolist(), x.status['overflow'], x.status['underflow'], sorted(cb.log))
    exp = (exp_codes, True, False, ['inaccuracy', 'overflow', 'value_change'])
    if got != exp: bad.append('%-40s observed %s   expected %s' % (tag, got, exp))
check('np.uint64(2^63+5) -> s16/4', np.uint64(2**63 + 5), True, [32767])
check('uint64 array [2^63+5, 3] -> u16/4', np.array([2**63 + 5, 3], dtype=np.uint64), False, [65535, 3])
check('list of np.uint64 -> s16/4', [np.uint64(2**64 - 1), np.uint64(1)], True, [32767, 1])
# controls (handled): the same code as a python integer, and a uint64 below 2^63
cb = CB(); x = Fxp(None, True, 16, 4); x.set_val(2**63 + 5, raw=True)
assert x.status['overflow'] and not x.status['underflow']
x = Fxp(None, True, 16, 4); x.set_val(np.uint64(2**40), raw=True)
assert x.status['overflow'] and not x.status['underflow']
if bad:
    print('VIOLATION (C04 overflow / underflow "iff", raw write of uint64 >= 2^63):')
    for l in bad: print('  ', l)
    sys.exit(1)
print('ok')
