"""C05 counterexample 1: an object-dtype NumPy array whose FIRST element is a Python int
(or a narrow NumPy scalar) has all its other elements cast to the type of that first element
before they are rounded: representable values are changed, floor/ceil/around contracts are
broken, and no inaccuracy flag is raised.
Exits 1 when the violation is present, 0 otherwise."""
import sys
from fractions import Fraction as F
import numpy as np
from fxpmath import Fxp

bad = []

def oracle(v, n_frac, mode):
    s = F(v) * F(2) ** n_frac
    fl = s.numerator // s.denominator
    if s.denominator == 1: return fl
    if mode == 'floor': return fl
    if mode == 'ceil': return fl + 1
    if mode in ('trunc', 'fix'): return fl if s > 0 else fl + 1
    d = s - fl
    return fl if d < F(1, 2) or (d == F(1, 2) and fl % 2 == 0) else fl + 1

# (a) representable values are not stored unchanged (s8/2: 2.5 = code 10, 0.25 = code 1, -0.75 = code -3)
vals = [1, 2.5, 0.25, -0.75]
for mode in ('trunc', 'around', 'floor', 'fix', 'ceil'):
    for ovf in ('saturate', 'wrap'):
        x = Fxp(np.array(vals, dtype=object), True, 8, 2, rounding=mode, overflow=ovf)
        got = [int(c) for c in x.val]
        exp = [oracle(v, 2, mode) for v in vals]
        if got != exp or x.status['inaccuracy']:
            bad.append('s8/2 %s/%s object array %r: codes %r, expected %r (all representable), inaccuracy=%s'
                       % (mode, ovf, vals, got, exp, x.status['inaccuracy']))

# (b) direction contracts on s8/0
vals = [1, 2.5, -2.5]
for mode in ('floor', 'ceil', 'around'):
    x = Fxp(np.array(vals, dtype=object), True, 8, 0, rounding=mode)
    got = [int(c) for c in x.val]
    exp = [oracle(v, 0, mode) for v in vals]
    if got != exp:
        bad.append('s8/0 %s object array %r: codes %r, expected %r, inaccuracy=%s' % (mode, vals, got, exp, x.status['inaccuracy']))

# control: the same numbers in a list or a float array are stored correctly
x = Fxp([1, 2.5, 0.25, -0.75], True, 8, 2)
assert [int(c) for c in x.val] == [4, 10, 1, -3]

if bad:
    print('VIOLATION (C05, object array with an int first element):')
    for b in bad: print('  ', b)
    sys.exit(1)
print('ok')
sys.exit(0)
