"""C05 counterexample 2: a fixed-point INPUT whose word is wider than 53 bits (e.g. the exact product
of two 31-bit numbers) is converted to the destination scale with a float64 factor (utils.scale_raw,
n_shift < 0), i.e. rounded to a double BEFORE the rounding mode of the destination is applied.
floor/trunc/fix/ceil directions are violated and no inaccuracy flag is raised.
Exits 1 when the violation is present, 0 otherwise."""
import sys
from fractions import Fraction as F
import numpy as np
from fxpmath import Fxp

bad = []

def oracle(v, n_frac, mode):
    s = F(v) * F(2) ** n_frac
    fl = s.numerator // s.denominator
    if s.denominator == 1: return fl
    if mode == 'floor': return fl
    if mode == 'ceil': return fl + 1
    if mode in ('trunc', 'fix'): return fl if s > 0 else fl + 1
    d = s - fl
    return fl if d < F(1, 2) or (d == F(1, 2) and fl % 2 == 0) else fl + 1

# natural source: exact product (1 + 2^-28) * (1 - 2^-28) = 1 - 2^-56, held exactly by fxp-s62/56
a = Fxp(1 + 2.0**-28, True, 31, 28)
b = Fxp(1 - 2.0**-28, True, 31, 28)
z = a * b
assert (z.n_word, z.n_frac, int(z.val)) == (62, 56, 2**56 - 1) and not z.status['inaccuracy']
v = F(2**56 - 1, 2**56)          # exact value of z: 0.99999999999999998612..., |v| < 2^53, |v*2^2| < 2^62

def routes(src, mode):
    yield 'Fxp(src, True, 8, 2)', Fxp(src, True, 8, 2, rounding=mode)
    x = Fxp(None, True, 8, 2, rounding=mode); x.set_val(src); yield 'set_val(src)', x
    x = Fxp(None, True, 8, 2, rounding=mode); x.equal(src); yield 'equal(src)', x
    x = Fxp([0.0, 0.0], True, 8, 2, rounding=mode); x[1] = src; yield 'x[1] = src', x[1]
    yield 'src.like(ref)', src.like(Fxp(None, True, 8, 2, rounding=mode))
    y = src.deepcopy(); y.config.rounding = mode; y.resize(True, 8, 2); yield 'resize(True, 8, 2)', y

for mode in ('trunc', 'around', 'floor', 'fix', 'ceil'):
    exp = oracle(v, 2, mode)
    for name, x in routes(z, mode):
        got = int(np.asarray(x.val).ravel()[0])
        if got != exp:
            bad.append('%-20s %-6s v = 1-2^-56: code %d (q=%s), expected %d (q=%s); inaccuracy=%s'
                       % (name, mode, got, got / 4, exp, exp / 4, x.status['inaccuracy']))

# smallest source width: 55-bit signed word, v = 1 + 2^-53 ; ceil must give 1.25
src = Fxp(None, True, 55, 53); src.set_val(2**53 + 1, raw=True)
x = Fxp(src, True, 8, 2, rounding='ceil')
if int(x.val) != 5:
    bad.append('Fxp(s55/53 holding 1+2^-53, s8/2, ceil): code %d (q=%s < v), expected 5 (q=1.25); inaccuracy=%s' % (int(x.val), int(x.val) / 4, x.status['inaccuracy']))
# negative side, floor
src.set_val(-(2**53 + 1), raw=True)
x = Fxp(src, True, 8, 2, rounding='floor')
if int(x.val) != -5:
    bad.append('Fxp(s55/53 holding -(1+2^-53), s8/2, floor): code %d (q=%s > v), expected -5 (q=-1.25); inaccuracy=%s' % (int(x.val), int(x.val) / 4, x.status['inaccuracy']))

if bad:
    print('VIOLATION (C05, fixed-point input of more than 53 bits is rounded to a double first):')
    for b in bad: print('  ', b)
    sys.exit(1)
print('ok')
sys.exit(0)
