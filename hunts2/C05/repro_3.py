"""C05 (borderline) 3: an object that was raw-written with a narrow `vdtype=` keyword: storing this object
(also into itself: x.set_val(x)) casts the RAW CODES to that narrow type: the value changes, no flag.
Exits 1 when the behaviour is present, 0 otherwise."""
import sys
import numpy as np
from fxpmath import Fxp
bad = []
x = Fxp(None, True, 16, 0)
x.set_val(300, raw=True, vdtype=np.int8)        # value 300 (x() returns 300)
assert int(x.val) == 300 and x() == 300
y = x.deepcopy(); y.set_val(y)                  # re-storing the object's own value
if int(y.val) != 300 or y.status['inaccuracy']:
    bad.append('x.set_val(x) with x = 300 in s16/0 (vdtype int8): code %d, expected 300; status %s' % (int(y.val), {k: v for k, v in y.status.items() if v}))
d = Fxp(x, True, 16, 0)
if int(d.val) != 300:
    bad.append('Fxp(x, True, 16, 0): code %d, expected 300' % int(d.val))
s = Fxp(None, True, 16, 4); s.set_val(np.array([4001, -77]), raw=True, vdtype=np.float16)   # 250.0625, -4.8125
d = Fxp(s, True, 16, 4)
if [int(c) for c in d.val] != [4001, -77] or d.status['inaccuracy']:
    bad.append('Fxp(s, True, 16, 4) with s = [250.0625, -4.8125] in s16/4 (vdtype float16): codes %s, expected [4001, -77]; inaccuracy=%s' % ([int(c) for c in d.val], d.status['inaccuracy']))
if bad:
    print('BORDERLINE VIOLATION (C05, raw codes cast to a narrow vdtype of the source):')
    for b in bad: print('  ', b)
    sys.exit(1)
print('ok'); sys.exit(0)
