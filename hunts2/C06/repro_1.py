"""C06 - object array mixing a Python int (first) with floats: the inferred format is right,
but the fractional elements are truncated to integers, silently (no inaccuracy flag)."""
import sys
from fractions import Fraction as F
import numpy as np
from fxpmath import Fxp

vals = [F(1), F(1, 2)]                       # 1 and 0.5 : dyadic, f <= 1
x = Fxp(np.array([1, 0.5], dtype=object))    # nothing specified -> sizes inferred
# oracle: n_frac = 1 (0.5 = 1/2), n_int = 1 (1 <= 2 - 1/2), signed -> s3/1, codes [2, 1]
exp_fmt, exp_raw = (3, 1), [int(v * 2 ** 1) for v in vals]
raw = [int(r) for r in x.val.tolist()]
stored = [F(r, 2 ** x.n_frac) for r in raw]
bad = (x.n_word, x.n_frac) != exp_fmt or stored != vals or x.status['inaccuracy']
print('format', x.dtype, 'codes', raw, 'expected s3/1', exp_raw, 'status', x.status)
if bad:
    print('VIOLATION: stored values', [str(s) for s in stored], '!= supplied', [str(v) for v in vals],
          '(inaccuracy flag = %r)' % x.status['inaccuracy'])
    sys.exit(1)
sys.exit(0)
