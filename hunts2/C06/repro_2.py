"""C06 - object arrays holding narrow NumPy scalars: the size search runs in the element's own
narrow type (wraps / overflows to inf), so the inferred word is too short or the constructor raises."""
import sys, warnings
from fractions import Fraction as F
import numpy as np
from fxpmath import Fxp
warnings.simplefilter('ignore')
bad = False

# (a) int8 elements, only n_frac given: 100 = 200/2 needs n_int = 7 -> s9/1, codes [200, 6]
x = Fxp(np.array([np.int8(100), np.int8(3)], dtype=object), n_frac=1)
raw = [int(r) for r in x.val.tolist()]
print('(a)', x.dtype, raw, x.status, ' expected fxp-s9/1 [200, 6] no flag')
if (x.n_word, x.n_frac) != (9, 1) or raw != [200, 6] or x.status['inaccuracy'] or x.status['overflow']:
    bad = True

# (b) int32 elements: 2**30 with n_frac=10 needs n_int = 31 -> s42/10
x = Fxp(np.array([np.int32(2**30), np.int32(3)], dtype=object), n_frac=10)
raw = [int(r) for r in x.val.tolist()]
print('(b)', x.dtype, raw, x.status, ' expected fxp-s42/10 [%d, 3072] no flag' % (2**40))
if (x.n_word, x.n_frac) != (42, 10) or raw != [2**40, 3072]:
    bad = True

# (c) float16 elements, nothing given: 2048 and 1/32 -> n_frac 5, n_int 12 -> s18/5, codes [65536, 1]
try:
    x = Fxp(np.array([np.float16(2048), np.float16(0.03125)], dtype=object))
    raw = [int(r) for r in x.val.tolist()]
    print('(c)', x.dtype, raw, x.status, ' expected fxp-s18/5 [65536, 1]')
    if (x.n_word, x.n_frac) != (18, 5) or raw != [65536, 1]:
        bad = True
except Exception as e:
    print('(c) raised %s: %s   expected fxp-s18/5 [65536, 1]' % (type(e).__name__, e))
    bad = True

# (d) float32 first element decides the type all elements are cast to: 1000 + 2^-20 loses its last bit, silently
x = Fxp(np.array([np.float32(0.5), 1000 + 2**-20], dtype=object))
raw = [int(r) for r in x.val.tolist()]
print('(d)', x.dtype, raw, x.status, ' expected fxp-s31/20 [524288, 1048576001] no flag')
if (x.n_word, x.n_frac) != (31, 20) or raw != [524288, 1048576001]:
    bad = True

if bad:
    print('VIOLATION')
    sys.exit(1)
sys.exit(0)
