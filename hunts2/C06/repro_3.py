"""C06 - only n_frac given, and negative: the word search shifts by n_frac and raises
ValueError('negative shift count') instead of inferring the minimal word."""
import sys
import numpy as np
from fxpmath import Fxp
bad = False
# 8 = 1 * 2^3 is exact with n_frac = -3; signed: -2^n <= 8 <= 2^n - 8 -> n_int = 4 -> n_word = 4 - 3 + 1 = 2
# (the library itself infers exactly this format when only the word is given: Fxp(8, n_word=2) -> fxp-s2/-3,
#  and accepts it when n_int is given with it: Fxp(8, n_int=4, n_frac=-3) -> fxp-s2/-3)
for label, v, kw, exp in [('Fxp(8, n_frac=-3)', 8, dict(n_frac=-3), (2, -3, [1])),
                          ('Fxp(8.0, n_frac=-3)', 8.0, dict(n_frac=-3), (2, -3, [1])),
                          ('Fxp([8, -16], n_frac=-3)', [8, -16], dict(n_frac=-3), (2, -3, [1, -2])),
                          ('Fxp(np.array([1024.]), n_frac=-10, signed=False)', np.array([1024.]), dict(n_frac=-10, signed=False), (1, -10, [1]))]:
    try:
        x = Fxp(v, **kw)
        raw = [int(r) for r in np.asarray(x.val).ravel().tolist()]
        ok = (x.n_word, x.n_frac, raw) == exp and not x.status['inaccuracy']
        print(label, '->', x.dtype, raw, 'expected', exp, 'OK' if ok else 'WRONG')
        bad |= not ok
    except Exception as e:
        print(label, '-> raised %s: %s   expected word/frac/codes %r' % (type(e).__name__, e, exp))
        bad = True
sys.exit(1 if bad else 0)
