"""C06 (route: the anchored method called directly with its own default arguments) -
set_best_sizes() defaults to max_error=1e-6 (the constructor passes config.max_error = 2^-63):
2^-20 < 1e-6, so values with f = 20 lose their last fraction bit(s)."""
import sys
from fractions import Fraction as F
from fxpmath import Fxp
bad = False
for v, exp in [(0.5 + 2**-20, (21, 20)), (2**-20, (21, 20)), (3 + 2**-19 + 2**-20, (23, 20))]:
    x = Fxp(0.5)
    x.set_best_sizes(v)
    x.status['inaccuracy'] = False
    x.set_val(v)
    stored = F(int(x.val), 2 ** x.n_frac)
    ok = (x.n_word, x.n_frac) == exp and stored == F(v) and not x.status['inaccuracy']
    print('set_best_sizes(%r) -> %s, stored %s, inaccuracy=%r; expected s%d/%d exact; constructor gives %s'
          % (v, x.dtype, stored, x.status['inaccuracy'], exp[0], exp[1], Fxp(v).dtype), 'OK' if ok else 'WRONG')
    bad |= not ok
sys.exit(1 if bad else 0)
