"""BORDERLINE (not claimed as an in-scope counterexample): operands with linear scaling (scale / bias).
x + y of two Fxp objects where one is scaled: exits 1 and prints the discrepancy if present, 0 otherwise."""
import sys
from fractions import Fraction
from fxpmath import Fxp

bad = []
# u3.1 operands, code 7.  x is scaled by 4: value 7/2*4 = 14.  y is plain: value 3.5.  exact sum: 17.5
x = Fxp(None, signed=False, n_word=3, n_frac=1, scale=4); x.set_val(7, raw=True)
y = Fxp(None, signed=False, n_word=3, n_frac=1); y.set_val(7, raw=True)
assert Fraction(float(x())) == 14 and Fraction(float(y())) == Fraction(7, 2)
exact = Fraction(35, 2)
for name, z in (('x + y (scaled on the left)', x + y), ('y + x (scaled on the right)', y + x)):
    got = Fraction(float(z()))
    if got != exact or z.status['overflow'] or z.status['underflow']:
        bad.append('%s: got %s in %s status %s, exact sum of the operand values is %s' % (name, got, z.dtype, z.status, exact))
# bias only: xb = code 5 with bias 100 -> value 105; yb = 5; exact sum 110
xb = Fxp(None, signed=True, n_word=8, n_frac=0, bias=100); xb.set_val(5, raw=True)
yb = Fxp(5, signed=True, n_word=8, n_frac=0)
for name, z in (('xb + yb', xb + yb), ('yb + xb', yb + xb)):
    got = Fraction(float(z()))
    if got != 110:
        bad.append('%s: got %s in %s status %s, exact sum of the operand values is 110' % (name, got, z.dtype, z.status))
for b in bad: print(b)
sys.exit(1 if bad else 0)
