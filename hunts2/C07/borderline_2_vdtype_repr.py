"""BORDERLINE (not claimed as an in-scope counterexample): value-based method (op_method='repr') on an operand whose
value dtype was explicitly set to a narrow float (set_val(..., raw=True, vdtype=np.float32)).
Exits 1 and prints the discrepancy if present, 0 otherwise."""
import sys
from fractions import Fraction
import numpy as np
from fxpmath import Fxp

x = Fxp(0, signed=True, n_word=32, n_frac=4)
x.set_val([2**30 + 1], raw=True, vdtype=np.float32)    # stored code 2**30+1 -> value (2**30+1)/16 (an array: a 0-d value is not cast)
y = Fxp(3, signed=True, n_word=8, n_frac=0)
assert int(x.val[0]) == 2**30 + 1
x.config.op_method = 'repr'
z = x + y                                              # optimal sizing: fxp-s33/4, 33 bits <= 53
exact = Fraction(2**30 + 1, 16) + 3
got = Fraction(int(z.val[0]), 2**z.n_frac)
if got != exact:
    print('x + y (repr, vdtype float32): got %s (code %d, %s, status %s), exact %s' % (got, int(z.val[0]), z.dtype, z.status, exact))
    sys.exit(1)
sys.exit(0)
