"""Borderline (not counted): value ('repr') method when the exact result needs more than 53 significant bits
(a dyadic constant with 43+ fractional bits under op_input_size='best'): 'raw' is exact, 'repr' forms the result in float64.
Prints the differences; exits 0 always (documentation only)."""
import warnings
from fxpmath import Fxp
warnings.filterwarnings('ignore')
def run(build, c, op):
    out = {}
    for m in ('raw', 'repr'):
        a = build(m)
        z = {'+': lambda: a + c, '-': lambda: a - c, '*': lambda: a * c}[op]()
        out[m] = (z.dtype, int(z.val), z.status['overflow'], z.status['underflow'])
    print(op, c, out, '<-- differ' if out['raw'] != out['repr'] else '')
run(lambda m: Fxp(-2048, True, 12, 0, rounding='trunc', op_input_size='best', op_method=m), 2.0**-43, '+')   # exact -2048+2**-43 -> trunc -2047
run(lambda m: Fxp(2047, True, 12, 0, rounding='floor', op_input_size='best', op_method=m), 2.0**-50, '-')    # floor -> 2046
run(lambda m: Fxp(191.0, False, 9, 1, rounding='floor', op_input_size='best', op_method=m), -17 / 2.0**56, '+')
run(lambda m: Fxp(10, True, 12, 0, rounding='ceil', op_input_size='best', op_method=m), 0.1, '*')            # 0.1 = 3602879701896397/2**55
# same root cause as counterexample 3 of the previous report (utils.wrap casts a float >= 2**63 to int64), reached with a NARROW target through a large constant:
run(lambda m: Fxp(2048.0, False, 12, 0, overflow='wrap', op_input_size='best', op_method=m), 2**52 + 1, '*')  # exact 2**63 + 2**11 -> mod 2**13 = 2048
