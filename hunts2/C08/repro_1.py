"""C08 counterexample 1: value ('repr') method into a wide out / out_like target (signed word >= 55, unsigned word >= 54):
when the exact result is exactly one LSB above the upper bound of the target (scaled value == 2**(n_word-1), resp. 2**n_word),
the overflow flag is NOT set (the stored code is right).  The 'raw' method sets it -> raw and repr differ, flags not 'set accordingly'.
Exits 1 when the violation is present."""
import sys, warnings
from fractions import Fraction
import fxpmath
from fxpmath import Fxp
warnings.filterwarnings('ignore')

def oracle(exact, signed, n_word, n_frac, overflow):
    r = exact * Fraction(2) ** n_frac
    assert r.denominator == 1          # exact in the target grid: no rounding involved
    r = int(r)
    lo, hi = (-(1 << (n_word - 1)), (1 << (n_word - 1)) - 1) if signed else (0, (1 << n_word) - 1)
    ovf, unf = r > hi, r < lo
    if overflow == 'saturate':
        c = min(max(r, lo), hi)
    else:
        c = r % (1 << n_word)
        if signed and c >= 1 << (n_word - 1):
            c -= 1 << n_word
    return c, ovf, unf

bad = 0
cases = [
    # (x value, x fmt, y value, y fmt, op, target fmt)
    (1.0, (True, 4, 1), 1.0, (True, 4, 1), 'add', (True, 60, 58)),      # 1 + 1 = 2 = upper + LSB of s60/58
    (0.5, (True, 2, 1), 0.0, (True, 2, 1), 'add', (True, 62, 62)),      # 0.5 = upper + LSB of s62/62
    (2.0, (True, 4, 0), 1.0, (True, 4, 0), 'mul', (True, 55, 53)),
    (1.0, (True, 4, 0), -1.0, (True, 4, 0), 'sub', (True, 63, 61)),
    (2.0, (False, 4, 1), 2.0, (False, 4, 1), 'add', (False, 54, 52)),   # 4 = upper + LSB of u54/52
    (1.0, (True, 4, 1), 1.0, (True, 4, 1), 'add', (True, 64, 62)),      # scalars: also for words >= 64
]
for xv, xf, yv, yf, op, tf in cases:
    exact = {'add': Fraction(xv) + Fraction(yv), 'sub': Fraction(xv) - Fraction(yv), 'mul': Fraction(xv) * Fraction(yv)}[op]
    for ov in ('saturate', 'wrap'):
        exp = oracle(exact, tf[0], tf[1], tf[2], ov)
        got = {}
        for method in ('raw', 'repr'):
            x = Fxp(xv, *xf); y = Fxp(yv, *yf)
            z = getattr(fxpmath, op)(x, y, out=Fxp(None, tf[0], tf[1], tf[2], overflow=ov), method=method)
            got[method] = (int(z.val), bool(z.status['overflow']), bool(z.status['underflow']))
        for method in ('raw', 'repr'):
            if got[method] != exp:
                bad += 1
                print('%s %s %s -> %s%d/%d %s, method=%s: got (code, overflow, underflow) = %s, expected %s'
                      % (xv, op, yv, 's' if tf[0] else 'u', tf[1], tf[2], ov, method, got[method], exp))
# operator route with an out_like template and a constant
a = Fxp(1.0, True, 4, 1, op_method='repr'); a.config.op_out_like = Fxp(None, True, 60, 58)
z = a + 1.0
if not z.status['overflow']:
    bad += 1
    print('operator route: Fxp(1.0, s4/1, op_method=repr) + 1.0 into op_out_like s60/58: code %d, overflow flag %s (expected 2**59-1, True)' % (int(z.val), z.status['overflow']))
print('violations:', bad)
sys.exit(1 if bad else 0)
