"""C08 counterexample 2: value ('repr') method, integer-valued operand times an integer constant of 52+ bits (op_input_size='best'):
the product is formed by np.multiply on two int64 arrays and wraps around silently at 2**63.
The result lands on the opposite saturation bound with the underflow flag (saturate) / carries the wrong flag (wrap); 'raw' is right.
Exits 1 when the violation is present."""
import sys, warnings
from fractions import Fraction
from fxpmath import Fxp
warnings.filterwarnings('ignore')

def oracle(exact, signed, n_word, n_frac, overflow):
    r = exact * Fraction(2) ** n_frac
    assert r.denominator == 1
    r = int(r)
    lo, hi = (-(1 << (n_word - 1)), (1 << (n_word - 1)) - 1) if signed else (0, (1 << n_word) - 1)
    ovf, unf = r > hi, r < lo
    if overflow == 'saturate':
        c = min(max(r, lo), hi)
    else:
        c = r % (1 << n_word)
        if signed and c >= 1 << (n_word - 1):
            c -= 1 << n_word
    return c, ovf, unf

bad = 0
cases = [
    # operand (built from a python int: integer valued), its format, constant
    (2048, (False, 12, 0), 2**52),          # exact 2**63 (one significant bit)
    (2048, (False, 12, 0), 2**52 + 1),
    (2047, (True, 12, 0), 2**53),
    (-1500, (True, 12, 0), 2**53 + 2**20),
    (200, (False, 8, 0), 2**56),
]
for av, af, c in cases:
    for ov in ('saturate', 'wrap'):
        # constant converted by Fxp(c): signed integer format, exact -> the result format ('same' on a signed/unsigned pair) is signed, n_int and n_frac of a
        n_int = af[1] - af[2] - int(af[0])
        ef = (True, 1 + n_int + af[2], af[2])
        exp = oracle(Fraction(av) * Fraction(c), ef[0], ef[1], ef[2], ov)
        for method in ('raw', 'repr'):
            a = Fxp(av, af[0], af[1], af[2], overflow=ov, op_input_size='best', op_method=method)
            k = Fxp(c)
            assert int(k.val) == c and k.n_frac == 0      # the constant itself is converted exactly
            z = a * c
            got = (int(z.val), bool(z.status['overflow']), bool(z.status['underflow']))
            assert (bool(z.signed), z.n_word, z.n_frac) == ef, z.dtype
            if got != exp:
                bad += 1
                print('Fxp(%d, %s%d/%d, %s, op_input_size=best) * %d, method=%s: got (code, overflow, underflow) = %s, expected %s'
                      % (av, 's' if af[0] else 'u', af[1], af[2], ov, c, method, got, exp))
print('violations:', bad)
sys.exit(1 if bad else 0)
