"""C08 counterexample 3 (variant of #3 of the previous report, whose root cause utils.wrap is still present):
value ('repr') method, overflow='wrap' on the governing configuration, float-valued operand and a large dyadic constant (op_input_size='best').
The exact result is exactly representable in float64 (<= 53 significant bits) but its scaled value is >= 2**63: utils.wrap casts the float to int64
(undefined -> INT64_MIN) and stores 0 instead of the two's-complement wrap.  New here: the target is NARROW (the operand's own 12/13-bit format,
const_op_sizing='same'), no wide out / out_like is involved.  'raw' is right.  Exits 1 when the violation is present."""
import sys, warnings
from fractions import Fraction
from fxpmath import Fxp
warnings.filterwarnings('ignore')

def wrap_oracle(exact, n_word, n_frac):
    r = exact * Fraction(2) ** n_frac
    assert r.denominator == 1
    r = int(r); lo, hi = -(1 << (n_word - 1)), (1 << (n_word - 1)) - 1
    c = r % (1 << n_word)
    if c >= 1 << (n_word - 1): c -= 1 << n_word
    return c, r > hi, r < lo

bad = 0
for av, af, c, op in [(2048.0, (False, 12, 0), 2**52 + 1, '*'),      # exact 2**63 + 2**11  (53 significant bits)
                      (1024.0, (False, 12, 1), 2.0**62, '+'),         # exact 2**62 + 1024, scaled by 2: 2**63 + 2**11
                      (-3.0, (True, 12, 0), 2**62 + 2**11, "*")]:     # exact -(3*2**62 + 3*2**11)
    n_int = af[1] - af[2] - int(af[0]); ef = (True, 1 + n_int + af[2], af[2])
    exact = Fraction(av) * Fraction(c) if op == '*' else Fraction(av) + Fraction(c)
    assert Fraction(float(exact)) == exact           # the exact result is a double
    exp = wrap_oracle(exact, ef[1], ef[2])
    for method in ('raw', 'repr'):
        a = Fxp(av, af[0], af[1], af[2], overflow='wrap', op_input_size='best', op_method=method)
        k = Fxp(c); assert Fraction(int(k.val)) / Fraction(2) ** k.n_frac == Fraction(c)     # constant converted exactly
        z = a * c if op == '*' else a + c
        assert (bool(z.signed), z.n_word, z.n_frac) == ef, z.dtype
        got = (int(z.val), bool(z.status['overflow']), bool(z.status['underflow']))
        if got != exp:
            bad += 1
            print('Fxp(%r, %s%d/%d, wrap, best) %s %r, method=%s: got (code, overflow, underflow) = %s, expected %s' % (av, 's' if af[0] else 'u', af[1], af[2], op, c, method, got, exp))
print('violations:', bad)
sys.exit(1 if bad else 0)
