"""C09 counterexample 1: x // y stored in a destination with fraction bits (out=, out_like=, config.op_out_like,
np.floor_divide(..., out=), sizing='fit'/'same'/'largest', or a reflected float constant with op_input_size='best')
wraps around in int64: the raw kernel aligns both codes to the destination's n_frac without widening.
Operands and result are all <= 53 bits; floor(x/y) is exactly representable in the destination."""
import sys, warnings
from fractions import Fraction as F
from math import floor
import numpy as np
from fxpmath import Fxp
from fxpmath import functions as fn
warnings.filterwarnings('ignore')

bad = []
def check(label, z, X, Y):
    exp = floor(F(X) / F(Y))
    got = F(int(z.val)) / F(2) ** z.n_frac
    lo = -(1 << (z.n_word - 1)) if z.signed else 0
    hi = (1 << (z.n_word - 1)) - 1 if z.signed else (1 << z.n_word) - 1
    assert lo <= exp * 2 ** z.n_frac <= hi, 'expected value must be representable'
    if got != exp:
        bad.append('%-42s %s: got %s expected floor(%s / %s) = %s' % (label, z.dtype, got, X, Y, exp))

# x = 8192, y = 4096 (both s16/0), destination s53/50 holds [-4, 4): floor(x/y) = 2
x = Fxp(8192, signed=True, n_word=16, n_frac=0)
y = Fxp(4096, signed=True, n_word=16, n_frac=0)
dest = Fxp(0, signed=True, n_word=53, n_frac=50)
check('floordiv(x, y, out_like=s53/50)', fn.floordiv(x, y, out_like=dest), 8192, 4096)
check('floordiv(x, y, out=s53/50)', fn.floordiv(x, y, out=Fxp(0, signed=True, n_word=53, n_frac=50)), 8192, 4096)
check('np.floor_divide(x, y, out=s53/50)', np.floor_divide(x, y, out=Fxp(0, signed=True, n_word=53, n_frac=50)), 8192, 4096)
xc = Fxp(8192, signed=True, n_word=16, n_frac=0); xc.config.op_out_like = dest
check('x // y with config.op_out_like', xc // y, 8192, 4096)
check('same destination, method="repr" (control)', fn.floordiv(x, y, out_like=dest, method='repr'), 8192, 4096)

# sizing='same': x = 1.5 in s53/50, y = 8192 in s16/0 -> floor = 0, stored in x's format
x2 = Fxp(1.5, signed=True, n_word=53, n_frac=50)
y2 = Fxp(8192, signed=True, n_word=16, n_frac=0)
check("floordiv(x, y, sizing='same')", fn.floordiv(x2, y2, sizing='same'), F(3, 2), 8192)

# sizing='fit': x = 2^28 + 1 (s30/0), y = 2^16 (code 2^51 in s53/35): floor = 4096, a 49-bit result
x3 = Fxp(2**28 + 1, signed=True, n_word=30, n_frac=0)
y3 = Fxp(2**51, signed=True, n_word=53, n_frac=35, raw=True)
z3 = fn.floordiv(x3, y3, sizing='fit')
got3 = F(int(z3.val)) / F(2) ** z3.n_frac
if got3 != 4096:
    bad.append("%-42s %s: got %s expected floor((2^28+1) / 2^16) = 4096" % ("floordiv(x, y, sizing='fit')", z3.dtype, got3))

# reflected float constant with op_input_size='best' (constant sizing 'same' = the constant's own format)
y4 = Fxp(-2**39, signed=True, n_word=40, n_frac=1, raw=True, op_input_size='best')      # -2^38
z4 = 7.99931316630682 // y4
exp4 = floor(F(7.99931316630682) / F(-2**38))
got4 = F(int(z4.val)) / F(2) ** z4.n_frac
if got4 != exp4:
    bad.append("%-42s %s: got %s expected %s" % ("7.99931316630682 // y (op_input_size='best')", z4.dtype, got4, exp4))

if bad:
    print('VIOLATION (C09, floor division is not exact):')
    for b in bad: print('  ' + b)
    sys.exit(1)
print('ok')
sys.exit(0)
