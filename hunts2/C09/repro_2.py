"""C09 counterexample 2: x // y (optimal sizing, result word <= 53 bits) is not floor(x/y) when an operand word is wider
than 53 bits: the raw kernel scales the codes by 2**(-n_frac), a Python float, so the code is rounded to a double before
the division (and int64 // uint64 of a mixed-signedness pair is promoted to float64 as well)."""
import sys, warnings
from fractions import Fraction as F
from math import floor
from fxpmath import Fxp
warnings.filterwarnings('ignore')

bad = []
def run(label, fx, a, fy, b):
    x = Fxp(a, signed=fx[0], n_word=fx[1], n_frac=fx[2], raw=True)
    y = Fxp(b, signed=fy[0], n_word=fy[1], n_frac=fy[2], raw=True)
    assert int(x.val) == a and int(y.val) == b
    X = F(a) / F(2) ** fx[2]; Y = F(b) / F(2) ** fy[2]
    q = x // y; m = x % y
    assert q.n_word <= 53
    Q = F(int(q.val)) / F(2) ** q.n_frac; M = F(int(m.val)) / F(2) ** m.n_frac
    if Q != floor(X / Y):
        bad.append('%s: x//y -> %s (%s), expected %s' % (label, Q, q.dtype, floor(X / Y)))
    if Q * Y + M != X:
        bad.append('%s: (x//y)*y + x%%y = %s differs from x = %s' % (label, Q * Y + M, X))

# x = 3 - 2^-52 in s56/52, y = 3 in s4/0: floor(x/y) = 0 (result format s5/0)
run('s56/52 // s4/0 ', (True, 56, 52), 3 * 2**52 - 1, (True, 4, 0), 3)
# x = 250 - 2^-50 in s60/50, y = 1.25 in s8/2: floor(x/y) = 199 (result format s13/0)
run('s60/50 // s8/2 ', (True, 60, 50), 250 * 2**50 - 1, (True, 8, 2), 5)
# both signed, divisor with a (small) negative n_frac
run('s60/11 // s41/-6', (True, 60, 11), 432345564227567617, (True, 41, -6), -1099511627776)
# mixed signedness, no fraction bits at all: int64 // uint64 is promoted to float64.  x = 2^54 - 1 (s55/0), y = 8 (u4/-3)
run('s55/0 // u4/-3 ', (True, 55, 0), 2**54 - 1, (False, 4, -3), 1)

if bad:
    print('VIOLATION (C09, floor division with an operand wider than 53 bits, result word <= 53):')
    for b in bad: print('  ' + b)
    sys.exit(1)
print('ok'); sys.exit(0)
