"""C09 counterexample 3: x // y with the default (optimal) sizing raises ValueError('negative shift count') for operand
formats whose quotients are all below one in magnitude: the size rule n_int = x.n_int + y.n_frac + signed, n_frac = 0
gives a word of 0 or fewer bits, although floor(x/y) is 0 or -1 (one bit is needed)."""
import sys, warnings
from fractions import Fraction as F
from math import floor
from fxpmath import Fxp
warnings.filterwarnings('ignore')

bad = []
def run(fx, a, fy, b, method):
    x = Fxp(a, signed=fx[0], n_word=fx[1], n_frac=fx[2], raw=True, op_method=method)
    y = Fxp(b, signed=fy[0], n_word=fy[1], n_frac=fy[2], raw=True)
    X = F(a) / F(2) ** fx[2]; Y = F(b) / F(2) ** fy[2]
    exp = floor(X / Y)
    try:
        q = x // y
        got = F(int(q.val)) / F(2) ** q.n_frac
        if got != exp:
            bad.append('%s // %s (%s): %s / %s -> %s (%s), expected %s' % (x.dtype, y.dtype, method, X, Y, got, q.dtype, exp))
    except Exception as e:
        bad.append('%s // %s (%s): %s // %s raised %r, expected %s' % (x.dtype, y.dtype, method, X, Y, e, exp))

for method in ('raw', 'repr'):
    run((True, 5, 6), -3, (True, 5, 0), 2, method)      # -3/64 // 2  = -1   (dividend with n_frac = n_word + 1)
    run((False, 3, 4), 3, (False, 3, 0), 2, method)     # 3/16 // 2   = 0
    run((True, 2, 1), -1, (False, 1, -2), 1, method)    # -0.5 // 4   = -1   (divisor with a negative n_frac)
    run((False, 1, 0), 1, (False, 2, -3), 3, method)    # 1 // 24     = 0

if bad:
    print('VIOLATION (C09, x // y must equal floor(x/y) for every pair of operand formats):')
    for b in bad: print('  ' + b)
    sys.exit(1)
print('ok'); sys.exit(0)
