"""C09 counterexample 4: x // y with optimal sizing, both operand words and the result word <= 53 bits, wraps in int64
when the divisor has a negative n_frac with y.n_word - y.n_frac >= 65 (the divisor's code is multiplied by 2**(-n_frac)
inside int64 / uint64). Raw and repr disagree."""
import sys, warnings
from fractions import Fraction as F
from math import floor
from fxpmath import Fxp
warnings.filterwarnings('ignore')

bad = []
def run(fx, a, fy, b):
    res = {}
    for method in ('raw', 'repr'):
        x = Fxp(a, signed=fx[0], n_word=fx[1], n_frac=fx[2], raw=True, op_method=method)
        y = Fxp(b, signed=fy[0], n_word=fy[1], n_frac=fy[2], raw=True)
        X = F(a) / F(2) ** fx[2]; Y = F(b) / F(2) ** fy[2]
        q = x // y
        assert q.n_word <= 53
        res[method] = (F(int(q.val)) / F(2) ** q.n_frac, q.dtype)
    exp = floor(X / Y)
    if res['raw'][0] != exp or res['repr'][0] != exp:
        bad.append('%s // %s: raw %s, repr %s, expected %s (result %s)' % (x.dtype, y.dtype, res['raw'][0], res['repr'][0], exp, res['raw'][1]))

run((True, 53, 0), 2**51 + 12345, (True, 53, -12), 2**51 + 7)       # floor((2^51+12345) / ((2^51+7)*4096)) = 0
run((True, 50, 0), 2**48 + 12345, (True, 40, -30), 2**38 + 7)
run((False, 53, 0), 2**52 + 1, (False, 53, -12), 2**52 + 1)

if bad:
    print('VIOLATION (C09, floor division with a negative divisor n_frac wraps in int64):')
    for b in bad: print('  ' + b)
    sys.exit(1)
print('ok'); sys.exit(0)
