# C10 counterexample 1: a source whose vdtype is a narrow NumPy type (set through the documented keyword
# set_val(..., raw=True, vdtype=...)) is converted differently by the constructor / like= / set_val / d[i]=s[i]
# routes than by resize / like() / equal(): the shifted raw codes are cast to the SOURCE's vdtype
# (objects.py:681 -> objects.py:903) and wrap around (int8/int16/int32) or lose bits (float16/float32).
import sys, warnings
warnings.simplefilter("ignore")
import numpy as np
from fractions import Fraction
from fxpmath import Fxp

bad = []

def expected(codes, sf, df, lo, hi):
    out = []
    for c in codes:
        q = Fraction(c) * Fraction(2) ** (df - sf)
        assert q.denominator == 1          # no rounding involved in these examples
        out.append(max(lo, min(hi, int(q))))  # saturate
    return out

def run(vd, codes, s_fmt, d_fmt):
    ss, sw, sf = s_fmt; ds, dw, df = d_fmt
    src = Fxp(None, ss, sw, sf)
    src.set_val(np.array(codes), raw=True, vdtype=vd)
    assert [int(c) for c in src.val] == codes
    lo, hi = (-(1 << (dw - 1)), (1 << (dw - 1)) - 1) if ds else (0, (1 << dw) - 1)
    exp = expected(codes, sf, df, lo, hi)
    tmpl = Fxp(None, ds, dw, df)
    def by_elem():
        d = Fxp(np.zeros(len(codes)), ds, dw, df)
        for i in range(len(codes)): d[i] = src[i]
        return d
    def by_resize():
        c = src.deepcopy(); c.resize(ds, dw, df); return c
    routes = [('Fxp(src, s, w, f)', lambda: Fxp(src, ds, dw, df)),
              ('Fxp(src, like=t)', lambda: Fxp(src, like=tmpl)),
              ('t.set_val(src)', lambda: Fxp(None, ds, dw, df).set_val(src)),
              ('d[i] = src[i]', by_elem),
              ('src.like(t)', lambda: src.like(tmpl)),
              ('t.equal(src)', lambda: Fxp(None, ds, dw, df).equal(src)),
              ('resize', by_resize)]
    for name, th in routes:
        got = [int(c) for c in np.asarray(th().val).flatten()]
        flag = 'ok ' if got == exp else 'BAD'
        print('  %s vdtype=%-8s %-18s -> %s   expected %s' % (flag, np.dtype(vd).name, name, got, exp))
        if got != exp: bad.append((np.dtype(vd).name, name, got, exp))

# s16/0 -> s24/4 : every value is exactly representable in the destination
run(np.int8,  [-3000, 517, 32767, -32768, 5], (True, 16, 0), (True, 24, 4))
run(np.int16, [-3000, 517, 32767, -32768, 5], (True, 16, 0), (True, 24, 4))
# s32/0 -> s40/8
run(np.int32, [-(1 << 31), (1 << 31) - 1, 123456789, 7], (True, 32, 0), (True, 40, 8))
# narrow floats lose bits of the code: s16/2 -> s24/4 and s32/3 -> s40/8 (identity-valued conversions)
run(np.float16, [32767, -32767, 4097, 5], (True, 16, 2), (True, 24, 4))
run(np.float32, [(1 << 31) - 1, -(1 << 30) - 1, 16777217, 5], (True, 32, 3), (True, 40, 8))

if bad:
    print('\nVIOLATION: %d route results differ from the exactly converted value' % len(bad))
    sys.exit(1)
print('no discrepancy')
sys.exit(0)
