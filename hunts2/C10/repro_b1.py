# C10 borderline B1: a list / tuple of fixed-point objects whose configuration has array_op_method='raw'
# handed to the constructor (or assigned to a slice) loses the fraction of every element, even into the identity format:
# np.array([a, b]) discovers an integer dtype through __array__ (which returns the raw codes in 'raw' mode) and then
# fills the elements through __int__ (the floored value).
import sys, warnings
warnings.simplefilter('ignore')
import numpy as np
from fxpmath import Fxp

a = Fxp(1.5, True, 8, 2, array_op_method='raw')      # code 6
b = Fxp(-2.25, True, 8, 2, array_op_method='raw')    # code -9
s = Fxp([1.5, -2.25], True, 8, 2, array_op_method='raw')
exp = [24, -36]          # 1.5 and -2.25 in s16/4: 6 * 2**2, -9 * 2**2 (exactly representable, no rounding, no overflow)
bad = []
d = Fxp([0.0, 0.0], True, 16, 4); d[0:2] = [s[0], s[1]]
for name, res in [('Fxp([a, b], True, 16, 4)', Fxp([a, b], True, 16, 4)),
                  ('Fxp((a, b), True, 16, 4)', Fxp((a, b), True, 16, 4)),
                  ('Fxp([s[0], s[1]], True, 16, 4)', Fxp([s[0], s[1]], True, 16, 4)),
                  ('Fxp([a, b], True, 8, 2)  (identity format)', Fxp([a, b], True, 8, 2)),
                  ('d[0:2] = [s[0], s[1]]', d)]:
    got = [int(c) for c in res.val]
    e = exp if res.n_frac == 4 else [6, -9]
    print('%-45s codes %s values %s   expected codes %s' % (name, got, res.get_val().tolist(), e))
    if got != e: bad.append(name)
# the same elements one by one (or with the default array_op_method='repr') are converted exactly
d = Fxp([0.0, 0.0], True, 16, 4); d[0] = s[0]; d[1] = s[1]
assert [int(c) for c in d.val] == exp
if bad:
    print('VIOLATION (borderline route): value not preserved for', bad); sys.exit(1)
print('no discrepancy'); sys.exit(0)
