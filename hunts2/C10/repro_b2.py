# C10 borderline B2: value-preserving functions used as a conversion route through out= / out_like= (or config.op_out_like):
# transpose / clip (no bounds) / sort scale the raw codes with a bare int64 product, which wraps around silently when
# code * 2**(n_frac_out - n_frac_src) needs 64 bits or more (the D10 mechanism, repaired in utils.scale_raw for the
# resize / like / equal / constructor routes, is still present in fxpmath/functions.py:653,676,703,715).
import sys, warnings
warnings.simplefilter('ignore')
import numpy as np
import fxpmath
from fxpmath import Fxp

x = Fxp([2**43, 3, -2**43], True, 45, 0)            # s45/0, values [8796093022208, 3, -8796093022208]
t = Fxp(None, True, 52, 20)                          # s52/20, upper = 2**51 - 1 codes  (values up to 2147483647.99...)
hi, lo = 2**51 - 1, -2**51
exp = [hi, 3 * 2**20, lo]                            # exact: 2**43 * 2**20 = 2**63 -> saturates to the upper limit, etc.
ref = [int(c) for c in x.like(t).val]
assert ref == exp, ref
bad = []
def cfg_route():
    c = x.deepcopy(); c.config.op_out_like = t; return c.transpose()
for name, th in [('fxpmath.transpose(x, out_like=t)', lambda: fxpmath.transpose(x, out_like=t)),
                 ('x.transpose(out=Fxp(None, True, 52, 20))', lambda: x.transpose(out=Fxp(None, True, 52, 20))),
                 ('x.config.op_out_like = t; x.transpose()', cfg_route),
                 ('fxpmath.clip(x, out_like=t)', lambda: fxpmath.clip(x, out_like=t)),
                 ('np.sort(x[1:], out_like=t) (sorted already)', lambda: fxpmath.sort(Fxp([3, 2**43], True, 45, 0), out_like=t))]:
    res = th()
    got = [int(c) for c in np.asarray(res.val).flatten()]
    e = exp if len(got) == 3 else [3 * 2**20, hi]
    print('%-48s -> codes %s\n%48s    expected %s (x.like(t) gives %s)' % (name, got, '', e, ref if len(got) == 3 else '-'))
    if got != e: bad.append(name)
if bad:
    print('VIOLATION (borderline route):', bad); sys.exit(1)
print('no discrepancy'); sys.exit(0)
