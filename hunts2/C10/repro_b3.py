# C10 borderline B3 (scale/bias, presumably outside the core domain): after the repair that makes the constructor /
# set_val / d[i]=s[i] convert a fixed-point value through its VALUE when source or destination is scaled,
# equal() and like() still copy the shifted raw code and ignore scale and bias -> the routes disagree.
import sys, warnings
warnings.simplefilter('ignore')
import numpy as np
from fxpmath import Fxp

vals = [1.5, -2.25, 3.0]
bad = []
def report(name, res):
    got = np.asarray(res.get_val()).tolist()
    print('%-40s -> %s' % (name, got))
    if got != vals: bad.append(name)

src = Fxp(vals, True, 8, 2)                                  # plain source
def D(v=None): return Fxp(v, True, 16, 4, scale=2, bias=1)   # scaled destination: value = 2*code/16 + 1 (all three values representable)
print('plain s8/2 source into a scaled s16/4 destination (scale=2, bias=1); expected', vals)
report('Fxp(src, True, 16, 4, scale=2, bias=1)', Fxp(src, True, 16, 4, scale=2, bias=1))
report('Fxp(src, like=D)', Fxp(src, like=D()))
report('D.set_val(src)', D().set_val(src))
d = D([0.0, 0.0, 0.0])
for i in range(3): d[i] = src[i]
report('d[i] = src[i]', d)
report('D.equal(src)', D().equal(src))
report('src.like(D)', src.like(D()))
d = D([0.0, 0.0, 0.0])
for i in range(3): d.equal(src[i], index=i)
report('d.equal(src[i], index=i)', d)

ssrc = D(vals)                                               # scaled source
print('scaled source into a plain s16/4 destination; expected', vals)
report('Fxp(ssrc, True, 16, 4)', Fxp(ssrc, True, 16, 4))
report('P.equal(ssrc)', Fxp(None, True, 16, 4).equal(ssrc))
report('ssrc.like(P)', ssrc.like(Fxp(None, True, 16, 4)))
if bad:
    print('ROUTES DISAGREE (borderline, scaled objects):', bad); sys.exit(1)
print('no discrepancy'); sys.exit(0)
