"""Adjacent (not a C11 counterexample proper): a rendered string cannot be fed back into an s63/63 target that was obtained
from an integer-valued object (like= with overriding sizes, or resize): the target itself cannot be built -
OverflowError in get_val (objects.py:1044: int64 // 2**63) reached from resize -> set_val (objects.py:925).
Exit 1 when the behaviour is present."""
import sys
from fxpmath import Fxp

code = -251632
s = '0x' + format(code % (1 << 63), '016X')      # '0x7FFFFFFFFFFC2910', what hex() of an s63/63 object holding this code returns
src = Fxp(None, True, 63, 63); src.set_val(code, raw=True)
assert src.hex() == s and int(src.val) == code
assert int(Fxp(s, True, 63, 63, raw=True).val) == code        # plain constructor: fine

bad = []
for name, fn in [
        ('constructor like=<integer valued s32/0> + sizes', lambda: Fxp(s, True, 63, 63, like=Fxp(471, True, 32, 0), raw=True)),
        ('resize of an integer valued object, then set_val', lambda: (lambda t: (t.resize(True, 63, 63), t.set_val(s, raw=True))[1])(Fxp(471, True, 32, 0))),
        ('no string at all: Fxp(None, True, 63, 63, like=Fxp(None, True, 32, 0))', lambda: Fxp(code, True, 63, 63, like=Fxp(None, True, 32, 0), raw=True))]:
    try:
        y = fn()
        if int(y.val) != code:
            bad.append((name, int(y.val)))
    except Exception as e:
        bad.append((name, repr(e)))
if bad:
    print('present:')
    for b in bad:
        print('  ', b)
    sys.exit(1)
print('ok')
