"""C11 (rendering clause, element carrier): bin()/hex()/base_repr() of an ELEMENT of an array whose word is 64 bits or
more cannot be taken: x[i] raises AttributeError (fxpmath/objects.py:1580 -> 837).  Exit 1 when the violation is present."""
import sys
import numpy as np
from fxpmath import Fxp

bad = []
for signed, n_word, n_frac, codes in [
        (True, 64, 3, [-2**63, 5, -1]),
        (False, 64, 64, [2**64 - 1, 5, 2**63]),
        (True, 65, 0, [1, -2, 3]),
        (True, 128, 100, [-(2**127), 2**127 - 1, 0]),
        (False, 256, 17, [2**256 - 1, 0, 12345678901234567890123]),
        (True, 72, 8, [[1, -2], [3, -(2**71)]])]:
    x = Fxp(None, signed, n_word, n_frac)
    x.set_val(codes, raw=True)
    flat = np.array(codes, dtype=object)
    for idx in np.ndindex(flat.shape):
        code = int(flat[idx])
        exp_bin = format(code % (1 << n_word), '0{}b'.format(n_word))                 # n_word-character two's complement image
        exp_hex = '0x' + format(code % (1 << n_word), '0{}X'.format(-(-n_word // 4)))  # ceil(n_word/4) upper-case digits
        exp_dec = str(code)                                                            # sign-magnitude numeral, base 10
        key = idx[0] if len(idx) == 1 else idx
        try:
            e = x[key]
            got = (e.bin(), e.hex(), e.base_repr(10))
        except Exception as err:
            bad.append(('fxp-{}{}/{}'.format('s' if signed else 'u', n_word, n_frac), key, 'raised ' + repr(err),
                        'expected ' + repr((exp_bin[:12] + '...', exp_hex, exp_dec))))
            continue
        if got != (exp_bin, exp_hex, exp_dec):
            bad.append(('fxp-{}{}/{}'.format('s' if signed else 'u', n_word, n_frac), key, got, (exp_bin, exp_hex, exp_dec)))

# control: the same at 63 bits works (and the whole-array rendering at 64+ bits is right)
c = Fxp(None, True, 63, 3); c.set_val([-2**62, 5], raw=True)
assert c[0].hex() == '0x4000000000000000' and c[1].base_repr(10) == '5'
w = Fxp(None, True, 64, 3); w.set_val([-2**63, 5], raw=True)
assert w.hex() == ['0x8000000000000000', '0x0000000000000005']

if bad:
    print('VIOLATION: elements of arrays of 64+ bits cannot be rendered ({} of the probed elements)'.format(len(bad)))
    for b in bad[:6]:
        print('  ', b)
    sys.exit(1)
print('ok')
sys.exit(0)
