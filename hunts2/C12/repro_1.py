# C12 counterexample 1: a single element of an array with n_word >= 64 has no renderable dtype string
# (indexing itself raises under the 'fxp' default; get_dtype('fxp') raises under the 'Q' default)
import sys, warnings
warnings.simplefilter('ignore')
from fxpmath import Fxp

bad = []
def expect(label, thunk, expected):
    try:
        got = thunk()
    except Exception as e:
        bad.append('%-55s expected %r, raised %s: %s' % (label, expected, type(e).__name__, e)); return
    if got != expected:
        bad.append('%-55s expected %r, got %r' % (label, expected, got))

for signed, n_word, n_frac in [(True, 64, 0), (False, 64, 8), (True, 65, -8), (True, 100, 50), (False, 128, 136), (True, 256, 264)]:
    fxp_s = 'fxp-%s%d/%d' % ('s' if signed else 'u', n_word, n_frac)          # own rendering of the tuple
    q_s = '%s%d.%d' % ('Q' if signed else 'UQ', n_word - n_frac, n_frac)
    x = Fxp([1, 2, 3], signed, n_word, n_frac, raw=True)                        # configured default 'fxp'
    expect('%s: x[0].dtype' % fxp_s, lambda: x[0].dtype, fxp_s)
    expect('%s: x[-1].get_dtype("Q")' % fxp_s, lambda: x[-1].get_dtype('Q'), q_s)
    expect('%s: [e.dtype for e in x]' % fxp_s, lambda: [e.dtype for e in x], [fxp_s] * 3)
    xq = Fxp([1, 2, 3], signed, n_word, n_frac, raw=True, dtype_notation='Q')  # configured default 'Q'
    expect('%s (Q default): x[0].dtype' % fxp_s, lambda: xq[0].dtype, q_s)
    expect('%s (Q default): x[0].get_dtype("fxp")' % fxp_s, lambda: xq[0].get_dtype('fxp'), fxp_s)

# same mechanism, other route: a non-expanding right shift of a scalar of >= 64 bits
z = Fxp(5, True, 100, 0, shifting='trunc') >> 1
expect('(Fxp(5,True,100,0,shifting=trunc) >> 1).get_dtype()', lambda: z.get_dtype(), 'fxp-s100/0')
expect('(Fxp(5,True,100,0,shifting=trunc) >> 1).get_dtype("Q")', lambda: z.get_dtype('Q'), 'Q100.0')

if bad:
    print('VIOLATION (C12): dtype string of an element / shifted object of >= 64 bits cannot be rendered')
    print('\n'.join(bad))
    sys.exit(1)
print('ok')
