# C12 counterexample 2: resize(dtype=...) / Fxp(None, like=..., dtype=...) to a format with n_word < 64 and
# n_frac >= 63 raises OverflowError when the object holds integer values (vdtype int), e.g. any n_frac <= 0 object
import sys, warnings
warnings.simplefilter('ignore')
from fxpmath import Fxp

bad = []
targets = [(True, 55, 63), (True, 60, 63), (True, 63, 63), (True, 63, 71), (False, 56, 64), (False, 63, 64), (False, 63, 71), (True, 62, 70)]
for signed, n_word, n_frac in targets:
    t = Fxp(None, signed, n_word, n_frac)                # the format exists and renders
    s_fxp = 'fxp-%s%d/%d' % ('s' if signed else 'u', n_word, n_frac)
    if t.dtype != s_fxp:
        bad.append('rendering %r != %r' % (t.dtype, s_fxp))
    strings = [t.dtype] + (['%s%d.%d' % ('Q' if signed else 'UQ', n_word - n_frac, n_frac)] if n_word - n_frac >= 0 else [])
    for s in strings:
        for label, make in [('resize', lambda: (lambda x: (x.resize(dtype=s), x)[1])(Fxp(3, True, 8, 0))),
                            ('resize of Fxp(None,True,16,0)', lambda: (lambda x: (x.resize(dtype=s), x)[1])(Fxp(None, True, 16, 0))),
                            ('resize of array', lambda: (lambda x: (x.resize(dtype=s), x)[1])(Fxp([0, 255], False, 8, 0))),
                            ('like=', lambda: Fxp(None, like=Fxp(3, True, 8, 0), dtype=s))]:
            try:
                y = make()
                got = (y.signed, y.n_word, y.n_frac)
                if got != (signed, n_word, n_frac):
                    bad.append('%s with dtype=%r: format %r, expected %r' % (label, s, got, (signed, n_word, n_frac)))
            except Exception as e:
                bad.append('%s with dtype=%r: %s: %s' % (label, s, type(e).__name__, e))
if bad:
    print('VIOLATION (C12): resizing with dtype=x.dtype does not reproduce the format (n_word < 64, n_frac >= 63)')
    print('\n'.join(bad))
    sys.exit(1)
print('ok')
