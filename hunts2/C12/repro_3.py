# C12 counterexample 3: resize(dtype='...-complex') of a scaled object drops the complex suffix
import sys, warnings
warnings.simplefilter('ignore')
from fxpmath import Fxp

bad = []
for kw in [dict(scale=2), dict(bias=1), dict(scale=0.5, bias=-2)]:
    for s in ['fxp-s16/4-complex', 'fxp-u12/-3-complex', 'fxp-s8/12-complex', 'fxp-u52/60-complex']:
        z = Fxp(None, dtype=s)                            # the template object: complex, renders s
        assert z.dtype == s and z.vdtype == complex
        x = Fxp(3.0, True, 16, 2, **kw)
        x.resize(dtype=z.dtype)
        v = x()
        is_complex = (x.vdtype == complex) or x.val.dtype.kind == 'c' or isinstance(v, complex)
        if x.dtype != s or not is_complex:
            bad.append('Fxp(3.0, True, 16, 2, %s).resize(dtype=%r): dtype %r, vdtype %r, value %r   (expected a complex object with dtype %r)'
                       % (', '.join('%s=%r' % i for i in kw.items()), s, x.dtype, x.vdtype, v, s))
        # the unscaled object does keep it:
        u = Fxp(3.0, True, 16, 2); u.resize(dtype=z.dtype)
        assert u.dtype == s, u.dtype
if bad:
    print('VIOLATION (C12): resizing with a complex dtype string gives a real object when the object is scaled')
    print('\n'.join(bad))
    sys.exit(1)
print('ok')
