# C12 counterexample 4 (weaker): a raw write with a NumPy complex value type makes the object complex
# (it reads back complex) but the dtype string stays real
import sys, warnings
warnings.simplefilter('ignore')
import numpy as np
from fxpmath import Fxp

bad = []
for vd in (np.complex128, np.complex64, np.clongdouble):
    for signed, n_word, n_frac in [(True, 16, 4), (False, 12, -3), (True, 8, 12)]:
        x = Fxp([1, 2], signed, n_word, n_frac, raw=True)
        x.set_val(x.val, raw=True, vdtype=vd)
        v = x()
        reads_complex = np.iscomplexobj(v)
        expected = 'fxp-%s%d/%d%s' % ('s' if signed else 'u', n_word, n_frac, '-complex' if reads_complex else '')
        if x.dtype != expected or x.get_dtype('fxp') != expected:
            bad.append('set_val(raw, vdtype=%s) on %s: x() = %r (complex), x.dtype = %r, expected %r; Fxp(None, dtype=x.dtype)() = %r'
                       % (vd.__name__, expected.replace('-complex', ''), v, x.dtype, expected, Fxp(None, dtype=x.dtype)()))
        # reference: the python type gives the suffix
        r = Fxp([1, 2], signed, n_word, n_frac, raw=True); r.set_val(r.val, raw=True, vdtype=complex)
        assert r.dtype.endswith('-complex')
if bad:
    print('VIOLATION (C12): complex object with a dtype string without -complex')
    print('\n'.join(bad))
    sys.exit(1)
print('ok')
