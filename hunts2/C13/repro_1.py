# C13 counterexample 1: a Python list of integer masks whose dtype NumPy infers as float64
# (some element in [2**63, 2**64), another below 2**63, none >= 2**64) is rounded to doubles
# before the bitwise operation: wrong bits, silently.  n_word >= 64.
import sys
import numpy as np
from fxpmath import Fxp

def pat(c, n): return c % (1 << n)
def resign(p, n, s): return p - (1 << n) if s and p >= (1 << (n - 1)) else p

bad = []
for signed, n, codes, masks in [
    (False, 64, [2**64 - 1, 2**64 - 1], [2**63 + 1, 1]),
    (True, 64, [-1, -1], [2**63 + 1, 1]),                 # mask pattern with the sign bit of the word set
    (True, 65, [-1, -1], [2**63 + 1, -1]),
    (False, 100, [2**100 - 1, 2**100 - 1], [2**63 + 5, 2**63 - 1]),
    (True, 128, [-1, 12345], [2**63 + 3, 7]),
]:
    x = Fxp(None, signed, n, 0); x.set_val(np.array(codes, dtype=object), raw=True)
    for name, f, g in (('&', lambda a, b: a & b, lambda a, b: a & b), ('|', lambda a, b: a | b, lambda a, b: a | b), ('^', lambda a, b: a ^ b, lambda a, b: a ^ b)):
        exp = [resign(g(pat(c, n), pat(m, n)), n, signed) for c, m in zip(codes, masks)]
        for side, r in (('x op list', f(x, list(masks))), ('list op x', f(list(masks), x))):
            got = [int(v) for v in r.val.tolist()]
            if got != exp or r.n_word != n or r.signed != signed:
                bad.append((x.dtype, codes, masks, name, side, got, exp))
for b in bad[:6]:
    print('MISMATCH %s codes=%s masks=%s  %s (%s): got %s expected %s' % b)
if bad:
    print('%d mismatches' % len(bad)); sys.exit(1)
print('ok'); sys.exit(0)
