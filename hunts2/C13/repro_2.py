# C13 counterexample 2: a tuple of integer masks (either side) raises TypeError, the same masks in a list work
import sys
import numpy as np
from fxpmath import Fxp

x = Fxp(None, True, 6, 2); x.set_val(np.array([-32, -1, 5]), raw=True)     # fxp-s6/2
s = Fxp(None, True, 6, 2); s.set_val(-7, raw=True)
masks = (63, 32, 3)
def pat(c, n): return c % (1 << n)
def resign(p, n): return p - (1 << n) if p >= (1 << (n - 1)) else p
bad = []
import operator
for name, op in (('&', operator.and_), ('|', operator.or_), ('^', operator.xor)):
    for label, obj, codes in (('array x', x, [-32, -1, 5]), ('scalar x', s, [-7, -7, -7])):
        exp = [resign(op(pat(c, 6), pat(m, 6)), 6) for c, m in zip(codes, masks)]
        for side, f in (('x op tuple', lambda: op(obj, masks)), ('tuple op x', lambda: op(masks, obj))):
            try:
                r = f()
                got = [int(v) for v in np.asarray(r.val).ravel().tolist()]
                if got != exp or r.dtype != obj.dtype:
                    bad.append('%s %s %s: got %s %s expected %s' % (label, name, side, r.dtype, got, exp))
            except Exception as e:
                bad.append('%s %s %s: %s: %s (expected codes %s in %s; a list of the same masks gives %s)' % (
                    label, name, side, type(e).__name__, e, exp, obj.dtype, op(obj, list(masks)).val.tolist()))
for b in bad[:4]: print(b)
if bad:
    print('%d failures' % len(bad)); sys.exit(1)
print('ok'); sys.exit(0)
