# C13 counterexample 3: an element obtained by indexing an array of 64 bits or more cannot be formed any more
# (X[1] ^ Y[1] at 65 bits - the witness of the repaired defect D27 - raises AttributeError again, now inside __getitem__)
import sys
import numpy as np
from fxpmath import Fxp

bad = []
for signed, n in ((True, 65), (False, 64), (True, 64), (True, 100), (False, 128)):
    X = Fxp(None, signed, n, 0); X.set_val(np.array([0, 5, 0], dtype=object), raw=True)
    Y = Fxp(None, signed, n, 0); Y.set_val(np.array([0, 6, 0], dtype=object), raw=True)
    for name, f, exp in (('X[1] ^ Y[1]', lambda: X[1] ^ Y[1], 3), ('X[1] & 4', lambda: X[1] & 4, 4), ('~X[-1]', lambda: ~X[-1], -1 if signed else 2**n - 1),
                         ('X[1] | Y', lambda: (X[1] | Y)[1, ...], 7)):
        try:
            r = f()
            if int(r.val) != exp or r.n_word != n or r.signed != signed:
                bad.append('%s %s: got %s %s expected code %s' % (X.dtype, name, r.dtype, r.val, exp))
        except Exception as e:
            bad.append('%s %s: %s: %s (expected code %s)' % (X.dtype, name, type(e).__name__, e, exp))
for b in bad[:5]: print(b)
if bad:
    print('%d failures' % len(bad)); sys.exit(1)
print('ok'); sys.exit(0)
