# C13 counterexample 4: the in-place operators applied through an index (x[i] |= m, x[1:] &= y, ...) lose the low bits
# of the result for words of 54..63 bits with n_frac > 0: the (correct) result of the operator is stored back through
# __setitem__, which casts the raw codes of a fixed-point value to float (its vdtype) first.
import sys
import numpy as np
from fxpmath import Fxp

def pat(c, n): return c % (1 << n)
def resign(p, n, s): return p - (1 << n) if s and p >= (1 << (n - 1)) else p
bad = []
codes = [2147483647, -1877707975799492575, 260583297632433212, 134348360073533692]
m = -2305843009213693952 + 5
for n, nf in ((63, 31), (63, 63), (62, 1), (54, 27)):
    cs = [resign(pat(c, n), n, True) for c in codes]
    x = Fxp(None, True, n, nf); x.set_val(np.array(cs, dtype=np.int64), raw=True)
    x[-1] |= m
    exp = cs[:-1] + [resign(pat(cs[-1], n) | pat(m, n), n, True)]
    got = [int(v) for v in x.val.tolist()]
    if got != exp: bad.append('%s x[-1] |= m : got %s expected %s' % (x.dtype, got, exp))
    x = Fxp(None, True, n, nf); x.set_val(np.array(cs, dtype=np.int64), raw=True)
    x[1:3] ^= 3
    exp = [cs[0], resign(pat(cs[1], n) ^ 3, n, True), resign(pat(cs[2], n) ^ 3, n, True), cs[3]]
    got = [int(v) for v in x.val.tolist()]
    if got != exp: bad.append('%s x[1:3] ^= 3 : got %s expected %s' % (x.dtype, got, exp))
    # the operator itself is right:
    x = Fxp(None, True, n, nf); x.set_val(np.array(cs, dtype=np.int64), raw=True)
    r = x[-1] | m
    assert int(r.val) == resign(pat(cs[-1], n) | pat(m, n), n, True)
for b in bad[:4]: print(b)
if bad:
    print('%d failures' % len(bad)); sys.exit(1)
print('ok'); sys.exit(0)
