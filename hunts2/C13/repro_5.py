# C13 counterexample 5: the NumPy bitwise functions called with any keyword argument (out=, where=, dtype=, casting=)
# or a positional out, and their methods (reduce, accumulate, outer), still go to the generic value-based wrapper:
# they do not act on the word, re-size or saturate the result, and combine operands of different word lengths.
import sys, warnings
import numpy as np
from fxpmath import Fxp
warnings.simplefilter('ignore')

def F(code, signed, n, nf=0):
    x = Fxp(None, signed, n, nf); x.set_val(code, raw=True); return x
bad = []
def check(label, f, exp_dtype, exp_code, must_raise=False):
    try:
        r = f()
    except Exception as e:
        if not must_raise: bad.append('%s: %s: %s (expected %s code %s)' % (label, type(e).__name__, str(e)[:60], exp_dtype, exp_code))
        return
    if must_raise:
        bad.append('%s: returned %s code %s, expected an error (different word lengths)' % (label, r.dtype, r.val)); return
    if r.dtype != exp_dtype or int(r.val) != exp_code:
        bad.append('%s: got %s code %s, expected %s code %s' % (label, r.dtype, r.val, exp_dtype, exp_code))

x = F(5, True, 6); z = F(0, True, 6)
# 000101 | 100000 = 100101 -> signed 6-bit word -27
check('np.bitwise_or(x, 32, out=z)', lambda: np.bitwise_or(x, 32, out=z), 'fxp-s6/0', -27)
check('np.bitwise_or(x, 32, z)', lambda: np.bitwise_or(x, 32, z), 'fxp-s6/0', -27)
check('np.bitwise_or(x, 32, where=True)', lambda: np.bitwise_or(x, 32, where=True), 'fxp-s6/0', -27)
check('np.bitwise_or(x, 32, casting="unsafe")', lambda: np.bitwise_or(x, 32, casting='unsafe'), 'fxp-s6/0', -27)
u = F(200, False, 8); zu = F(0, False, 8)
check('np.invert(u, out=zu)', lambda: np.invert(u, out=zu), 'fxp-u8/0', 55)       # ~11001000 = 00110111
f = F(5, True, 6, 2); zf = F(0, True, 6, 2)
check('np.bitwise_and(f, 3, out=zf) [n_frac=2]', lambda: np.bitwise_and(f, 3, out=zf), 'fxp-s6/2', 1)
y8 = F(3, True, 8); z8 = F(0, True, 8)
check('np.bitwise_and(x6, y8, out=z8)', lambda: np.bitwise_and(x, y8, out=z8), None, None, must_raise=True)
for b in bad: print(b)
if bad:
    print('%d failures' % len(bad)); sys.exit(1)
print('ok'); sys.exit(0)
