"""Borderline: an operand with scale/bias. x << n (every mode) and x >> n (expand mode) build the result without scale and bias,
so even x << 0 has another value than x. trunc/keep x >> n keeps them (deepcopy)."""
import sys
from fxpmath import Fxp
bad = []
for mode in ('expand', 'trunc', 'keep'):
    x = Fxp(3.0, True, 8, 2, shifting=mode, scale=2.0, bias=1.0)        # code 4: 4/4*2+1 = 3.0
    for name, y in (('x<<0', x << 0), ('x>>0', x >> 0)):
        if float(y()) != float(x()):
            bad.append(f"{mode}: x={x()} (code {int(x.val)}, scale 2, bias 1)  {name} = {y()} (code {int(y.val)}, scale {y.scale}, bias {y.bias})")
for b in bad: print('BORDERLINE', b)
sys.exit(1 if bad else 0)
