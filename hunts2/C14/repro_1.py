"""C14 via the NumPy route: np.right_shift(x, n) / np.left_shift(x, n) do not follow the shift semantics of x >> n / x << n.
They are applied to the *value* (or, with array_op_method='raw', to the raw code taken as a value) and the result is re-sized:
 - expand mode: np.right_shift drops the bits shifted out (31 >> 1 gives 15, not 15.5)
 - trunc/keep mode: the format is not kept (s6/0 becomes s5/0 / s7/0), x<<n is never clamped/wrapped into the format
 - array_op_method='raw', n_frac>0: the result has the wrong magnitude (2.0 >> 2 gives 4.0)
Exit 1 when the violation is present."""
import sys
from fractions import Fraction
import numpy as np
from fxpmath import Fxp

bad = []
def value(y):
    return [Fraction(int(c), 1 << y.n_frac) for c in np.asarray(y.val).flatten()]

# (a) expand mode (default config), integer-born operand, n_frac = 0
x = Fxp(31, True, 6, 0)                       # shifting='expand'
y = np.right_shift(x, 1)
if value(y) != [Fraction(31, 2)]:
    bad.append(f"expand: np.right_shift(Fxp(31,s6/0), 1) = {y.dtype} {value(y)[0]}  expected 31/2 (x >> 1 gives {(x >> 1).dtype} {(x >> 1)()})")
x = Fxp([31, -7, -32], True, 6, 0)
y = np.right_shift(x, 3)
exp = [Fraction(c, 8) for c in (31, -7, -32)]
if value(y) != exp:
    bad.append(f"expand: np.right_shift([31,-7,-32] s6/0, 3) = {y.dtype} {[str(v) for v in value(y)]}  expected {[str(v) for v in exp]}")

# (b) trunc / keep mode: format must be unchanged
for mode in ('trunc', 'keep'):
    x = Fxp([31, -7], True, 6, 0, shifting=mode)
    for f, name in ((np.right_shift, 'np.right_shift'), (np.left_shift, 'np.left_shift')):
        y = f(x, 1)
        if (y.signed, y.n_word, y.n_frac) != (True, 6, 0):
            bad.append(f"{mode}: {name}([31,-7] s6/0, 1) has format {y.dtype} codes {y.val.tolist()}  expected fxp-s6/0 "
                       f"(operator gives {(x >> 1 if f is np.right_shift else x << 1).dtype})")

# (c) array_op_method='raw': code shifted, then taken as a value
for mode in ('expand', 'trunc'):
    x = Fxp(2.0, True, 6, 3, shifting=mode, array_op_method='raw')     # code 16
    y = np.right_shift(x, 2)
    if value(y) != [Fraction(1, 2)]:
        bad.append(f"{mode}, array_op_method='raw': np.right_shift(Fxp(2.0,s6/3), 2) = {y.dtype} value {value(y)[0]}  expected 1/2")
    y = np.left_shift(x, 0)
    if value(y) != [Fraction(2)]:
        bad.append(f"{mode}, array_op_method='raw': np.left_shift(Fxp(2.0,s6/3), 0) = {y.dtype} value {value(y)[0]}  expected 2 (shift by zero)")

for b in bad: print('VIOLATION', b)
sys.exit(1 if bad else 0)
