"""C14, expand mode: x << n grows the word although nothing has to grow.
 - x << 0 is not the identity for the most negative code: s6/0 becomes s7/0
 - in general the word gets one bit too many for codes -2^k, and a zero operand grows with the count (0 << 7 in s4/0 gives s7/0)
The value is exact; what is violated is 'shifting by zero is the identity' / 'the word grows as needed' (format of the result).
Exit 1 when present."""
import sys
import numpy as np
from fxpmath import Fxp

def need(c, signed):           # bits needed for the integer c
    return ((c.bit_length() if c >= 0 else (-c - 1).bit_length()) + 1) if signed else c.bit_length()

bad = []
for signed in (True, False):
    for nw in range(1, 7):
        lo, hi = ((-(1 << (nw - 1)), (1 << (nw - 1)) - 1) if signed else (0, (1 << nw) - 1))
        for nf in sorted({0, nw // 2}):
            for c in range(lo, hi + 1):
                x = Fxp(c, signed, nw, nf, raw=True)          # shifting='expand'
                for n in range(0, nw + 4):
                    y = x << n
                    assert int(y.val) == c << n and y.n_frac == nf      # value is exact
                    req = max(nw, need(c << n, signed))
                    if n == 0 and y.dtype != x.dtype:
                        bad.append(('x<<0 changes the format', x.dtype, c, y.dtype))
                    elif y.n_word != req:
                        bad.append(('word larger than needed', x.dtype, c, n, y.dtype, f'needed n_word={req}'))
print(len(bad), 'cases')
seen = set()
for b in bad:
    if b[0] not in seen or len(seen) < 0:
        seen.add(b[0]); print('VIOLATION', *b)
x = Fxp([-32, 5], True, 6, 0)
y = x << 0
print('example:', x.dtype, x.val.tolist(), '<< 0 ->', y.dtype, y.val.tolist(), '   (x >> 0 ->', (x >> 0).dtype, ')')
sys.exit(1 if bad else 0)
