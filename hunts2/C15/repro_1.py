# C15 / clip: bounds that are NumPy integers (scalars or arrays) are scaled by 2**n_frac IN THEIR OWN dtype and wrap around
# (fxpmath/functions.py:698  `return bound * 2**x.n_frac`)
import sys, warnings
import numpy as np
from fractions import Fraction as F
from fxpmath import Fxp
warnings.simplefilter('ignore')

def exact(z):
    return [F(int(c), 1) * F(2) ** (-z.n_frac) for c in np.asarray(z.val).reshape(-1)]

codes = [-2048, -20, 0, 20, 2047]                       # s12/4: values code/16 = -128, -1.25, 0, 1.25, 127.9375
bad = []
def case(label, lo, hi, vlo, vhi, route):
    x = Fxp(np.array(codes), signed=True, n_word=12, n_frac=4, raw=True)
    z = np.clip(x, lo, hi) if route == 'np' else x.clip(lo, hi)
    exp = [min(max(F(c, 16), vlo), vhi) for c in codes]  # all bounds are inside the range of s12/4 and multiples of 1/16
    got = exact(z)
    if got != exp:
        bad.append('%s [%s]: got %s expected %s' % (label, route, [float(v) for v in got], [float(v) for v in exp]))

for route in ('np', 'method'):
    case('np.int8 scalars -100/100', np.int8(-100), np.int8(100), F(-100), F(100), route)
    case('int8 arrays -100/100', np.array([-100]*5, dtype=np.int8), np.array([100]*5, dtype=np.int8), F(-100), F(100), route)
    case('np.uint8 scalars 1/100', np.uint8(1), np.uint8(100), F(1), F(100), route)
    case('python int 0 / np.int64(2**62) as "no upper limit"', 0, np.int64(2**62), F(0), F(2**62), route)
# control: the same bounds as Python integers are handled correctly
x = Fxp(np.array(codes), signed=True, n_word=12, n_frac=4, raw=True)
assert exact(np.clip(x, -100, 100)) == [min(max(F(c, 16), -100), 100) for c in codes]

if bad:
    print('VIOLATION (clip with NumPy-integer bounds):')
    for b in bad: print('  ', b)
    sys.exit(1)
print('ok')
