# C15 / clip: the element-wise helper utils.clip is an np.vectorize without `otypes`; the dtype of the WHOLE result is taken from the result of the
# FIRST element. If the first element is clipped to a bound that is a narrow / unsigned NumPy type, every other (unclipped) code is cast to that type.
# (fxpmath/utils.py:446-449, called from fxpmath/functions.py:703). The result depends on the order of the elements.
import sys, warnings
import numpy as np
from fractions import Fraction as F
from fxpmath import Fxp
warnings.simplefilter('ignore')

def exact(z):
    return [F(int(c), 1) * F(2) ** (-z.n_frac) for c in np.asarray(z.val).reshape(-1)]
bad = []
def case(label, codes, signed, w, f, lo, hi, vlo, vhi):
    for route in ('np', 'method'):
        x = Fxp(np.array(codes), signed=signed, n_word=w, n_frac=f, raw=True)
        z = np.clip(x, lo, hi) if route == 'np' else x.clip(lo, hi)
        exp = []
        for c in codes:
            v = F(c) * F(2) ** (-f)
            if vlo is not None: v = max(v, vlo)
            if vhi is not None: v = min(v, vhi)
            exp.append(v)
        got = exact(z)
        if got != exp:
            bad.append('%s [%s]: got %s expected %s' % (label, route, [float(v) for v in got], [float(v) for v in exp]))

# the scaled bound 3*16 = 48 fits in int8 (no wrap there); 1000/16 = 62.5 is above the bound and must stay
case('s12/4 [-128, 62.5] clip(lo=np.int8(3))', [-2048, 1000], True, 12, 4, np.int8(3), None, F(3), None)
# same elements in the other order are right -> order dependence
case('s12/4 [62.5, -128] clip(lo=np.int8(3))', [1000, -2048], True, 12, 4, np.int8(3), None, F(3), None)
# unsigned upper bound + negative element that is not clipped
case('s8/4 [7.9375, -0.3125] clip(-1.0, np.uint16(2))', [127, -5], True, 8, 4, -1.0, np.uint16(2), F(-1), F(2))
case('s8/4 [7.9375, -0.3125] clip(None, uint32 array)', [127, -5], True, 8, 4, None, np.array([2, 2], dtype=np.uint32), None, F(2))
# float16 bound: codes above 2048 are rounded to 11 significant bits
case('u12/0 [926, 3261] clip(np.float16(2812), np.float16(3934))', [926, 3261], False, 12, 0, np.float16(2812), np.float16(3934), F(2812), F(3934))

if bad:
    print('VIOLATION (clip: result dtype taken from the first element):')
    for b in bad: print('  ', b)
    sys.exit(1)
print('ok')
