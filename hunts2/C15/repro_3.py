# C15 / clip: the NumPy >= 2.1 keyword spelling np.clip(x, min=..., max=...) (also x.clip(min=..., max=...)) is silently ignored: nothing is clipped.
# (fxpmath/functions.py:682-707: only a_min / a_max are read, every other keyword ends in **kwargs of _clip_raw and is dropped)
import sys, warnings
import numpy as np
from fractions import Fraction as F
from fxpmath import Fxp
warnings.simplefilter('ignore')

codes = [-128, -20, 0, 20, 127]          # s8/4: -8, -1.25, 0, 1.25, 7.9375
def exact(z):
    return [F(int(c), 1) * F(2) ** (-z.n_frac) for c in np.asarray(z.val).reshape(-1)]
def expected(lo, hi):
    out = []
    for c in codes:
        v = F(c, 16)
        if lo is not None: v = max(v, lo)
        if hi is not None: v = min(v, hi)
        out.append(v)
    return out
try:
    np.clip(np.array([1.0]), min=0.0, max=0.5)
except TypeError:
    print('this NumPy has no min= / max= keywords for clip: not applicable'); sys.exit(0)

bad = []
x = Fxp(np.array(codes), signed=True, n_word=8, n_frac=4, raw=True)
tests = [
    ('np.clip(x, min=-1.0, max=1.0)', lambda: np.clip(x, min=-1.0, max=1.0), expected(F(-1), F(1))),
    ('np.clip(x, min=-1.0)',          lambda: np.clip(x, min=-1.0),          expected(F(-1), None)),
    ('np.clip(x, -1.0, max=1.0)',     lambda: np.clip(x, -1.0, max=1.0),     expected(F(-1), F(1))),
    ('x.clip(min=-1.0, max=1.0)',     lambda: x.clip(min=-1.0, max=1.0),     expected(F(-1), F(1))),
]
for label, fn, exp in tests:
    try:
        got = exact(fn())
    except Exception as e:
        got = repr(e)
    if got != exp:
        bad.append('%s: got %s expected %s' % (label, [float(v) for v in got] if isinstance(got, list) else got, [float(v) for v in exp]))
# control
assert exact(np.clip(x, a_min=-1.0, a_max=1.0)) == expected(F(-1), F(1))
assert list(np.clip(np.array([c/16 for c in codes]), min=-1.0, max=1.0)) == [float(v) for v in expected(F(-1), F(1))]
if bad:
    print('VIOLATION (clip ignores min= / max=):')
    for b in bad: print('  ', b)
    sys.exit(1)
print('ok')
