"""C16 counterexample 1: with config array_op_method='raw', a relation whose LEFT operand is a NumPy scalar / array
(np.float64(2.0) > x, arr > x) and the NumPy comparison functions (np.less(x, k), np.equal(x, y)) compare the RAW CODE
of the fixed-point operand with the other operand instead of its exact stored value."""
import sys, operator
from fractions import Fraction
import numpy as np
from fxpmath import Fxp

bad = []
def check(label, got, exp):
    got = [bool(b) for b in np.asarray(got).ravel().tolist()]
    if got != exp:
        bad.append('%s: got %s expected %s' % (label, got, exp))

# s8/4, code 24 -> exact value 24 * 2**-4 = 1.5
x = Fxp(1.5, True, 8, 4, array_op_method='raw')
assert int(x.val) == 24 and Fraction(24, 16) == Fraction(3, 2)
v = Fraction(3, 2); k = Fraction(2)
for name, op, uf in (('<', operator.lt, np.less), ('<=', operator.le, np.less_equal), ('==', operator.eq, np.equal),
                     ('!=', operator.ne, np.not_equal), ('>', operator.gt, np.greater), ('>=', operator.ge, np.greater_equal)):
    check('np.float64(2.0) %s x' % name, op(np.float64(2.0), x), [op(k, v)])
    check('np.int64(2) %s x' % name, op(np.int64(2), x), [op(k, v)])
    check('np.%s(x, 2.0)' % uf.__name__, uf(x, 2.0), [op(v, k)])
    check('x %s 2.0  (operator, Fxp on the left)' % name, op(x, 2.0), [op(v, k)])      # this spelling is right

# arrays, elementwise: codes [24, 40] -> values [1.5, 2.5]
a = Fxp([1.5, 2.5], True, 8, 4, array_op_method='raw')
check('np.array([2.0, 2.0]) > a', np.array([2.0, 2.0]) > a, [True, False])
check('a < np.array([2.0, 2.0])  (operator, Fxp on the left)', a < np.array([2.0, 2.0]), [True, False])

# two fixed-point objects of different formats with the same value 1.5: s8/4 code 24, s16/8 code 384
p = Fxp([1.5], True, 8, 4, array_op_method='raw'); q = Fxp([1.5], True, 16, 8, array_op_method='raw')
check('np.equal(p, q)', np.equal(p, q), [True])
check('np.less(p, q)', np.less(p, q), [False])
check('p == q (operator)', p == q, [True])

if bad:
    print('C16 VIOLATION (array_op_method="raw": NumPy-initiated comparisons use raw codes):')
    for b in bad: print('  ', b)
    sys.exit(1)
print('ok')
sys.exit(0)
