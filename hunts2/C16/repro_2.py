"""C16 counterexample 2 (scope: medium-low): an array object whose values came from np.longdouble numbers reads back as a
longdouble array, and ==/!= against a fractions.Fraction / decimal.Decimal are silently wrong (always False / True),
the four ordering operators raise TypeError.  The same codes in the same format built from doubles answer correctly,
and so does the 0-d object."""
import sys, operator
from fractions import Fraction
from decimal import Decimal
import numpy as np
from fxpmath import Fxp

bad = []
x = Fxp(np.array([1.5, -0.5], dtype=np.longdouble), True, 8, 4)      # s8/4 codes [24, -8] -> exact values [3/2, -1/2]
assert [int(c) for c in x.val] == [24, -8]
vals = [Fraction(24, 16), Fraction(-8, 16)]
for kname, k, kx in (('Fraction(3, 2)', Fraction(3, 2), Fraction(3, 2)), ("Decimal('1.5')", Decimal('1.5'), Fraction(3, 2))):
    for name, op in (('==', operator.eq), ('!=', operator.ne), ('<', operator.lt), ('<=', operator.le), ('>', operator.gt), ('>=', operator.ge)):
        exp = [op(v, kx) for v in vals]
        try:
            got = [bool(b) for b in np.asarray(op(x, k)).ravel().tolist()]
        except Exception as e:
            got = '%s: %s' % (type(e).__name__, e)
        if got != exp:
            bad.append('x %s %s: got %s expected %s' % (name, kname, got, exp))
if bad:
    print('C16 VIOLATION (longdouble-valued array object against Fraction / Decimal):')
    for b in bad: print('  ', b)
    sys.exit(1)
print('ok')
sys.exit(0)
