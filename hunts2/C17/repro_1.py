# C17 - reading an integer-valued scaled object whose python-int bias is close to / beyond the int64 limits:
# astype() computes  code * scale + bias  in int64 (objects.py:1057) -> silent wrap-around or OverflowError.
import sys, warnings
from fractions import Fraction as F
import numpy as np
from fxpmath import Fxp
warnings.simplefilter('ignore')

def exact_double(x):
    return F(float(x)) == F(x)

bad = []
cases = [
    # (v, signed, n_word, n_frac, bias)
    (2**63,          True, 16, 0, 2**63 - 2**11),     # (v-b)/1 = 2048
    (-2**63 - 2**11, True, 16, 0, -2**63),            # (v-b)/1 = -2048
    (2**63 + 2**11,  True, 16, 0, 2**63),             # (v-b)/1 = 2048
    (2**63,          False, 16, 0, 2**63 - 2**11),
]
for v, signed, n_word, n_frac, b in cases:
    s = 1
    u = F(v - b, s)
    # inside the quantifier: every intermediate is an exact double
    assert all(exact_double(t) for t in (v, b, v - b, u)), (v, b)
    x = Fxp(v, signed, n_word, n_frac, bias=b)
    code = int(x.val)
    exp_code = int(u * 2**n_frac)
    flags = {k: x.status[k] for k in ('overflow', 'underflow', 'inaccuracy')}
    if code != exp_code or any(flags.values()):
        bad.append(('store', v, b, code, exp_code, flags))
        continue
    expected_read = F(s) * F(code, 2**n_frac) + b       # = v
    try:
        got = x()
        ok = F(int(got)) == expected_read if isinstance(got, (int, np.integer)) else F(float(got)) == expected_read
        if not ok:
            bad.append(('read', 'v=%d' % v, 'bias=%d' % b, 'code=%d' % code, 'got %r' % (got,), 'expected %d' % expected_read))
    except Exception as e:
        bad.append(('read raised', 'v=%d' % v, 'bias=%d' % b, 'code=%d' % code, '%s: %s' % (type(e).__name__, e), 'expected %d' % expected_read))

# array object written through its codes (the object is created with scale 1 / bias b and is integer valued)
b = 2**63 - 2**11
x = Fxp(None, True, 16, 0, bias=b)
x.set_val([0, 2048, -2048], raw=True)
exp = [b, b + 2048, b - 2048]
try:
    got = [int(g) for g in np.ravel(x())]
    if got != exp:
        bad.append(('read array', 'bias=%d' % b, 'codes [0, 2048, -2048]', 'got %r' % got, 'expected %r' % exp))
except Exception as e:
    bad.append(('read array raised', type(e).__name__, str(e)))

if bad:
    for r in bad: print('DISCREPANCY', *r)
    sys.exit(1)
print('ok')
