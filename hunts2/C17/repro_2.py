# C17 - object arrays holding NumPy scalars: the scale/bias conversion is done element-wise in the scalar's own
# narrow / unsigned type (objects.py:778-791 only widens arrays whose dtype.kind is 'i', 'u', 'f' or 'c').
import sys, warnings
from fractions import Fraction as F
import numpy as np
from fxpmath import Fxp
warnings.simplefilter('ignore')
bad = []
def check(tag, make, v, s, b, n_frac, exp_flags=(False, False, False)):
    u = (F(v) - F(b)) / F(s)
    for t in (v, b, F(v) - F(b), u): assert F(float(t)) == F(t)
    exp_code = int(u * 2**n_frac); assert F(exp_code) == u * 2**n_frac
    try:
        x = make()
        code = int(np.ravel(x.val)[0]); rd = np.ravel(x())[0]
        fl = tuple(bool(x.status[k]) for k in ('overflow', 'underflow', 'inaccuracy'))
        if code != exp_code or fl != exp_flags or F(float(rd)) != F(v):
            bad.append((tag, 'code', code, 'expected', exp_code, 'read', rd, 'expected', v, 'flags', fl, 'expected', exp_flags))
    except Exception as e:
        bad.append((tag, 'raised', type(e).__name__, str(e), 'expected code', exp_code))
O = lambda *a: np.array(list(a), dtype=object)
# the same containers are stored correctly without scale/bias (n_frac = 0):
assert int(Fxp(O(np.int8(-100)), True, 16, 0).val[0]) == -100
assert int(Fxp(O(np.uint8(3)), True, 16, 0).val[0]) == 3
check('int8 in object array, bias=50',    lambda: Fxp(O(np.int8(-100)), True, 16, 0, bias=50), -100, 1, 50, 0)
check('uint8 in object array, bias=5',    lambda: Fxp(O(np.uint8(3)), True, 16, 0, bias=5), 3, 1, 5, 0)
check('uint64 in object array, bias=5',   lambda: Fxp(O(np.uint64(3)), True, 16, 0, bias=5), 3, 1, 5, 0)
check('float32 in object array',          lambda: Fxp(O(np.float32(16777218.0)), True, 16, 0, bias=16777217.0), 16777218, 1, 16777217, 0)
check('int8 in object array, scale=0.5',  lambda: Fxp(O(np.int8(-100)), True, 16, 0, scale=0.5), -100, F(1, 2), 0, 0)
check('indexed write',                    lambda: (lambda x: (x.__setitem__(0, np.array(np.uint8(3), dtype=object)), x)[1])(Fxp([5.0, 5.0], True, 16, 0, bias=5)), 3, 1, 5, 0)
if bad:
    for r in bad: print('DISCREPANCY', *r)
    sys.exit(1)
print('ok')
