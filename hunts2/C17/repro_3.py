# C17 - routes that store a fixed-point value in a scaled object by copying its raw code (scale and bias ignored):
# Fxp.equal(), Fxp.like(), and the raw-method results of the arithmetic functions written to out= / out_like= / config.op_out.
import sys, warnings
from fractions import Fraction as F
import numpy as np
import fxpmath as fxp
from fxpmath import Fxp
warnings.simplefilter('ignore')
s, b, n_frac = 2, 1, 4
def expected_code(v):           # C01 quantization of (v-b)/s in s16/4 (exact, in range)
    u = (F(v) - b) / s; c = u * 2**n_frac; assert c.denominator == 1; return int(c)
bad = []
def check(tag, x, v):
    code = int(np.ravel(x.val)[0]); rd = float(np.ravel(x())[0])
    if code != expected_code(v) or rd != v:
        bad.append((tag, 'code', code, 'expected', expected_code(v), 'read', rd, 'expected', float(v)))
mk = lambda: Fxp(None, True, 16, n_frac, scale=s, bias=b)
src = Fxp(3.0, True, 16, 4)
check('set_val(src)  [repaired route, reference]', mk().set_val(src), 3)
check('equal(src)', mk().equal(src), 3)
check('src.like(scaled)', src.like(mk()), 3)
check('add(1, 2, out=scaled)', fxp.add(Fxp(1.0, True, 16, 4), Fxp(2.0, True, 16, 4), out=mk()), 3)
check('add(1, 2, out_like=scaled)', fxp.add(Fxp(1.0, True, 16, 4), Fxp(2.0, True, 16, 4), out_like=mk()), 3)
check('mul(1.5, 2, out=scaled)', fxp.mul(Fxp(1.5, True, 16, 4), Fxp(2.0, True, 16, 4), out=mk()), 3)
check('np.add(.., out=scaled)', np.add(Fxp([1.0], True, 16, 4), Fxp([2.0], True, 16, 4), out=Fxp([0.0], True, 16, n_frac, scale=s, bias=b)), 3)
a = Fxp(1.0, True, 16, 4); a.config.op_out = mk()
check('config.op_out = scaled;  a + 2', a + Fxp(2.0, True, 16, 4), 3)
check('sum([1, 2], out=scaled)', fxp.sum(Fxp([1.0, 2.0], True, 16, 4), out=mk()), 3)
if bad:
    for r in bad: print('DISCREPANCY', *r)
    sys.exit(1)
print('ok')
