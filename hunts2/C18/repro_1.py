# CE1: x & m, x | m, x ^ m with a LIST of python-integer masks that mixes a mask in [2**63, 2**64)
# with any mask below 2**63 (or a negative one): the masks go through float64 and lose their low bits.
import sys
import numpy as np
from fxpmath import Fxp

bad = []
def pat(c, n): return c % (1 << n)
def frompat(p, s, n):
    p %= (1 << n)
    return p - (1 << n) if s and p >= (1 << (n - 1)) else p

cases = [
    # (signed, n_word, n_frac, codes, masks)
    (False, 64, 0,  [0, 0],                      [2**63 + 5, 3]),
    (False, 64, 0,  [2**64 - 1, 2**64 - 1],      [2**64 - 1, 1]),
    (True, 128, 0,  [-1, -1],                    [2**63 + 1, -1]),
    (True, 128, 64, [2**100 + 1, 7],             [2**64 - 1, 2]),
    (False, 256, 128, [2**255 + 2**63 + 1, 1],   [2**63 + 1, 1]),
]
for s, n, f, codes, masks in cases:
    x = Fxp(codes, s, n, f, raw=True)
    assert [int(v) for v in x.val] == codes
    for name, op in (('&', lambda a, b: a & b), ('|', lambda a, b: a | b), ('^', lambda a, b: a ^ b)):
        exp = [frompat(op(pat(a, n), pat(b, n)), s, n) for a, b in zip(codes, masks)]
        for route, fn in (('x %s list' % name, lambda: op(x, masks)),
                          ('list %s x' % name, lambda: op(masks, x)),
                          ('np ufunc %s' % name, lambda: {'&': np.bitwise_and, '|': np.bitwise_or, '^': np.bitwise_xor}[name](x, masks))):
            got = [int(v) for v in fn().val]
            if got != exp:
                bad.append((x.dtype, route, codes, masks, got, exp))
        # control: the same masks in an object array are handled exactly
        got = [int(v) for v in op(x, np.array(masks, dtype=object)).val]
        assert got == exp, ('control failed', got, exp)

if bad:
    for b in bad[:8]:
        print('MISMATCH %s  %s\n   codes=%s\n   masks=%s\n   got     =%s\n   expected=%s' % b)
    print('%d mismatches' % len(bad))
    sys.exit(1)
print('ok')
