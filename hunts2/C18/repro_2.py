# CE2: taking ONE element (integer index, iteration, x[()] ) of a fixed-point object of 64+ bits raises
# AttributeError in __getitem__, so bin(), hex() and the bitwise operators cannot be used on an element
# (x[1].bin(), x[1] & 3, x[1] &= 3, for e in x: ...). The same calls work at 63 bits and below.
import sys
from fxpmath import Fxp

def obin(c, n): return format(c % (1 << n), '0%db' % n)
def ohex(c, n): return '0x' + format(c % (1 << n), '0%dX' % ((n + 3) // 4))

bad = []
for n in (63, 64, 65, 128, 256):          # 63 = control
    for s in (True, False):
        codes = [1, (1 << (n - 2)) + 6, 3]
        x = Fxp(codes, s, n, 0, raw=True)
        tests = {
            'x[1].bin()':  (lambda: x[1].bin(),              obin(codes[1], n)),
            'x[-1].hex()': (lambda: x[-1].hex(),             ohex(codes[2], n)),
            'x[1] & 7':    (lambda: int((x[1] & 7).val),     codes[1] & 7),
            '~x[0]':       (lambda: int((~x[0]).val) % (1 << n), (~codes[0]) % (1 << n)),
            'x[1] |= 1':   (lambda: (x.__setitem__(1, x[1] | 1), [int(v) for v in x.val])[1], [codes[0], codes[1] | 1, codes[2]]),
            'iteration':   (lambda: [e.bin() for e in Fxp(codes, s, n, 0, raw=True)], [obin(c, n) for c in codes]),
            '0-d x[()]':   (lambda: Fxp(5, s, n, 0, raw=True)[()].bin(), obin(5, n)),
        }
        for name, (fn, exp) in tests.items():
            try:
                got = fn()
                if got != exp:
                    bad.append((n, s, name, 'got %r expected %r' % (got, exp)))
            except Exception as e:
                bad.append((n, s, name, '%s: %s' % (type(e).__name__, e)))
if bad:
    for b in bad[:12]:
        print('n_word=%d signed=%s %-12s -> %s' % b)
    print('%d failures (none at 63 bits: %s)' % (len(bad), all(b[0] != 63 for b in bad)))
    sys.exit(1)
print('ok')
