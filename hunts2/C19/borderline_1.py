"""BORDERLINE (scaled destination): a python integer v = q*scale (exactly divisible) of more than 53 bits stored into a format with an
integer `scale` goes through float64 (int64 array / python int -> true_divide in doubles): the code is off by one.
exit 1 when the behaviour is present."""
import sys
from fxpmath import Fxp
q = 2087075924546015            # < 2^51, fits s52/0
sc = 7
v = q * sc                      # 14609531471822105 > 2^53, exactly divisible by the scale
x = Fxp(v, True, 52, 0, scale=sc)
got = int(x.val)
if got != q:
    print('scale=%d v=%d: stored code %d, exact (v - bias)/scale = %d (status %s)' % (sc, v, got, q, x.status))
    sys.exit(1)
sys.exit(0)
