"""BORDERLINE (complex carriers): the codes of a complex Fxp are kept in complex128, so a product whose parts need more than 53 bits is rounded
to a 53-bit mantissa. exit 1 when present."""
import sys
from fxpmath import Fxp
a = 2**29 - 1; b = 2**29 - 3
x = Fxp(complex(a, b), True, 30, 0); y = Fxp(complex(b, a), True, 30, 0)
z = x * y                        # optimal size fxp-s60/0-complex
re, im = a * b - b * a, a * a + b * b
got_re, got_im = int(z.val.real), int(z.val.imag)
if (got_re, got_im) != (re, im):
    print('%s: got (%d, %d) exact (%d, %d)' % (z.dtype, got_re, got_im, re, im))
    sys.exit(1)
sys.exit(0)
