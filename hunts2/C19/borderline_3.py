"""BORDERLINE / out of the statement (reductions, not add/sub/mul): sum, cumsum, prod, dot of words below 64 bits whose result needs 64+ bits are
formed by numpy in int64 and wrap modulo 2^64 (their precision_cast only looks at n_frac >= 64). exit 1 when present."""
import sys
import fxpmath as F
from fxpmath import Fxp
bad = []
c = [2**61, 2**61, 2**61, 2**61 + 5]
x = Fxp(c, True, 63, 0)
z = F.sum(x)
if int(z.val) != sum(c): bad.append('sum -> %s %d, exact %d' % (z.dtype, int(z.val), sum(c)))
c = [2**40 + 1, 2**40 + 3]
x = Fxp(c, True, 42, 0)
z = F.prod(x)
if int(z.val) != c[0] * c[1]: bad.append('prod -> %s %d, exact %d' % (z.dtype, int(z.val), c[0] * c[1]))
z = F.dot(x, x)
if int(z.val) != c[0]**2 + c[1]**2: bad.append('dot -> %s %d, exact %d' % (z.dtype, int(z.val), c[0]**2 + c[1]**2))
for b in bad: print(b)
sys.exit(1 if bad else 0)
