"""OUT OF THE STATEMENT (clip is neither arithmetic nor storing), shown because it is a silent modulo-2^64 reduction next to the anchor:
fxpmath.clip without bounds on a word of 64+ bits returns codes reduced modulo 2^64 (utils.clip is an np.vectorize whose output type is
taken from the first element). exit 1 when present."""
import sys
import fxpmath as F
from fxpmath import Fxp
import numpy as np
c = [1, 2**64 - 1]
x = Fxp(np.array(c, dtype=object), True, 66, 0, raw=True)
z = F.clip(x)
got = [int(v) for v in z.val]
if got != c:
    print('clip(x) with no bounds: %s got %s, expected %s' % (z.dtype, got, c))
    sys.exit(1)
sys.exit(0)
