"""Demonstrates the BORDERLINE observations of hunt/REPORT.md (none of them is claimed as an in-scope counterexample). Always exits 0."""
import io, contextlib
import numpy as np
from fxpmath import Fxp, Config

print('N1  rejected resize() call still stores the sign')
x = Fxp([1.5, 2.0], True, 16, 4)
try:
    x.resize(signed=False, dtype='fxp-s8/2')
except ValueError as e:
    print('    raised:', e)
print('    x.signed =', x.signed, ' x.dtype =', x.dtype, ' x.lower =', x.lower, '  (expected: signed still True)')

print('N2  resize(signed=2) stores the integer 2')
x = Fxp([1.5, 2.0], True, 16, 4); x.resize(signed=2)
print('    x.signed =', repr(x.signed), '(doc: "If signed is int, the valid values are 1 (True) and 0 (False)")')

print('N3  first index that is not a basic index / integer element objects')
x = Fxp([[1.5, 2.25], [-3.0, 0.5]], True, 16, 4)
x[[0, 1]][0] = 7.0; x[np.array([True, False])][0] = 7.0
print('    after x[[0,1]][0]=7 and x[mask][0]=7:', x.val.tolist(), '(unchanged: fancy indexing copies)')
y = Fxp([1.5, 2.25], True, 16, 4)
try:
    y[0][()] = 3.0
except TypeError as e:
    print('    y[0][()] = 3.0 ->', type(e).__name__, e)

print('N4  iteration hands out views')
x = Fxp([[1, 2], [3, 4]], True, 8, 0)
for row in x: row[0] = 9
print('    after "for row in x: row[0] = 9":', x.val.tolist())

print('N5  a flag-raising chained write raises the flag on the temporary view only')
x = Fxp([[1.5, 2.25], [-3.0, 0.5]], True, 16, 4)
x[0][1] = 1e9
print('    x.val[0][1] =', x.val[0][1], ' x.status[overflow] =', x.status['overflow'])

print('N6  max_error accepts a one-element array / inf / True')
for v in (np.array([0.5]), float('inf'), True):
    c = Config(); c.max_error = v; print('    stored', repr(c.max_error))
