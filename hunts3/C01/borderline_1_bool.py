# BORDERLINE 1: booleans (Python bool is a subclass of int; NumPy bool_ scalars / arrays) cannot be stored at all.
# exits 1 when the behaviour is present, 0 otherwise
import sys, warnings
import numpy as np
from fxpmath import Fxp
warnings.simplefilter('ignore')
bad = []
for name, v, exp in [('True', True, [4]), ('np.True_', np.True_, [4]), ('np.array([True, False])', np.array([True, False]), [4, 0]), ('[True, False]', [True, False], [4, 0])]:
    for route in ('ctor', 'call', 'setitem'):
        try:
            if route == 'ctor': x = Fxp(v, True, 8, 2)
            elif route == 'call': x = Fxp(None, True, 8, 2); x(v)
            else:
                x = Fxp(np.zeros(np.shape(v)), True, 8, 2); x[...] = v
            got = np.asarray(x.val).ravel().tolist()
            if got != exp: bad.append((name, route, got, exp))
        except Exception as e:
            bad.append((name, route, repr(e), exp))
# control: the same values next to a float are stored (as 1 and 0)
ctrl = Fxp([True, 2.5], True, 8, 2).val.tolist()
for b in bad: print('value %s via %s: got %s, expected codes %s (1.0 * 2^2 = 4)' % b)
print('control Fxp([True, 2.5], True, 8, 2).val =', ctrl)
sys.exit(1 if bad else 0)
