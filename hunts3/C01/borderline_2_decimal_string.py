# BORDERLINE 2: a decimal string is rounded to the nearest double before it is scaled. If the value of a decimal string is the decimal
# number it spells, the stored code is not ROUND(v * 2^n_frac) computed in exact arithmetic.
# exits 1 when the behaviour is present, 0 otherwise
import sys, math
from fractions import Fraction
from fxpmath import Fxp
bad = []
# (string, signed, n_word, n_frac, rounding)
for s, signed, n_word, n_frac, rounding in [('0.1', False, 52, 55, 'trunc'), ('0.49999999999999999999', True, 8, 1, 'floor'), ('2.50000000000000000001', True, 8, 0, 'around')]:
    v = Fraction(s)                       # the decimal number, exactly
    scaled = v * Fraction(2)**n_frac
    if rounding in ('trunc',): exp = math.trunc(scaled)
    elif rounding == 'floor': exp = math.floor(scaled)
    else: exp = round(scaled)             # Fraction.__round__: nearest, ties to even
    got = int(Fxp(s, signed, n_word, n_frac, rounding=rounding).val)
    via_double = Fraction(float(s)) * Fraction(2)**n_frac
    if got != exp:
        bad.append(s)
        def dec(fr, digits=25):
            sign = '-' if fr < 0 else ''; fr = abs(fr); ip = fr.numerator // fr.denominator; fp = fr - ip
            return sign + str(ip) + '.' + str(int(fp * 10**digits)).rjust(digits, '0').rstrip('0').ljust(1, '0')
        print('Fxp(%r, %s, %d, %d, rounding=%r).val = %d ; exact: decimal * 2^%d = %s -> code %d ; library: double(string) * 2^%d = %s' % (s, signed, n_word, n_frac, rounding, got, n_frac, dec(scaled), exp, n_frac, dec(via_double)))
sys.exit(1 if bad else 0)
