# BORDERLINE 3: a decimal string in exponent notation without a '.' ('1e3', '25e-2') is parsed with int() when n_frac <= 0 -> ValueError,
# while the same string is stored correctly when n_frac > 0, and the same value spelled '1000' / '1000.0' / '1.0e3' is stored for every n_frac.
# exits 1 when the behaviour is present, 0 otherwise
import sys
import numpy as np
from fxpmath import Fxp
bad = []
for s, n_frac, exp in [('1e3', 0, 1000), ('1E3', 0, 1000), ('1e3', -3, 125), ('25e-2', 0, 0), ('1e3', 2, 4000), ('1.0e3', 0, 1000), ('1000', 0, 1000)]:
    for carrier in (s, [s], np.array([s])):
        try:
            got = np.asarray(Fxp(carrier, True, 16, n_frac).val).ravel().tolist()
            if got != [exp]: bad.append((repr(carrier), n_frac, got, exp))
        except Exception as e:
            bad.append((repr(carrier), n_frac, repr(e), exp))
for b in bad: print('Fxp(%s, True, 16, %d): got %s, expected code %s' % b)
sys.exit(1 if bad else 0)
