# BORDERLINE 4: the documented attributes .real / .imag ("value represented in original format") are snapshots:
#  (a) a value written through a chained index (x[0][1] = v, which writes through to the codes of x - the stored codes and get_val() are right)
#      leaves x.real / x.imag at the old values;
#  (b) the element object returned by indexing has real == 0.0 and imag == 0 whatever it holds.
# exits 1 when the behaviour is present, 0 otherwise
import sys
import numpy as np
from fxpmath import Fxp
bad = []
x = Fxp([[1.0, 2.0], [3.0, 4.0]], True, 16, 4)
x[0][1] = 2.5
if x.val.tolist() != [[16, 40], [48, 64]]: bad.append(('codes', x.val.tolist()))
if np.asarray(x.get_val()).tolist() != [[1.0, 2.5], [3.0, 4.0]]: bad.append(('get_val', x.get_val()))
if np.asarray(x.real).tolist() != [[1.0, 2.5], [3.0, 4.0]]: bad.append(('(a) x.real after x[0][1] = 2.5', np.asarray(x.real).tolist(), 'expected [[1.0, 2.5], [3.0, 4.0]]'))
c = Fxp([1+1j, 2, 3], True, 16, 4)
y = c[1:]; y[0] = 1.25-2j
if np.asarray(c.imag).tolist() != [1.0, -2.0, 0.0]: bad.append(('(a) c.imag after y = c[1:]; y[0] = 1.25-2j', np.asarray(c.imag).tolist(), 'expected [1.0, -2.0, 0.0]', 'get_val', c.get_val().tolist()))
e = Fxp([1.0, 2.0, 3.0], True, 16, 4)[1]
if e.real != 2.0: bad.append(('(b) Fxp([1.0, 2.0, 3.0], True, 16, 4)[1].real', e.real, 'expected 2.0', 'get_val', e.get_val()))
for b in bad: print(*b)
sys.exit(1 if bad else 0)
