# BORDERLINE 5 (variant of the known finding store.complex_through_view): an element object keeps being taken for a view after its parent has
# been given new codes (the parent no longer looks at the codes the element holds): a complex value written into it by index loses its
# imaginary part (NumPy ComplexWarning only).
# exits 1 when the behaviour is present, 0 otherwise
import sys, warnings
import numpy as np
from fxpmath import Fxp
warnings.simplefilter('ignore')
x = Fxp([[1.0, 2.0], [3.0, 4.0]], True, 16, 4)
y = x[0]
x([[5.0, 6.0], [7.0, 8.0]])          # x has new codes now: y is the only object looking at the old ones
y[1] = 2.5+1.5j
got = np.asarray(y.val).tolist()
exp = [16, 40+24j]
print('y.val =', got, 'expected', exp, '| y() =', y())
sys.exit(0 if [complex(g) for g in got] == [complex(e) for e in exp] else 1)
