"""Borderline observations for C02 (NOT claimed as counterexamples; see REPORT.md). Prints what it sees, always exits 0."""
import numpy as np, warnings
warnings.filterwarnings('ignore')
from fxpmath import Fxp

# B1: element of an array with a word of 64 bits or more is held as a plain python int (like the repaired D87, but from the start)
a = Fxp([1e30, 2.0])            # the constructor's own size search gives fxp-s64/0
e = a[0]
print('B1', a.dtype, type(e.val))
for expr in ('e.shape', 'int(e)', 'float(e)', 'e << 1'):
    try: print('   ', expr, '=>', eval(expr))
    except Exception as ex: print('   ', expr, 'RAISES', type(ex).__name__, ex)

# B2: a rejected resize leaves the sizes changed but limits / dtype / codes of the old format
z = Fxp(1.5, True, 16, 4)
try: z.resize(n_int=0, n_frac=-1)
except ValueError as ex: print('B2 resize raised:', ex)
print('    n_word', z.n_word, 'n_frac', z.n_frac, 'n_int', z.n_int, 'dtype', z.dtype, 'upper', z.upper, 'val', z.val)

# B3: dtype string goes stale when the notation is changed on the object's config
q = Fxp(3, True, 8, 2); q.config.dtype_notation = 'Q'
print('B3 dtype after config.dtype_notation = "Q":', q.dtype, '(get_dtype():', q.get_dtype(), ')')

# B4: unsigned numpy raw codes from 2**63 on are taken for wrapped negative codes (documented in set_val): lower bound + underflow flag
u = Fxp(np.array([2**63 + 5], dtype=np.uint64), False, 8, 0, raw=True)
print('B4', u.val, u.status)

# B5: the array handed out by get_val()/x()/np.asarray(x) of an integer-valued object IS the code array
x = Fxp([1, 2, 3], True, 8, 0); v = x(); v += 1000
print('B5 v = x(); v += 1000 ->', x.val)
try: print('   ', x.bin())
except Exception as ex: print('    x.bin() RAISES', type(ex).__name__, ex)
