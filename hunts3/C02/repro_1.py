"""C02 counterexample 1: a REAL object reports COMPLEX upper / lower / precision.

resize() (also run by the constructor for like=/template objects) derives the limits from the value
type the object has at that moment (objects.py:501-508); set_val() changes the value type on every
non-raw write (objects.py:1055) but never recomputes the limits.  A complex object is reachable from
real inputs only: x.conj() of a real object returns a '-complex' object.
"""
import sys
import numpy as np
from fxpmath import Fxp

bad = []

def expect_real_limits(tag, z):
    n_word, n_frac = z.n_word, z.n_frac
    hi = (1 << (n_word - 1)) - 1 if z.signed else (1 << n_word) - 1
    lo = -(1 << (n_word - 1)) if z.signed else 0
    exp = (hi / 2.0 ** n_frac, lo / 2.0 ** n_frac, 1 / 2.0 ** n_frac)
    got = (z.upper, z.lower, z.precision)
    is_real_obj = ('complex' not in z.dtype) and np.asarray(z.val).dtype.kind != 'c' and z.vdtype != complex
    if is_real_obj and (any(isinstance(g, complex) for g in got) or got != exp):
        bad.append('%s: dtype=%s val=%r  upper/lower/precision=%r  expected %r' % (tag, z.dtype, z.val, got, exp))

# route A: only real inputs.  conj() of a real object is a complex object; a new object "like" it with a real value
x = Fxp([1.5, -2.25], True, 16, 4)
c = x.conj()                      # fxp-s16/4-complex
r = Fxp(2.5, like=c)              # fxp-s16/4 (real) ...
expect_real_limits('Fxp(2.5, like=x.conj())', r)

# route B: a reduction of a complex object that yields a real value
c2 = Fxp([1 + 1j, 2 - 1j], True, 16, 4)
expect_real_limits('Fxp([1+1j, 2-1j], True, 16, 4).var()', c2.var())
expect_real_limits('Fxp([1+1j, 2-1j], True, 16, 4).std()', c2.std())

# route C: resize, then set a real value
c3 = Fxp([1 + 1j, 2 - 1j], True, 16, 4)
c3.resize(n_word=20)
c3.set_val([1.0, 2.0])
expect_real_limits('complex.resize(n_word=20); set_val([1.0, 2.0])', c3)

# route D: complex format asked by the dtype string, real value set afterwards
r4 = Fxp(0.5, dtype='fxp-s16/4-complex')
r4(0.25)
expect_real_limits("Fxp(0.5, dtype='fxp-s16/4-complex')(0.25)", r4)

if bad:
    print('C02 VIOLATION (real object, complex limits):')
    for b in bad:
        print('  ', b)
    sys.exit(1)
print('ok')
sys.exit(0)
