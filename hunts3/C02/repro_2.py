"""C02 counterexample 2: NumPy functions that write in place, dispatched on an Fxp, store codes outside the word.

For an integer-valued object (n_frac == 0, vdtype int) get_val()/astype(int) returns the internal code array itself
(objects.py:1123-1124: `if self.n_frac == 0: val = raw_val`), __array__ hands that array out (objects.py:1345-1349) and
_wrapped_numpy_func (objects.py:1902, 1933) passes it to the NumPy function.  np.put / np.copyto / np.place /
np.putmask / np.fill_diagonal / ufunc.at therefore write straight into x.val: no rounding, no saturation, no flag.
(With config array_op_method='raw' the same happens for every format, fractional ones included.)
"""
import sys
import numpy as np
from fxpmath import Fxp

bad = []

def in_range(tag, z):
    hi = (1 << (z.n_word - 1)) - 1 if z.signed else (1 << z.n_word) - 1
    lo = -(1 << (z.n_word - 1)) if z.signed else 0
    codes = [int(v) for v in np.asarray(z.val).ravel().tolist()]
    if any(not lo <= v <= hi for v in codes):
        bad.append('%s: %s holds codes %r, range is [%d, %d], status %r' % (tag, z.dtype, codes, lo, hi, z.status))

x = Fxp([1, 2, 3], True, 8, 0);  np.put(x, [0], 1000);                               in_range('np.put(x, [0], 1000)', x)
x = Fxp([1, 2, 3], True, 8, 0);  np.copyto(x, np.array([500, -500, 7]));             in_range('np.copyto(x, [500, -500, 7])', x)
x = Fxp([1, 2, 3], True, 8, 0);  np.add.at(x, [0], 1000);                            in_range('np.add.at(x, [0], 1000)', x)
x = Fxp([1, 2, 3], True, 8, 0);  np.putmask(x, np.array([True, False, False]), 700); in_range('np.putmask(x, mask, 700)', x)
x = Fxp([[1, 2], [3, 4]], False, 8, 0);  np.fill_diagonal(x, 999);                   in_range('np.fill_diagonal(x, 999)', x)
x = Fxp(5, True, 8, 0);  np.put(x, [0], 1000);                                        in_range('np.put(scalar x, [0], 1000)', x)
x = Fxp([1.5, 2, 3], True, 8, 2, array_op_method='raw');  np.put(x, [0], 1000);      in_range("np.put(x, [0], 1000) with array_op_method='raw', fxp-s8/2", x)

if bad:
    print('C02 VIOLATION (codes outside the format range after a NumPy-dispatched function):')
    for b in bad:
        print('  ', b)
    sys.exit(1)
print('ok')
sys.exit(0)
