"""C03 counterexample 1: mod() into a wrap register with FEWER fraction bits than the exact remainder (core-domain formats).

x = 2^-8 (u8/8, code 1), y = -2^50 (s52/0).  Python/numpy remainder (sign of the divisor):
    x mod y = x - y*floor(x/y) = 2^-8 - (-2^50)*(-1) = -2^50 + 2^-8          (exact, a dyadic rational)
Stored with rounding 'trunc' (the default) in a register with n_frac = 0 the rounded input is
    trunc(-2^50 + 2^-8) = -2^50 + 1
so a s52/0 wrap register must hold -2^50+1, a s8/0 wrap register (-2^50+1) mod 2^8 = 1, a s16/4 wrap register
trunc((-2^50+2^-8)*16) mod 2^16 = (-2^54+1) mod 2^16 = 1.
"""
import sys
import numpy as np
from fractions import Fraction
import math
import fxpmath
from fxpmath import Fxp

def wrapcode(k, signed, n_word):
    m = 1 << n_word
    k %= m
    return k - m if signed and k >= m // 2 else k

x = Fxp(2**-8, signed=False, n_word=8, n_frac=8)
y = Fxp(-2**50, signed=True, n_word=52, n_frac=0)
assert int(x.val) == 1 and int(y.val) == -2**50
xv, yv = Fraction(1, 2**8), Fraction(-2**50)
R = xv - yv * math.floor(xv / yv)              # exact remainder, sign of the divisor
assert R == -2**50 + Fraction(1, 256)

bad = []
for fd in [(True, 52, 0), (True, 8, 0), (True, 16, 4)]:
    exp = wrapcode(math.trunc(R * 2**fd[2]), fd[0], fd[1])
    for route in ('mod(out=)', 'mod(out_like=)', 'np.mod(out=)', 'x % y with config.op_out'):
        d = Fxp(None, *fd, overflow='wrap', rounding='trunc')
        if route == 'mod(out=)':
            z = fxpmath.mod(x, y, out=d)
        elif route == 'mod(out_like=)':
            z = fxpmath.mod(x, y, out_like=d)
        elif route == 'np.mod(out=)':
            z = np.mod(x, y, out=d)
        else:
            x.config.op_out = d
            z = x % y
            x.config.op_out = None
        got = int(z.val)
        if got != exp:
            bad.append(f'{route:28s} dest fxp-s{fd[1]}/{fd[2]} wrap/trunc: stored code {got}, expected {exp}')

if bad:
    print('VIOLATION (C03, mod into a register with fewer fraction bits):')
    print('\n'.join(bad))
    sys.exit(1)
print('ok')
sys.exit(0)
