"""C03 counterexample 2: truediv() of a wide (>= 64 bits) operand into a wrap register whose alignment exponent
n_frac(dest) - n_frac(x) + n_frac(y) is negative: the python-integer code is multiplied by the float 2**(negative).

x = 2^60 + 1 held in fxp-s128/64 (code (2^60+1)*2^64), y = 1 (fxp-s16/0).  x / y = 2^60 + 1 exactly (an integer, no rounding involved).
A fxp-s128/0 wrap register must hold 2^60+1; a fxp-s16/0 wrap register (2^60+1) mod 2^16 = 1.
Second witness through the plain operator: x2 = 2^100 + 8 (fxp-s128/0, op_sizing='same'), y2 = 8 held in fxp-s8/-3 (code 1):
x2 / y2 = 2^97 + 1 exactly.
"""
import sys
import fxpmath
from fxpmath import Fxp

bad = []
x = Fxp((2**60 + 1) * 2**64, True, 128, 64, raw=True)
y = Fxp(1, True, 16, 0)
for fd, exp in [((True, 128, 0), 2**60 + 1), ((True, 16, 0), 1), ((True, 72, 8), ((2**60 + 1) * 2**8) % 2**72)]:
    d = Fxp(None, *fd, overflow='wrap')
    z = fxpmath.truediv(x, y, out=d)
    got = int(z.val)
    if got != exp:
        bad.append(f'truediv(x_s128/64, y_s16/0, out=fxp-s{fd[1]}/{fd[2]} wrap): stored code {got}, expected {exp}')

x2 = Fxp(2**100 + 8, True, 128, 0, overflow='wrap', op_sizing='same')
y2 = Fxp(8, True, 8, -3)
assert int(y2.val) == 1
z = x2 / y2
exp = 2**97 + 1
if (z.n_word, z.n_frac, z.config.overflow) != (128, 0, 'wrap') or int(z.val) != exp:
    bad.append(f"x2 / y2 (op_sizing='same', result {z.dtype}, {z.config.overflow}): stored code {int(z.val)}, expected {exp}")

if bad:
    print('VIOLATION (C03, truediv of wide operands through a float factor):')
    print('\n'.join(bad))
    sys.exit(1)
print('ok')
sys.exit(0)
