"""C03 counterexample 3: mod() of wide (>= 64 bits) operands into a register with fewer fraction bits
(same kernel line as counterexample 1, different trigger: a python-integer code times the float 2**(negative)).

x = 2^60 + 1 held in fxp-s128/64, y = 2^70 (fxp-s128/0):  x mod y = 2^60 + 1 exactly (an integer, nothing to round).
A fxp-s128/0 wrap register must hold 2^60+1, a fxp-s16/0 wrap register (2^60+1) mod 2^16 = 1.
"""
import sys
import fxpmath
from fxpmath import Fxp

bad = []
x = Fxp((2**60 + 1) * 2**64, True, 128, 64, raw=True)
y = Fxp(2**70, True, 128, 0)
for fd, exp in [((True, 128, 0), 2**60 + 1), ((True, 16, 0), 1)]:
    for rounding in ('trunc', 'floor', 'around', 'ceil'):
        d = Fxp(None, *fd, overflow='wrap', rounding=rounding)
        z = fxpmath.mod(x, y, out=d)
        got = int(z.val)
        if got != exp:
            bad.append(f'mod(x_s128/64, y_s128/0, out=fxp-s{fd[1]}/{fd[2]} wrap/{rounding}): stored code {got}, expected {exp}')

if bad:
    print('VIOLATION (C03, mod of wide operands through a float factor):')
    print('\n'.join(bad))
    sys.exit(1)
print('ok')
sys.exit(0)
