"""C03 counterexample 4: clip() with a wide (>= 64 bits) fixed-point BOUND that has fraction bits: the bound is read through
get_val() (python-integer code / 2**n_frac = a double), so the clipped code stored in the wrap register loses its low bits.

x = [2^36 + 12345*2^-64, 5*2^-64] (fxp-s128/64, codes [2^100+12345, 5]); upper bound hi = 2^26 + 777*2^-64 (fxp-s128/64, code 2^90+777).
min(x, hi) = [hi, 5*2^-64] exactly, so a fxp-s128/64 wrap register must hold the codes [2^90+777, 5].
Second witness, narrow destination: x = [2^80, 5], hi = 2^70 + 3 (fxp-s200/64): a fxp-s16/0 wrap register must hold
[(2^70+3) mod 2^16, 5] = [3, 5].
"""
import sys
import numpy as np
import fxpmath
from fxpmath import Fxp

bad = []
x = Fxp([2**100 + 12345, 5], True, 128, 64, raw=True, overflow='wrap')
hi = Fxp(2**90 + 777, True, 128, 64, raw=True)
exp = [2**90 + 777, 5]
for route in ('clip(out=)', 'np.clip(out=)', 'x.clip(out=)', 'clip(out_like=)'):
    d = Fxp(None, True, 128, 64, overflow='wrap')
    if route == 'clip(out=)':
        z = fxpmath.clip(x, a_max=hi, out=d)
    elif route == 'np.clip(out=)':
        z = np.clip(x, None, hi, out=d)
    elif route == 'x.clip(out=)':
        z = x.clip(a_max=hi, out=d)
    else:
        z = fxpmath.clip(x, a_max=hi, out_like=d)
    got = [int(v) for v in z.val]
    if got != exp:
        bad.append(f'{route:16s} into fxp-s128/64 wrap: stored codes {got}, expected {exp}')

x = Fxp([2**80 * 2**64, 5 * 2**64], True, 200, 64, raw=True)
hi = Fxp((2**70 + 3) * 2**64, True, 200, 64, raw=True)
d = Fxp(None, True, 16, 0, overflow='wrap')
z = fxpmath.clip(x, a_max=hi, out=d)
got = [int(v) for v in z.val]
if got != [3, 5]:
    bad.append(f'clip(x_s200/64, a_max=hi_s200/64, out=fxp-s16/0 wrap): stored codes {got}, expected [3, 5]')

if bad:
    print('VIOLATION (C03, clip with a wide fixed-point bound):')
    print('\n'.join(bad))
    sys.exit(1)
print('ok')
sys.exit(0)
