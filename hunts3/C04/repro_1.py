"""C04 counterexample 1: integer inputs beyond 2^53 written into a word of <= 52 bits with a negative fraction length.
The integer is multiplied by the float factor 2**n_frac (int64 -> float64 rounds it to 53 bits) and the inaccuracy check compares the
int64 input with a float64 (NumPy converts the integer to a double first), so
  (a) the inaccuracy flag / callback is not raised although the stored element differs from its input,
  (b) the overflow flag / callback is raised although the rounded element does not exceed the maximum,
  (c) the underflow flag / callback is not raised although the rounded element is below the minimum."""
import sys, warnings
from fractions import Fraction
warnings.filterwarnings('ignore')
import numpy as np
from fxpmath import Fxp
from fxpmath.callbacks import Callback


class Rec(Callback):
    def __init__(self): self.log = []
    def on_value_change(self, f, logs=None): self.log.append('v')
    def on_status_overflow(self, f, logs=None): self.log.append('o')
    def on_status_underflow(self, f, logs=None): self.log.append('u')
    def on_status_inaccuracy(self, f, logs=None): self.log.append('i')


def oracle(v, signed, n_word, n_frac, rounding):
    q = Fraction(v) * Fraction(2) ** n_frac
    fl = q.numerator // q.denominator
    r = fl if (rounding == 'floor' or q.denominator == 1) else (fl if q > 0 else fl + 1)    # floor / trunc
    lo, hi = (-(1 << (n_word - 1)), (1 << (n_word - 1)) - 1) if signed else (0, (1 << n_word) - 1)
    c = min(max(r, lo), hi)
    return {'overflow': r > hi, 'underflow': r < lo, 'inaccuracy': Fraction(c) / Fraction(2) ** n_frac != v}


bad = 0
cases = [
    ('a: missed inaccuracy', 2**53 + 1, True, 52, -3, 'trunc'),       # code 2^50 -> value 2^53 != 2^53+1
    ('a: missed inaccuracy (int64 array)', np.array([2**53 + 1, 8]), True, 52, -3, 'trunc'),
    ('b: spurious overflow', 2**54 - 1, True, 52, -3, 'trunc'),       # (2^54-1)/8 = 2^51 - 1/8 -> trunc 2^51-1 = max: no overflow
    ('c: missed underflow', -2**54 - 1, True, 52, -3, 'floor'),       # (-2^54-1)/8 = -2^51 - 1/8 -> floor -2^51-1 < min
    ('a: 32 bits word', 2**53 + 1, True, 32, -23, 'trunc'),
]
for label, v, s, w, f, rnd in cases:
    x = Fxp(0 if not isinstance(v, np.ndarray) else [0, 0], s, w, f, rounding=rnd)
    rec = Rec(); x.callbacks.append(rec)
    x.set_val(v)
    v0 = int(np.asarray(v).ravel()[0])
    exp = oracle(v0, s, w, f, rnd)
    got = {k: bool(x.status[k]) for k in exp}
    exp_cb = sorted(''.join(k[0] for k in exp if exp[k]) + 'v')
    if got != exp or sorted(rec.log) != exp_cb:
        bad += 1
        print('%s: Fxp(fxp-%s%d/%d, rounding=%s).set_val(%r)' % (label, 's' if s else 'u', w, f, rnd, v))
        print('   stored value %d, input %d' % (int(np.asarray(x.val).ravel()[0]) * 2**-f, v0))
        print('   status   got %r' % got)
        print('            exp %r' % exp)
        print('   callbacks got %r exp %r' % (''.join(sorted(rec.log)), ''.join(exp_cb)))
sys.exit(1 if bad else 0)
