"""C04 counterexample 2: the unary arithmetic operators (-x, +x, abs(x)) do not carry the inaccuracy flag of their operand."""
import sys, warnings
warnings.filterwarnings('ignore')
from fxpmath import Fxp

x = Fxp(0.3, True, 16, 8)              # 0.3 is not representable: inaccuracy raised
assert x.status['inaccuracy']
assert (x + 0).status['inaccuracy'] and (0 - x).status['inaccuracy'] and (x * -1).status['inaccuracy']   # binary operators do carry it
bad = 0
for name, y in (('-x', -x), ('+x', +x), ('abs(x)', abs(x))):
    if not y.status['inaccuracy']:
        bad += 1
        print('%s: operand status %r -> result status %r (expected inaccuracy=True)' % (name, x.status, y.status))
sys.exit(1 if bad else 0)
