"""C04 counterexample 3: fxpmath.fxp_sum (functions.py) does not carry the inaccuracy flag of its operand (fxpmath.sum / x.sum() / np.sum do)."""
import sys, warnings
warnings.filterwarnings('ignore')
import fxpmath
from fxpmath import Fxp

x = Fxp([0.3, 0.7, 1.0], True, 16, 8)
assert x.status['inaccuracy']
assert fxpmath.sum(x).status['inaccuracy'] and x.sum().status['inaccuracy']
bad = 0
for sizes in ('best_sizes', 'tight_sizes', 'same_sizes'):
    y = fxpmath.fxp_sum(x, sizes=sizes)
    if not y.status['inaccuracy']:
        bad += 1
        print('fxp_sum(x, sizes=%r): operand inaccuracy=True -> result status %r' % (sizes, y.status))
y = fxpmath.fxp_sum(x, dtype='fxp-s24/8')
if not y.status['inaccuracy']:
    bad += 1
    print("fxp_sum(x, dtype='fxp-s24/8'): result status %r" % (y.status,))
sys.exit(1 if bad else 0)
