"""C04 counterexample 4: arithmetic done through NumPy functions / ufunc methods that fxpmath does not implement itself
(generic fallback Fxp._wrapped_numpy_func -> __array_wrap__ -> Fxp(result)) drops the inaccuracy flag of the operands."""
import sys, warnings
warnings.filterwarnings('ignore')
import numpy as np
from fxpmath import Fxp

x = Fxp([0.3, 0.7, 1.0], True, 16, 8)
y = Fxp([1.0, 2.0, 3.0], True, 16, 8)
m = Fxp([[0.3, 1.0], [2.0, 3.0]], True, 16, 8)
assert x.status['inaccuracy'] and m.status['inaccuracy'] and not y.status['inaccuracy']
assert np.add(x, y).status['inaccuracy'] and np.sum(x).status['inaccuracy'] and np.dot(x, y).status['inaccuracy']   # implemented ones carry it
routes = {
    'np.negative(x)': lambda: np.negative(x), 'np.absolute(x)': lambda: np.absolute(x), 'np.square(x)': lambda: np.square(x),
    'np.add.reduce(x)': lambda: np.add.reduce(x), 'np.add.accumulate(x)': lambda: np.add.accumulate(x), 'np.multiply.outer(x, y)': lambda: np.multiply.outer(x, y),
    'np.diff(x)': lambda: np.diff(x), 'np.inner(x, y)': lambda: np.inner(x, y), 'np.matmul(m, m)': lambda: np.matmul(m, m), 'np.vdot(x, y)': lambda: np.vdot(x, y),
    'np.fmod(x, y)': lambda: np.fmod(x, y),
}
bad = 0
for name, f in routes.items():
    z = f()
    if isinstance(z, Fxp) and not z.status['inaccuracy']:
        bad += 1
        print('%-24s result %s status %r (expected inaccuracy=True)' % (name, z.dtype, z.status))
sys.exit(1 if bad else 0)
