"""C04 counterexample 5: a complex value written by index through a view of a real object (x[i][j] = c, x[a:b][k] = c) is stored
without its imaginary part, and neither the inaccuracy flag nor its callback is raised (on the view or on its parent)."""
import sys, warnings
warnings.filterwarnings('ignore')
import numpy as np
from fxpmath import Fxp
from fxpmath.callbacks import Callback


class Rec(Callback):
    def __init__(self): self.log = []
    def on_status_inaccuracy(self, f, logs=None): self.log.append('i')
    def __deepcopy__(self, memo): return self      # the element objects made by indexing copy the callbacks: keep one recorder


bad = 0
x = Fxp(np.zeros((2, 2)), True, 8, 2)
rec = Rec(); x.callbacks.append(rec)
y = x[0]
y[1] = 1 + 2j                 # same as x[0][1] = 1 + 2j
stored = complex(x.get_val()[0][1])
if stored != 1 + 2j and not (y.status['inaccuracy'] or x.status['inaccuracy'] or 'i' in rec.log):
    bad += 1
    print('x[0][1] = (1+2j): stored %r (codes %r); view status %r; parent status %r; inaccuracy callbacks %r' % (stored, x.val.tolist(), y.status, x.status, rec.log))
x = Fxp(np.zeros(4), True, 8, 2)
y = x[1:3]
y[0] = 1 + 2j
stored = complex(x.get_val()[1])
if stored != 1 + 2j and not (y.status['inaccuracy'] or x.status['inaccuracy']):
    bad += 1
    print('x[1:3][0] = (1+2j): stored %r; view status %r; parent status %r' % (stored, y.status, x.status))
sys.exit(1 if bad else 0)
