#!/usr/bin/env python
"""C05 counterexample 1: a decimal string is rounded to a double (float(x)) before the rounding of the format is applied.
floor / ceil / trunc direction contracts and the tie rule of 'around' are broken, and no inaccuracy flag is raised.
Exits 1 when the violation is present, 0 otherwise."""
import math, sys, warnings
from fractions import Fraction as F
warnings.filterwarnings('ignore')
from fxpmath import Fxp

def rnd(s, method):
    if method == 'floor': return math.floor(s)
    if method == 'ceil': return math.ceil(s)
    if method in ('trunc', 'fix'): return math.trunc(s)
    fl = math.floor(s); d = s - fl
    return fl if d < F(1, 2) or (d == F(1, 2) and fl % 2 == 0) else fl + 1

cases = [   # (string, signed, n_word, n_frac, rounding)
    ('0.000085', False, 52, 60, 'floor'),                # 8 characters, core-domain format u52/60
    ('0.000085', False, 52, 60, 'trunc'),
    ('0.99999999999999999999', True, 16, 0, 'floor'),
    ('1.99999999999999999999', True, 16, 0, 'trunc'),
    ('2.00000000000000000001', True, 16, 0, 'ceil'),
    ('0.50000000000000000001', True, 16, 0, 'around'),  # just above a tie: must go up
    ('0.1250000000000000000001', True, 16, 3, 'ceil'),
]
bad = 0
for s, signed, n_word, n_frac, rounding in cases:
    v = F(s)                                   # the real number the string denotes
    exp = rnd(v * F(2) ** n_frac, rounding)    # exact-arithmetic expectation (no overflow in any of the cases)
    x = Fxp(s, signed, n_word, n_frac, rounding=rounding)
    got = int(x.val)
    q = F(got) / F(2) ** n_frac
    if got != exp:
        bad += 1
        rel = 'q>v' if q > v else 'q<v'
        print('VIOLATION Fxp(%r, %s, %d, %d, rounding=%r): code %d (%s), expected %d; inaccuracy flag=%s'
              % (s, signed, n_word, n_frac, rounding, got, rel, exp, x.status['inaccuracy']))
sys.exit(1 if bad else 0)
