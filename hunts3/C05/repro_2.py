#!/usr/bin/env python
"""C05 counterexample 2: a binary string with a fraction point that carries more fraction bits than the format
('0b01.11' = 1.75 into n_frac=1) is stored 2^k too large (3.5), |q-v| >= LSB, without any flag, in all ten mode combinations.
Exits 1 when the violation is present, 0 otherwise."""
import sys, warnings
from fractions import Fraction as F
warnings.filterwarnings('ignore')
from fxpmath import Fxp

def value_of(binstr):       # unsigned reading is enough: the leading bit of the samples is 0
    b = binstr.replace('0b', '')
    ip, fp = b.split('.')
    return F(int(ip + fp, 2), 2 ** len(fp))

bad = 0
for s, signed, n_word, n_frac in [('0b01.11', True, 8, 1), ('0b01.11', False, 8, 1), ('0b01.11', True, 8, 0), ('0b01.11', True, 8, -1), ('0b0.101', True, 16, 2)]:
    v = value_of(s)
    lsb = F(1) / F(2) ** n_frac
    modes = []
    for rounding in ['trunc', 'around', 'floor', 'fix', 'ceil']:
        for overflow in ['saturate', 'wrap']:
            x = Fxp(s, signed, n_word, n_frac, rounding=rounding, overflow=overflow)
            q = F(int(x.val)) / F(2) ** n_frac
            if abs(q - v) >= lsb:
                bad += 1
                modes.append((rounding, overflow, q, {k: f for k, f in x.status.items() if f}))
    if modes:
        print('VIOLATION Fxp(%r, %s, %d, %d) in %d of 10 mode combinations: v=%s stored q=%s, |q-v|=%s >= LSB=%s, flags raised=%s'
              % (s, signed, n_word, n_frac, len(modes), v, modes[0][2], abs(modes[0][2] - v), lsb, modes[0][3]))
sys.exit(1 if bad else 0)
