#!/usr/bin/env python
"""C05 borderline 1: a list / tuple of fixed-point objects whose codes need more than 53 bits is converted through
np.array(list) -> Fxp.__array__ -> float64, i.e. rounded to a double before the rounding of the destination (the D62 mechanism
on another route: the same source handed over directly, not in a list, is converted exactly).
Exits 1 when the discrepancy is present, 0 otherwise."""
import math, sys, warnings
from fractions import Fraction as F
warnings.filterwarnings('ignore')
import numpy as np
from fxpmath import Fxp

s = Fxp(2**58 + 1, True, 64, 62, raw=True)          # v = 2^-4 + 2^-62 exactly
assert int(s.val) == 2**58 + 1
v = F(2**58 + 1, 2**62)
exp = math.ceil(v * 2**4)                            # = 2 in s8/4
bad = 0
direct = int(Fxp(s, True, 8, 4, rounding='ceil').val)
for name, mk in [('Fxp([s], ...)', lambda: Fxp([s], True, 8, 4, rounding='ceil')),
                 ('Fxp((s, s), ...)', lambda: Fxp((s, s), True, 8, 4, rounding='ceil')),
                 ('x.set_val([s, s])', lambda: Fxp(None, True, 8, 4, rounding='ceil').set_val([s, s])),
                 ('x[:] = [s, s]', lambda: (lambda d: (d.__setitem__(slice(None), [s, s]), d)[1])(Fxp(np.zeros(2), True, 8, 4, rounding='ceil')))]:
    x = mk()
    got = [int(c) for c in np.asarray(x.val).ravel()]
    if any(c != exp for c in got):
        bad += 1
        print('DISCREPANCY %s: codes %s, expected %d each (ceil of v=%s; q<v); direct Fxp(s, ...) gives %d; inaccuracy flag=%s'
              % (name, got, exp, v, direct, x.status['inaccuracy']))
sys.exit(1 if bad else 0)
