#!/usr/bin/env python
"""C05 borderline 2: Fraction elements of an object array are rounded exactly for n_frac >= 0 but are multiplied by the *float*
conversion factor 1/2^-n_frac for negative fraction lengths, i.e. rounded to a double before the rounding of the format.
Exits 1 when the discrepancy is present, 0 otherwise."""
import math, sys, warnings
from fractions import Fraction as F
warnings.filterwarnings('ignore')
import numpy as np
from fxpmath import Fxp

v = F(2**60 + 1, 2**59)                      # 2 + 2^-59
a = np.empty(1, dtype=object); a[0] = v
bad = 0
for n_frac, rounding, f in [(-1, 'ceil', math.ceil), (0, 'ceil', math.ceil), (3, 'ceil', math.ceil)]:
    x = Fxp(a, True, 16, n_frac, rounding=rounding)
    got = int(x.val[0]); exp = f(v * F(2) ** n_frac)
    if got != exp:
        bad += 1
        print('DISCREPANCY Fxp(object array [Fraction(2**60+1, 2**59)], True, 16, %d, rounding=%r): code %d, expected %d' % (n_frac, rounding, got, exp))
sys.exit(1 if bad else 0)
